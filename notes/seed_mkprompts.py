import json,subprocess,sys,os,re
props={json.loads(l)["id"]:json.loads(l) for l in open('/verif/properties.jsonl')}
tmpl=open('/tmp/seed/PROMPT.txt').read()
rnd=sys.argv[1]
for pid in sys.argv[2:]:
    wt=f"/tmp/seed/{pid}{rnd}"
    subprocess.run(["git","-C","/repo","worktree","add","--detach",wt,"HEAD"],check=True,capture_output=True)
    p=props[pid]
    text=f"Title: {p['title']}\nStatement: {p['statement']}\nQuantified over: {p['quantifier']['text']}"
    prev=[]
    for d in sorted(os.listdir('/verif/seeded')):
        if d.startswith(pid):
            notes=open(f'/verif/seeded/{d}/patch.diff').read()
            files=sorted(set(re.findall(r'^\+\+\+ b/(\S+)',notes,flags=re.M)))
            funcs=sorted(set(re.findall(r'^@@.*@@\s*(?:def |class )?(\w+)',notes,flags=re.M)))
            prev.append(f"{', '.join(files)} (around: {', '.join(funcs[:4])})")
    extra="\n\nIMPORTANT: other testers already seeded changes for this property in: "+"; ".join(prev)+". Choose a DIFFERENT mechanism, a different clause of the property and a different source location than those. Prefer a change that breaks the property only through an unusual-but-legal input class or a multi-step history that a random generator of 'typical' inputs would be unlikely to produce.\n"
    if pid=="C07":
        extra+="(For this concurrency property your demo may force the problematic interleaving deterministically, e.g. sys.settrace-based scheduling or monkeypatched hooks injected from the demo script.)\n"
    open(f"/tmp/seed/{pid}{rnd}.prompt.txt","w").write(tmpl.replace("{WT}",wt).replace("{PID}",pid).replace("{TEXT}",text)+extra)
    print(pid, prev)
