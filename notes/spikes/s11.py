import sys, gc, weakref
from setup import setup; setup({"context_behavior": sys.argv[1]})
from django.template import Template, Context
from django_components import Component, register
from django_components.perfutil.component import component_context_cache, component_renderer_cache, child_component_attrs
from django_components.perfutil.provide import provide_cache, provide_references, all_reference_ids
class Boom(Exception): pass
class S: pass
@register("ok")
class Ok(Component):
    template = "<i>{{ s }}</i>{% slot 'd' default / %}"
    def get_context_data(self, s=None, fail=False):
        self.inject("p", None)
        if fail: raise Boom(7)
        return {"s": s}
@register("mid")
class Mid(Component):
    template = "<div>{% provide 'p' x=1 %}{% component 'ok' s=s / %}{% component 'ok' s=s fail=f / %}{% component 'ok' s=s %}{% component 'ok' s=s / %}{% endcomponent %}{% endprovide %}</div>"
    def get_context_data(self, s=None, f=False): return {"s": s, "f": f}
def residue(): return [len(x) for x in (component_context_cache, component_renderer_cache, child_component_attrs, provide_cache, provide_references, all_reference_ids)]
for tpl, ctxd in [('{% component "ok" s=s fail=True / %}', {}), ('{% component "mid" s=s f=True / %}', {}), ('{% provide "p" x=2 %}{% component "mid" s=s f=True / %}{% endprovide %}', {}), ('{% component "mid" s=s f=False / %}', {})]:
    s = S(); r = weakref.ref(s)
    try:
        out = Template(tpl).render(Context({"s": s})); res="ok"
    except Exception as e:
        res = type(e).__name__; del e
    del s; gc.collect()
    print(res, "residue", residue(), "sentinel alive", r() is not None)
