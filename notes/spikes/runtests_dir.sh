#!/bin/bash
# usage: /tmp/seed/runtests.sh <worktree_dir>   -> runs the library's test suite against THAT directory's sources
# prints how many of the 514 baseline tests pass and lists baseline tests that no longer pass (must be none)
D=$(realpath $1)
J=$D/.junit.xml
cd $D && PYTHONPATH=$D/src:$D PYTHONDONTWRITEBYTECODE=1 /venv/bin/python -m pytest -ra -q -p no:cacheprovider --timeout=900 --continue-on-collection-errors --junitxml=$J >$D/.pytest.out 2>&1
J=$J /venv/bin/python - <<'PY'
import json, os, xml.etree.ElementTree as ET
base=set(json.load(open('/root/.vp/BASELINE.json'))['stable_pass'])
t=ET.parse(os.environ['J']); ok=set()
for tc in t.iter('testcase'):
    if not any(c.tag in ('failure','error','skipped') for c in tc):
        ok.add(tc.get('classname')+'::'+tc.get('name'))
print("baseline", len(base), "baseline tests passing now", len(base&ok))
for m in sorted(base-ok): print("NO LONGER PASSING", m)
PY
rm -f $J
