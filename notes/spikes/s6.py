import sys, gc, weakref, time, re, warnings
from setup import setup; setup({"context_behavior": sys.argv[1]})
from django.template import Template, Context, Library
from django_components import Component, register, registry, render_dependencies, ComponentRegistry
import html.parser

# C14 deep nesting chain: rec component renders itself depth times
@register("rec")
class Rec(Component):
    template = "{% if n > 0 %}<div>{% component 'rec' n=n|add:'-1' / %}</div>{% else %}<i>end</i>{% endif %}"
    def get_context_data(self, n=0): return {"n": n}
for d in [50, 200, 1000, 2000]:
    try:
        t=time.time(); out = Rec.render(kwargs={"n": d}, render_dependencies=False); print("C14 depth", d, "ok len", len(out), "t=%.2f"%(time.time()-t))
    except BaseException as e: print("C14 depth", d, type(e).__name__, str(e)[:80])
# root component chain: comp as root
@register("rootc")
class RootC(Component):
    template = "{% if n > 0 %}{% component 'rootc' n=n|add:'-1' / %}{% else %}<i>end</i><b>2</b>{% endif %}text"
    def get_context_data(self, n=0): return {"n": n}
out = RootC.render(kwargs={"n": 3}, render_dependencies=False)
print("C14 root chain:", out)

# C15 shared default library
from django_components.templatetags.component_tags import register as deflib
class K1(Component): template = ""
class K2(Component): template = ""
registry.register("k1", K1)
r2 = ComponentRegistry()
r2.register("k2", K2)
print("C15 before", "component" in deflib.tags)
r2.unregister("k2")
print("C15 after r2.unregister: tag present:", "component" in deflib.tags, "global registry still has", list(registry.all()))
