# Observation found while extending C14 (not a C14 matter - slot resolution is C01): in "django" mode a component rendered from Python
# (Component.render(), outer_context None) resolves a slot it wrote inside a child's fill against the CHILD's fills
# (slots.py, the "outer_context is None" index search): RecursionError, or endless rendering without RecursionError ("HANG").
# Run: PYTHONPATH=/repo/src:/repo:/verif/harness /venv/bin/python /verif/notes/spikes/c14_django_python_root_slot_in_fill.py
import sys, signal
sys.path.insert(0, "/verif/harness")
import djsetup
djsetup.setup(); djsetup.patch_ids()
from django.template import Context, Template
from django_components import Component, registry
from django_components.components.dynamic import DynamicComponent
class TO(BaseException): pass
def _h(*a): raise TO()
signal.signal(signal.SIGALRM,_h)
def mk(name, tpl):
    cls = type("T_"+name, (Component,), {"template": tpl}); registry.register(name, cls); return cls
mk("c2", '{% slot "content" default %}{% slot "aux" %}tx{% endslot %}{% endslot %}')
variants = {
 "dyn": '{% component "dynamic" is="c2" %}{% fill "aux" %}<ul>{% component "c2" %}{% fill "content" %}{% slot "aux" %}<section></section>{% endslot %}{% endfill %}{% endcomponent %}</ul>{% endfill %}{% endcomponent %}',
 "plain": '{% component "c2" %}{% fill "aux" %}<ul>{% component "c2" %}{% fill "content" %}{% slot "aux" %}<section></section>{% endslot %}{% endfill %}{% endcomponent %}</ul>{% endfill %}{% endcomponent %}',
 "dyn-inner-too": '{% component "dynamic" is="c2" %}{% fill "aux" %}<ul>{% component "dynamic" is="c2" %}{% fill "content" %}{% slot "aux" %}<section></section>{% endslot %}{% endfill %}{% endcomponent %}</ul>{% endfill %}{% endcomponent %}',
 "dyn-simple": '{% component "dynamic" is="c2" %}{% fill "aux" %}<ul>{% slot "aux" %}<section></section>{% endslot %}</ul>{% endfill %}{% endcomponent %}',
 "dyn-simple-content": '{% component "dynamic" is="c2" %}{% fill "content" %}<ul>{% slot "content" default %}<section></section>{% endslot %}</ul>{% endfill %}{% endcomponent %}',
 "plain-simple": '{% component "c2" %}{% fill "aux" %}<ul>{% slot "aux" %}<section></section>{% endslot %}</ul>{% endfill %}{% endcomponent %}',
}
for vn, t in variants.items():
    try: registry.unregister("c1")
    except Exception: pass
    mk("c1", t)
    for mode in ("django", "isolated"):
        signal.alarm(4)
        try:
            with djsetup.components_settings(context_behavior=mode):
                out = registry.get("c1").render(render_dependencies=False)
            signal.alarm(0)
            import re
            print(vn, mode, "->", re.sub(r"<!--.*?-->", "", out))
        except TO:
            print(vn, mode, "-> HANG (>4s)")
        except RecursionError:
            signal.alarm(0); print(vn, mode, "-> RecursionError")
        except Exception as e:
            signal.alarm(0); print(vn, mode, "-> EXC", type(e).__name__, str(e)[:150])
