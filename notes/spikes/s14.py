import sys, re
from setup import setup; setup({"context_behavior": sys.argv[1]})
from django.template import Template, Context
from django_components import Component, register
@register("child")
class Child(Component):
    template = "<c>{% slot 'x' / %}|{% slot 'y' %}CHILD-Y-DEFAULT{% endslot %}</c>"
@register("root")
class Root(Component):
    template = "<r>{% component 'child' %}{% fill 'x' %}{% slot 'y' %}ROOT-Y-DEFAULT{% endslot %}{% endfill %}{% fill 'y' %}FILL-Y-FOR-CHILD{% endfill %}{% endcomponent %}</r>"
clean=lambda s: re.sub(r'<!--.*?-->| data-djc-id-\w+=""','',s)
print(sys.argv[1], "via Component.render():", clean(Root.render()))
print(sys.argv[1], "via tag:               ", clean(Template("{% component 'root' / %}").render(Context({}))))
