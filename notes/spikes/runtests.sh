#!/bin/bash
# usage: runtests.sh <repo_dir>  -> prints number passing of baseline + any missing
D=$1
cd $D && PYTHONPATH=$D/src:$D /venv/bin/python -m pytest -ra -q -p no:cacheprovider --timeout=900 --continue-on-collection-errors --junitxml=/tmp/spike/junit.xml >/tmp/spike/pytest.out 2>&1
/venv/bin/python - <<'PY'
import json, xml.etree.ElementTree as ET
base=set(json.load(open('/root/.vp/BASELINE.json'))['stable_pass'])
t=ET.parse('/tmp/spike/junit.xml'); ok=set()
for tc in t.iter('testcase'):
    if not any(c.tag in ('failure','error','skipped') for c in tc):
        ok.add(tc.get('classname')+'::'+tc.get('name'))
print("baseline", len(base), "passing now", len(ok), "baseline∩ok", len(base&ok))
for m in sorted(base-ok): print("MISSING", m)
PY
