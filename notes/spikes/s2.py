import sys
from setup import setup; setup({"context_behavior": sys.argv[1]})
from django.template import Template, Context
from django_components import Component, register, registry
import traceback, signal
signal.alarm(20)

@register("inner")
class Inner(Component):
    # slot "a" unfilled -> default content contains nested slot "b"
    template = "<inner>{% slot 'a' %}A-default[{% slot 'b' %}B-default{% endslot %}]{% endslot %}</inner>"

@register("outer")
class Outer(Component):
    template = "<outer>{% slot 'b' %}OUTER-B-default{% endslot %}|{% slot 'content' default / %}</outer>"

# inner rendered inside outer's fill; outer gets fill 'b' => inner's nested slot b wrongly takes outer's fill?
src = """{% component "outer" %}{% fill "b" %}FILL-B-FOR-OUTER{% endfill %}{% fill "content" %}{% component "inner" / %}{% endfill %}{% endcomponent %}"""
try:
    print(sys.argv[1], "C01:", Template(src).render(Context({})))
except BaseException as e:
    print("EXC", type(e).__name__, str(e)[:300])

@register("page")
class Page(Component):
    template = src
try:
    print(sys.argv[1], "C01 in comp:", Template('{% component "page" / %}').render(Context({})))
except BaseException as e:
    print("EXC", type(e).__name__, str(e)[:300])
