import sys
from setup import setup; setup({"context_behavior": sys.argv[1]})
from django.template import Template, Context
from django_components import Component, register
import re
@register("c")
class C(Component):
    template = "[x={{ x }} fl={{ forloop.counter }} y={{ y }}|{% slot 's' default / %}]"
    def get_context_data(self, **kw): return {}
clean = lambda s: re.sub(r'<!--.*?-->', '', s)
print("C03 forloop leak:", clean(Template('{% for x in xs %}{% with y=x %}{% component "c" / %}{% endwith %}{% endfor %}').render(Context({"xs": [7,8]}))))
# only flag in django mode
print("C03 only:", clean(Template('{% for x in xs %}{% component "c" only / %}{% endfor %}').render(Context({"xs": [7]}))))
# context unchanged
ctx = Context({"a": 1})
before = (len(ctx.dicts), ctx.flatten(), len(ctx.render_context.dicts))
Template('{% component "c" %}{% fill "s" data="d" default="df" %}F{{ d }}{{ df }}{% endfill %}{% endcomponent %}').render(ctx)
after = (len(ctx.dicts), ctx.flatten(), len(ctx.render_context.dicts))
print("C03 ctx unchanged:", before == after, before, after)
