import sys
from setup import setup; setup({"context_behavior": "django"})
from django.template import Template, Context
from django_components import Component, register
got = {}
@register("p")
class P(Component):
    template = ""
    def get_context_data(self, *a, **k):
        got["a"], got["k"] = a, k; return {}
def run(args, ctx=None):
    got.clear()
    try:
        Template('{% component "p" ' + args + ' / %}').render(Context(ctx or {"v": [1,2], "d": {"x": 1}, "s": "Str"}))
        return got.get("a"), got.get("k")
    except Exception as e:
        return type(e).__name__ + ": " + str(e).split("\n")[-1][:80]
for a in [
  'k={"a"|upper : 1}', 'k={ "a" |upper: 1}', 'k={"a"|upper: 1}',
  'k=[1, [2,], *v]', 'k=[1,[2,],*v,]', 'k=[ 1 , [ 2 , ] , * v , ]',
  'k={"a": 1, **d,}', 'k={**d, "a": s|lower}', 'k={"a": s | lower }',
  '...v', '...d', '*v', 'k=...v', 'k=[...v]', 'k={*v}', 'k={"a": **d}', 'k=v|...first',
  'attrs:class="a b" attrs:id=s', 'data-x="1" @click.stop="f(\'x\')" :href=s',
  'k="{{ s }}"', 'k="{{ s }} {% lorem 1 w %}"', "k='{{ s|upper }}'", 'k=_("hi")', 'k=_( "hi" )',
  'k="%}"', "k='a\\'b'", 'k=s|default:"x y"|upper', 'k = s', 'k= s', 'k =s',
  'k=1 k=2', '[1,2]', '{"a":1}', 'k=[ ]', 'k={ }', 'k=[,]', 'k=[1 2]',
]:
    print(repr(a), '->', run(a))
