from setup import setup; setup({"context_behavior": sys.argv[1] if (sys:=__import__("sys")) and len(sys.argv)>1 else "django"})
from django.template import Template, Context
from django_components import Component, register, registry
import traceback

@register("leaf")
class Leaf(Component):
    template = "[leaf:{{ v }}:{{ inj }}]"
    def get_context_data(self, v=None):
        try:
            inj = self.inject("p").x
        except Exception as e:
            inj = "ERR:" + type(e).__name__
        return {"v": v, "inj": inj}

# C05: two siblings under page-level provider
t = Template('{% provide "p" x=1 %}{% component "leaf" v=1 / %}{% component "leaf" v=2 / %}{% endprovide %}')
print("C05 page-level siblings:", t.render(Context({})))

@register("wrap")
class Wrap(Component):
    template = '{% provide "p" x=2 %}{% component "leaf" v=1 / %}{% component "leaf" v=2 / %}{% endprovide %}'
print("C05 in-comp siblings:", Template('{% component "wrap" / %}').render(Context({})))
from django_components.perfutil.provide import provide_cache, provide_references, all_reference_ids
print("residue", provide_cache, provide_references, all_reference_ids)
