import sys, os
sys.path.insert(0, __import__("os").environ.get("R","/repo")+"/src")
from pathlib import Path
import django
from django.conf import settings
def setup(components=None, extra=None):
    if settings.configured: return
    settings.configure(
        BASE_DIR=Path("/repo/tests"),
        INSTALLED_APPS=("django_components",),
        TEMPLATES=[{"BACKEND":"django.template.backends.django.DjangoTemplates","DIRS":[str(Path(__file__).parent / "tpl")],
            "OPTIONS":{"builtins":["django_components.templatetags.component_tags"]}}],
        COMPONENTS={"autodiscover": False, **(components or {})},
        MIDDLEWARE=["django_components.middleware.ComponentDependencyMiddleware"],
        DATABASES={}, SECRET_KEY="x", ROOT_URLCONF="django_components.urls", **(extra or {}))
    django.setup()
