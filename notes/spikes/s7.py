import sys
from setup import setup; setup({"context_behavior": sys.argv[1]})
from django.template import Template, Context
from django_components import Component, register
@register("ea")
class EA(Component): template_file = "child_a.html"
@register("eb")
class EB(Component): template_file = "child_b.html"
print("C10:", Template('{% component "ea" %}{% component "eb" / %}{% endcomponent %}').render(Context({})))
print("C10 nested same:", Template('{% component "ea" %}{% component "ea" %}X{% endcomponent %}{% endcomponent %}').render(Context({})))
print("C10 twice:", Template('{% component "eb" / %}{% component "ea" %}Y{% endcomponent %}').render(Context({})))

# C03 with in isolated
@register("show")
class Show(Component):
    template = "[v={{ v }} w={{ w }}|{% slot 's' default / %}]"
    def get_context_data(self, v=None): return {"v": v}
print("C03:", Template('{% with w=5 %}{% component "show" v=1 %}fill w={{ w }} v={{ v }}{% endcomponent %}{% endwith %}').render(Context({"v": "outer"})))
print("C03 with-inside:", Template('{% component "show" v=1 %}{% with w=5 %}{% fill "s" %}fill w={{ w }} v={{ v }}{% endfill %}{% endwith %}{% endcomponent %}').render(Context({"v": "outer"})))
