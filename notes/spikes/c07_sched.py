import sys, threading
from setup import setup; setup({"context_behavior": "django"})
from django.template import Template, Context
from django_components import Component, register
import django_components.perfutil.provide as pp

class Boom(Exception): pass
@register("leaf")
class Leaf(Component):
    template = "[{{ v }}]"
    def get_context_data(self, fail=False):
        if fail: raise Boom("x")
        return {"v": self.inject("p").x}
@register("deep")
class Deep(Component):   # leaf is rendered deferred, after the provider body exited
    template = "<d>{% component 'leaf' / %}</d>"
@register("wrapB")
class WrapB(Component):
    template = "{% provide 'p' x=2 %}{% component 'deep' / %}{% endprovide %}"
TA = Template("{% provide 'p' x=1 %}{% component 'leaf' fail=True / %}{% endprovide %}")
TB = Template("{% component 'wrapB' / %}")

# --- deterministic scheduler: one baton; switch points = (function name, source text) hits
import linecache
class Sched:
    def __init__(self, plan):  # plan: list of (thread_name, anchor_text) meaning: when thread reaches anchor (before executing line), hand baton to the other
        self.plan = list(plan); self.turn = None; self.cv = threading.Condition(); self.done=set()
    def tracer(self, name):
        def local(frame, event, arg):
            if event == "line" and frame.f_code.co_filename.endswith("perfutil/provide.py"):
                src = linecache.getline(frame.f_code.co_filename, frame.f_lineno).strip()
                if self.plan and self.plan[0][0] == name and self.plan[0][1] == src:
                    self.plan.pop(0); self.switch(name)
            return local
        def glob(frame, event, arg):
            if frame.f_code.co_filename.endswith("perfutil/provide.py"): return local
            return None
        return glob
    def switch(self, name):
        with self.cv:
            others = [t for t in ("A","B") if t != name and t not in self.done]
            if not others: return
            self.turn = others[0]; self.cv.notify_all()
            while self.turn != name: self.cv.wait()
    def run(self, name, fn, out):
        with self.cv:
            while self.turn != name: self.cv.wait()
        sys.settrace(self.tracer(name))
        try: out[name] = ("ok", fn())
        except Exception as e: out[name] = ("exc", type(e).__name__, str(e)[-60:])
        finally:
            sys.settrace(None)
            with self.cv:
                self.done.add(name)
                rest=[t for t in ("A","B") if t not in self.done]
                self.turn = rest[0] if rest else None; self.cv.notify_all()
def go(plan):
    s = Sched(plan); out = {}
    ta = threading.Thread(target=s.run, args=("A", lambda: TA.render(Context({})), out))
    tb = threading.Thread(target=s.run, args=("B", lambda: TB.render(Context({})), out))
    ta.start(); tb.start()
    with s.cv: s.turn = "A"; s.cv.notify_all()
    ta.join(20); tb.join(20)
    return out, (len(pp.provide_cache), len(pp.provide_references), len(pp.all_reference_ids))
import re
clean=lambda o: {k:(v[0], re.sub(r'<!--.*?-->|data-djc-id-\w+=""','',v[1]) if v[0]=="ok" else v[1:]) for k,v in o.items()}
o,res = go([]); print("solo-ish (no switches):", clean(o), res)
# F1: A copies all_reference_ids, then B runs until it has registered deep+leaf..., then A fails and diffs the global set
o,res = go([("A","try:"), ("B","cache_cleanup()")]); print("F1 attempt:", clean(o), res)
