import sys, gc, weakref, time
from setup import setup; setup({"context_behavior": "django"})
from django.template import Template, Context, Library
from django_components import Component, register, registry, BaseNode, template_tag
from django_components.util.tag_parser import parse_tag
from django_components.expression import is_dynamic_expression

# C11 pos-only with default omitted
lib = Library()
class N1(BaseNode):
    tag = "n1"
    def render(self, context, a=1, /, **kwargs):
        return f"a={a!r} kwargs={kwargs!r}"
N1.register(lib)
class N2(BaseNode):
    tag = "n2"
    def render(self, context, a=1, /, b=2):
        return f"a={a!r} b={b!r}"
N2.register(lib)
from django.template import engines
eng = engines["django"].engine
eng.template_builtins.append(lib)
for src in ["{% n1 %}", "{% n2 %}", "{% n2 5 %}", "{% n1 a=3 %}"]:
    try: print("C11", src, "->", Template(src).render(Context({})))
    except Exception as e: print("C11", src, "EXC", type(e).__name__, str(e)[:120])

# C12 recursion depth
for d in [100, 300, 500, 1000]:
    s = "{% component 'x' a=" + "["*d + "1" + "]"*d + " / %}"
    try:
        Template(s); print("C12 depth", d, "ok")
    except Exception as e: print("C12 depth", d, type(e).__name__)
# C12 redos
for k in [100, 200, 400, 800]:
    v = '"' + "{{}}"*k + '"|x'
    t=time.time(); is_dynamic_expression(v); dt=time.time()-t
    print("C12 regex k", k, "len", len(v), "t=%.3f"%dt)
