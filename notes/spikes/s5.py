import sys, gc, weakref, time, re, warnings
from setup import setup; setup({"context_behavior": "django"})
from django.template import Template, Context, Library
from django_components import Component, register, registry, render_dependencies
import types as _t

# C04 non-ascii class name
Kls = type("Кнопка", (Component,), {"template": "<b>x</b>", "js": "console.log(1)", "__module__": "m1"})
registry.register("btn", Kls)
out = Template('<html><head></head><body>{% component "btn" / %}</body></html>').render(Context({}))
out2 = render_dependencies(out)
print("C04 nonascii: marker survives:", "_RENDERED" in out2, "js inlined:", "console.log(1)" in out2)

# C04 placeholder as root of nested components
@register("ph")
class PH(Component):
    template = "{% component_css_dependencies %}"
@register("ph2")
class PH2(Component):
    template = '{% component "ph" / %}'
out = Template('{% component "ph2" / %}').render(Context({}))
print("C04 ph nested:", render_dependencies(out))

# C16 order consistency
class A(Component):
    template = ""
    class Media: js = ["y.js"]
class B(Component):
    template = ""
    class Media: js = ["y.js", "x.js"]
class C(A, B):
    template = ""
    class Media: js = ["x.js"]
with warnings.catch_warnings(record=True) as w:
    warnings.simplefilter("always")
    print("C16 order:", C.media._js, "warnings:", [str(x.message)[:60] for x in w])
# C16 multi-inheritance no own Media
class A2(Component):
    template = ""
    class Media:
        extend = False
        js = ["a.js"]
class B2(Component):
    template = ""
    class Media: js = ["b.js"]
class C2(A2, B2):
    template = ""
print("C16 C2 (no own Media, bases A2(extend False), B2):", C2.media._js)

# C17 metachar
from django_components.finders import ComponentsFileSystemFinder
from django.test import override_settings
with override_settings(COMPONENTS={"autodiscover": False, "dirs": [], "static_files_allowed": [".min.js"], "static_files_forbidden": []}):
    f = ComponentsFileSystemFinder()
    for p in ["a.min.js", "a.minXjs", "a.js"]:
        print("C17", p, f._is_path_valid(p))
with override_settings(COMPONENTS={"autodiscover": False, "dirs": [], "static_files_allowed": [".js"], "static_files_forbidden": [".d.js"]}):
    f = ComponentsFileSystemFinder()
    for p in ["a.d.js", "abdxjs.js", "a.dxjs"]:
        print("C17 forb", p, f._is_path_valid(p))
