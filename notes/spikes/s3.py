import sys, gc, weakref
from setup import setup; setup({"context_behavior": "django"})
from django.template import Template, Context
from django_components import Component, register, registry
from django_components.util.template_parser import parse_template
from django.template.base import DebugLexer
import django.template.base as base

# C09 line numbers
src = "a\n{% x 'q' %}\nb\n{% y 'r' %}\nc\n{% z %}\n{{ v }}"
for t in parse_template(src): print("C09", t.token_type.name, repr(t.contents), t.position, t.lineno, "expected", 1+src[:t.position[0]].count("\n"))
src = "{%\n x 'q'\n %}\n{% z %}"
for t in parse_template(src): print("C09b", t.token_type.name, repr(t.contents), t.position, t.lineno, "expected", 1+src[:t.position[0]].count("\n"))
# verbatim with quote
src = "{% verbatim 'x' %}{% if %}{% endverbatim 'x' %}"
print("C09c patched", [(t.token_type.name, t.contents) for t in parse_template(src)])
print("C09c stock  ", [(t.token_type.name, t.contents) for t in DebugLexer(src).tokenize()])

# C08 body before head
from django_components.dependencies import render_dependencies, _insert_js_css_to_default_locations
print("C08", repr(_insert_js_css_to_default_locations("AA</body>BB</head>CC", js_content="<JS>", css_content="<CSS>")))
print("C08 upper", repr(_insert_js_css_to_default_locations("AA</HEAD>BB</BODY>CC", js_content="<JS>", css_content="<CSS>")))
try:
    print("C08 latin1", render_dependencies(b"<p>caf\xe9</p>"))
except Exception as e: print("C08 latin1 EXC", type(e).__name__)

# C13 case
from django_components.dependencies import wrap_component_js, wrap_component_css
class X: __name__="X"
for s in ["a</script>b", "a</SCRIPT>b", "a</ScRiPt >"]:
    try: print("C13", s, "->", wrap_component_js(X, s))
    except Exception as e: print("C13", s, "refused")

# C06 exception with non-str arg
@register("bad")
class Bad(Component):
    template = "x"
    def get_context_data(self, **kw):
        raise KeyError(42)
try:
    Template('{% component "bad" / %}').render(Context({}))
except Exception as e: print("C06 exc type:", type(e).__name__, str(e)[:100])
from django_components.perfutil.component import component_context_cache, component_renderer_cache, child_component_attrs
print("C06 residue", len(component_context_cache), len(component_renderer_cache), len(child_component_attrs))

class Sentinel: pass
@register("bad2")
class Bad2(Component):
    template = "{{ s }}"
    def get_context_data(self, s=None, **kw):
        raise ValueError("boom")
s = Sentinel(); r = weakref.ref(s)
try:
    Template('{% component "bad2" s=s / %}').render(Context({"s": s}))
except Exception as e: print("C06 exc type:", type(e).__name__, str(e)[:100])
del s, e; gc.collect()
print("C06 sentinel alive:", r() is not None, "cache", len(component_context_cache))
