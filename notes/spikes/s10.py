from setup import setup; setup({"context_behavior": "django"})
exec(open("s9.py").read().split("for a in [")[0].split("setup({")[1].split("\n",1)[1])
for a in [':href=s', 'x=1 :href=s', 'x="1" :href=s', 'x=s :href=s', ':href=s x=1', 'x=[1] :href=s', '"pos" :href=s', 'x=1 @click=s', 'x=s |upper', 'x=s\n|upper', "x=1 attrs:a=1", "x=1\n:href=s"]:
    print(repr(a), '->', run(a))
