#!/bin/bash
# MANIFEST.setup_cmd: build the whole Coq development from files on disk (offline), full .vo build.
set -e
cd /verif
export PYTHONPATH=/repo/src:/repo:/verif/harness PYTHONHASHSEED=0 PYTHONDONTWRITEBYTECODE=1
mkdir -p work evidence replays coq/Gen
# constants translated from /repo's current source (regenerated again by every check)
/venv/bin/python harness/gen_constants.py all
/venv/bin/python - <<'PY'
import sys
sys.path.insert(0, "/verif/harness")
import common
common.ensure_makefile()
bad = common.scan_forbidden()
if bad:
    print("forbidden constructs:", bad)
    sys.exit(1)
PY
cd coq
timeout 3000 make -j16 2>&1 | grep -v "^Closed under\|^COQC\|^COQDEP" | tail -30
test "${PIPESTATUS[0]}" = 0
echo "setup ok"
