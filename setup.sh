#!/bin/bash
# MANIFEST.setup_cmd: build the Coq development from files on disk (offline), full .vo build (no -vos/-vok quick modes).
# Every check re-builds its own Props/Cxx.vo closure on each run; this warms the build for all CLAIMED properties and fails
# only if the closure of a claimed property does not build or contains a forbidden construct.
set -e
cd /verif
export PYTHONPATH=/repo/src:/repo:/verif/harness PYTHONHASHSEED=0 PYTHONDONTWRITEBYTECODE=1
mkdir -p work evidence replays coq/Gen
# constants translated from /repo's current source (regenerated again by every check)
/venv/bin/python harness/gen_constants.py all
TARGETS=$(/venv/bin/python - <<'PY'
import json, sys
sys.path.insert(0, "/verif/harness")
import common
common.ensure_makefile()
claimed = [c["property_id"] for c in json.load(open("/verif/MANIFEST.json"))["checks"]]
bad = []
for p in claimed:
    bad += common.scan_forbidden(common.closure_files(p))
if bad:
    sys.stderr.write("forbidden constructs: %s\n" % bad)
    sys.exit(1)
subs = ["C01M"]   # sub-checks (their theorems file is built and re-checked by the parent property's check)
for p in subs:
    bad += common.scan_forbidden(common.closure_files(p))
if bad:
    sys.stderr.write("forbidden constructs: %s\n" % bad)
    sys.exit(1)
print(" ".join("Props/%s.vo" % p for p in claimed + subs))
PY
)
cd coq
timeout 3000 make -k -j16 $TARGETS 2>&1 | grep -v "^Closed under\|^COQC\|^COQDEP" | tail -30
for t in $TARGETS; do test -f $t || { echo "setup: $t not built"; exit 1; }; done
echo "setup ok"
