(* Lemmas for property C08 (model: DepsRender/Model.v, specification: DepsRender/Spec.v). *)
From DJC Require Import Lib.Base DepsRender.Model DepsRender.Spec.
From DJC Require Gen.C08.

(* ================================================================================================ *)
(* 0. anchors: the pattern strings / character classes of the CURRENT source (coq/Gen/C08.v is          *)
(*    regenerated on every run) are the ones the hand matchers of the model were written for.          *)
(*    They live here, not in Model.v, so that the model still runs when an anchor breaks.              *)
(* ================================================================================================ *)
Module Anchors.
Import Coq.Strings.String.StringSyntax.
Local Delimit Scope string_scope with string.
Local Arguments s2n s%string.
Example comment_regex_anchor :
  Gen.C08.comment_regex = s2n "<!--\s+_RENDERED\s+(?P<data>[^\s>]+?)\s+-->" /\ Gen.C08.comment_regex_flags = 0%N.
Proof. split; reflexivity. Qed.
Example script_name_regex_anchor :
  Gen.C08.script_name_regex
  = s2n "^(?P<comp_cls_hash>[^\s,>]+?),(?P<id>[\w]+?),(?P<js>[0-9a-f]*?),(?P<css>[0-9a-f]*?)$"
  /\ Gen.C08.script_name_regex_flags = 0%N.
Proof. split; reflexivity. Qed.
Example placeholder_regex_anchor :
  Gen.C08.placeholder_regex
  = s2n "<link name=""CSS_PLACEHOLDER""(?: data-djc-(?:id|css)-\w{6}="""")*/?>|<script name=""JS_PLACEHOLDER""(?: data-djc-(?:id|css)-\w{6}="""")*></script>"
  /\ Gen.C08.placeholder_regex_flags = 0%N.
Proof. split; reflexivity. Qed.
(* flags 48 = re.UNICODE | re.DOTALL: no IGNORECASE, str-mode \s *)
Example end_tag_regex_anchor :
  Gen.C08.end_tag_regex = s2n "<\/(?:head|body)\s*>" /\ Gen.C08.end_tag_regex_flags = 48%N.
Proof. split; reflexivity. Qed.
Example placeholder_names_anchor :
  Gen.C08.css_placeholder_name = s2n "CSS_PLACEHOLDER" /\ Gen.C08.js_placeholder_name = s2n "JS_PLACEHOLDER".
Proof. split; reflexivity. Qed.
Example classes_anchor :
  Gen.C08.bytes_space = bspace_list /\ Gen.C08.unicode_space = uspace_list
  /\ forallb is_word Gen.C08.bytes_word = true /\ length Gen.C08.bytes_word = 63.
Proof. repeat split; reflexivity. Qed.
End Anchors.

(* ================================================================================================ *)
(* 1. lists                                                                                          *)
(* ================================================================================================ *)
Lemma firstn_len_app {A} (a b : list A) : firstn (length a) (a ++ b) = a.
Proof. induction a as [|x a IH]; simpl; [destruct b; reflexivity | now rewrite IH]. Qed.

Lemma skipn_len_app {A} (a b : list A) : skipn (length a) (a ++ b) = b.
Proof. induction a as [|x a IH]; simpl; auto. Qed.

Lemma insert_at_app (a b x : str) : insert_at (length a) x (a ++ b) = a ++ x ++ b.
Proof. unfold insert_at. now rewrite firstn_len_app, skipn_len_app. Qed.

Lemma split2 (p : nat) (t : str) : p <= length t -> exists a b, t = a ++ b /\ length a = p.
Proof.
  intro H. exists (firstn p t), (skipn p t). split; [symmetry; apply firstn_skipn | now apply firstn_length_le].
Qed.

Lemma split3 (p q : nat) (t : str) :
  p <= q -> q <= length t -> exists a b c, t = a ++ b ++ c /\ length a = p /\ length b = q - p.
Proof.
  intros H1 H2. destruct (split2 p t) as (a & r & Ht & Ha); [lia|].
  assert (Hr : q - p <= length r).
  { subst t. rewrite app_length in H2. lia. }
  destruct (split2 (q - p) r Hr) as (b & c & Hr' & Hb).
  exists a, b, c. subst. auto.
Qed.

(* ================================================================================================ *)
(* 2. "only insertions": every stage of the model inserts blocks into the text with markers and      *)
(*    placeholders erased                                                                            *)
(* ================================================================================================ *)
Lemma inserted_cons bl c e o : inserted bl e o -> inserted bl (c :: e) (c :: o).
Proof.
  induction 1 as [e | e a b x H IH Hx]; [constructor|].
  change (c :: a ++ x ++ b) with ((c :: a) ++ x ++ b). apply ins_step; auto.
Qed.

Lemma inserted_front bl x e o : In x bl -> inserted bl e o -> inserted bl e (x ++ o).
Proof. intros Hx H. apply (ins_step bl e [] o x); auto. Qed.

Lemma inserted_at bl i x e o : In x bl -> inserted bl e o -> inserted bl e (insert_at i x o).
Proof.
  intros Hx H. unfold insert_at. apply ins_step; auto. now rewrite firstn_skipn.
Qed.

Lemma inserted_end bl x e o : In x bl -> inserted bl e o -> inserted bl e (o ++ x).
Proof.
  intros Hx H. replace (o ++ x) with (o ++ x ++ []) by now rewrite app_nil_r.
  apply ins_step; auto. now rewrite app_nil_r.
Qed.

Lemma subst_inserted js css (l : list (N + kind)) :
  inserted [js; css] (lits l) (subst (repl js css) l).
Proof.
  induction l as [|[c|k] l IH]; simpl.
  - constructor.
  - apply inserted_cons. exact IH.
  - apply inserted_front; auto. destruct k; simpl; auto.
Qed.

Lemma place_m_inserted bl t css_c js_c fh lb e out :
  (forall x, css_c = Some x -> In x bl) -> (forall x, js_c = Some x -> In x bl) ->
  inserted bl e t -> place_m t css_c js_c fh lb = Some out -> inserted bl e out.
Proof.
  intros Hc Hj He. unfold place_m.
  destruct css_c as [css|], fh as [i|], js_c as [js|], lb as [j|]; intro H; inversion H; subst; clear H;
    repeat apply inserted_at; auto.
Qed.

Lemma subst_empty (l : list (N + kind)) : subst (fun _ => []) l = lits l.
Proof.
  induction l as [|[c|k] l IH]; [reflexivity| |]; unfold subst in *; cbn [flat_map text lits app]; now rewrite IH.
Qed.

Lemma render_body_inserted ty js css t : inserted [js; css] (erase_ph t) (render_body ty js css t).
Proof.
  unfold render_body, erase_ph. destruct ty; cbn [is_document andb].
  - pose proof (subst_inserted js css (ph_tokens t)) as Hs.
    destruct (has KCss (ph_tokens t)), (has KJs (ph_tokens t)); cbn [negb orb]; try exact Hs;
      (match goal with |- context [insert_default ?s ?a ?b ?c] => destruct (insert_default s a b c) as [x|] eqn:E end; [|exact Hs]);
      unfold insert_default in E;
      destruct (find_loop _ _ _ _ _ _ _) as [fh lb];
      (eapply place_m_inserted; [| |exact Hs|exact E]);
      intros y Hy; inversion Hy; simpl; auto.
  - rewrite subst_empty. apply inserted_end; simpl; auto. constructor.
Qed.

Lemma other_bytes_preserved_lemma : forall c ty d out,
  render c ty d = ROk out ->
  let '(js, css) := deps c ty (harvest d) in
  inserted [js; css] (erase_ph (erase_markers d)) out.
Proof.
  intros c ty d out. unfold render.
  destruct (negb (forallb _ (harvest d))); [discriminate|].
  destruct (negb (forallb (part_known c) (harvest d))); [discriminate|].
  destruct (deps c ty (harvest d)) as [js css].
  intro H; inversion H; subst; clear H. apply render_body_inserted.
Qed.

(* ================================================================================================ *)
(* 3. the two slice insertions with index_offset = one simultaneous pass                             *)
(* ================================================================================================ *)
Fixpoint weave_ne (ins : nat -> str) (i : nat) (t : str) {struct t} : str :=
  match t with
  | [] => []
  | c :: t' => ins i ++ c :: weave_ne ins (S i) t'
  end.

Lemma weave_split ins a : forall i b, weave ins i (a ++ b) = weave_ne ins i a ++ weave ins (i + length a) b.
Proof.
  induction a as [|x a IH]; intros i b; simpl.
  - now rewrite Nat.add_0_r.
  - rewrite IH, <- app_assoc. simpl. repeat f_equal. lia.
Qed.

Lemma weave_ne_id ins a : forall i, (forall j, i <= j < i + length a -> ins j = []) -> weave_ne ins i a = a.
Proof.
  induction a as [|x a IH]; intros i H; simpl; auto.
  rewrite (H i) by (simpl; lia). simpl. f_equal. apply IH. intros j Hj. apply H. simpl. lia.
Qed.

Lemma weave_first ins t : forall i, (forall j, i < j <= i + length t -> ins j = []) -> weave ins i t = ins i ++ t.
Proof.
  induction t as [|x t IH]; intros i H; simpl.
  - now rewrite app_nil_r.
  - f_equal. f_equal. rewrite IH.
    + rewrite (H (S i)) by (simpl; lia). reflexivity.
    + intros j Hj. apply H. simpl. lia.
Qed.

Lemma weave_single ins a b x :
  (forall j, j <> length a -> ins j = []) -> ins (length a) = x -> weave ins 0 (a ++ b) = a ++ x ++ b.
Proof.
  intros H Hx. rewrite weave_split, weave_ne_id.
  - simpl. rewrite weave_first; [now rewrite Hx|]. intros j Hj. apply H. lia.
  - intros j Hj. apply H. lia.
Qed.

Lemma weave_double ins a b c x y :
  b <> [] ->
  (forall j, j <> length a -> j <> length a + length b -> ins j = []) ->
  ins (length a) = x -> ins (length a + length b) = y ->
  weave ins 0 (a ++ b ++ c) = a ++ x ++ b ++ y ++ c.
Proof.
  intros Hb H Hx Hy. rewrite weave_split, weave_ne_id by (intros j Hj; apply H; lia).
  simpl. f_equal. destruct b as [|z b]; [congruence|]. clear Hb.
  simpl. rewrite Hx. f_equal. f_equal.
  rewrite weave_split, weave_ne_id.
  - f_equal. rewrite weave_first.
    + simpl in Hy. replace (S (length a) + length b) with (length a + S (length b)) by lia. now rewrite Hy.
    + intros j Hj. apply H; simpl; lia.
  - intros j Hj. apply H; simpl; lia.
Qed.

Lemma weave_nil ins t : forall i, (forall j, ins j = []) -> weave ins i t = t.
Proof. induction t as [|x t IH]; intros i H; simpl; rewrite H; simpl; auto. f_equal. now apply IH. Qed.

Definition ins2 (fh lb : option nat) (css js : str) : nat -> str :=
  fun p => at_pos fh p css ++ at_pos lb p js.

Ltac solve_ins :=
  unfold ins2, at_pos;
  repeat match goal with |- context [Nat.eqb ?x ?y] => destruct (Nat.eqb_spec x y) end;
  rewrite ?app_nil_r; simpl; try reflexivity; try lia.

(* the arithmetic of the code (after fa2cce9) is right for every text and every pair of positions *)
Lemma place_m_weave t css js (bc bj : bool) fh lb :
  (bc = false -> fh = None) -> (bj = false -> lb = None) ->
  (forall p, fh = Some p -> p <= length t) -> (forall q, lb = Some q -> q <= length t) ->
  match place_m t (if bc then Some css else None) (if bj then Some js else None) fh lb with
  | Some x => x
  | None => t
  end = weave (ins2 fh lb css js) 0 t.
Proof.
  intros Hbc Hbj Hp Hq. unfold place_m.
  destruct fh as [p|], lb as [q|].
  - (* both *)
    destruct bc; [|now discriminate Hbc]. destruct bj; [|now discriminate Hbj].
    specialize (Hp p eq_refl). specialize (Hq q eq_refl). cbv beta iota zeta.
    destruct (Nat.ltb_spec q p) as [Hlt|Hge].
    + (* </body> before </head>: no offset *)
      destruct (split3 q p t) as (a & b & c & Ht & Ha & Hb); [lia|lia|].
      subst t. rewrite Nat.add_0_r.
      replace (insert_at p css (a ++ b ++ c)) with (a ++ b ++ css ++ c).
      2:{ replace p with (length (a ++ b)) by (rewrite app_length; lia).
          rewrite (app_assoc a b c), insert_at_app. now rewrite <- app_assoc. }
      replace (insert_at q js (a ++ b ++ css ++ c)) with (a ++ js ++ b ++ css ++ c)
        by (now rewrite <- Ha, insert_at_app).
      symmetry. apply weave_double.
      * intro E. subst b. simpl in Hb. lia.
      * intros j H1 H2. solve_ins.
      * solve_ins.
      * solve_ins.
    + destruct (Nat.eq_dec p q) as [E|NE].
      * (* same position: CSS then JS *)
        subst q. destruct (split2 p t Hp) as (a & b & Ht & Ha). subst t.
        replace (insert_at p css (a ++ b)) with (a ++ css ++ b) by (now rewrite <- Ha, insert_at_app).
        replace (insert_at (p + length css) js (a ++ css ++ b)) with (a ++ (css ++ js) ++ b).
        2:{ replace (p + length css) with (length (a ++ css)) by (rewrite app_length; lia).
            rewrite (app_assoc a css b), insert_at_app. now rewrite <- !app_assoc. }
        symmetry. apply weave_single.
        -- intros j Hj. solve_ins.
        -- solve_ins.
      * (* </head> before </body>: JS position shifted by len(css) *)
        destruct (split3 p q t) as (a & b & c & Ht & Ha & Hb); [lia|lia|].
        subst t.
        replace (insert_at p css (a ++ b ++ c)) with (a ++ css ++ b ++ c) by (now rewrite <- Ha, insert_at_app).
        replace (insert_at (q + length css) js (a ++ css ++ b ++ c)) with (a ++ css ++ b ++ js ++ c).
        2:{ replace (q + length css) with (length (a ++ css ++ b)) by (rewrite !app_length; lia).
            replace (a ++ css ++ b ++ c) with ((a ++ css ++ b) ++ c) by (now rewrite <- !app_assoc).
            rewrite insert_at_app. now rewrite <- !app_assoc. }
        symmetry. apply weave_double.
        -- intro E. subst b. simpl in Hb. lia.
        -- intros j H1 H2. solve_ins.
        -- solve_ins.
        -- solve_ins.
  - (* CSS only *)
    destruct bc; [|now discriminate Hbc]. specialize (Hp p eq_refl).
    destruct (split2 p t Hp) as (a & b & Ht & Ha). subst t.
    destruct bj; cbv beta iota zeta.
    all: replace (insert_at p css (a ++ b)) with (a ++ css ++ b) by (now rewrite <- Ha, insert_at_app).
    all: symmetry; apply weave_single; [intros j Hj; solve_ins | solve_ins].
  - (* JS only *)
    destruct bj; [|now discriminate Hbj]. specialize (Hq q eq_refl).
    destruct (split2 q t Hq) as (a & b & Ht & Ha). subst t.
    destruct bc; cbv beta iota zeta.
    all: rewrite Nat.add_0_r.
    all: replace (insert_at q js (a ++ b)) with (a ++ js ++ b) by (now rewrite <- Ha, insert_at_app).
    all: symmetry; apply weave_single; [intros j Hj; solve_ins | solve_ins].
  - (* nothing found *)
    rewrite weave_nil by reflexivity.
    destruct bc, bj; reflexivity.
Qed.

(* ================================================================================================ *)
(* 4. facts about the end-tag matcher                                                                *)
(* ================================================================================================ *)
Definition HEADL : str := [60;47;104;101;97;100]%N.
Definition BODYL : str := [60;47;98;111;100;121]%N.

Lemma me_unfold s :
  match_endtag s =
  match lit HEADL s with
  | Some r => option_map (fun n => (6 + n, Head)) (ws_then_gt r)
  | None => match lit BODYL s with
            | Some r => option_map (fun n => (6 + n, Body)) (ws_then_gt r)
            | None => None
            end
  end.
Proof. reflexivity. Qed.

Lemma starts_with_split p : forall s, starts_with p s = true -> s = p ++ skipn (length p) s.
Proof.
  induction p as [|x p IH]; intros s H; simpl in *; [reflexivity|].
  destruct s as [|y s]; [discriminate|]. apply andb_true_iff in H as [H1 H2].
  apply N.eqb_eq in H1. subst y. f_equal. now apply IH.
Qed.

Lemma lit_some p s r : lit p s = Some r -> s = p ++ r.
Proof.
  unfold lit. destruct (starts_with p s) eqn:E; [|discriminate]. intro H. inversion H; subst.
  now apply starts_with_split.
Qed.

Lemma wtg_pos s n : ws_then_gt s = Some n -> 1 <= n.
Proof.
  revert n. induction s as [|c s IH]; simpl; intros n H; [discriminate|].
  destruct (N.eqb c GT); [inversion H; lia|]. destruct (is_uspace c); [|discriminate].
  destruct (ws_then_gt s) as [m|]; [|discriminate]. inversion H. lia.
Qed.

Lemma wtg_no_lt s : forall n, ws_then_gt s = Some n -> Forall (fun x => x <> LT) (firstn n s).
Proof.
  induction s as [|c s IH]; simpl; intros n H; [discriminate|].
  destruct (N.eqb_spec c GT) as [E|NE].
  - inversion H; subst. simpl. constructor; [discriminate|constructor].
  - destruct (is_uspace c) eqn:Eu; [|discriminate].
    destruct (ws_then_gt s) as [m|]; [|discriminate]. inversion H; subst. simpl.
    constructor; [|now apply IH]. intro E. subst c. discriminate Eu.
Qed.

(* a match starts with '<' ... *)
Lemma me_none_hd c s : c <> LT -> match_endtag (c :: s) = None.
Proof.
  intro H. rewrite me_unfold. unfold lit, HEADL, BODYL. cbn [starts_with].
  destruct (N.eqb_spec 60 c) as [E|_]; [now subst c|]. reflexivity.
Qed.

(* ... and holds no other '<' *)
Lemma me_no_lt_inside c s n tg :
  match_endtag (c :: s) = Some (n, tg) -> Forall (fun x => x <> LT) (firstn (Nat.pred n) s).
Proof.
  rewrite me_unfold.
  destruct (lit HEADL (c :: s)) as [r|] eqn:E1.
  - apply lit_some in E1. destruct (ws_then_gt r) as [m|] eqn:E2; [|discriminate].
    intro H. inversion H; subst. inversion E1; subst. simpl.
    repeat (constructor; [discriminate|]). now apply wtg_no_lt.
  - destruct (lit BODYL (c :: s)) as [r|] eqn:E3; [|discriminate].
    apply lit_some in E3. destruct (ws_then_gt r) as [m|] eqn:E2; [|discriminate].
    intro H. inversion H; subst. inversion E3; subst. simpl.
    repeat (constructor; [discriminate|]). now apply wtg_no_lt.
Qed.

(* what follows a '<' is irrelevant for a match attempt that started before it *)
Lemma wtg_cut_lt a b : ws_then_gt (a ++ LT :: b) = ws_then_gt a.
Proof.
  induction a as [|c a IH]; simpl; [reflexivity|].
  destruct (N.eqb c GT); [reflexivity|]. destruct (is_uspace c); [now rewrite IH|reflexivity].
Qed.

Ltac split_eqbs :=
  repeat match goal with |- context [N.eqb ?x ?y] =>
    match y with
    | _ => is_var y; destruct (N.eqb x y)
    end
  end.

Lemma me_cut_lt a b : a <> [] -> match_endtag (a ++ LT :: b) = match_endtag a.
Proof.
  intro Ha. rewrite !me_unfold. unfold lit, HEADL, BODYL.
  destruct a as [|c1 [|c2 [|c3 [|c4 [|c5 [|c6 a]]]]]]; [congruence| | | | | |];
    cbn [app starts_with length skipn]; split_eqbs; cbn [andb]; try reflexivity;
    now rewrite ?wtg_cut_lt.
Qed.

(* a text that ends with '>' decides every match attempt that starts inside it *)
Lemma wtg_closed a b : a <> [] -> last a 0%N = GT -> ws_then_gt (a ++ b) = ws_then_gt a.
Proof.
  induction a as [|c a IH]; intros Ha Hl; [congruence|]. simpl.
  destruct (N.eqb_spec c GT) as [E|NE]; [reflexivity|].
  destruct (is_uspace c); [|reflexivity].
  destruct a as [|c' a]; [simpl in Hl; congruence|].
  rewrite IH; [reflexivity|discriminate|exact Hl].
Qed.

Lemma me_closed a b : a <> [] -> last a 0%N = GT -> match_endtag (a ++ b) = match_endtag a.
Proof.
  intros Ha Hl. rewrite !me_unfold. unfold lit, HEADL, BODYL.
  destruct a as [|c1 [|c2 [|c3 [|c4 [|c5 [|c6 [|c7 a]]]]]]]; [congruence| | | | | | |].
  1-6: cbn [last] in Hl; subst; unfold GT;
       cbn [app starts_with length skipn]; split_eqbs; reflexivity.
  change (last (c7 :: a) 0%N = GT) in Hl.
  cbn [app starts_with length skipn]; split_eqbs; cbn [andb]; try reflexivity.
  all: change (c7 :: a ++ b) with ((c7 :: a) ++ b); rewrite wtg_closed; [reflexivity|discriminate|exact Hl].
Qed.

(* ================================================================================================ *)
(* 5. finditer's skipping loses nothing: end-tag matches cannot overlap                              *)
(* ================================================================================================ *)
Lemma find_loop_ns wc wj s : forall pos skip fh lb,
  Forall (fun x => x <> LT) (firstn skip s) ->
  find_loop wc wj s pos skip fh lb = find_ns wc wj s pos fh lb.
Proof.
  induction s as [|c s IH]; intros pos skip fh lb H; [reflexivity|].
  cbn [find_loop find_ns]. destruct skip as [|k].
  - destruct (match_endtag (c :: s)) as [[n tg]|] eqn:E; cbn [option_map snd].
    + destruct (upd wc wj (Some tg) pos fh lb) as [fh' lb']. apply IH. eapply me_no_lt_inside; eauto.
    + cbn [upd]. apply IH. constructor.
  - cbn [firstn] in H. inversion H as [|x l Hc Hr]; subst.
    rewrite me_none_hd by exact Hc. cbn [option_map upd]. apply IH. exact Hr.
Qed.

Lemma upd_bounds wc wj tg pos fh lb fh' lb' :
  upd wc wj tg pos fh lb = (fh', lb') ->
  (fh' = fh \/ fh' = Some pos) /\ (lb' = lb \/ lb' = Some pos) /\
  (wc = false -> fh' = fh) /\ (wj = false -> lb' = lb).
Proof.
  unfold upd. destruct tg as [[|]|]; intro H; inversion H; subst; clear H.
  - destruct wc; cbn [andb]; [destruct (is_some fh)|]; cbn [negb]; repeat split; auto; discriminate.
  - destruct wj; repeat split; auto; discriminate.
  - repeat split; auto.
Qed.

Lemma find_ns_bounds wc wj s : forall pos fh lb fh' lb',
  find_ns wc wj s pos fh lb = (fh', lb') ->
  (fh' = fh \/ exists p, fh' = Some p /\ pos <= p < pos + length s) /\
  (lb' = lb \/ exists p, lb' = Some p /\ pos <= p < pos + length s) /\
  (wc = false -> fh' = fh) /\ (wj = false -> lb' = lb).
Proof.
  induction s as [|c s IH]; intros pos fh lb fh' lb' H; cbn [find_ns] in H.
  - inversion H; subst. repeat split; auto.
  - destruct (upd wc wj _ pos fh lb) as [fh1 lb1] eqn:E.
    apply upd_bounds in E as (E1 & E2 & E3 & E4).
    apply IH in H as (H1 & H2 & H3 & H4). cbn [length].
    repeat split.
    + destruct H1 as [H1|(p & H1 & Hp)].
      * subst fh'. destruct E1 as [E1|E1]; [left; exact E1|]. right. exists pos. split; [exact E1|lia].
      * right. exists p. split; [exact H1|lia].
    + destruct H2 as [H2|(p & H2 & Hp)].
      * subst lb'. destruct E2 as [E2|E2]; [left; exact E2|]. right. exists pos. split; [exact E2|lia].
      * right. exists p. split; [exact H2|lia].
    + intro Hw. rewrite (H3 Hw). auto.
    + intro Hw. rewrite (H4 Hw). auto.
Qed.

(* the model's default insertion = one simultaneous pass over t at the positions the full search finds in `search` *)
Lemma insert_default_weave search t css js (bc bj : bool) :
  length search = length t ->
  match insert_default search t (if bj then Some js else None) (if bc then Some css else None) with
  | Some x => x
  | None => t
  end = let '(fh, lb) := find_ns bc bj search 0 None None in weave (ins2 fh lb css js) 0 t.
Proof.
  intro Hlen.
  destruct (find_ns bc bj search 0 None None) as [fh lb] eqn:E.
  pose proof (find_ns_bounds _ _ _ _ _ _ _ _ E) as (H1 & H2 & H3 & H4).
  assert (Hp : forall p, fh = Some p -> p <= length t).
  { intros p Hp. destruct H1 as [H1|(p' & H1 & Hb)]; [congruence|]. rewrite Hp in H1. inversion H1. lia. }
  assert (Hq : forall p, lb = Some p -> p <= length t).
  { intros p Hp'. destruct H2 as [H2|(p' & H2 & Hb)]; [congruence|]. rewrite Hp' in H2. inversion H2. lia. }
  unfold insert_default.
  destruct bc, bj; cbn [is_some].
  4:{ rewrite (H3 eq_refl), (H4 eq_refl). now rewrite weave_nil. }
  all: rewrite find_loop_ns by constructor; rewrite E.
  - apply (place_m_weave t css js true true); auto.
  - apply (place_m_weave t css js true false); auto.
  - apply (place_m_weave t css js false true); auto.
Qed.

(* ================================================================================================ *)
(* 6. the masked copy shows the search exactly the document's own symbols                            *)
(* ================================================================================================ *)
(* a NUL symbol ends every match attempt that started before it, and starts none *)
Lemma wtg_cut_nul a b : ws_then_gt (a ++ 0%N :: b) = ws_then_gt a.
Proof.
  induction a as [|c a IH]; simpl; [reflexivity|].
  destruct (N.eqb c GT); [reflexivity|]. destruct (is_uspace c); [now rewrite IH|reflexivity].
Qed.

Lemma me_cut_nul a b : a <> [] -> match_endtag (a ++ 0%N :: b) = match_endtag a.
Proof.
  intro Ha. rewrite !me_unfold. unfold lit, HEADL, BODYL.
  destruct a as [|c1 [|c2 [|c3 [|c4 [|c5 [|c6 a]]]]]]; [congruence| | | | | |];
    cbn [app starts_with length skipn]; split_eqbs; cbn [andb]; try reflexivity;
    now rewrite ?wtg_cut_nul.
Qed.

Lemma find_ns_nuls wc wj n rest : forall pos fh lb,
  find_ns wc wj (repeat 0%N n ++ rest) pos fh lb = find_ns wc wj rest (pos + n) fh lb.
Proof.
  induction n as [|n IH]; intros pos fh lb.
  - simpl. now rewrite Nat.add_0_r.
  - cbn [repeat app find_ns]. rewrite me_none_hd by discriminate. cbn [option_map upd].
    rewrite IH. f_equal. lia.
Qed.

Section Masked.
  Variable r : kind -> str.

  Lemma vis_mask (l : list (N + kind)) :
    exists rest, subst (mask r) l = vis r l ++ rest /\ (rest = [] \/ exists b, rest = 0%N :: b).
  Proof.
    induction l as [|[c|k] l IH].
    - exists []. split; auto.
    - destruct IH as (rest & E & Hr). exists rest. split; [|exact Hr].
      cbn [subst flat_map text vis app]. f_equal. exact E.
    - cbn [vis]. unfold subst. cbn [flat_map text]. unfold mask at 1. destruct (r k) as [|c x].
      + destruct IH as (rest & E & Hr). exists rest. split; [exact E|exact Hr].
      + cbn [length repeat app]. eexists. split; [reflexivity|]. right. eauto.
  Qed.

  (* searching the masked copy = searching the original symbols of the token list *)
  Lemma find_ns_mask wc wj (l : list (N + kind)) : forall pos fh lb,
    find_ns wc wj (subst (mask r) l) pos fh lb = s_find r wc wj l pos fh lb.
  Proof.
    induction l as [|[c|k] l IH]; intros pos fh lb; [reflexivity| |].
    - change (subst (mask r) (inl c :: l)) with (c :: subst (mask r) l).
      cbn [find_ns s_find tag_here vis text length].
      assert (E : match_endtag (c :: subst (mask r) l) = match_endtag (c :: vis r l)).
      { destruct (vis_mask l) as (rest & E & [Hr|(b & Hr)]); rewrite E; subst rest.
        - now rewrite app_nil_r.
        - change (c :: vis r l ++ 0%N :: b) with ((c :: vis r l) ++ 0%N :: b). apply me_cut_nul. discriminate. }
      rewrite E. destruct (upd wc wj _ pos fh lb) as [fh' lb'].
      rewrite Nat.add_1_r. apply IH.
    - change (subst (mask r) (inr k :: l)) with (mask r k ++ subst (mask r) l).
      cbn [s_find tag_here upd text]. unfold mask at 1. rewrite find_ns_nuls. apply IH.
  Qed.

  (* "search_content has the same length as html_content" *)
  Lemma mask_length (l : list (N + kind)) : length (subst (mask r) l) = length (subst r l).
  Proof.
    induction l as [|[c|k] l IH]; [reflexivity| |]; unfold subst in *; cbn [flat_map text]; rewrite !app_length, IH.
    - reflexivity.
    - unfold mask. now rewrite repeat_length.
  Qed.
End Masked.

(* ================================================================================================ *)
(* 7. M = S, position form: for ALL texts and ALL generated JS / CSS                                 *)
(* ================================================================================================ *)
Lemma render_doc_eq_spec_pos : forall js css t, render_doc js css t = spec_doc js css t.
Proof.
  intros js css t. unfold render_doc, render_body, spec_doc. cbn [is_document andb].
  set (l := ph_tokens t). set (r := repl js css).
  rewrite <- (find_ns_mask r _ _ l 0 None None).
  pose proof (insert_default_weave (subst (mask r) l) (subst r l) css js
                (negb (has KCss l)) (negb (has KJs l)) (mask_length r l)) as W.
  destruct (has KCss l) eqn:Ec, (has KJs l) eqn:Ej; cbn [negb andb orb] in *.
  - cbn [insert_default] in W. exact W.
  - exact W.
  - exact W.
  - exact W.
Qed.

(* ================================================================================================ *)
(* 7a. what the specification's search returns: the FIRST </head> and the LAST </body> of the document *)
(* ================================================================================================ *)
Section Positions.
  Variable r : kind -> str.
  Definition offset (l : list (N + kind)) (i : nat) : nat := length (subst r (firstn i l)).

  Lemma s_find_keeps_head wc wj l : forall pos p lb, fst (s_find r wc wj l pos (Some p) lb) = Some p.
  Proof.
    induction l as [|tk l IH]; intros pos p lb; [reflexivity|].
    cbn [s_find]. unfold upd. destruct (tag_here r (tk :: l)) as [[|]|]; cbn [is_some negb];
      rewrite ?andb_false_r; apply IH.
  Qed.

  Lemma offset_S tk l i : offset (tk :: l) (S i) = length (text r tk) + offset l i.
  Proof. unfold offset. cbn [firstn]. unfold subst. cbn [flat_map]. now rewrite app_length. Qed.

  (* CSS without placeholder: the position is that of the first token where a </head> of the document starts *)
  Lemma s_find_first_head wj l : forall pos lb,
    match fst (s_find r true wj l pos None lb) with
    | Some p => exists i, tag_here r (skipn i l) = Some Head /\ p = pos + offset l i /\
                          forall i', i' < i -> tag_here r (skipn i' l) <> Some Head
    | None => forall i, tag_here r (skipn i l) <> Some Head
    end.
  Proof.
    induction l as [|tk l IH]; intros pos lb.
    - cbn. intros i. destruct i; discriminate.
    - cbn [s_find]. destruct (tag_here r (tk :: l)) as [[|]|] eqn:E; cbn [upd andb is_some negb].
      + rewrite s_find_keeps_head. exists 0. repeat split; [exact E | unfold offset; simpl; lia | intros i' Hi; lia].
      + specialize (IH (pos + length (text r tk)) (if wj then Some pos else lb)).
        destruct (fst (s_find r true wj l _ None _)) as [p|].
        * destruct IH as (i & H1 & H2 & H3). exists (S i). repeat split; [exact H1 | rewrite offset_S; lia |].
          intros i' Hi. destruct i' as [|i']; [cbn [skipn]; congruence | apply H3; lia].
        * intros i. destruct i as [|i]; [cbn [skipn]; congruence | apply IH].
      + specialize (IH (pos + length (text r tk)) lb).
        destruct (fst (s_find r true wj l _ None _)) as [p|].
        * destruct IH as (i & H1 & H2 & H3). exists (S i). repeat split; [exact H1 | rewrite offset_S; lia |].
          intros i' Hi. destruct i' as [|i']; [cbn [skipn]; congruence | apply H3; lia].
        * intros i. destruct i as [|i]; [cbn [skipn]; congruence | apply IH].
  Qed.

  (* JS without placeholder: the position is that of the last token where a </body> of the document starts *)
  Lemma s_find_last_body wc l : forall pos fh lb,
    let lb' := snd (s_find r wc true l pos fh lb) in
    (lb' = lb /\ forall i, tag_here r (skipn i l) <> Some Body) \/
    (exists i q, lb' = Some q /\ tag_here r (skipn i l) = Some Body /\ q = pos + offset l i /\
                 forall i', i < i' -> tag_here r (skipn i' l) <> Some Body).
  Proof.
    induction l as [|tk l IH]; intros pos fh lb; cbn zeta.
    - left. split; [reflexivity|]. intros i. destruct i; discriminate.
    - cbn [s_find]. destruct (tag_here r (tk :: l)) as [[|]|] eqn:E; cbn [upd].
      + destruct (IH (pos + length (text r tk)) (if wc && negb (is_some fh) then Some pos else fh) lb)
          as [(H1 & H2)|(i & q & H1 & H2 & H3 & H4)].
        * left. split; [exact H1|]. intros i. destruct i as [|i]; [cbn [skipn]; congruence | apply H2].
        * right. exists (S i), q. repeat split; [exact H1 | exact H2 | rewrite offset_S; lia |].
          intros i' Hi. destruct i' as [|i']; [lia | apply H4; lia].
      + destruct (IH (pos + length (text r tk)) fh (Some pos)) as [(H1 & H2)|(i & q & H1 & H2 & H3 & H4)].
        * right. exists 0, pos. repeat split; [exact H1 | exact E | unfold offset; simpl; lia |].
          intros i' Hi. destruct i' as [|i']; [lia | apply H2].
        * right. exists (S i), q. repeat split; [exact H1 | exact H2 | rewrite offset_S; lia |].
          intros i' Hi. destruct i' as [|i']; [lia | apply H4; lia].
      + destruct (IH (pos + length (text r tk)) fh lb) as [(H1 & H2)|(i & q & H1 & H2 & H3 & H4)].
        * left. split; [exact H1|]. intros i. destruct i as [|i]; [cbn [skipn]; congruence | apply H2].
        * right. exists (S i), q. repeat split; [exact H1 | exact H2 | rewrite offset_S; lia |].
          intros i' Hi. destruct i' as [|i']; [lia | apply H4; lia].
  Qed.
End Positions.

(* ================================================================================================ *)
(* 7b. position form = THE specification (one pass over the tokens, no offsets)                      *)
(* ================================================================================================ *)
Lemma weave_end ins t : forall i, weave ins i t = weave_ne ins i t ++ ins (i + length t).
Proof.
  induction t as [|x t IH]; intros i; simpl.
  - now rewrite Nat.add_0_r.
  - rewrite IH, <- app_assoc. simpl. repeat f_equal. lia.
Qed.

Lemma weave_ne_app ins a : forall i b, weave_ne ins i (a ++ b) = weave_ne ins i a ++ weave_ne ins (i + length a) b.
Proof.
  induction a as [|x a IH]; intros i b; simpl.
  - now rewrite Nat.add_0_r.
  - rewrite IH, <- app_assoc. simpl. repeat f_equal. lia.
Qed.

Lemma at_pos_eq p x : at_pos (Some p) p x = x.
Proof. unfold at_pos. now rewrite Nat.eqb_refl. Qed.

Lemma at_pos_ne o p x : o <> Some p -> at_pos o p x = [].
Proof.
  unfold at_pos. destruct o as [q|]; [|reflexivity]. intro H.
  destruct (Nat.eqb_spec q p); [subst; congruence|reflexivity].
Qed.

Section OnePass.
  Variable r : kind -> str.

  Lemma subst_cons tk (l : list (N + kind)) : subst r (tk :: l) = text r tk ++ subst r l.
  Proof. reflexivity. Qed.

  Lemma s_find_bounds wc wj l : forall pos fh lb fh' lb',
    s_find r wc wj l pos fh lb = (fh', lb') ->
    (fh' = fh \/ exists p, fh' = Some p /\ pos <= p < pos + length (subst r l)) /\
    (lb' = lb \/ exists p, lb' = Some p /\ pos <= p < pos + length (subst r l)).
  Proof.
    induction l as [|[c|k] l IH]; intros pos fh lb fh' lb' H.
    - cbn in H. inversion H. auto.
    - cbn [s_find] in H. destruct (upd wc wj _ pos fh lb) as [fh1 lb1] eqn:E.
      apply upd_bounds in E as (E1 & E2 & _ & _).
      apply IH in H as (H1 & H2). rewrite subst_cons, app_length. cbn [text length] in *.
      split.
      + destruct H1 as [H1|(p & H1 & Hp)].
        * subst fh'. destruct E1 as [E1|E1]; [now left|]. right. exists pos. split; [exact E1|lia].
        * right. exists p. split; [exact H1|lia].
      + destruct H2 as [H2|(p & H2 & Hp)].
        * subst lb'. destruct E2 as [E2|E2]; [now left|]. right. exists pos. split; [exact E2|lia].
        * right. exists p. split; [exact H2|lia].
    - cbn [s_find tag_here upd] in H. apply IH in H as (H1 & H2). rewrite subst_cons, app_length.
      split.
      + destruct H1 as [H1|(p & H1 & Hp)]; [now left|]. right. exists p. split; [exact H1|lia].
      + destruct H2 as [H2|(p & H2 & Hp)]; [now left|]. right. exists p. split; [exact H2|lia].
  Qed.

  Lemma body_here_inr k l : body_here r (inr k :: l) = false.
  Proof. reflexivity. Qed.
  Lemma head_here_inr k l : head_here r (inr k :: l) = false.
  Proof. reflexivity. Qed.

  (* no </body> starts later: the candidate survives the rest of the loop *)
  Lemma s_find_no_later wc wj l : forall pos fh lb,
    later_body r l = false -> snd (s_find r wc wj l pos fh lb) = lb.
  Proof.
    induction l as [|tk l IH]; intros pos fh lb H; [reflexivity|].
    cbn [later_body] in H. apply orb_false_iff in H as [Hb Hl].
    cbn [s_find]. unfold body_here in Hb.
    destruct (tag_here r (tk :: l)) as [[|]|]; cbn [upd]; try discriminate; now apply IH.
  Qed.

  (* a </body> starts later: the candidate is overwritten by a later position *)
  Lemma s_find_later wc l : forall pos fh lb,
    later_body r l = true -> exists p, snd (s_find r wc true l pos fh lb) = Some p /\ pos <= p.
  Proof.
    induction l as [|tk l IH]; intros pos fh lb H; [discriminate|].
    cbn [later_body] in H. cbn [s_find].
    destruct (later_body r l) eqn:El.
    - destruct (upd wc true _ pos fh lb) as [fh1 lb1].
      destruct (IH (pos + length (text r tk)) fh1 lb1 eq_refl) as (p & Hp & Hle). exists p. split; [exact Hp|lia].
    - rewrite orb_false_r in H. unfold body_here in H.
      destruct (tag_here r (tk :: l)) as [[|]|]; try discriminate. cbn [upd].
      rewrite s_find_no_later by exact El. exists pos. split; [reflexivity|lia].
  Qed.

  Variables css js : str.

  Lemma one_pass_weave (bc bj : bool) l : forall pos fh lb fh' lb' seen,
    s_find r bc bj l pos fh lb = (fh', lb') ->
    (forall p, fh = Some p -> p < pos) -> (forall p, lb = Some p -> p < pos) ->
    (bc = true -> seen = is_some fh) ->
    weave_ne (ins2 fh' lb' css js) pos (subst r l)
    = one_pass r (if bc then Some css else None) (if bj then Some js else None) l seen.
  Proof.
    induction l as [|[c|k] l IH]; intros pos fh lb fh' lb' seen H Hfh Hlb Hseen; [reflexivity| |].
    - (* a symbol of the document *)
      rewrite subst_cons. cbn [text app weave_ne one_pass].
      cbn [s_find text length] in H.
      destruct (upd bc bj (tag_here r (inl c :: l)) pos fh lb) as [fh1 lb1] eqn:E.
      pose proof (s_find_bounds _ _ _ _ _ _ _ _ H) as (B1 & B2).
      pose proof (upd_bounds _ _ _ _ _ _ _ _ E) as (U1 & U2 & U3 & U4).
      (* CSS in front of this symbol? *)
      assert (F1 : at_pos fh' pos css =
                   match (if bc then Some css else None) with
                   | Some css => if head_here r (inl c :: l) && negb seen then css else []
                   | None => [] end).
      { unfold head_here. destruct bc.
        - rewrite (Hseen eq_refl).
          destruct (tag_here r (inl c :: l)) as [[|]|] eqn:T, fh as [p0|]; cbn [upd andb is_some negb] in E;
            inversion E; subst fh1 lb1; cbn [andb is_some negb].
          2:{ pose proof (s_find_keeps_head r true bj l (pos + 1) pos lb) as K. rewrite H in K. cbn [fst] in K.
              subst fh'. apply at_pos_eq. }
          all: apply at_pos_ne; intro X; subst fh';
            (destruct B1 as [B1|(p & B1 & Hp)]; [inversion B1; subst; specialize (Hfh _ eq_refl); lia | inversion B1; lia]) || idtac.
          all: destruct B1 as [B1|(p & B1 & Hp)]; [discriminate B1 | inversion B1; lia].
        - rewrite (U3 eq_refl) in B1. apply at_pos_ne. intro X. subst fh'.
          destruct B1 as [B1|(p & B1 & Hp)]; [symmetry in B1; specialize (Hfh _ B1); lia | inversion B1; lia]. }
      (* JS in front of this symbol? *)
      assert (F2 : at_pos lb' pos js =
                   match (if bj then Some js else None) with
                   | Some js => if body_here r (inl c :: l) && negb (later_body r l) then js else []
                   | None => [] end).
      { unfold body_here. destruct bj.
        - destruct (tag_here r (inl c :: l)) as [[|]|] eqn:T; cbn [upd] in E; inversion E; subst fh1 lb1; cbn [andb].
          2:{ destruct (later_body r l) eqn:El; cbn [negb].
              - destruct (s_find_later bc l (pos + 1) (fst (upd bc true (Some Body) pos fh lb)) (Some pos) El) as (p & Hp & Hle).
                cbn [upd fst] in Hp. rewrite H in Hp. cbn [snd] in Hp. subst lb'. apply at_pos_ne. intro X. inversion X. lia.
              - pose proof (s_find_no_later bc true l (pos + 1) fh (Some pos) El) as K. rewrite H in K. cbn [snd] in K.
                subst lb'. apply at_pos_eq. }
          all: apply at_pos_ne; intro X; subst lb';
            destruct B2 as [B2|(p & B2 & Hp)]; [symmetry in B2; specialize (Hlb _ B2); lia | inversion B2; lia].
        - rewrite (U4 eq_refl) in B2. apply at_pos_ne. intro X. subst lb'.
          destruct B2 as [B2|(p & B2 & Hp)]; [symmetry in B2; specialize (Hlb _ B2); lia | inversion B2; lia]. }
      unfold ins2 at 1. rewrite F1, F2, <- app_assoc. f_equal. f_equal. cbn [app]. f_equal.
      replace (S pos) with (pos + 1) by lia.
      apply (IH (pos + 1) fh1 lb1 fh' lb'); [exact H| | |].
      + intros p Hp. destruct U1 as [U1|U1]; rewrite U1 in Hp; [specialize (Hfh _ Hp); lia | inversion Hp; lia].
      + intros p Hp. destruct U2 as [U2|U2]; rewrite U2 in Hp; [specialize (Hlb _ Hp); lia | inversion Hp; lia].
      + intro Hbc. rewrite (Hseen Hbc). unfold head_here. subst bc.
        destruct (tag_here r (inl c :: l)) as [[|]|], fh as [p0|]; cbn [upd andb is_some negb] in E; inversion E; reflexivity.
    - (* a placeholder: its replacement is copied, nothing is inserted inside or in front of it *)
      rewrite subst_cons, weave_ne_app. cbn [one_pass]. rewrite head_here_inr, body_here_inr. cbn [andb orb].
      cbn [s_find tag_here upd] in H.
      pose proof (s_find_bounds _ _ _ _ _ _ _ _ H) as (B1 & B2).
      rewrite weave_ne_id.
      + replace (match (if bc then Some css else None) with Some _ => [] | None => [] end) with (@nil N) by (destruct bc; reflexivity).
        replace (match (if bj then Some js else None) with Some _ => [] | None => [] end) with (@nil N) by (destruct bj; reflexivity).
        cbn [app]. f_equal. rewrite orb_false_r.
        apply (IH _ fh lb fh' lb'); [exact H| | |exact Hseen].
        * intros p Hp. specialize (Hfh _ Hp). lia.
        * intros p Hp. specialize (Hlb _ Hp). lia.
      + intros j Hj. unfold ins2.
        rewrite (at_pos_ne fh'), (at_pos_ne lb'); [reflexivity| |].
        * intro X. subst lb'. destruct B2 as [B2|(p & B2 & Hp)]; [symmetry in B2; specialize (Hlb _ B2); lia | inversion B2; lia].
        * intro X. subst fh'. destruct B1 as [B1|(p & B1 & Hp)]; [symmetry in B1; specialize (Hfh _ B1); lia | inversion B1; lia].
  Qed.
End OnePass.

Lemma spec_doc_eq_one_pass : forall js css t, spec_doc js css t = spec_doc1 js css t.
Proof.
  intros js css t. unfold spec_doc, spec_doc1.
  set (l := ph_tokens t). set (r := repl js css).
  destruct (s_find r (negb (has KCss l)) (negb (has KJs l)) l 0 None None) as [fh lb] eqn:E.
  change (fun p => at_pos fh p css ++ at_pos lb p js) with (ins2 fh lb css js).
  rewrite weave_end.
  pose proof (s_find_bounds r _ _ _ _ _ _ _ _ E) as (B1 & B2).
  replace (ins2 fh lb css js (0 + length (subst r l))) with (@nil N).
  2:{ unfold ins2. rewrite (at_pos_ne fh), (at_pos_ne lb); [reflexivity| |].
      - intro X. subst lb. destruct B2 as [B2|(p & B2 & Hp)]; [discriminate B2 | inversion B2; lia].
      - intro X. subst fh. destruct B1 as [B1|(p & B1 & Hp)]; [discriminate B1 | inversion B1; lia]. }
  rewrite app_nil_r.
  rewrite (one_pass_weave r css js _ _ l 0 None None fh lb false E);
    [| intros p Hp; discriminate Hp | intros p Hp; discriminate Hp | reflexivity].
  destruct (has KCss l), (has KJs l); reflexivity.
Qed.

Lemma render_doc_eq_spec_lemma : forall js css t, render_doc js css t = spec_doc1 js css t.
Proof. intros. now rewrite render_doc_eq_spec_pos, spec_doc_eq_one_pass. Qed.

Lemma render_eq_spec_lemma : forall c ty d, render c ty d = spec_render c ty d.
Proof.
  intros c ty d. unfold render, spec_render.
  destruct (negb (forallb _ (harvest d))); [reflexivity|].
  destruct (negb (forallb (part_known c) (harvest d))); [reflexivity|].
  destruct (deps c ty (harvest d)) as [js css].
  destruct ty; f_equal.
  - apply render_doc_eq_spec_lemma.
  - unfold render_body, erase_ph. cbn [is_document andb]. now rewrite subst_empty.
Qed.

(* ================================================================================================ *)
(* 8. witnesses: the theorems are sensitive to exactly the two repaired defects                      *)
(* ================================================================================================ *)
Import Coq.Strings.String.StringSyntax.
Local Delimit Scope string_scope with string.
Local Arguments s2n s%string.

(* JS at its placeholder, no CSS placeholder, and the JS text holds "</head>": the code before b234f8a searched the
   substituted text and put the CSS inside the inserted JS; the current code puts it before the document's </head>. *)
Definition wit_js : str := s2n "<script>var h='</head>';</script>".
Definition wit_css : str := s2n "<style>.a{}</style>".
Definition wit_doc : str := s2n "<head><script name=""JS_PLACEHOLDER""></script></head><body></body>".

Lemma unmasked_search_refuted_lemma :
  exists js css t,
    render_doc_unmasked js css t <> spec_doc1 js css t
    /\ render_doc_unmasked js css t = s2n "<head><script>var h='<style>.a{}</style></head>';</script></head><body></body>"
    /\ render_doc js css t = s2n "<head><script>var h='</head>';</script><style>.a{}</style></head><body></body>".
Proof.
  exists wit_js, wit_css, wit_doc.
  split; [|split]; [intro H; vm_compute in H; discriminate H | vm_compute; reflexivity | vm_compute; reflexivity].
Qed.

(* the arithmetic before fa2cce9 fails exactly on "last </body> before first </head>" *)
Lemma old_offsets_refuted_lemma :
  exists t css js fh lb,
    find_ns true true t 0 None None = (fh, lb) /\
    place_m_old t (Some css) (Some js) fh lb <> Some (weave (ins2 fh lb css js) 0 t) /\
    place_m t (Some css) (Some js) fh lb = Some (weave (ins2 fh lb css js) 0 t).
Proof.
  exists (s2n "AA</body>BB</head>CC"), (s2n "<CSS>"), (s2n "<JS>"), (Some 11), (Some 2).
  split; [|split]; [vm_compute; reflexivity | intro H; vm_compute in H; discriminate H | vm_compute; reflexivity].
Qed.

(* ================================================================================================ *)
(* 9. middleware guard and type round-trip                                                           *)
(* ================================================================================================ *)
Lemma type_preserved_lemma : forall c ty k d k' o, render_any c ty k d = ROk (k', o) -> k' = k.
Proof.
  intros c ty k d k' o. unfold render_any. destruct (render c ty d); intro H; inversion H.
  destruct k; reflexivity.
Qed.

Lemma middleware_passthrough_lemma : forall c r,
  streaming r = true \/ ctype r = None \/ (exists t, ctype r = Some t /\ starts_with (s2n "text/html") t = false) ->
  process_response c r = ROk r.
Proof.
  intros c r H. unfold process_response.
  assert (E : is_html r = false).
  { unfold is_html. destruct H as [H|[H|(t & H1 & H2)]].
    - now rewrite H.
    - rewrite H. now rewrite andb_false_r.
    - rewrite H1, H2. now rewrite andb_false_r. }
  now rewrite E.
Qed.

Lemma middleware_html_lemma : forall c r,
  is_html r = true ->
  process_response c r =
  match spec_render c Document (body r) with
  | ROk o => ROk {| streaming := streaming r; ctype := ctype r; body := o |}
  | RErr e => RErr e
  end.
Proof. intros c r H. unfold process_response. now rewrite H, render_eq_spec_lemma. Qed.

(* ================================================================================================ *)
(* 10. corollaries that spell out single clauses of the property                                     *)
(* ================================================================================================ *)
Lemma fragment_appends_lemma : forall c d out,
  render c Fragment d = ROk out ->
  out = erase_ph (erase_markers d) ++ fst (deps c Fragment (harvest d)).
Proof.
  intros c d out. rewrite render_eq_spec_lemma. unfold spec_render.
  destruct (negb (forallb _ (harvest d))); [discriminate|].
  destruct (negb (forallb (part_known c) (harvest d))); [discriminate|].
  destruct (deps c Fragment (harvest d)) as [js css]. intro H. inversion H. reflexivity.
Qed.

Lemma one_pass_nowhere r css_c js_c (l : list (N + kind)) : forall seen,
  (forall i, tag_here r (skipn i l) = None) -> one_pass r css_c js_c l seen = subst r l.
Proof.
  induction l as [|tk l IH]; intros seen H; [reflexivity|].
  cbn [one_pass]. unfold head_here, body_here. pose proof (H 0) as H0. cbn [skipn] in H0. rewrite H0. cbn [andb].
  rewrite IH by (intro i; apply (H (S i))).
  destruct css_c, js_c; reflexivity.
Qed.

Lemma nothing_without_end_tags_lemma : forall js css t,
  (forall i, tag_here (repl js css) (skipn i (ph_tokens t)) = None) ->
  render_doc js css t = subst (repl js css) (ph_tokens t).
Proof. intros js css t H. rewrite render_doc_eq_spec_lemma. unfold spec_doc1. now apply one_pass_nowhere. Qed.

(* both kinds have a placeholder: tags at the placeholders only, whatever end tags the document has *)
Lemma one_pass_none r (l : list (N + kind)) : forall seen, one_pass r None None l seen = subst r l.
Proof. induction l as [|tk l IH]; intro seen; [reflexivity|]. cbn [one_pass]. now rewrite IH. Qed.

Lemma placeholders_only_lemma : forall js css t,
  has KCss (ph_tokens t) = true -> has KJs (ph_tokens t) = true ->
  render_doc js css t = subst (repl js css) (ph_tokens t).
Proof.
  intros js css t Hc Hj. rewrite render_doc_eq_spec_lemma. unfold spec_doc1. rewrite Hc, Hj. apply one_pass_none.
Qed.

(* ================================================================================================ *)
(* 11. what is removed: exactly the markers / placeholders of the documented grammar, leftmost-first  *)
(* ================================================================================================ *)
Lemma scan_skip {A} (m : str -> option (nat * A)) a : forall d, scan m (a ++ d) (length a) = scan m d 0.
Proof. induction a as [|x a IH]; intro d; [reflexivity|]. cbn [app length scan]. apply IH. Qed.

Lemma scan_parts {A} (m : str -> option (nat * A)) (P : str -> A -> Prop) :
  (forall s n a, m s = Some (n, a) -> exists span rest, s = span ++ rest /\ length span = n /\ P span a) ->
  (forall span a rest, P span a -> exists k, m (span ++ rest) = Some (S k, a)) ->
  forall d, parts_of P d (scan m d 0).
Proof.
  intros Hsound Hcompl d.
  assert (G : forall n d, length d <= n -> parts_of P d (scan m d 0)).
  { induction n as [|n IH]; intros [|c s'] Hlen; try (cbn [scan]; apply po_nil); [simpl in Hlen; lia|].
    simpl in Hlen. cbn [scan].
    destruct (m (c :: s')) as [[[|k] a]|] eqn:E.
    - apply po_sym; [|apply IH; lia].
      intros span a' rest HP HE. destruct (Hcompl span a' rest HP) as (k & Hk). rewrite <- HE in Hk. congruence.
    - destruct (Hsound _ _ _ E) as (span & rest & HE & Hl & HP).
      destruct span as [|x span']; [discriminate Hl|]. cbn [app] in HE. inversion HE; subst x s'.
      cbn [length] in Hl. inversion Hl; subst k. rewrite scan_skip.
      change (c :: span' ++ rest) with ((c :: span') ++ rest). apply po_tok; [exact HP|].
      apply IH. rewrite app_length in Hlen. lia.
    - apply po_sym; [|apply IH; lia].
      intros span a' rest HP HE. destruct (Hcompl span a' rest HP) as (k & Hk). rewrite <- HE in Hk. congruence. }
  apply (G (length d)). lia.
Qed.

(* ---- span_len ---- *)
Lemma span_len_le p s : span_len p s <= length s.
Proof. induction s as [|c s IH]; simpl; [lia|]. destruct (p c); simpl; lia. Qed.

Lemma span_len_forall p s : Forall (fun c => p c = true) (firstn (span_len p s) s).
Proof. induction s as [|c s IH]; simpl; [constructor|]. destruct (p c) eqn:E; simpl; constructor; auto. Qed.

Lemma span_len_split p s :
  s = firstn (span_len p s) s ++ skipn (span_len p s) s /\ length (firstn (span_len p s) s) = span_len p s.
Proof. split; [symmetry; apply firstn_skipn | apply firstn_length_le, span_len_le]. Qed.

(* a run followed by a symbol outside the class (or by nothing) is found in full *)
Lemma span_len_app p w rest :
  Forall (fun c => p c = true) w -> match rest with [] => True | c :: _ => p c = false end ->
  span_len p (w ++ rest) = length w.
Proof.
  induction 1 as [|c w Hc Hw IH]; intro Hr; simpl.
  - destruct rest as [|c r]; simpl; [reflexivity|]. simpl in Hr. now rewrite Hr.
  - rewrite Hc. f_equal. now apply IH.
Qed.

Lemma blank_of_span s n : n = span_len is_bspace s -> Nat.eqb n 0 = false -> blank (firstn n s).
Proof.
  intros -> H. apply Nat.eqb_neq in H. split; [|apply span_len_forall].
  intro E. apply (f_equal (@length N)) in E. rewrite (proj2 (span_len_split is_bspace s)) in E. simpl in E. lia.
Qed.

Lemma lit_app p r : lit p (p ++ r) = Some r.
Proof.
  unfold lit. assert (H : starts_with p (p ++ r) = true).
  { induction p as [|x p IH]; simpl; [reflexivity|]. now rewrite N.eqb_refl, IH. }
  rewrite H. now rewrite skipn_len_app.
Qed.

(* ---- markers ---- *)
Lemma match_marker_sound s n data :
  match_marker s = Some (n, data) -> exists span rest, s = span ++ rest /\ length span = n /\ is_marker span data.
Proof.
  unfold match_marker.
  change (s2n "<!--") with MK_OPEN. change (s2n "_RENDERED") with MK_WORD. change (s2n "-->") with MK_CLOSE.
  destruct (lit MK_OPEN s) as [s1|] eqn:E1; [|discriminate]. apply lit_some in E1.
  set (w1 := span_len is_bspace s1). destruct (Nat.eqb w1 0) eqn:Z1; [discriminate|].
  destruct (lit MK_WORD (skipn w1 s1)) as [s2|] eqn:E2; [|discriminate]. apply lit_some in E2.
  set (w2 := span_len is_bspace s2). destruct (Nat.eqb w2 0) eqn:Z2; [discriminate|].
  set (s3 := skipn w2 s2). set (dl := span_len is_data s3). destruct (Nat.eqb dl 0) eqn:Z3; [discriminate|].
  set (s4 := skipn dl s3). set (w3 := span_len is_bspace s4). destruct (Nat.eqb w3 0) eqn:Z4; [discriminate|].
  destruct (lit MK_CLOSE (skipn w3 s4)) as [s5|] eqn:E5; [|discriminate]. apply lit_some in E5.
  intro H. inversion H; subst n data. clear H.
  destruct (span_len_split is_bspace s1) as (P1 & L1). fold w1 in P1, L1.
  destruct (span_len_split is_bspace s2) as (P2 & L2). fold w2 in P2, L2. fold s3 in P2.
  destruct (span_len_split is_data s3) as (P3 & L3). fold dl in P3, L3. fold s4 in P3.
  destruct (span_len_split is_bspace s4) as (P4 & L4). fold w3 in P4, L4.
  exists (MK_OPEN ++ firstn w1 s1 ++ MK_WORD ++ firstn w2 s2 ++ firstn dl s3 ++ firstn w3 s4 ++ MK_CLOSE), s5.
  split; [|split].
  - rewrite E1. rewrite P1 at 1. rewrite E2. rewrite P2 at 1. rewrite P3 at 1. rewrite P4 at 1. rewrite E5.
    now rewrite <- !app_assoc.
  - rewrite !app_length, L1, L2, L3, L4. cbn [length MK_OPEN MK_WORD MK_CLOSE]. lia.
  - exists (firstn w1 s1), (firstn w2 s2), (firstn w3 s4).
    repeat split; try (apply blank_of_span; auto; fail); try apply span_len_forall.
    intro E. apply (f_equal (@length N)) in E. rewrite L3 in E. apply Nat.eqb_neq in Z3. simpl in E. lia.
Qed.

Lemma blank_len w : blank w -> Nat.eqb (length w) 0 = false.
Proof. intros [H _]. destruct w; [congruence|reflexivity]. Qed.

Lemma match_marker_complete span data rest :
  is_marker span data -> match_marker (span ++ rest) = Some (length span, data).
Proof.
  intros (w1 & w2 & w3 & B1 & B2 & B3 & Hd & Fd & ->).
  unfold match_marker.
  change (s2n "<!--") with MK_OPEN. change (s2n "_RENDERED") with MK_WORD. change (s2n "-->") with MK_CLOSE.
  cbv zeta. rewrite <- !app_assoc. rewrite lit_app.
  rewrite (span_len_app is_bspace w1) by (try reflexivity; apply B1).
  rewrite (blank_len w1 B1), skipn_len_app, lit_app.
  assert (Hd1 : match data ++ w3 ++ MK_CLOSE ++ rest with [] => True | c :: _ => is_bspace c = false end).
  { destruct data as [|c data]; [congruence|]. inversion Fd as [|? ? Hc _]; subst. cbn [app].
    unfold is_data in Hc. apply andb_true_iff in Hc as [Hc _]. now apply negb_true_iff in Hc. }
  rewrite (span_len_app is_bspace w2) by (try exact Hd1; apply B2).
  rewrite (blank_len w2 B2), skipn_len_app.
  assert (Hw3 : match w3 ++ MK_CLOSE ++ rest with [] => True | c :: _ => is_data c = false end).
  { destruct B3 as [Hn Hf]. destruct w3 as [|c w3]; [congruence|]. inversion Hf as [|? ? Hc _]; subst. cbn [app].
    unfold is_data. now rewrite Hc. }
  rewrite (span_len_app is_data data) by (try exact Hw3; exact Fd).
  assert (Nat.eqb (length data) 0 = false) as -> by (destruct data; [congruence|reflexivity]).
  rewrite skipn_len_app, firstn_len_app.
  rewrite (span_len_app is_bspace w3) by (try reflexivity; apply B3).
  rewrite (blank_len w3 B3), skipn_len_app, lit_app.
  f_equal. f_equal. rewrite !app_length. cbn [length MK_OPEN MK_WORD MK_CLOSE]. lia.
Qed.

Lemma is_marker_nonempty span data : is_marker span data -> exists k, length span = S k.
Proof. intros (w1 & w2 & w3 & _ & _ & _ & _ & _ & ->). cbn [MK_OPEN app length]. eauto. Qed.

Lemma markers_lemma : forall d,
  parts_of is_marker d (scan match_marker d 0).
Proof.
  apply scan_parts.
  - apply match_marker_sound.
  - intros span a rest H. destruct (is_marker_nonempty _ _ H) as (k & Hk).
    exists k. rewrite <- Hk. now apply match_marker_complete.
Qed.

(* ---- placeholders ---- *)
Lemma attr_group_sound name s s' : attr_group name s = Some s' -> exists a, is_attr name a /\ s = a ++ s'.
Proof.
  unfold attr_group. destruct (lit name s) as [s1|] eqn:E1; [|discriminate]. apply lit_some in E1.
  unfold six_word. destruct (Nat.eqb (length (firstn 6 s1)) 6 && forallb is_word (firstn 6 s1)) eqn:E2; [|discriminate].
  apply andb_true_iff in E2 as [L W]. apply Nat.eqb_eq in L.
  change (s2n "=""""") with EQ_QQ. intro E3. apply lit_some in E3.
  exists (name ++ firstn 6 s1 ++ EQ_QQ). split.
  - exists (firstn 6 s1). repeat split; [exact L|].
    apply Forall_forall. intros x Hx. rewrite forallb_forall in W. now apply W.
  - rewrite E1. rewrite <- (firstn_skipn 6 s1) at 1. rewrite E3. now rewrite <- !app_assoc.
Qed.

Lemma attr_group_complete name a rest : is_attr name a -> attr_group name (a ++ rest) = Some rest.
Proof.
  intros (w & L & W & ->). unfold attr_group. rewrite <- !app_assoc, lit_app. unfold six_word.
  assert (F : firstn 6 (w ++ EQ_QQ ++ rest) = w) by (rewrite <- L; apply firstn_len_app).
  assert (S6 : skipn 6 (w ++ EQ_QQ ++ rest) = EQ_QQ ++ rest) by (rewrite <- L; apply skipn_len_app).
  rewrite F, S6, L. cbn [Nat.eqb andb].
  assert (forallb is_word w = true) as -> by (apply forallb_forall; intros x Hx; rewrite Forall_forall in W; now apply W).
  change (s2n "=""""") with EQ_QQ. apply lit_app.
Qed.

Lemma is_attr_len name a : is_attr name a -> 1 <= length a.
Proof. intros (w & L & _ & ->). rewrite !app_length, L. lia. Qed.

Lemma any_group_sound s s' : any_group s = Some s' -> exists a, is_comp_attr a /\ s = a ++ s'.
Proof.
  unfold any_group. destruct (attr_group COMP_ID s) as [r|] eqn:E.
  - intro H. inversion H; subst r. apply attr_group_sound in E as (a & Ha & ->). exists a. split; [now left|reflexivity].
  - intro H. apply attr_group_sound in H as (a & Ha & ->). exists a. split; [now right|reflexivity].
Qed.

(* the two kinds of attribute exclude each other *)
Lemma id_group_not_css a rest : is_attr CSS_ID a -> attr_group COMP_ID (a ++ rest) = None.
Proof. intros (w & _ & _ & ->). reflexivity. Qed.

Lemma any_group_complete a rest : is_comp_attr a -> any_group (a ++ rest) = Some rest.
Proof.
  intros [H|H]; unfold any_group.
  - now rewrite attr_group_complete.
  - rewrite id_group_not_css by exact H. now apply attr_group_complete.
Qed.

Lemma is_comp_attr_len a : is_comp_attr a -> 1 <= length a.
Proof. intros [H|H]; eapply is_attr_len; eauto. Qed.

Lemma attr_groups_sound : forall fuel s, exists ids, is_attrs ids /\ s = ids ++ attr_groups fuel s.
Proof.
  induction fuel as [|f IH]; intro s; cbn [attr_groups].
  - exists []. split; [constructor|reflexivity].
  - destruct (any_group s) as [s'|] eqn:E.
    + apply any_group_sound in E as (a & Ha & ->). destruct (IH s') as (ids & Hi & Hs).
      exists (a ++ ids). split; [now constructor|]. rewrite <- app_assoc. now rewrite <- Hs.
    + exists []. split; [constructor|reflexivity].
Qed.

Lemma attr_groups_complete ids : is_attrs ids -> forall fuel tail,
  length ids <= fuel -> any_group tail = None -> attr_groups fuel (ids ++ tail) = tail.
Proof.
  induction 1 as [|a b Ha Hb IH]; intros fuel tail Hf Hn.
  - destruct fuel; cbn [attr_groups app]; [reflexivity|]. now rewrite Hn.
  - pose proof (is_comp_attr_len _ Ha) as La. rewrite app_length in Hf.
    destruct fuel as [|f]; [lia|]. cbn [attr_groups]. rewrite <- app_assoc, any_group_complete by exact Ha.
    apply IH; [lia|exact Hn].
Qed.

Lemma match_ph_sound s n k :
  match_ph s = Some (n, k) -> exists span rest, s = span ++ rest /\ length span = n /\ is_placeholder span k.
Proof.
  unfold match_ph. destruct (lit CSS_OPEN s) as [s1|] eqn:E1.
  - apply lit_some in E1.
    destruct (attr_groups_sound (length s1) s1) as (ids & Hi & Hs2). set (s3 := attr_groups (length s1) s1) in *.
    assert (exists sl, (sl = [] \/ sl = [47%N]) /\ s3 = sl ++ opt (lit (s2n "/")) s3) as (sl & Hsl & Hs3).
    { unfold opt. destruct (lit (s2n "/") s3) as [s4|] eqn:E; [apply lit_some in E; exists [47%N]; auto | exists []; auto]. }
    set (s4 := opt (lit (s2n "/")) s3) in *.
    destruct (lit (s2n ">") s4) as [s5|] eqn:E5; [|discriminate]. apply lit_some in E5.
    intro H. inversion H; subst n k. clear H.
    assert (Es : s = (CSS_OPEN ++ ids ++ sl ++ [GT]) ++ s5).
    { rewrite E1. rewrite Hs2 at 1. rewrite Hs3 at 1. rewrite E5. now rewrite <- !app_assoc. }
    exists (CSS_OPEN ++ ids ++ sl ++ [GT]), s5. split; [exact Es|]. split.
    + rewrite Es at 1. rewrite (app_length _ s5). lia.
    + exists ids. split; [exact Hi|]. exists sl. auto.
  - destruct (lit JS_OPEN s) as [s1|] eqn:E1'; [|discriminate]. apply lit_some in E1'.
    destruct (attr_groups_sound (length s1) s1) as (ids & Hi & Hs2). set (s3 := attr_groups (length s1) s1) in *.
    change (s2n "></script>") with JS_CLOSE.
    destruct (lit JS_CLOSE s3) as [s5|] eqn:E5; [|discriminate]. apply lit_some in E5.
    intro H. inversion H; subst n k. clear H.
    assert (Es : s = (JS_OPEN ++ ids ++ JS_CLOSE) ++ s5).
    { rewrite E1'. rewrite Hs2 at 1. rewrite E5. now rewrite <- !app_assoc. }
    exists (JS_OPEN ++ ids ++ JS_CLOSE), s5. split; [exact Es|]. split.
    + rewrite Es at 1. rewrite (app_length _ s5). lia.
    + exists ids. split; [exact Hi|reflexivity].
Qed.

(* what follows the attribute groups of a placeholder starts no further group *)
Lemma no_group_after x rest : x = 47%N \/ x = 62%N -> any_group (x :: rest) = None.
Proof. intros [-> | ->]; reflexivity. Qed.

Lemma match_ph_complete span k rest : is_placeholder span k -> match_ph (span ++ rest) = Some (length span, k).
Proof.
  intros (ids & Hi & Hk). destruct k.
  - destruct Hk as (sl & Hsl & ->). unfold match_ph. rewrite <- !app_assoc, lit_app.
    assert (T : exists x r, sl ++ [GT] ++ rest = x :: r /\ (x = 47%N \/ x = 62%N)).
    { destruct Hsl as [-> | ->]; cbn [app]; eauto. }
    rewrite attr_groups_complete; [|exact Hi|rewrite app_length; lia|].
    2:{ destruct T as (x & r & -> & Hx). now apply no_group_after. }
    assert (E4 : opt (lit (s2n "/")) (sl ++ [GT] ++ rest) = [GT] ++ rest).
    { destruct Hsl as [-> | ->]; reflexivity. }
    rewrite E4. change (s2n ">") with [GT]. rewrite lit_app.
    f_equal. f_equal. rewrite !app_length. cbn [length]. lia.
  - subst span. unfold match_ph. rewrite <- !app_assoc.
    assert (lit CSS_OPEN (JS_OPEN ++ ids ++ JS_CLOSE ++ rest) = None) as -> by reflexivity.
    rewrite lit_app.
    rewrite attr_groups_complete; [|exact Hi|rewrite app_length; lia|now apply no_group_after; right].
    change (s2n "></script>") with JS_CLOSE. rewrite lit_app.
    f_equal. f_equal. rewrite !app_length. cbn [length]. lia.
Qed.

Lemma is_placeholder_nonempty span k : is_placeholder span k -> exists n, length span = S n.
Proof.
  intros (ids & _ & Hk). destruct k.
  - destruct Hk as (sl & _ & ->). cbn [CSS_OPEN s2n]. simpl. eauto.
  - subst span. simpl. eauto.
Qed.

Lemma placeholders_lemma : forall t, parts_of is_placeholder t (ph_tokens t).
Proof.
  apply scan_parts.
  - apply match_ph_sound.
  - intros span a rest H. destruct (is_placeholder_nonempty _ _ H) as (n & Hn).
    exists n. rewrite <- Hn. now apply match_ph_complete.
Qed.

(* the kept symbols / the harvested data of a cut *)
Lemma removed_are_markers_lemma : forall d,
  exists l, parts_of is_marker d l /\ erase_markers d = lits l /\ harvest d = toks l.
Proof. intro d. exists (scan match_marker d 0). split; [apply markers_lemma|split; reflexivity]. Qed.

Lemma removed_are_placeholders_lemma : forall t,
  exists l, parts_of is_placeholder t l /\ erase_ph t = lits l /\ ph_tokens t = l.
Proof. intro t. exists (ph_tokens t). split; [apply placeholders_lemma|split; reflexivity]. Qed.
