(* Model of django_components.dependencies.render_dependencies, _insert_js_css_to_default_locations and
   ComponentDependencyMiddleware._process_response (property C08).  M-model: a transliteration of the
   code's passes, in the code's order:

     1. COMPONENT_COMMENT_REGEX.sub   - one left-to-right pass that deletes render markers and collects their data
     2. SCRIPT_NAME_REGEX / comp_hash_mapping - RuntimeError for a malformed part, KeyError for an unknown class hash
     3. PLACEHOLDER_REGEX.sub         - one pass that replaces placeholders and sets the two did_find flags
     4. _insert_js_css_to_default_locations (document mode, some kind without placeholder): finditer loop over
        head_or_body_end_tag_re - run (since fix b234f8a) on the MASKED copy of the content, in which the text
        substituted at every placeholder is blanked out by NUL symbols of the same length -, then two slice
        insertions into the substituted content with the index_offset arithmetic of the code (fix fa2cce9)
     5. fragment mode: placeholders replaced by nothing, JS appended
     6. the str / SafeString / bytes round trip, and the middleware guard

   Symbols are code points.  Passes 1-3 run on UTF-8 bytes in the code; every literal and every character class
   of the two bytes-mode patterns is ASCII or "any byte but ...", and all bytes of a multi-byte UTF-8 sequence
   are >= 0x80, so on valid UTF-8 matching bytes and matching code points select the same spans (assumption
   recorded by the harness; bytes inputs are generated as UTF-8).  Pass 4 runs on the decoded str, where `\s`
   is Python's Unicode whitespace.

   What JS/CSS is generated for the harvested markers is property C04's business: here it is the function
   `deps` of the configuration, arbitrary in every theorem.  Definitions only; proofs in DepsRender/Proofs.v. *)
From DJC Require Import Lib.Base.
Import Coq.Strings.String.StringSyntax.
Local Delimit Scope string_scope with string.
Local Arguments s2n s%string.

(* ---------- character classes (anchored in DepsRender/Proofs.v to what Python's re reports on every run) ---------- *)
Definition mem_N (c : N) (l : list N) : bool := existsb (N.eqb c) l.

Definition bspace_list : list N := [9;10;11;12;13;32]%N.                       (* bytes-mode \s *)
Definition uspace_list : list N :=                                             (* str-mode \s   *)
  [9;10;11;12;13;28;29;30;31;32;133;160;5760;8192;8193;8194;8195;8196;8197;8198;8199;8200;8201;8202;
   8232;8233;8239;8287;12288]%N.
Definition is_bspace (c : N) : bool := mem_N c bspace_list.
Definition is_uspace (c : N) : bool := mem_N c uspace_list.
Definition is_digit (c : N) : bool := (N.leb 48 c && N.leb c 57)%N.
Definition is_word (c : N) : bool :=                                           (* bytes-mode \w *)
  (is_digit c || (N.leb 65 c && N.leb c 90) || (N.leb 97 c && N.leb c 122) || N.eqb c 95)%N.
Definition is_hex (c : N) : bool := (is_digit c || (N.leb 97 c && N.leb c 102))%N.
Definition is_data (c : N) : bool := negb (is_bspace c) && negb (N.eqb c 62).  (* [^\s>] *)

Definition LT : N := 60%N.   (* < *)
Definition GT : N := 62%N.   (* > *)

(* ---------- small matcher combinators: a matcher returns the rest of the string ---------- *)
Definition lit (p s : str) : option str :=
  if starts_with p s then Some (skipn (length p) s) else None.

Fixpoint span_len (p : N -> bool) (s : str) : nat :=
  match s with
  | c :: r => if p c then S (span_len p r) else O
  | [] => O
  end.

Definition opt (m : str -> option str) (s : str) : str :=
  match m s with Some r => r | None => s end.

(* ---------- COMPONENT_COMMENT_REGEX  <!--\s+_RENDERED\s+(?P<data>[^\s>]+?)\s+-->  (bytes mode) ---------- *)
(* All three `\s+` are followed by a non-space literal and the lazy data class excludes whitespace, so the
   backtracking search has exactly one candidate: maximal runs. Result: (length of the match, data). *)
Definition match_marker (s : str) : option (nat * str) :=
  match lit (s2n "<!--") s with
  | None => None
  | Some s1 =>
    let w1 := span_len is_bspace s1 in
    if Nat.eqb w1 0 then None else
    match lit (s2n "_RENDERED") (skipn w1 s1) with
    | None => None
    | Some s2 =>
      let w2 := span_len is_bspace s2 in
      if Nat.eqb w2 0 then None else
      let s3 := skipn w2 s2 in
      let dl := span_len is_data s3 in
      if Nat.eqb dl 0 then None else
      let s4 := skipn dl s3 in
      let w3 := span_len is_bspace s4 in
      if Nat.eqb w3 0 then None else
      match lit (s2n "-->") (skipn w3 s4) with
      | None => None
      | Some _ => Some (4 + w1 + 9 + w2 + dl + w3 + 3, firstn dl s3)
      end
    end
  end.

(* ---------- SCRIPT_NAME_REGEX  ^([^\s,>]+?),([\w]+?),([0-9a-f]*?),([0-9a-f]*?)$  (bytes mode) ---------- *)
(* The data of a marker holds no whitespace and no '>', so the match is decided by the comma-separated fields. *)
Fixpoint split_commas (s : str) : list str :=
  match s with
  | [] => [[]]
  | c :: r => if N.eqb c 44 then [] :: split_commas r
              else match split_commas r with
                   | f :: fs => (c :: f) :: fs
                   | [] => [[c]]
                   end
  end.

Definition nonempty (s : str) : bool := match s with [] => false | _ => true end.

(* Some class-hash when the part is well formed *)
Definition part_hash (p : str) : option str :=
  match split_commas p with
  | [h; i; j; c] =>
      if nonempty h && nonempty i && forallb is_word i && forallb is_hex j && forallb is_hex c
      then Some h else None
  | _ => None
  end.

(* ---------- PLACEHOLDER_REGEX (bytes mode) ---------- *)
Inductive kind := KCss | KJs.
Definition kind_eqb (a b : kind) : bool :=
  match a, b with KCss, KCss => true | KJs, KJs => true | _, _ => false end.

(* \w{6} *)
Definition six_word (s : str) : option str :=
  if Nat.eqb (length (firstn 6 s)) 6 && forallb is_word (firstn 6 s) then Some (skipn 6 s) else None.

(* (?: data-djc-XXX-\w{6}="") *)
Definition attr_group (name : str) (s : str) : option str :=
  match lit name s with
  | None => None
  | Some s1 => match six_word s1 with
               | None => None
               | Some s2 => lit (s2n "=""""") s2
               end
  end.

Definition CSS_ID : str := s2n " data-djc-css-".
Definition COMP_ID : str := s2n " data-djc-id-".

(* (?: data-djc-(?:id|css)-\w{6}="")*  (since fix be574c3: id and css attributes in any order and number) - greedy;
   giving an iteration back never helps because what follows starts with '/' or '>' and a group starts with ' ';
   the two alternatives exclude each other ("id-" / "css-").  Fuel = length of the string (an iteration consumes >= 21). *)
Definition any_group (s : str) : option str :=
  match attr_group COMP_ID s with
  | Some r => Some r
  | None => attr_group CSS_ID s
  end.

Fixpoint attr_groups (fuel : nat) (s : str) : str :=
  match fuel with
  | O => s
  | S f => match any_group s with
           | Some s' => attr_groups f s'
           | None => s
           end
  end.

Definition CSS_OPEN : str := s2n "<link name=""CSS_PLACEHOLDER""".
Definition JS_OPEN : str := s2n "<script name=""JS_PLACEHOLDER""".

Definition match_ph (s : str) : option (nat * kind) :=
  match lit CSS_OPEN s with
  | Some s1 =>
      let s3 := attr_groups (length s1) s1 in
      let s4 := opt (lit (s2n "/")) s3 in
      match lit (s2n ">") s4 with
      | Some s5 => Some (length s - length s5, KCss)
      | None => None
      end
  | None =>
    match lit JS_OPEN s with
    | Some s1 =>
        let s3 := attr_groups (length s1) s1 in
        match lit (s2n "></script>") s3 with
        | Some s5 => Some (length s - length s5, KJs)
        | None => None
        end
    | None => None
    end
  end.

(* ---------- head_or_body_end_tag_re   <\/(?:head|body)\s*>   (str mode, Unicode \s) ---------- *)
Inductive tag := Head | Body.

(* \s*>  : number of symbols consumed *)
Fixpoint ws_then_gt (s : str) : option nat :=
  match s with
  | [] => None
  | c :: r => if N.eqb c GT then Some 1
              else if is_uspace c then option_map S (ws_then_gt r) else None
  end.

Definition match_endtag (s : str) : option (nat * tag) :=
  match lit (s2n "</head") s with
  | Some r => option_map (fun n => (6 + n, Head)) (ws_then_gt r)
  | None =>
    match lit (s2n "</body") s with
    | Some r => option_map (fun n => (6 + n, Body)) (ws_then_gt r)
    | None => None
    end
  end.

(* ---------- re.sub / re.finditer: leftmost, non-overlapping, left to right ---------- *)
(* `skip` = symbols of the current match still to be consumed.  Output: the unmatched symbols (inl) and one
   token (inr) per match, in order.  None of the patterns can match the empty string. *)
Section Scan.
  Context {A : Type} (m : str -> option (nat * A)).
  Fixpoint scan (s : str) (skip : nat) : list (N + A) :=
    match s with
    | [] => []
    | c :: s' =>
      match skip with
      | S k => scan s' k
      | O => match m (c :: s') with
             | Some (S k, a) => inr a :: scan s' k
             | _ => inl c :: scan s' 0
             end
      end
    end.

  (* spans (start, length) of the matches - used by the matcher-level correspondence only *)
  Fixpoint scan_spans (s : str) (pos skip : nat) : list (nat * nat) :=
    match s with
    | [] => []
    | c :: s' =>
      match skip with
      | S k => scan_spans s' (S pos) k
      | O => match m (c :: s') with
             | Some (S k, a) => (pos, S k) :: scan_spans s' (S pos) k
             | _ => scan_spans s' (S pos) 0
             end
      end
    end.
End Scan.

Fixpoint lits {A} (l : list (N + A)) : str :=
  match l with
  | [] => []
  | inl c :: r => c :: lits r
  | inr _ :: r => lits r
  end.

Fixpoint toks {A} (l : list (N + A)) : list A :=
  match l with
  | [] => []
  | inl _ :: r => toks r
  | inr a :: r => a :: toks r
  end.

(* the text with every marker deleted / the marker data, in order of appearance *)
Definition erase_markers (d : str) : str := lits (scan match_marker d 0).
Definition harvest (d : str) : list str := toks (scan match_marker d 0).

(* placeholder tokens of a (marker-free) text *)
Notation ptok := (N + kind)%type (only parsing).
Definition ph_tokens (t : str) : list ptok := scan match_ph t 0.
Definition erase_ph (t : str) : str := lits (ph_tokens t).

Definition text (r : kind -> str) (tk : ptok) : str :=
  match tk with inl c => [c] | inr k => r k end.
(* PLACEHOLDER_REGEX.sub(on_replace_match, content) *)
Definition subst (r : kind -> str) (l : list ptok) : str := flat_map (text r) l.
(* did_find_css_placeholder / did_find_js_placeholder *)
Definition has (k : kind) (l : list ptok) : bool :=
  existsb (fun tk => match tk with inr k' => kind_eqb k k' | inl _ => false end) l.

(* ---------- _insert_js_css_to_default_locations ---------- *)
Definition is_some {A} (o : option A) : bool := match o with Some _ => true | None => false end.

(* body of the `for match in finditer` loop: want_css = `css_content is not None`, want_js likewise *)
Definition upd (want_css want_js : bool) (tg : option tag) (pos : nat) (fh lb : option nat)
  : option nat * option nat :=
  match tg with
  | Some Head => (if want_css && negb (is_some fh) then Some pos else fh, lb)
  | Some Body => (fh, if want_js then Some pos else lb)
  | None => (fh, lb)
  end.

Fixpoint find_loop (wc wj : bool) (s : str) (pos skip : nat) (fh lb : option nat) : option nat * option nat :=
  match s with
  | [] => (fh, lb)
  | c :: s' =>
    match skip with
    | S k => find_loop wc wj s' (S pos) k fh lb
    | O => match match_endtag (c :: s') with
           | Some (n, tg) => let '(fh', lb') := upd wc wj (Some tg) pos fh lb in
                             find_loop wc wj s' (S pos) (Nat.pred n) fh' lb'
           | None => find_loop wc wj s' (S pos) 0 fh lb
           end
    end
  end.

(* Python `s[:i] + x + s[i:]` for 0 <= i *)
Definition insert_at (i : nat) (x s : str) : str := firstn i s ++ x ++ skipn i s.

(* the two string insertions with the index_offset arithmetic (code after fix fa2cce9) *)
Definition place_m (t : str) (css_c js_c : option str) (fh lb : option nat) : option str :=
  let '(u, off, modified) :=
    match css_c, fh with
    | Some css, Some i => (insert_at i css t, length css, true)
    | _, _ => (t, O, false)
    end in
  match js_c, lb with
  | Some js, Some j =>
      let off' := match fh with
                  | None => O
                  | Some i => if Nat.ltb j i then O else off
                  end in
      Some (insert_at (j + off') js u)
  | _, _ => if modified then Some u else None
  end.

(* _insert_js_css_to_default_locations(html_content=t, js_content, css_content, search_content=search):
   the finditer loop runs over `search` (same length as t), the slices are taken from t *)
Definition insert_default (search t : str) (js_c css_c : option str) : option str :=
  match css_c, js_c with
  | None, None => None
  | _, _ => let '(fh, lb) := find_loop (is_some css_c) (is_some js_c) search 0 0 None None in
            place_m t css_c js_c fh lb
  end.

(* ---------- render_dependencies ---------- *)
Inductive rtype := Document | Fragment.
Definition is_document (ty : rtype) : bool := match ty with Document => true | Fragment => false end.
Inductive err := EMalformed (* RuntimeError("Malformed dependencies data") *) | EKeyError (* unknown class hash *).
Inductive res (A : Type) := ROk (a : A) | RErr (e : err).
Arguments ROk {A} a.
Arguments RErr {A} e.

(* known = keys of comp_hash_mapping; deps ty parts = (final_script_tags, final_css_tags) *)
Record cfg := { known : list str; deps : rtype -> list str -> str * str }.

Definition str_mem (x : str) (l : list str) : bool := existsb (str_eqb x) l.
Definition part_known (c : cfg) (p : str) : bool :=
  match part_hash p with Some h => str_mem h (known c) | None => false end.

Definition repl (js css : str) (k : kind) : str := match k with KCss => css | KJs => js end.

(* the blanked-out copy (since fix b234f8a): b"\x00" * len(on_replace_match(m).decode()) for every placeholder *)
Definition mask (r : kind -> str) (k : kind) : str := repeat 0%N (length (r k)).

(* the part of render_dependencies after _process_dep_declarations; t = content with the markers deleted *)
Definition render_body (ty : rtype) (js css : str) (t : str) : str :=
  (* css_replacement / js_replacement: the tags in document mode, b"" in fragment mode *)
  let r := if is_document ty then repl js css else (fun _ => []) in
  let pt := ph_tokens t in                       (* matches of PLACEHOLDER_REGEX in content_before_replace *)
  let t1 := subst r pt in                        (* content_ = PLACEHOLDER_REGEX.sub(on_replace_match, content_) *)
  let fc := has KCss pt in                       (* did_find_css_placeholder *)
  let fj := has KJs pt in                        (* did_find_js_placeholder *)
  let t2 :=
    if is_document ty && (negb fj || negb fc) then
      let masked := subst (mask r) pt in
      match insert_default masked t1 (if fj then None else Some js) (if fc then None else Some css) with
      | Some x => x                              (* maybe_transformed is not None *)
      | None => t1
      end
    else t1 in
  if is_document ty then t2 else t2 ++ js.       (* fragment: content_ += js_dependencies *)

Definition render_doc (js css : str) (t : str) : str := render_body Document js css t.

Definition render (c : cfg) (ty : rtype) (d : str) : res str :=
  let parts := harvest d in
  if negb (forallb (fun p => is_some (part_hash p)) parts) then RErr EMalformed
  else if negb (forallb (part_known c) parts) then RErr EKeyError
  else
    let '(js, css) := deps c ty parts in
    ROk (render_body ty js css (erase_markers d)).

(* str / SafeString / bytes.  The code: is_safestring = isinstance(content, SafeString); isinstance(content, str)
   decides encode on entry and decode on exit (SafeString is a str subclass); mark_safe(output) if is_safestring. *)
Inductive ckind := CStr | CSafe | CBytes.
Definition ckind_eqb (a b : ckind) : bool :=
  match a, b with CStr, CStr => true | CSafe, CSafe => true | CBytes, CBytes => true | _, _ => false end.
Definition isinstance_str (k : ckind) : bool := match k with CBytes => false | _ => true end.
Definition isinstance_safe (k : ckind) : bool := match k with CSafe => true | _ => false end.
Definition out_kind (k : ckind) : ckind :=
  let plain := if isinstance_str k then CStr else CBytes in        (* content_.decode() if str else content_ *)
  if isinstance_safe k then (match plain with CStr => CSafe | x => x end) else plain.   (* mark_safe(str) *)

Definition render_any (c : cfg) (ty : rtype) (k : ckind) (d : str) : res (ckind * str) :=
  match render c ty d with
  | ROk o => ROk (out_kind k, o)
  | RErr e => RErr e
  end.

(* ---------- ComponentDependencyMiddleware._process_response ---------- *)
(* ctype = response.get("Content-Type", "") : None when the header is absent *)
Record response := { streaming : bool; ctype : option str; body : str }.

Definition is_html (r : response) : bool :=
  negb (streaming r) && starts_with (s2n "text/html") (match ctype r with Some t => t | None => [] end).

Definition process_response (c : cfg) (r : response) : res response :=
  if is_html r then
    match render c Document (body r) with
    | ROk o => ROk {| streaming := streaming r; ctype := ctype r; body := o |}
    | RErr e => RErr e
    end
  else ROk r.

(* ---------- correspondence cases ---------- *)
Definition err_eqb (a b : err) : bool :=
  match a, b with EMalformed, EMalformed => true | EKeyError, EKeyError => true | _, _ => false end.
Definition res_eqb {A} (eqb : A -> A -> bool) (a b : res A) : bool :=
  match a, b with
  | ROk x, ROk y => eqb x y
  | RErr x, RErr y => err_eqb x y
  | _, _ => false
  end.

Definition const_cfg (kn : list str) (js css : str) : cfg :=
  {| known := kn; deps := fun _ _ => (js, css) |}.

(* (type, input kind, document, known hashes, js, css, marker data the source regex finds, observed result) *)
Definition render_case := (rtype * ckind * str * list str * str * str * list str * res (ckind * str))%type.
Definition check_render (c : render_case) : bool :=
  let '(ty, k, d, kn, js, css, parts, obs) := c in
  list_eqb str_eqb parts (harvest d)
  && res_eqb (pair_eqb ckind_eqb str_eqb) obs (render_any (const_cfg kn js css) ty k d).

(* (streaming, content type header, body, known, js, css, observed body or error) *)
Definition mw_case := (bool * option str * str * list str * str * str * res str)%type.
Definition check_mw (c : mw_case) : bool :=
  let '(st, ct, b, kn, js, css, obs) := c in
  let r := process_response (const_cfg kn js css) {| streaming := st; ctype := ct; body := b |} in
  res_eqb str_eqb obs (match r with ROk x => ROk (body x) | RErr e => RErr e end).

(* matcher-level differential: spans found by Python's re with the patterns of the current source *)
Definition span_eqb (a b : nat * nat) : bool := Nat.eqb (fst a) (fst b) && Nat.eqb (snd a) (snd b).
Definition spans_case := (str * list (nat * nat) * list (nat * nat) * list (nat * nat))%type.
Definition check_spans (c : spans_case) : bool :=
  let '(s, mk, ph, et) := c in
  list_eqb span_eqb mk (scan_spans match_marker s 0 0)
  && list_eqb span_eqb ph (scan_spans match_ph s 0 0)
  && list_eqb span_eqb et (scan_spans match_endtag s 0 0).
