(* Candidate repair of the defect c08-endtag-in-inserted-tags (notes/fixes/C08-endtag-in-inserted-tags.patch):
   the end tags are searched in a copy of the substituted text in which every inserted block is blanked out by
   NUL symbols of the same length.  Model of the patched render_dependencies and the proof that it meets the
   specification for ALL documents and ALL generated JS/CSS - no guard.  (Not the code of /repo today; kept so
   that the model can be switched the moment the patch is applied.) *)
From DJC Require Import Lib.Base DepsRender.Model DepsRender.Spec DepsRender.Proofs.

Definition mask (r : kind -> str) (k : kind) : str := repeat 0%N (length (r k)).

(* _insert_js_css_to_default_locations(html, js, css, search_content=search) *)
Definition insert_default_in (search t : str) (js_c css_c : option str) : option str :=
  match css_c, js_c with
  | None, None => None
  | _, _ => let '(fh, lb) := find_loop (is_some css_c) (is_some js_c) search 0 0 None None in
            place_m t css_c js_c fh lb
  end.

Definition render_doc_fixed (js css : str) (t : str) : str :=
  let pt := ph_tokens t in
  let r := repl js css in
  let t' := subst r pt in
  let fc := has KCss pt in
  let fj := has KJs pt in
  if fc && fj then t'
  else match insert_default_in (subst (mask r) pt) t' (if fj then None else Some js) (if fc then None else Some css) with
       | Some x => x
       | None => t'
       end.

Lemma wtg_cut_nul a b : ws_then_gt (a ++ 0%N :: b) = ws_then_gt a.
Proof.
  induction a as [|c a IH]; simpl; [reflexivity|].
  destruct (N.eqb c GT); [reflexivity|]. destruct (is_uspace c); [now rewrite IH|reflexivity].
Qed.

Lemma me_cut_nul a b : a <> [] -> match_endtag (a ++ 0%N :: b) = match_endtag a.
Proof.
  intro Ha. rewrite !me_unfold. unfold lit, HEADL, BODYL.
  destruct a as [|c1 [|c2 [|c3 [|c4 [|c5 [|c6 a]]]]]]; [congruence| | | | | |];
    cbn [app starts_with length skipn]; split_eqbs; cbn [andb]; try reflexivity;
    now rewrite ?wtg_cut_nul.
Qed.

Lemma find_ns_nuls wc wj n rest : forall pos fh lb,
  find_ns wc wj (repeat 0%N n ++ rest) pos fh lb = find_ns wc wj rest (pos + n) fh lb.
Proof.
  induction n as [|n IH]; intros pos fh lb.
  - simpl. now rewrite Nat.add_0_r.
  - cbn [repeat app find_ns]. rewrite me_none_hd by discriminate. cbn [option_map upd].
    rewrite IH. f_equal. lia.
Qed.

Section Masked.
  Variable r : kind -> str.

  Lemma vis_mask (l : list (N + kind)) :
    exists rest, subst (mask r) l = vis r l ++ rest /\ (rest = [] \/ exists b, rest = 0%N :: b).
  Proof.
    induction l as [|[c|k] l IH].
    - exists []. split; auto.
    - destruct IH as (rest & E & Hr). exists rest. split; [|exact Hr].
      cbn [subst flat_map text vis app]. f_equal. exact E.
    - cbn [vis]. unfold subst. cbn [flat_map text]. unfold mask at 1. destruct (r k) as [|c x].
      + destruct IH as (rest & E & Hr). exists rest. split; [exact E|exact Hr].
      + cbn [length repeat app]. eexists. split; [reflexivity|]. right. eauto.
  Qed.

  Lemma find_ns_mask wc wj (l : list (N + kind)) : forall pos fh lb,
    find_ns wc wj (subst (mask r) l) pos fh lb = s_find r wc wj l pos fh lb.
  Proof.
    induction l as [|[c|k] l IH]; intros pos fh lb; [reflexivity| |].
    - change (subst (mask r) (inl c :: l)) with (c :: subst (mask r) l).
      cbn [find_ns s_find tag_here vis text length].
      assert (E : match_endtag (c :: subst (mask r) l) = match_endtag (c :: vis r l)).
      { destruct (vis_mask l) as (rest & E & [Hr|(b & Hr)]); rewrite E; subst rest.
        - now rewrite app_nil_r.
        - change (c :: vis r l ++ 0%N :: b) with ((c :: vis r l) ++ 0%N :: b). apply me_cut_nul. discriminate. }
      rewrite E. destruct (upd wc wj _ pos fh lb) as [fh' lb'].
      rewrite Nat.add_1_r. apply IH.
    - change (subst (mask r) (inr k :: l)) with (mask r k ++ subst (mask r) l).
      cbn [s_find tag_here upd text]. unfold mask at 1. rewrite find_ns_nuls. apply IH.
  Qed.

  Lemma mask_length (l : list (N + kind)) : length (subst (mask r) l) = length (subst r l).
  Proof.
    induction l as [|[c|k] l IH]; [reflexivity| |]; unfold subst in *; cbn [flat_map text]; rewrite !app_length, IH.
    - reflexivity.
    - unfold mask. now rewrite repeat_length.
  Qed.
End Masked.

Lemma insert_default_in_weave search t css js (bc bj : bool) :
  length search = length t ->
  match insert_default_in search t (if bj then Some js else None) (if bc then Some css else None) with
  | Some x => x
  | None => t
  end = let '(fh, lb) := find_ns bc bj search 0 None None in weave (ins2 fh lb css js) 0 t.
Proof.
  intro Hlen.
  destruct (find_ns bc bj search 0 None None) as [fh lb] eqn:E.
  pose proof (find_ns_bounds _ _ _ _ _ _ _ _ E) as (H1 & H2 & H3 & H4).
  assert (Hp : forall p, fh = Some p -> p <= length t).
  { intros p Hp. destruct H1 as [H1|(p' & H1 & Hb)]; [congruence|]. rewrite Hp in H1. inversion H1. lia. }
  assert (Hq : forall p, lb = Some p -> p <= length t).
  { intros p Hp'. destruct H2 as [H2|(p' & H2 & Hb)]; [congruence|]. rewrite Hp' in H2. inversion H2. lia. }
  unfold insert_default_in.
  destruct bc, bj; cbn [is_some].
  4:{ rewrite (H3 eq_refl), (H4 eq_refl). now rewrite weave_nil. }
  all: rewrite find_loop_ns by constructor; rewrite E.
  - apply (place_m_weave t css js true true); auto.
  - apply (place_m_weave t css js true false); auto.
  - apply (place_m_weave t css js false true); auto.
Qed.

Lemma render_doc_fixed_eq_spec : forall js css t, render_doc_fixed js css t = spec_doc js css t.
Proof.
  intros js css t. unfold render_doc_fixed, spec_doc.
  set (l := ph_tokens t). set (r := repl js css).
  rewrite <- (find_ns_mask r _ _ l 0 None None).
  pose proof (insert_default_in_weave (subst (mask r) l) (subst r l) css js
                (negb (has KCss l)) (negb (has KJs l)) (mask_length r l)) as W.
  destruct (has KCss l) eqn:Ec, (has KJs l) eqn:Ej; cbn [negb andb] in *.
  - cbn [insert_default_in] in W. exact W.
  - exact W.
  - exact W.
  - exact W.
Qed.
