(* Specification side of property C08 (S-model): what the property statement asks for, written without the
   code's slice arithmetic and without searching in already substituted text.  Definitions only. *)
From DJC Require Import Lib.Base DepsRender.Model.

(* ---------- "alters its input only by inserting the generated tags" ---------- *)
(* `inserted bl e o`: o is e with finitely many blocks of bl inserted - nothing else added, nothing removed,
   nothing reordered.  (A later insertion may land inside an earlier inserted block; the placement theorems
   below say when it does not.) *)
Inductive inserted (bl : list str) : str -> str -> Prop :=
| ins_refl : forall e, inserted bl e e
| ins_step : forall e a b x, inserted bl e (a ++ b) -> In x bl -> inserted bl e (a ++ x ++ b).

(* ---------- one-pass simultaneous insertion ---------- *)
(* walk over t once; before the symbol at index i (and at the very end) emit `ins i` *)
Fixpoint weave (ins : nat -> str) (i : nat) (t : str) {struct t} : str :=
  match t with
  | [] => ins i
  | c :: t' => ins i ++ c :: weave ins (S i) t'
  end.

Definition at_pos (o : option nat) (p : nat) (x : str) : str :=
  match o with
  | Some q => if Nat.eqb q p then x else []
  | None => []
  end.

(* ---------- end tags of the DOCUMENT: recognised in original symbols only ---------- *)
(* the original symbols visible from the head of a token list: placeholders whose replacement is empty vanish,
   an inserted block ends the run *)
Fixpoint vis (r : kind -> str) (l : list (N + kind)) : str :=
  match l with
  | [] => []
  | inl c :: q => c :: vis r q
  | inr k :: q => match r k with [] => vis r q | _ :: _ => [] end
  end.

Definition tag_here (r : kind -> str) (l : list (N + kind)) : option tag :=
  match l with
  | inl _ :: _ => option_map snd (match_endtag (vis r l))
  | _ => None
  end.

(* first </head> (when CSS has no placeholder) and last </body> (when JS has none); `pos` = offset of the
   token in the substituted text *)
Fixpoint s_find (r : kind -> str) (wc wj : bool) (l : list (N + kind)) (pos : nat) (fh lb : option nat)
  : option nat * option nat :=
  match l with
  | [] => (fh, lb)
  | tk :: q =>
      let '(fh', lb') := upd wc wj (tag_here r l) pos fh lb in
      s_find r wc wj q (pos + length (text r tk)) fh' lb'
  end.

(* document mode, position form: every placeholder is replaced; a kind without placeholder goes before the first
   </head> / the last </body> of the document; both insertions happen in one pass over the substituted text *)
Definition spec_doc (js css : str) (t : str) : str :=
  let l := ph_tokens t in
  let r := repl js css in
  let '(fh, lb) := s_find r (negb (has KCss l)) (negb (has KJs l)) l 0 None None in
  weave (fun p => at_pos fh p css ++ at_pos lb p js) 0 (subst r l).

(* ---------- THE specification: one left-to-right pass over the tokens of the document ---------- *)
(* No offsets, no substituted text: the document is the list of its own symbols and placeholders.  A symbol is
   copied, a placeholder is replaced by the tags of its kind; in front of the symbol at which the FIRST </head>
   of the document starts (no </head> seen before) the CSS is emitted when CSS has no placeholder; in front of
   the symbol at which the LAST </body> starts (none starts later) the JS is emitted when JS has no placeholder. *)
Definition head_here (r : kind -> str) (l : list (N + kind)) : bool :=
  match tag_here r l with Some Head => true | _ => false end.
Definition body_here (r : kind -> str) (l : list (N + kind)) : bool :=
  match tag_here r l with Some Body => true | _ => false end.

Fixpoint later_body (r : kind -> str) (l : list (N + kind)) : bool :=
  match l with
  | [] => false
  | _ :: q => body_here r l || later_body r q
  end.

Fixpoint one_pass (r : kind -> str) (css_c js_c : option str) (l : list (N + kind)) (seen_head : bool) : str :=
  match l with
  | [] => []
  | tk :: q =>
      (match css_c with Some css => if head_here r l && negb seen_head then css else [] | None => [] end)
      ++ (match js_c with Some js => if body_here r l && negb (later_body r q) then js else [] | None => [] end)
      ++ text r tk
      ++ one_pass r css_c js_c q (seen_head || head_here r l)
  end.

Definition spec_doc1 (js css : str) (t : str) : str :=
  let l := ph_tokens t in
  one_pass (repl js css) (if has KCss l then None else Some css) (if has KJs l then None else Some js) l false.

Definition spec_render (c : cfg) (ty : rtype) (d : str) : res str :=
  let parts := harvest d in
  if negb (forallb (fun p => is_some (part_hash p)) parts) then RErr EMalformed
  else if negb (forallb (part_known c) parts) then RErr EKeyError
  else
    let '(js, css) := deps c ty parts in
    let t := erase_markers d in
    match ty with
    | Document => ROk (spec_doc1 js css t)
    | Fragment => ROk (erase_ph t ++ js)       (* placeholders removed, JS appended at the end *)
    end.

(* the search without the finditer skipping: every position is tried *)
Fixpoint find_ns (wc wj : bool) (s : str) (pos : nat) (fh lb : option nat) : option nat * option nat :=
  match s with
  | [] => (fh, lb)
  | c :: s' =>
      let '(fh', lb') := upd wc wj (option_map snd (match_endtag (c :: s'))) pos fh lb in
      find_ns wc wj s' (S pos) fh' lb'
  end.

(* ---------- the two repaired defects, kept as definitions so that theorems can show the sensitivity ---------- *)
(* the offset arithmetic before fix fa2cce9 (index_offset added unconditionally) *)
Definition place_m_old (t : str) (css_c js_c : option str) (fh lb : option nat) : option str :=
  let '(u, off, modified) :=
    match css_c, fh with
    | Some css, Some i => (insert_at i css t, length css, true)
    | _, _ => (t, O, false)
    end in
  match js_c, lb with
  | Some js, Some j => Some (insert_at (j + off) js u)
  | _, _ => if modified then Some u else None
  end.

(* document mode before fix b234f8a: the end tags were searched in the substituted text itself *)
Definition render_doc_unmasked (js css : str) (t : str) : str :=
  let pt := ph_tokens t in
  let t1 := subst (repl js css) pt in
  let fc := has KCss pt in
  let fj := has KJs pt in
  if fc && fj then t1
  else match insert_default t1 t1 (if fj then None else Some js) (if fc then None else Some css) with
       | Some x => x
       | None => t1
       end.

(* ---------- what IS a render marker / a placeholder: the documented grammar, declaratively ---------- *)
Definition blank (w : str) : Prop := w <> [] /\ Forall (fun c => is_bspace c = true) w.

(* <!-- _RENDERED data -->  with non-empty ASCII white space at the three places, data = non-empty, no white space, no '>' *)
Definition MK_OPEN : str := [60;33;45;45]%N.                          (* <!-- *)
Definition MK_WORD : str := [95;82;69;78;68;69;82;69;68]%N.           (* _RENDERED *)
Definition MK_CLOSE : str := [45;45;62]%N.                            (* --> *)
Definition is_marker (span data : str) : Prop :=
  exists w1 w2 w3, blank w1 /\ blank w2 /\ blank w3 /\ data <> [] /\ Forall (fun c => is_data c = true) data /\
    span = MK_OPEN ++ w1 ++ MK_WORD ++ w2 ++ data ++ w3 ++ MK_CLOSE.

(* name + six word characters + ="" *)
Definition EQ_QQ : str := [61;34;34]%N.                                (* ="" *)
Definition is_attr (name a : str) : Prop :=
  exists w, length w = 6 /\ Forall (fun c => is_word c = true) w /\ a = name ++ w ++ EQ_QQ.
(* one attribute of a placeholder: ` data-djc-id-XXXXXX=""` or ` data-djc-css-XXXXXX=""` *)
Definition is_comp_attr (a : str) : Prop := is_attr COMP_ID a \/ is_attr CSS_ID a.
Inductive is_attrs : str -> Prop :=
| attrs_nil : is_attrs []
| attrs_cons a b : is_comp_attr a -> is_attrs b -> is_attrs (a ++ b).

(* <link name="CSS_PLACEHOLDER"( data-djc-(id|css)-XXXXXX="")*[/]>   and
   <script name="JS_PLACEHOLDER"( data-djc-(id|css)-XXXXXX="")*></script>      (attributes in any order and number) *)
Definition JS_CLOSE : str := [62;60;47;115;99;114;105;112;116;62]%N.   (* ></script> *)
Definition is_placeholder (span : str) (k : kind) : Prop :=
  exists ids, is_attrs ids /\
    match k with
    | KCss => exists sl, (sl = [] \/ sl = [47%N]) /\ span = CSS_OPEN ++ ids ++ sl ++ [GT]
    | KJs => span = JS_OPEN ++ ids ++ JS_CLOSE
    end.

(* `parts_of P d l`: the text d is cut, left to right, into kept symbols (inl) and spans that satisfy P (inr, with
   the token the span stands for); a symbol is kept only where no P-span starts (leftmost-first). *)
Inductive parts_of {A} (P : str -> A -> Prop) : str -> list (N + A) -> Prop :=
| po_nil : parts_of P [] []
| po_sym c d l : (forall span a rest, P span a -> c :: d <> span ++ rest) ->
                 parts_of P d l -> parts_of P (c :: d) (inl c :: l)
| po_tok span a d l : P span a -> parts_of P d l -> parts_of P (span ++ d) (inr a :: l).
