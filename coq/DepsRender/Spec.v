(* Specification side of property C08 (S-model): what the property statement asks for, written without the
   code's slice arithmetic and without searching in already substituted text.  Definitions only. *)
From DJC Require Import Lib.Base DepsRender.Model.

(* ---------- "alters its input only by inserting the generated tags" ---------- *)
(* `inserted bl e o`: o is e with finitely many blocks of bl inserted - nothing else added, nothing removed,
   nothing reordered.  (A later insertion may land inside an earlier inserted block; the placement theorems
   below say when it does not.) *)
Inductive inserted (bl : list str) : str -> str -> Prop :=
| ins_refl : forall e, inserted bl e e
| ins_step : forall e a b x, inserted bl e (a ++ b) -> In x bl -> inserted bl e (a ++ x ++ b).

(* ---------- one-pass simultaneous insertion ---------- *)
(* walk over t once; before the symbol at index i (and at the very end) emit `ins i` *)
Fixpoint weave (ins : nat -> str) (i : nat) (t : str) {struct t} : str :=
  match t with
  | [] => ins i
  | c :: t' => ins i ++ c :: weave ins (S i) t'
  end.

Definition at_pos (o : option nat) (p : nat) (x : str) : str :=
  match o with
  | Some q => if Nat.eqb q p then x else []
  | None => []
  end.

(* ---------- end tags of the DOCUMENT: recognised in original symbols only ---------- *)
(* the original symbols visible from the head of a token list: placeholders whose replacement is empty vanish,
   an inserted block ends the run *)
Fixpoint vis (r : kind -> str) (l : list (N + kind)) : str :=
  match l with
  | [] => []
  | inl c :: q => c :: vis r q
  | inr k :: q => match r k with [] => vis r q | _ :: _ => [] end
  end.

Definition tag_here (r : kind -> str) (l : list (N + kind)) : option tag :=
  match l with
  | inl _ :: _ => option_map snd (match_endtag (vis r l))
  | _ => None
  end.

(* first </head> (when CSS has no placeholder) and last </body> (when JS has none); `pos` = offset of the
   token in the substituted text *)
Fixpoint s_find (r : kind -> str) (wc wj : bool) (l : list (N + kind)) (pos : nat) (fh lb : option nat)
  : option nat * option nat :=
  match l with
  | [] => (fh, lb)
  | tk :: q =>
      let '(fh', lb') := upd wc wj (tag_here r l) pos fh lb in
      s_find r wc wj q (pos + length (text r tk)) fh' lb'
  end.

(* document mode: every placeholder is replaced; a kind without placeholder goes before the first </head> /
   the last </body> of the document; both insertions happen in one pass *)
Definition spec_doc (js css : str) (t : str) : str :=
  let l := ph_tokens t in
  let r := repl js css in
  let '(fh, lb) := s_find r (negb (has KCss l)) (negb (has KJs l)) l 0 None None in
  weave (fun p => at_pos fh p css ++ at_pos lb p js) 0 (subst r l).

Definition spec_render (c : cfg) (ty : rtype) (d : str) : res str :=
  let parts := harvest d in
  if negb (forallb (fun p => is_some (part_hash p)) parts) then RErr EMalformed
  else if negb (forallb (part_known c) parts) then RErr EKeyError
  else
    let '(js, css) := deps c ty parts in
    let t := erase_markers d in
    match ty with
    | Document => ROk (spec_doc js css t)
    | Fragment => ROk (erase_ph t ++ js)
    end.

(* ---------- the guard of the placement theorem ---------- *)
(* An inserted block is opaque for the end-tag search: it is empty, or it starts with '<', ends with '>' and
   no end tag is recognised anywhere inside it.  (Negation = trigger class c08-endtag-in-inserted-tags.) *)
Definition tag_okb (r : str) : bool :=
  match r with
  | [] => true
  | c :: _ => N.eqb c LT && N.eqb (last r 0%N) GT
              && forallb (fun j => negb (is_some (match_endtag (skipn j r)))) (seq 0 (length r))
  end.

(* the search without the finditer skipping: every position is tried *)
Fixpoint find_ns (wc wj : bool) (s : str) (pos : nat) (fh lb : option nat) : option nat * option nat :=
  match s with
  | [] => (fh, lb)
  | c :: s' =>
      let '(fh', lb') := upd wc wj (option_map snd (match_endtag (c :: s'))) pos fh lb in
      find_ns wc wj s' (S pos) fh' lb'
  end.

(* the offset arithmetic before fix fa2cce9 (index_offset added unconditionally) - kept to show that the
   placement theorem is sensitive to exactly that defect *)
Definition place_m_old (t : str) (css_c js_c : option str) (fh lb : option nat) : option str :=
  let '(u, off, modified) :=
    match css_c, fh with
    | Some css, Some i => (insert_at i css t, length css, true)
    | _, _ => (t, O, false)
    end in
  match js_c, lb with
  | Some js, Some j => Some (insert_at (j + off) js u)
  | _, _ => if modified then Some u else None
  end.
