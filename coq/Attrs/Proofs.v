(* Proofs for property C13 (model: Attrs/Model.v). *)
From Coq Require Import String.
From DJC Require Import Lib.Base Attrs.Model.
From DJC Require Gen.C13.
Local Open Scope N_scope.

(* ================================================================================================ *)
(* anchors: the constants the model was written for are the ones the source (and Django) has NOW     *)
(* (Gen/C13.v is regenerated from the tree under test on every run; an edit there breaks these)      *)
(* ================================================================================================ *)
Example wrap_js_anchor :
  (Gen.C13.js_needle, Gen.C13.js_lowered, Gen.C13.js_open, Gen.C13.js_close) = (needle_js, true, open_js, close_js).
Proof. reflexivity. Qed.
Example wrap_css_anchor :
  (Gen.C13.css_needle, Gen.C13.css_lowered, Gen.C13.css_open, Gen.C13.css_close) = (needle_css, true, open_css, close_css).
Proof. reflexivity. Qed.
(* format_html('{}="{}"', key, value), " ".join(...), result[key] += " " + value *)
Example attr_format_anchor :
  (Gen.C13.attr_format, Gen.C13.attr_sep, Gen.C13.append_sep) = ([123;125;61;34;123;125;34], [32], [32]).
Proof. reflexivity. Qed.
(* Django's escape changes exactly the five characters of escape1, in the same way *)
Example escape_anchor :
  map fst Gen.C13.escape_table = [34; 38; 39; 60; 62] /\
  forallb (fun p => str_eqb (escape1 (fst p)) (snd p)) Gen.C13.escape_table = true.
Proof. split; reflexivity. Qed.

(* the name check of attributes_to_string: the character class, as pattern text and as the set of code points below
   U+3000 the compiled regex matches (the harness checks on every run that nothing above U+3000 matches), and the
   order / wording of the tests in the loop (skip None / False; refuse unless SafeData or non-empty and clean; True bare) *)
Example name_pattern_anchor : Gen.C13.invalid_name_pattern = s2n "[\x00-\x20\x7f-\x9f""'>/=&<]"%string.
Proof. reflexivity. Qed.
Example name_class_anchor :
  forallb (fun c => Bool.eqb (name_char_ok c) (negb (existsb (N.eqb c) Gen.C13.invalid_name_chars)))
          (map N.of_nat (seq 0 12288)) = true.
Proof. vm_compute. reflexivity. Qed.
Example name_check_anchor : Gen.C13.name_check_tests =
  s2n "value is None or value is False ;; not isinstance(key, SafeData) and (not str(key) or _INVALID_ATTR_NAME_RE.search(str(key))) ;; value is True"%string.
Proof. reflexivity. Qed.

(* ================================================================================================ *)
(* escape / decode                                                                                  *)
(* ================================================================================================ *)
Definition special (c : N) : bool :=
  N.eqb c 38 || N.eqb c 60 || N.eqb c 62 || N.eqb c 34 || N.eqb c 39.

Lemma escape1_ordinary c : special c = false -> escape1 c = [c].
Proof.
  unfold special, escape1. intro H.
  repeat (apply orb_false_iff in H; destruct H as [H ?]).
  now rewrite H, H0, H1, H2, H3.
Qed.

Lemma escape1_cases c :
  (c = 38 \/ c = 60 \/ c = 62 \/ c = 34 \/ c = 39) \/ special c = false.
Proof.
  unfold special.
  destruct (N.eqb_spec c 38); [left; auto|].
  destruct (N.eqb_spec c 60); [left; auto|].
  destruct (N.eqb_spec c 62); [left; auto|].
  destruct (N.eqb_spec c 34); [left; auto 6|].
  destruct (N.eqb_spec c 39); [left; auto 6|].
  right. reflexivity.
Qed.

Lemma escape_cons c s : escape (c :: s) = escape1 c ++ escape s.
Proof. reflexivity. Qed.

Lemma escape_app a b : escape (a ++ b) = escape a ++ escape b.
Proof. unfold escape. apply flat_map_app. Qed.

(* the reader undoes escape, for every string *)
Lemma decode_escape s : decode (escape s) = s.
Proof.
  unfold decode. induction s as [|c s IH]; [reflexivity|].
  rewrite escape_cons.
  destruct (escape1_cases c) as [[E|[E|[E|[E|E]]]]|E].
  1-5: subst c; cbn; f_equal; exact IH.
  rewrite (escape1_ordinary c E). cbn [app dec].
  assert (Hc : N.eqb c 38 = false).
  { unfold special in E. apply orb_false_iff in E. destruct E as [E _].
    repeat (apply orb_false_iff in E; destruct E as [E _]). exact E. }
  rewrite Hc. f_equal. exact IH.
Qed.

Lemma escape1_no_dq c : ~ In 34 (escape1 c).
Proof.
  destruct (escape1_cases c) as [[E|[E|[E|[E|E]]]]|E].
  1-5: subst c; cbn; intros H; repeat (destruct H as [H|H]; [discriminate H|]); exact H.
  rewrite (escape1_ordinary c E). intros [H|[]]. subst c. discriminate E.
Qed.

Lemma escape_no_dq s : ~ In 34 (escape s).
Proof.
  induction s as [|c s IH]; [intros []|]. rewrite escape_cons. intro H.
  apply in_app_or in H. destruct H as [H|H]; [exact (escape1_no_dq c H) | exact (IH H)].
Qed.

(* ================================================================================================ *)
(* the tokenizer on rendered attributes                                                             *)
(* ================================================================================================ *)
Lemma name_char_ok_facts c : name_char_ok c = true ->
  N.eqb c 62 = false /\ is_ws c = false /\ N.eqb c 47 = false /\ N.eqb c 61 = false /\ special c = false.
Proof.
  unfold name_char_ok, is_ws, special. intro H. apply negb_true_iff in H.
  repeat (apply orb_false_iff in H; destruct H as [H ?]).
  destruct (N.leb_spec c 32) as [L|L]; [discriminate H|].
  repeat match goal with
  | |- context [N.eqb c ?k] => destruct (N.eqb_spec c k); [subst c; try discriminate; try lia|]
  end.
  repeat split; reflexivity.
Qed.

Lemma valid_name_escape k : forallb name_char_ok k = true -> escape k = k.
Proof.
  induction k as [|c k IH]; [reflexivity|]. cbn [forallb]. intro H. apply andb_true_iff in H as [H1 H2].
  rewrite escape_cons, (IH H2). destruct (name_char_ok_facts c H1) as (_ & _ & _ & _ & S).
  now rewrite (escape1_ordinary c S).
Qed.

Lemma tok_cons c r st acc : tok (c :: r) st acc =
  match step st c acc with Go st' acc' => tok r st' acc' | Stop acc' => BrokeOut (rev acc') r end.
Proof. reflexivity. Qed.

(* the rest of a name *)
Lemma tok_name_rest k : forallb name_char_ok k = true -> forall rest n acc,
  tok (k ++ rest) (SName n) acc = tok rest (SName (rev (map lower_ascii k) ++ n)) acc.
Proof.
  induction k as [|c k IH]; intros H rest n acc; [reflexivity|].
  cbn [forallb] in H. apply andb_true_iff in H as [H1 H2].
  destruct (name_char_ok_facts c H1) as (G & W & S & E & _).
  cbn [app]. rewrite tok_cons. cbn [step]. rewrite G, W, S, E.
  rewrite (IH H2). cbn [map rev]. now rewrite <- app_assoc.
Qed.

(* states in which the tokenizer is ready for the next attribute, and what they still owe *)
Inductive ready : tstate -> Prop := ready_before : ready SBefore | ready_after m : ready (SAfterName m).
Definition owed (st : tstate) (acc : list (str * option str)) : list (str * option str) :=
  match st with SAfterName m => (m, None) :: acc | _ => acc end.

Lemma tok_name k : valid_name k = true -> forall R rest acc, ready R ->
  tok (k ++ rest) R acc = tok rest (SName (rev (map lower_ascii k))) (owed R acc).
Proof.
  destruct k as [|c k]; [discriminate|]. cbn [valid_name forallb]. intros H R rest acc HR.
  apply andb_true_iff in H as [H1 H2].
  destruct (name_char_ok_facts c H1) as (G & W & S & E & _).
  cbn [app]. rewrite tok_cons.
  destruct HR; cbn [step]; rewrite G, W; try rewrite E; unfold start_attr; rewrite S;
    rewrite (tok_name_rest k H2); cbn [map rev owed]; reflexivity.
Qed.

Lemma tok_dq_body body : ~ In 34 body -> forall rest m v acc,
  tok (body ++ rest) (SDQ m v) acc = tok rest (SDQ m (rev body ++ v)) acc.
Proof.
  induction body as [|c body IH]; intros H rest m v acc; [reflexivity|].
  cbn [app]. rewrite tok_cons. cbn [step].
  destruct (N.eqb_spec c 34) as [->|Hc]; [exfalso; apply H; left; reflexivity|].
  rewrite IH; [|intro; apply H; right; assumption]. cbn [rev]. now rewrite <- app_assoc.
Qed.

Lemma step_name_eq n acc : step (SName n) 61 acc = Go (SBeforeVal (rev n)) acc.
Proof. reflexivity. Qed.
Lemma step_beforeval_dq m acc : step (SBeforeVal m) 34 acc = Go (SDQ m []) acc.
Proof. reflexivity. Qed.
Lemma step_dq_close m v acc : step (SDQ m v) 34 acc = Go SAfterQ ((m, Some (decode (rev v))) :: acc).
Proof. reflexivity. Qed.

(* one rendered attribute with a value, read from a ready state *)
Lemma tok_valued k t : valid_name k = true -> forall R rest acc, ready R ->
  tok ((k ++ [61; 34] ++ escape t ++ [34]) ++ rest) R acc
  = tok rest SAfterQ ((map lower_ascii k, Some t) :: owed R acc).
Proof.
  intros Hk R rest acc HR. rewrite <- app_assoc. rewrite (tok_name k Hk R _ acc HR).
  cbn [app]. rewrite tok_cons, step_name_eq, tok_cons, step_beforeval_dq.
  rewrite <- app_assoc. rewrite (tok_dq_body (escape t) (escape_no_dq t)).
  cbn [app]. rewrite tok_cons, step_dq_close. rewrite app_nil_r, !rev_involutive, decode_escape.
  reflexivity.
Qed.

Lemma tok_bare k : valid_name k = true -> forall R rest acc, ready R ->
  tok (k ++ rest) R acc = tok rest (SName (rev (map lower_ascii k))) (owed R acc).
Proof. exact (tok_name k). Qed.

(* states in which the tokenizer stands right after a rendered attribute *)
Inductive after : tstate -> Prop := after_q : after SAfterQ | after_name n : after (SName n).
Definition next_ready (st : tstate) : tstate := match st with SName n => SAfterName (rev n) | _ => SBefore end.

Lemma tok_space A rest acc : after A -> tok (32 :: rest) A acc = tok rest (next_ready A) acc.
Proof. intros []; reflexivity. Qed.

Lemma next_ready_ready A : after A -> ready (next_ready A).
Proof. intros []; constructor. Qed.

Lemma owed_next_ready A acc : after A -> owed (next_ready A) acc = finish A acc.
Proof. intros []; reflexivity. Qed.

Definition valued (v : aval) : bool := match v with VNone | VFalse | VTrue => false | _ => true end.

(* one emitted entry with a plain key, a valid name and a non-safe value *)
Lemma item_guard k v : rendered v = true -> valid_name k = true -> not_safe v = true ->
  (v = VTrue /\ render_item ((k, false), v) = Some k /\ expected_item ((k, false), v) = Some (map lower_ascii k, None)) \/
  (render_item ((k, false), v) = Some (k ++ [61; 34] ++ escape (text_of v) ++ [34]) /\
   expected_item ((k, false), v) = Some (map lower_ascii k, Some (text_of v))).
Proof.
  intros Hr Hk Hs. assert (Ek : escape k = k).
  { apply valid_name_escape. destruct k; [discriminate|exact Hk]. }
  destruct v; try discriminate; cbn [render_item expected_item cesc kesc text_of fst snd]; rewrite Ek; auto.
Qed.

(* guard under which the text reads back: every emitted entry has a plain key with a valid name and a non-safe value *)
Definition roundtrip_guard (d : list ((str * bool) * aval)) : bool :=
  forallb (fun kv => negb (rendered (snd kv)) || (negb (snd (fst kv)) && valid_name (fst (fst kv)) && not_safe (snd kv))) d.

Lemma guard_entry k v : rendered v = true ->
  negb (rendered v) || (negb (snd k) && valid_name (fst k) && not_safe v) = true ->
  exists n, k = (n, false) /\ valid_name n = true /\ not_safe v = true.
Proof.
  intros Hr H. rewrite Hr in H. cbn [negb orb] in H.
  apply andb_true_iff in H as [H Hs]. apply andb_true_iff in H as [Hp Hk].
  destruct k as [n [|]]; [discriminate|]. exists n. auto.
Qed.

Lemma not_rendered_item k v : rendered v = false -> render_item (k, v) = None /\ expected_item (k, v) = None.
Proof. destruct v; try discriminate; split; reflexivity. Qed.

(* the attributes that follow the first one: each preceded by one space *)
Lemma tok_tail d : roundtrip_guard d = true -> forall A acc, after A ->
  tok (flat_map (cons 32) (filter_some (map render_item d))) A acc
  = Parsed (rev (finish A acc) ++ expected d).
Proof.
  induction d as [|[k v] d IH]; intros G A acc HA.
  - cbn. destruct HA; cbn; now rewrite app_nil_r.
  - cbn [roundtrip_guard forallb fst snd] in G. apply andb_true_iff in G as [G1 G2].
    fold (roundtrip_guard d) in G2. unfold expected. cbn [map].
    pose proof (fun H => guard_entry k v H G1) as GE.
    destruct (rendered v) eqn:Hr.
    + destruct (GE eq_refl) as (n & -> & Hk & Hs).
      destruct (item_guard n v Hr Hk Hs) as [(-> & Er & Ee)|(Er & Ee)]; rewrite Er, Ee;
        cbn [filter_some flat_map app]; rewrite (tok_space A _ acc HA).
      * rewrite (tok_bare n Hk _ _ acc (next_ready_ready A HA)).
        rewrite (owed_next_ready A acc HA).
        fold (expected d). rewrite (IH G2 _ _ (after_name _)). cbn [finish rev].
        rewrite rev_involutive, <- app_assoc. reflexivity.
      * rewrite (tok_valued n (text_of v) Hk _ _ acc (next_ready_ready A HA)).
        rewrite (owed_next_ready A acc HA).
        fold (expected d). rewrite (IH G2 _ _ after_q). cbn [finish rev].
        rewrite <- app_assoc. reflexivity.
    + destruct (not_rendered_item k v Hr) as [Er Ee].
      rewrite Er, Ee. cbn [filter_some]. fold (expected d). apply (IH G2 A acc HA).
Qed.

Lemma join_sp_cons x r : join_sp (x :: r) = x ++ flat_map (cons 32) r.
Proof.
  revert x. induction r as [|y r IH]; intro x; [cbn; now rewrite app_nil_r|].
  change (join_sp (x :: y :: r)) with (x ++ 32 :: join_sp (y :: r)). rewrite IH. reflexivity.
Qed.

Lemma ats_text_roundtrip d : roundtrip_guard d = true -> parse_attrs (ats_text d) = Parsed (expected d).
Proof.
  unfold parse_attrs, ats_text.
  induction d as [|[k v] d IH]; intro G; [reflexivity|].
  cbn [roundtrip_guard forallb fst snd] in G. apply andb_true_iff in G as [G1 G2].
  fold (roundtrip_guard d) in G2. unfold expected. cbn [map].
  pose proof (fun H => guard_entry k v H G1) as GE.
  destruct (rendered v) eqn:Hr.
  - destruct (GE eq_refl) as (n & -> & Hk & Hs).
    destruct (item_guard n v Hr Hk Hs) as [(-> & Er & Ee)|(Er & Ee)]; rewrite Er, Ee;
      cbn [filter_some]; rewrite join_sp_cons.
    + rewrite (tok_bare n Hk SBefore _ [] ready_before). cbn [owed].
      fold (expected d). rewrite (tok_tail d G2 _ _ (after_name _)). cbn [finish rev app].
      now rewrite rev_involutive.
    + rewrite (tok_valued n (text_of v) Hk SBefore _ [] ready_before). cbn [owed].
      fold (expected d). rewrite (tok_tail d G2 _ _ after_q). reflexivity.
  - destruct (not_rendered_item k v Hr) as [Er Ee].
    rewrite Er, Ee. cbn [filter_some]. fold (expected d). exact (IH G2).
Qed.

(* what the code's own name check accepts, together with "no SafeString among what is emitted", is the guard *)
Lemma names_ok_guard d : plain_emitted d = true -> names_ok d = true -> roundtrip_guard d = true.
Proof.
  unfold names_ok, roundtrip_guard, plain_emitted. induction d as [|[k v] d IH]; [reflexivity|].
  cbn [forallb fst snd]. intros H1 H2. apply andb_true_iff in H1 as [A1 A2]. apply andb_true_iff in H2 as [B1 B2].
  rewrite (IH A2 B2), andb_true_r. destruct (rendered v); cbn [negb orb] in *; [|reflexivity].
  apply andb_true_iff in A1 as [P S]. unfold key_ok in B1. destruct (snd k); [discriminate P|].
  cbn [orb negb andb] in *. now rewrite B1, S.
Qed.

(* REFUSAL, every dictionary (safe or not): ValueError exactly when some attribute that would be emitted has a
   non-safe name that is empty or contains a character of the forbidden class *)
Lemma attrs_refused_iff_lemma d :
  attributes_to_string d = None <->
  exists n v, In ((n, false), v) d /\ rendered v = true /\ valid_name n = false.
Proof.
  unfold attributes_to_string. destruct (names_ok d) eqn:E; split.
  - discriminate.
  - intros (n & v & I & R & V). exfalso. unfold names_ok in E. rewrite forallb_forall in E.
    specialize (E _ I). cbn [fst snd] in E. rewrite R in E. unfold key_ok in E. cbn [fst snd negb orb] in E.
    rewrite V in E. discriminate E.
  - intros _. unfold names_ok in E. induction d as [|[k v] d IH]; [discriminate|].
    cbn [forallb fst snd] in E. apply andb_false_iff in E as [E|E].
    + destruct (rendered v) eqn:R; [|discriminate E]. cbn [negb orb] in E. unfold key_ok in E.
      destruct k as [n [|]]; [discriminate E|]. cbn [fst snd orb] in E.
      exists n, v. split; [left; reflexivity|]. split; assumption.
    + destruct (IH E) as (n & v' & I & R). exists n, v'. split; [right; exact I|exact R].
  - reflexivity.
Qed.

(* ROUND TRIP at full strength: whatever characters the non-safe names and values contain, either the text is
   refused because an emitted name cannot be written as one attribute name, or it reads back exactly *)
Lemma attrs_roundtrip_lemma d : plain_emitted d = true ->
  match attributes_to_string d with
  | Some out => parse_attrs out = Parsed (expected d)
  | None => exists n v, In ((n, false), v) d /\ rendered v = true /\ valid_name n = false
  end.
Proof.
  intro Hs. destruct (attributes_to_string d) as [out|] eqn:E.
  - unfold attributes_to_string in E. destruct (names_ok d) eqn:N; [|discriminate E]. injection E as <-.
    apply ats_text_roundtrip. exact (names_ok_guard d Hs N).
  - apply attrs_refused_iff_lemma. exact E.
Qed.

(* the name check is needed: without it a name with a space is read back as two attributes (html.parser agrees);
   this was the behaviour before commit c3ea7ff *)
Lemma unchecked_names_do_not_roundtrip :
  exists d, plain_emitted d = true /\ parse_attrs (ats_text d) <> Parsed (expected d).
Proof. exists [(([97; 32; 98], false), VStr [118])]. split; [reflexivity|]. vm_compute. discriminate. Qed.

(* names and number of the attributes read back depend on the names and kinds only, never on the values *)
Definition shape (kv : (str * bool) * aval) : (str * bool) * option bool :=
  (fst kv, match snd kv with VNone | VFalse => None | VTrue => Some false | _ => Some true end).

Lemma expected_names_shape d d' : map shape d = map shape d' ->
  map fst (expected d) = map fst (expected d') /\
  map (fun a => match snd a with Some _ => true | None => false end) (expected d)
  = map (fun a => match snd a with Some _ => true | None => false end) (expected d').
Proof.
  revert d'. induction d as [|[k v] d IH]; intros [|[k' v'] d'] H; try discriminate; [split; reflexivity|].
  cbn [map shape fst snd] in H. injection H as Hk Hv Hr.
  destruct (IH d' Hr) as [I1 I2]. unfold expected in *. cbn [map]. subst k'.
  destruct v, v'; try discriminate; cbn [expected_item filter_some map fst snd]; split; congruence.
Qed.

Lemma names_ok_shape d d' : map shape d = map shape d' -> names_ok d = names_ok d'.
Proof.
  revert d'. induction d as [|[k v] d IH]; intros [|[k' v'] d'] H; try discriminate; [reflexivity|].
  cbn [map shape fst snd] in H. injection H as Hk Hv Hr. unfold names_ok in *. cbn [forallb fst snd].
  rewrite (IH d' Hr). subst k'. f_equal. destruct v, v'; try discriminate; reflexivity.
Qed.

(* CANNOT BREAK OUT: two dictionaries with the same names and the same kinds of values (omitted / bare / valued)
   are both refused or both emitted, and when emitted read back with the same names, the same number of attributes
   and nothing outside the tag - whatever the value strings are *)
Lemma cannot_break_out_lemma d d' :
  plain_emitted d = true -> plain_emitted d' = true -> map shape d = map shape d' ->
  match attributes_to_string d, attributes_to_string d' with
  | Some out, Some out' =>
      exists l l', parse_attrs out = Parsed l /\ parse_attrs out' = Parsed l' /\
                   map fst l = map fst l' /\ length l = length l'
  | None, None => True
  | _, _ => False
  end.
Proof.
  intros G G' H. pose proof (attrs_roundtrip_lemma d G) as R. pose proof (attrs_roundtrip_lemma d' G') as R'.
  unfold attributes_to_string in *. rewrite <- (names_ok_shape d d' H) in *.
  destruct (names_ok d); [|exact I].
  exists (expected d), (expected d'). destruct (expected_names_shape d d' H) as [H1 _]. repeat split; try assumption.
  rewrite <- (map_length fst (expected d)), H1. apply map_length.
Qed.

(* NONE / FALSE OMITTED, TRUE BARE, in terms of what the reader finds: as many attributes as entries whose value is
   not None / False; the bare ones are exactly the True entries, the valued ones exactly the other entries with the
   text of their value *)
Lemma in_expected d a : In a (expected d) <->
  exists k v, In (k, v) d /\ rendered v = true /\ fst a = map lower_ascii (fst k) /\
              snd a = if valued v then Some (text_of v) else None.
Proof.
  unfold expected. induction d as [|[k v] d IH]; cbn [map filter_some In].
  - split; [intros []|intros (k & v & [] & _)].
  - destruct (rendered v) eqn:R.
    + assert (E : expected_item (k, v) = Some (map lower_ascii (fst k), if valued v then Some (text_of v) else None)).
      { destruct v; try discriminate; reflexivity. }
      rewrite E. cbn [filter_some In]. rewrite IH. split.
      * intros [<-|(k' & v' & I & X)]; [exists k, v; cbn [fst snd]; auto|exists k', v'; split; [right; exact I|exact X]].
      * intros (k' & v' & [I|I] & R' & F & S).
        -- injection I as <- <-. left. destruct a as [a1 a2]. cbn [fst snd] in F, S. now subst.
        -- right. exists k', v'. auto.
    + destruct (not_rendered_item k v R) as [_ ->]. rewrite IH. split.
      * intros (k' & v' & I & X). exists k', v'. split; [right; exact I|exact X].
      * intros (k' & v' & [I|I] & R' & X); [injection I as <- <-; rewrite R in R'; discriminate|].
        exists k', v'. auto.
Qed.

Lemma length_expected d : length (expected d) = length (filter (fun kv => rendered (snd kv)) d).
Proof.
  unfold expected. induction d as [|[k v] d IH]; [reflexivity|]. cbn [map filter snd].
  destruct v; cbn [expected_item filter_some rendered length]; now rewrite IH.
Qed.

Lemma omitted_bare_lemma d out : plain_emitted d = true -> attributes_to_string d = Some out ->
  exists l, parse_attrs out = Parsed l /\
    length l = length (filter (fun kv => rendered (snd kv)) d) /\
    (forall n, In (n, None) l <-> exists k, In (k, VTrue) d /\ n = map lower_ascii (fst k)) /\
    (forall n t, In (n, Some t) l <->
                 exists k v, In (k, v) d /\ valued v = true /\ n = map lower_ascii (fst k) /\ t = text_of v).
Proof.
  intros G E. pose proof (attrs_roundtrip_lemma d G) as R. rewrite E in R.
  exists (expected d). split; [exact R|]. split; [apply length_expected|]. split.
  - intro n. rewrite in_expected. cbn [fst snd]. split.
    + intros (k & v & I & Rv & -> & S). exists k. split; [|reflexivity].
      destruct v; try discriminate; exact I.
    + intros (k & I & ->). exists k, VTrue. auto.
  - intros n t. rewrite in_expected. cbn [fst snd]. split.
    + intros (k & v & I & Rv & -> & S). exists k, v. destruct (valued v) eqn:V; [|discriminate S].
      injection S as <-. auto.
    + intros (k & v & I & V & -> & ->). exists k, v. rewrite V. repeat split; auto.
      destruct v; try discriminate; reflexivity.
Qed.

(* ================================================================================================ *)
(* slot content                                                                                     *)
(* ================================================================================================ *)
Lemma repass_escaped f flags : travel (f, true) (map Repass flags) = (f, true).
Proof. induction flags as [|b r IH]; [reflexivity|]. cbn. exact IH. Qed.

Lemma user_value_normalize c b v : user_value c = Some v ->
  (exists w, c = CStr v /\ normalize c b = (FText w, false) /\ w = (if b then cond_escape v else v)) \/
  (exists f, normalize c b = (f, true) /\
             call f = if b && negb (declared_escaped c) then cond_escape v else v).
Proof.
  destruct c as [w|w|[f e]]; cbn [user_value]; intro H.
  - injection H as ->. left. eexists. repeat split.
  - injection H as ->. right. eexists. split; [reflexivity|]. cbn. destruct b; reflexivity.
  - destruct f; try discriminate. injection H as ->. right. destruct e; eexists; (split; [reflexivity|]).
    + cbn. now rewrite andb_false_r.
    + cbn. destruct b; reflexivity.
Qed.

Lemma stext_cond_escape v : stext (cond_escape v) = if is_plain v then escape (stext v) else stext v.
Proof. destruct v; reflexivity. Qed.

(* EXACTLY ONCE: through every chain of handing the normalised slot on (any flags, incl. the dynamic
   component's flag=false), the text emitted is the content escaped once iff escaping was on at the entry,
   the content is not safe and was not declared escaped - and the content itself otherwise. *)
Lemma slot_once_lemma c b v flags : user_value c = Some v ->
  emit (travel (normalize c b) (map Repass flags))
  = if b && negb (declared_escaped c) && is_plain v then escape (stext v) else stext v.
Proof.
  intro H. destruct (user_value_normalize c b v H) as [(w & -> & -> & ->)|(f & -> & Hc)].
  - cbn [declared_escaped negb]. rewrite andb_true_r.
    assert (E : forall w, emit (travel (FText w, false) (map Repass flags)) = stext w).
    { intro w. destruct flags as [|b1 r]; [reflexivity|]. cbn [map travel fold_left hop1 normalize].
      change (fold_left hop1 (map Repass r) (FEsc b1 (FText w), true))
        with (travel (FEsc b1 (FText w), true) (map Repass r)).
      rewrite repass_escaped. unfold emit. cbn. destruct b1; reflexivity. }
    rewrite E. destruct b; cbn [andb]; [apply stext_cond_escape|reflexivity].
  - rewrite repass_escaped. unfold emit. cbn [fst]. rewrite Hc.
    destruct (b && negb (declared_escaped c)); cbn [andb]; [apply stext_cond_escape|reflexivity].
Qed.

(* NEVER TWICE, whatever happens on the way (also when user code re-wraps the slot in a fresh Slot(...)
   and hands it on with escaping requested): the text emitted is the content or the content escaped once,
   and safe content is never touched. *)
Definition once_or_never (v r : sval) : Prop :=
  r = v \/ exists t, r = Safe t /\ (t = stext v \/ (is_plain v = true /\ t = escape (stext v))).

Lemma once_or_never_escape v r : once_or_never v r -> once_or_never v (cond_escape r).
Proof.
  intros [->|(t & -> & H)].
  - destruct v as [s|s]; [right; exists (escape s); split; [reflexivity|right; split; reflexivity]
                          | left; reflexivity].
  - right. exists t. split; [reflexivity|exact H].
Qed.

Lemma hop_preserves v s h : once_or_never v (call (fst s)) -> once_or_never v (call (fst (hop1 s h))).
Proof.
  destruct s as [f e]. intro H.
  destruct h as [b|b]; cbn [hop1 normalize fst].
  - destruct e; cbn [fst]; [exact H|]. cbn [call]. destruct b; [apply once_or_never_escape|]; exact H.
  - cbn [call]. destruct b; [apply once_or_never_escape|]; exact H.
Qed.

Lemma travel_preserves v hs : forall s, once_or_never v (call (fst s)) ->
  once_or_never v (call (fst (travel s hs))).
Proof.
  induction hs as [|h hs IH]; intros s H; [exact H|]. cbn [travel fold_left].
  apply (IH (hop1 s h)). apply hop_preserves. exact H.
Qed.

Lemma normalize_once_or_never c b v : user_value c = Some v -> once_or_never v (call (fst (normalize c b))).
Proof.
  intro H. destruct (user_value_normalize c b v H) as [(w & -> & -> & ->)|(f & -> & Hc)]; cbn [fst].
  - cbn [call]. right. destruct b.
    + exists (stext (cond_escape v)). split; [reflexivity|]. rewrite stext_cond_escape.
      destruct v; cbn; [right; split; reflexivity|left; reflexivity].
    + exists (stext v). split; [reflexivity|left; reflexivity].
  - rewrite Hc. destruct (b && negb (declared_escaped c)); [apply once_or_never_escape|]; left; reflexivity.
Qed.

Lemma slot_never_twice_lemma c b v hs : user_value c = Some v ->
  let out := emit (travel (normalize c b) hs) in
  (out = stext v \/ (is_plain v = true /\ out = escape (stext v))).
Proof.
  intros H out. pose proof (travel_preserves v hs _ (normalize_once_or_never c b v H)) as K.
  unfold out, emit. destruct K as [->|(t & -> & K)]; [left; reflexivity|exact K].
Qed.

(* ================================================================================================ *)
(* end-tag guard                                                                                    *)
(* ================================================================================================ *)
Definition ascii_fixed (x : N) : Prop := x < 65 \/ (90 < x /\ x < 128).

Definition lower_agree (n : str) : Prop :=
  forall s, starts_with n (py_lower s) = starts_with n (map lower_ascii s).

Lemma lower_agree_nil : lower_agree [].
Proof. intro s. destruct (py_lower s), (map lower_ascii s); reflexivity. Qed.

Lemma py_lower_cons c s : py_lower (c :: s) = py_lower1 c ++ py_lower s.
Proof. reflexivity. Qed.

Lemma py_lower1_cases c :
  (65 <= c <= 90 /\ py_lower1 c = [c + 32] /\ lower_ascii c = c + 32) \/
  (c = 304 /\ py_lower1 c = [105; 775] /\ lower_ascii c = c) \/
  (c = 8490 /\ py_lower1 c = [107] /\ lower_ascii c = c) \/
  ((c < 65 \/ 90 < c) /\ c <> 304 /\ c <> 8490 /\ py_lower1 c = [c] /\ lower_ascii c = c).
Proof.
  unfold py_lower1, lower_ascii.
  destruct (N.leb_spec 65 c), (N.leb_spec c 90); cbn [andb].
  - left. repeat split; assumption.
  - destruct (N.eqb_spec c 304); [right; left; auto|].
    destruct (N.eqb_spec c 8490); [right; right; left; auto|].
    right; right; right. repeat split; auto.
  - right; right; right. assert (c <> 304) by lia. assert (c <> 8490) by lia.
    destruct (N.eqb_spec c 304); [contradiction|]. destruct (N.eqb_spec c 8490); [contradiction|].
    repeat split; auto.
  - lia.
Qed.

Lemma starts_with_cons x p a l : starts_with (x :: p) (a :: l) = N.eqb x a && starts_with p l.
Proof. reflexivity. Qed.

(* a needle character that is ASCII, not upper case, and neither i nor k *)
Lemma lower_agree_cons x n : ascii_fixed x -> x <> 105 -> x <> 107 -> lower_agree n -> lower_agree (x :: n).
Proof.
  intros Hx Hi Hk Hn [|c s]; [reflexivity|].
  rewrite py_lower_cons. cbn [map].
  destruct (py_lower1_cases c) as [(R & -> & ->)|[(-> & -> & ->)|[(-> & -> & ->)|(R & N1 & N2 & -> & ->)]]];
    cbn [app]; rewrite !starts_with_cons.
  - now rewrite (Hn s).
  - destruct (N.eqb_spec x 105); [contradiction|]. destruct (N.eqb_spec x 304); [unfold ascii_fixed in Hx; lia|].
    reflexivity.
  - destruct (N.eqb_spec x 107); [contradiction|]. destruct (N.eqb_spec x 8490); [unfold ascii_fixed in Hx; lia|].
    reflexivity.
  - now rewrite (Hn s).
Qed.

(* the letter i, followed in the needle by something that is not U+0307 *)
Lemma lower_agree_i y n : y <> 775 -> lower_agree (y :: n) -> lower_agree (105 :: y :: n).
Proof.
  intros Hy Hn [|c s]; [reflexivity|].
  rewrite py_lower_cons. cbn [map].
  destruct (py_lower1_cases c) as [(R & -> & ->)|[(-> & -> & ->)|[(-> & -> & ->)|(R & N1 & N2 & -> & ->)]]];
    cbn [app].
  - rewrite !(starts_with_cons 105). now rewrite (Hn s).
  - rewrite !starts_with_cons. destruct (N.eqb_spec y 775); [contradiction|]. reflexivity.
  - rewrite !(starts_with_cons 105). reflexivity.
  - rewrite !(starts_with_cons 105). now rewrite (Hn s).
Qed.

Lemma lower_agree_js : lower_agree needle_js.
Proof.
  unfold needle_js.
  repeat first
    [ apply lower_agree_nil
    | apply lower_agree_i; [discriminate|]
    | apply lower_agree_cons; [unfold ascii_fixed; lia | discriminate | discriminate | ] ].
Qed.

Lemma lower_agree_css : lower_agree needle_css.
Proof.
  unfold needle_css.
  repeat first
    [ apply lower_agree_nil
    | apply lower_agree_cons; [unfold ascii_fixed; lia | discriminate | discriminate | ] ].
Qed.

(* the implementation's test `needle in content.lower()` is the ASCII case-insensitive test HTML applies *)
Lemma contains_lower_agree x n : x <> 775 -> lower_agree (x :: n) ->
  forall s, contains (x :: n) (py_lower s) = contains_ci (x :: n) s.
Proof.
  intros Hx Hn. unfold contains_ci. induction s as [|c s IH]; [reflexivity|].
  pose proof (Hn (c :: s)) as H0. rewrite py_lower_cons in *. cbn [map] in *.
  destruct (py_lower1_cases c) as [(R & E & E2)|[(-> & E & E2)|[(-> & E & E2)|(R & N1 & N2 & E & E2)]]];
    rewrite E, E2 in *; cbn [app] in *.
  - cbn [contains]. rewrite H0, IH. reflexivity.
  - change (contains (x :: n) (105 :: 775 :: py_lower s))
      with (starts_with (x :: n) (105 :: 775 :: py_lower s)
            || (starts_with (x :: n) (775 :: py_lower s) || contains (x :: n) (py_lower s))).
    rewrite H0, IH. cbn [contains].
    replace (starts_with (x :: n) (775 :: py_lower s)) with false; [reflexivity|].
    cbn [starts_with]. destruct (N.eqb_spec x 775); [contradiction|reflexivity].
  - cbn [contains]. rewrite H0, IH. reflexivity.
  - cbn [contains]. rewrite H0, IH. reflexivity.
Qed.

Lemma starts_with_app p s : starts_with p (p ++ s) = true.
Proof. induction p as [|x p IH]; [destruct s; reflexivity|]. cbn. now rewrite N.eqb_refl. Qed.

Lemma skipn_app_length {A} (p s : list A) : skipn (length p) (p ++ s) = s.
Proof. induction p; [reflexivity|assumption]. Qed.

(* an occurrence that starts inside a and is not contained in a runs on into t *)
Lemma overlap p : forall a t, starts_with p (a ++ t) = true -> starts_with p a = false ->
  exists y t', t = y :: t' /\ In y p.
Proof.
  induction p as [|x p IH]; intros a t H1 H2.
  - destruct a; discriminate.
  - destruct a as [|z a].
    + cbn [app] in H1. destruct t as [|y t']; [discriminate|]. cbn in H1.
      apply andb_true_iff in H1 as [H1 _]. apply N.eqb_eq in H1. subst. exists y, t'. split; [reflexivity|left; reflexivity].
    + cbn in H1, H2. apply andb_true_iff in H1 as [E H1]. rewrite E in H2. cbn in H2.
      destruct (IH a t H1 H2) as (y & t' & -> & Hy). exists y, t'. split; [reflexivity|right; exact Hy].
Qed.

Lemma contains_cons_false p c s : contains p (c :: s) = false -> starts_with p (c :: s) = false /\ contains p s = false.
Proof. cbn [contains]. intro H. apply orb_false_iff in H. exact H. Qed.

Lemma split_end_tag_app x n : map lower_ascii (x :: n) = x :: n -> ~ In x n ->
  forall s tail, contains_ci (x :: n) s = false ->
  split_end_tag (x :: n) (s ++ (x :: n) ++ tail) = Some (s, (x :: n) ++ tail).
Proof.
  intros Hlow Hnin s tail. unfold contains_ci. induction s as [|c s IH]; intro H.
  - cbn [app]. change (split_end_tag (x :: n) (x :: n ++ tail))
      with (if starts_with (x :: n) (map lower_ascii ((x :: n) ++ tail)) then Some ([], (x :: n) ++ tail)
            else match split_end_tag (x :: n) (n ++ tail) with Some (a, b) => Some (x :: a, b) | None => None end).
    rewrite map_app, Hlow, starts_with_app. reflexivity.
  - cbn [map] in H. apply contains_cons_false in H as [H1 H2].
    change (split_end_tag (x :: n) ((c :: s) ++ (x :: n) ++ tail))
      with (if starts_with (x :: n) (map lower_ascii ((c :: s) ++ (x :: n) ++ tail)) then Some ([], (c :: s) ++ (x :: n) ++ tail)
            else match split_end_tag (x :: n) (s ++ (x :: n) ++ tail) with Some (a, b) => Some (c :: a, b) | None => None end).
    rewrite (IH H2).
    destruct (starts_with (x :: n) (map lower_ascii ((c :: s) ++ (x :: n) ++ tail))) eqn:E; [|reflexivity].
    exfalso. rewrite map_app in E. cbn [map app] in E, H1. cbn [starts_with] in E, H1.
    apply andb_true_iff in E as [E1 E2]. rewrite E1 in H1. cbn [andb] in H1.
    destruct (overlap n _ _ E2 H1) as (y & t' & Ey & Hy).
    injection Ey as Ey1 _. cbn [map] in Hlow. injection Hlow as Hl1 _. rewrite Hl1 in Ey1. subst y. exact (Hnin Hy).
Qed.

Lemma wrap_some needle op cl s out : wrap needle op cl s = Some out ->
  contains needle (py_lower s) = false /\ out = op ++ s ++ cl.
Proof.
  unfold wrap. destruct (contains needle (py_lower s)); intro H.
  - discriminate H.
  - injection H as <-. auto.
Qed.

(* what is emitted is an element whose text - as an HTML reader delimits it - is exactly the code given *)
Lemma wrap_js_element_lemma s out : wrap_js s = Some out ->
  out = open_js ++ s ++ close_js /\ element_text needle_js open_js out = Some (s, close_js).
Proof.
  intro H. apply wrap_some in H as [H ->]. split; [reflexivity|].
  unfold element_text. rewrite starts_with_app, skipn_app_length.
  unfold needle_js in H. rewrite (contains_lower_agree 60 _ ltac:(discriminate) lower_agree_js) in H.
  unfold close_js, needle_js.
  apply split_end_tag_app; [reflexivity| |exact H].
  cbn. intros K. repeat (destruct K as [K|K]; [discriminate K|]). exact K.
Qed.

Lemma wrap_css_element_lemma s out : wrap_css s = Some out ->
  out = open_css ++ s ++ close_css /\ element_text needle_css open_css out = Some (s, close_css).
Proof.
  intro H. apply wrap_some in H as [H ->]. split; [reflexivity|].
  unfold element_text. rewrite starts_with_app, skipn_app_length.
  unfold needle_css in H. rewrite (contains_lower_agree 60 _ ltac:(discriminate) lower_agree_css) in H.
  unfold close_css, needle_css.
  apply split_end_tag_app; [reflexivity| |exact H].
  cbn. intros K. repeat (destruct K as [K|K]; [discriminate K|]). exact K.
Qed.

(* refusal happens exactly when the code contains the end tag of its own element in some letter case *)
Lemma wrap_js_refuses_iff_lemma s : wrap_js s = None <-> contains_ci needle_js s = true.
Proof.
  unfold wrap_js, wrap, needle_js.
  rewrite (contains_lower_agree 60 _ ltac:(discriminate) lower_agree_js).
  destruct (contains_ci _ s); split; intro H; try reflexivity; discriminate.
Qed.

Lemma wrap_css_refuses_iff_lemma s : wrap_css s = None <-> contains_ci needle_css s = true.
Proof.
  unfold wrap_css, wrap, needle_css.
  rewrite (contains_lower_agree 60 _ ltac:(discriminate) lower_agree_css).
  destruct (contains_ci _ s); split; intro H; try reflexivity; discriminate.
Qed.

(* ================================================================================================ *)
(* merge order: defaults, overridden by attrs, then every keyword value appended with one space     *)
(* ================================================================================================ *)
(* all values given for a name, in order *)
Fixpoint occ (k : str) (l : list ((str * bool) * aval)) : list aval :=
  match l with
  | [] => []
  | (k', v) :: r => if str_eqb k (fst k') then v :: occ k r else occ k r
  end.

(* what the statement prescribes for the values given for one name:
   Some None = no such attribute; Some (Some v) = this value; None = TypeError (a non-string joined with " ") *)
Definition merged_value (vs : list aval) : option (option aval) :=
  match vs with
  | [] => Some None
  | [v] => Some (Some v)
  | _ => if forallb is_strv vs then Some (Some (VStr (join_sp (map text_of vs)))) else None
  end.

Definition olist {A} (o : option A) : list A := match o with Some x => [x] | None => [] end.
Definition keys_nodup (l : list ((str * bool) * aval)) : Prop := NoDup (map (fun kv => fst (fst kv)) l).
Definition all_strv (l : list ((str * bool) * aval)) : Prop := forallb (fun kv => is_strv (snd kv)) l = true.
Definition joined (l : list str) : option str := match l with [] => None | _ => Some (join_sp l) end.

(* the accumulation the loop performs for one name, starting from what the result holds for it *)
Fixpoint combine (o : option aval) (vs : list aval) : option (option aval) :=
  match vs with
  | [] => Some o
  | v :: r => match o with
              | None => combine (Some v) r
              | Some old => match add_str old v with Some nv => combine (Some nv) r | None => None end
              end
  end.

Lemma str_eqb_sym a b : str_eqb a b = str_eqb b a.
Proof.
  destruct (str_eqb a b) eqn:E, (str_eqb b a) eqn:F; try reflexivity.
  - apply str_eqb_eq in E. subst. now rewrite str_eqb_refl in F.
  - apply str_eqb_eq in F. subst. now rewrite str_eqb_refl in E.
Qed.

Lemma join_sp_merge a b t : join_sp ((a ++ 32 :: b) :: t) = join_sp (a :: b :: t).
Proof.
  destruct t as [|x t].
  - reflexivity.
  - change (join_sp ((a ++ 32 :: b) :: x :: t)) with ((a ++ 32 :: b) ++ 32 :: join_sp (x :: t)).
    change (join_sp (a :: b :: x :: t)) with (a ++ 32 :: (b ++ 32 :: join_sp (x :: t))).
    now rewrite <- app_assoc.
Qed.

Lemma combine_str r : forall t,
  combine (Some (VStr t)) r =
  if forallb is_strv r then Some (Some (VStr (join_sp (t :: map text_of r)))) else None.
Proof.
  induction r as [|v r IH]; intro t; [reflexivity|].
  cbn [combine forallb map]. unfold add_str. cbn [is_strv andb text_of].
  destruct (is_strv v); cbn [andb]; [|reflexivity].
  rewrite IH. destruct (forallb is_strv r); [|reflexivity]. now rewrite join_sp_merge.
Qed.

Lemma combine_none vs : combine None vs = merged_value vs.
Proof.
  destruct vs as [|v1 [|v2 r]]; [reflexivity|reflexivity|].
  cbn [combine]. unfold add_str, merged_value.
  change (forallb is_strv (v1 :: v2 :: r)) with (is_strv v1 && (is_strv v2 && forallb is_strv r)).
  destruct (is_strv v1); cbn [andb]; [|reflexivity].
  destruct (is_strv v2); cbn [andb]; [|reflexivity].
  rewrite combine_str. destruct (forallb is_strv r); [|reflexivity].
  cbn [map]. now rewrite join_sp_merge.
Qed.

Lemma occ_app k a b : occ k (a ++ b) = occ k a ++ occ k b.
Proof.
  induction a as [|[k' v] a IH]; [reflexivity|]. cbn [app occ].
  destruct (str_eqb k (fst k')); [cbn [app]; f_equal|]; exact IH.
Qed.

Lemma dget_none_keys k d : dget k d = None <-> ~ In k (map (fun kv => fst (fst kv)) d).
Proof.
  induction d as [|[k' v] d IH]; cbn [dget map fst In]; [tauto|].
  destruct (str_eqb k (fst k')) eqn:E.
  - apply str_eqb_eq in E. subst. split; [discriminate|]. intro H. exfalso. apply H. left. reflexivity.
  - rewrite IH. split; [|tauto]. intros H [F|F]; [|tauto]. subst. now rewrite str_eqb_refl in E.
Qed.

Lemma dget_none_occ k d : dget k d = None -> occ k d = [].
Proof.
  induction d as [|[k' v] d IH]; [reflexivity|]. cbn [dget occ].
  destruct (str_eqb k (fst k')); [discriminate|exact IH].
Qed.

Lemma dset_absent k v d : dget (fst k) d = None -> dset k v d = d ++ [(k, v)].
Proof.
  induction d as [|[k' v'] d IH]; [reflexivity|]. cbn [dget dset app].
  destruct (str_eqb (fst k) (fst k')); [discriminate|]. intro H. now rewrite (IH H).
Qed.

Lemma dset_present_keys k v d old : dget (fst k) d = Some old ->
  map (fun kv => fst (fst kv)) (dset k v d) = map (fun kv => fst (fst kv)) d.
Proof.
  induction d as [|[k' v'] d IH]; [discriminate|]. cbn [dget dset].
  destruct (str_eqb (fst k) (fst k')); [reflexivity|]. intro H. cbn [map fst]. now rewrite (IH H).
Qed.

Lemma NoDup_snoc {A} (l : list A) x : NoDup l -> ~ In x l -> NoDup (l ++ [x]).
Proof.
  induction l as [|a l IH]; intros H Hx; [constructor; [intros []|constructor]|].
  inversion H as [|? ? Ha Hl]; subst. cbn [app]. constructor.
  - intro K. apply in_app_or in K as [K|[K|[]]]; [exact (Ha K)|]. subst. apply Hx. left. reflexivity.
  - apply IH; [exact Hl|]. intro K. apply Hx. right. exact K.
Qed.

Lemma dset_keys_nodup k v d : keys_nodup d -> keys_nodup (dset k v d).
Proof.
  intro H. destruct (dget (fst k) d) as [old|] eqn:E.
  - unfold keys_nodup. now rewrite (dset_present_keys k v d old E).
  - unfold keys_nodup. rewrite (dset_absent _ _ _ E), map_app. cbn [map fst].
    apply NoDup_snoc; [exact H | apply dget_none_keys; exact E].
Qed.

Lemma dget_dset k k0 v d : dget k (dset k0 v d) = if str_eqb k (fst k0) then Some v else dget k d.
Proof.
  induction d as [|[k' v'] d IH]; cbn [dset dget]; [reflexivity|].
  destruct (str_eqb (fst k0) (fst k')) eqn:E; cbn [dget].
  - apply str_eqb_eq in E. rewrite <- E. destruct (str_eqb k (fst k0)); reflexivity.
  - destruct (str_eqb k (fst k')) eqn:F; [|exact IH].
    apply str_eqb_eq in F. subst k. rewrite str_eqb_sym in E. now rewrite E.
Qed.

Lemma dget_app k a b : dget k (a ++ b) = match dget k a with Some v => Some v | None => dget k b end.
Proof.
  induction a as [|[k' v] a IH]; [reflexivity|]. cbn [app dget]. destruct (str_eqb k (fst k')); [reflexivity|exact IH].
Qed.

Lemma occ_nodup k d : keys_nodup d -> occ k d = olist (dget k d).
Proof.
  unfold keys_nodup. induction d as [|[k' v] d IH]; [reflexivity|].
  cbn [map fst occ dget]. intro ND. inversion ND as [|? ? Hn ND']; subst.
  destruct (str_eqb k (fst k')) eqn:E.
  - apply str_eqb_eq in E. subst k. apply dget_none_keys in Hn. now rewrite (dget_none_occ _ _ Hn).
  - exact (IH ND').
Qed.

(* append_attributes, every list of items and every kind of value: the result has one entry per name, and for
   every name it holds what accumulating the values given for that name yields; it fails exactly when the
   accumulation for some name fails *)
Lemma append_combine items : forall res, keys_nodup res ->
  match append_attributes items res with
  | Some d => keys_nodup d /\ forall k, combine (dget k res) (occ k items) = Some (dget k d)
  | None => exists k, combine (dget k res) (occ k items) = None
  end.
Proof.
  induction items as [|[k0 v0] r IH]; intros res Hn.
  - cbn [append_attributes]. split; [exact Hn|reflexivity].
  - cbn [append_attributes]. destruct (dget (fst k0) res) as [old|] eqn:E.
    + destruct (add_str old v0) as [nv|] eqn:A.
      * specialize (IH (dset k0 nv res) (dset_keys_nodup k0 nv res Hn)).
        assert (R : forall k, combine (dget k res) (occ k ((k0, v0) :: r))
                              = combine (dget k (dset k0 nv res)) (occ k r)).
        { intro k. cbn [occ]. rewrite dget_dset. destruct (str_eqb k (fst k0)) eqn:K; [|reflexivity].
          apply str_eqb_eq in K. subst k. rewrite E. cbn [combine]. now rewrite A. }
        destruct (append_attributes r (dset k0 nv res)) as [d|].
        -- destruct IH as [I1 I2]. split; [exact I1|]. intro k. rewrite R. apply I2.
        -- destruct IH as (k & I). exists k. now rewrite R.
      * exists (fst k0). cbn [occ]. rewrite str_eqb_refl, E. cbn [combine]. now rewrite A.
    + specialize (IH (dset k0 v0 res) (dset_keys_nodup k0 v0 res Hn)).
      assert (R : forall k, combine (dget k res) (occ k ((k0, v0) :: r))
                            = combine (dget k (dset k0 v0 res)) (occ k r)).
      { intro k. cbn [occ]. rewrite dget_dset. destruct (str_eqb k (fst k0)) eqn:K; [|reflexivity].
        apply str_eqb_eq in K. subst k. rewrite E. reflexivity. }
      destruct (append_attributes r (dset k0 v0 res)) as [d|].
      * destruct IH as [I1 I2]. split; [exact I1|]. intro k. rewrite R. apply I2.
      * destruct IH as (k & I). exists k. now rewrite R.
Qed.

(* dict.update: the last binding of the update wins, otherwise the old value stays *)
Lemma dget_dupdate k u : forall d,
  dget k (dupdate d u) = match dget k (rev u) with Some v => Some v | None => dget k d end.
Proof.
  unfold dupdate. induction u as [|[k1 v1] r IH]; intro d; [reflexivity|].
  cbn [fold_left fst snd rev]. rewrite IH, dget_app, dget_dset. cbn [dget].
  destruct (dget k (rev r)); [reflexivity|]. cbn [fst]. destruct (str_eqb k (fst k1)); reflexivity.
Qed.

Lemma dupdate_nodup u : forall d, keys_nodup d -> keys_nodup (dupdate d u).
Proof.
  unfold dupdate. induction u as [|[k1 v1] r IH]; intros d H; [exact H|].
  cbn [fold_left fst snd]. apply IH. apply dset_keys_nodup. exact H.
Qed.

(* the value `attrs` gives for a name, else the value `defaults` gives *)
Definition base_val (attrs defaults : list ((str * bool) * aval)) (k : str) : option aval :=
  match dget k (rev attrs) with Some v => Some v | None => dget k (rev defaults) end.

(* MERGE ORDER, every overlap pattern of names across defaults / attrs / extra keywords and every kind of value:
   the merged dictionary has one entry per name, holding what the statement prescribes for
   [value from attrs, else from defaults] followed by every extra keyword value of that name - the single value
   itself (so None / False / True keep their meaning), or all of them joined by single spaces; a TypeError exactly
   when some name would join a non-string. *)
Lemma merge_order_lemma attrs defaults kwargs :
  match html_attrs_dict attrs defaults kwargs with
  | Some d => keys_nodup d /\
              forall k, merged_value (olist (base_val attrs defaults k) ++ occ k kwargs) = Some (dget k d)
  | None => exists k, merged_value (olist (base_val attrs defaults k) ++ occ k kwargs) = None
  end.
Proof.
  unfold html_attrs_dict. set (base := dupdate (dupdate [] defaults) attrs).
  assert (N2 : keys_nodup base) by (apply dupdate_nodup, dupdate_nodup; constructor).
  assert (B : forall k, occ k (base ++ kwargs) = olist (base_val attrs defaults k) ++ occ k kwargs).
  { intro k. rewrite occ_app, (occ_nodup k base N2). unfold base, base_val. rewrite !dget_dupdate. cbn [dget].
    destruct (dget k (rev attrs)); [reflexivity|]. destruct (dget k (rev defaults)); reflexivity. }
  pose proof (append_combine (base ++ kwargs) [] (NoDup_nil _)) as H.
  destruct (append_attributes (base ++ kwargs) []) as [d|].
  - destruct H as [H1 H2]. split; [exact H1|]. intro k. rewrite <- B, <- combine_none. apply H2.
  - destruct H as (k & H). exists k. rewrite <- B, <- combine_none. exact H.
Qed.

(* the same for string values, in the words of the statement: no failure, and the text of every name is the
   base text followed by every keyword text, joined by single spaces *)
Lemma merged_value_strings vs : forallb is_strv vs = true ->
  exists o, merged_value vs = Some o /\ option_map text_of o = joined (map text_of vs).
Proof.
  intro H. destruct vs as [|v1 [|v2 r]]; [exists None; auto|exists (Some v1); auto|].
  unfold merged_value. rewrite H. eexists. split; reflexivity.
Qed.

Lemma all_strv_dget k d v : all_strv d -> dget k d = Some v -> is_strv v = true.
Proof.
  unfold all_strv. induction d as [|[k' v'] d IH]; [discriminate|]. cbn [forallb snd dget]. intros H G.
  apply andb_true_iff in H as [H1 H2]. destruct (str_eqb k (fst k')); [now injection G as <-|exact (IH H2 G)].
Qed.

Lemma all_strv_rev d : all_strv d -> all_strv (rev d).
Proof.
  unfold all_strv. intro H. rewrite forallb_forall in *. intros x I. apply H. now apply in_rev.
Qed.

Lemma all_strv_occ k d : all_strv d -> forallb is_strv (occ k d) = true.
Proof.
  unfold all_strv. induction d as [|[k' v'] d IH]; [reflexivity|]. cbn [forallb snd occ]. intro H.
  apply andb_true_iff in H as [H1 H2]. destruct (str_eqb k (fst k')); cbn [forallb]; [rewrite H1|]; exact (IH H2).
Qed.

Lemma merge_order_strings_lemma attrs defaults kwargs :
  all_strv attrs -> all_strv defaults -> all_strv kwargs ->
  exists d, html_attrs_dict attrs defaults kwargs = Some d /\ keys_nodup d /\
            forall k, option_map text_of (dget k d)
                      = joined (map text_of (olist (base_val attrs defaults k)) ++ map text_of (occ k kwargs)).
Proof.
  intros Ha Hd Hk.
  assert (S : forall k, forallb is_strv (olist (base_val attrs defaults k) ++ occ k kwargs) = true).
  { intro k. rewrite forallb_app, (all_strv_occ k kwargs Hk), andb_true_r. unfold base_val.
    destruct (dget k (rev attrs)) as [v|] eqn:E1.
    - cbn. now rewrite (all_strv_dget _ _ _ (all_strv_rev _ Ha) E1).
    - destruct (dget k (rev defaults)) as [v|] eqn:E2; [|reflexivity].
      cbn. now rewrite (all_strv_dget _ _ _ (all_strv_rev _ Hd) E2). }
  pose proof (merge_order_lemma attrs defaults kwargs) as M.
  destruct (html_attrs_dict attrs defaults kwargs) as [d|].
  - destruct M as [M1 M2]. exists d. repeat split; auto. intro k.
    destruct (merged_value_strings _ (S k)) as (o & O1 & O2). rewrite M2 in O1. injection O1 as <-.
    now rewrite O2, map_app.
  - destruct M as (k & M). destruct (merged_value_strings _ (S k)) as (o & O1 & _). rewrite M in O1. discriminate.
Qed.

(* ================================================================================================ *)
(* the tag level: repeated keywords, then the whole chain for the documented forms                   *)
(* ================================================================================================ *)
(* an extra keyword as written in the tag or brought by a spread: (key object, is identifier, scalar value) *)
Notation kwt := ((str * bool) * bool * aval)%type (only parsing).
Definition kwp (x : (str * bool) * bool * aval) : option ((str * bool) * bool) * tval :=
  (Some (fst x), TS (snd x)).
Definition kw_entry (x : (str * bool) * bool * aval) : (str * bool) * aval := (fst (fst x), snd x).

(* what a keyword name ends up with after merge_repeated_kwargs: its only value, or str() of all joined by " " *)
Definition kw_val (vs : list aval) : option aval :=
  match vs with
  | [] => None
  | [v] => Some v
  | _ => Some (VStr (join_sp (map text_of vs)))
  end.

Lemma later_vals_kw k r : later_vals k (map kwp r) = map TS (occ k (map kw_entry r)).
Proof.
  induction r as [|[[k' idf] v] r IH]; [reflexivity|].
  cbn [map later_vals occ kwp kw_entry key_is fst snd]. destruct (str_eqb k (fst k')); cbn [map]; now rewrite IH.
Qed.

Lemma all_text_ts vs : all_text (map TS vs) = Some (map text_of vs).
Proof. induction vs as [|v r IH]; [reflexivity|]. cbn [map all_text]. now rewrite IH. Qed.

Lemma mem_str_cons k x l : mem_str k (x :: l) = str_eqb k x || mem_str k l.
Proof. reflexivity. Qed.

(* REPEATED KEYWORDS, any number and any pattern of repeats (interleaved with other keywords or not): the merged
   list keeps every name once, no name of [seen], and gives each name its only value, or the str() of all its values
   in the order written, joined by single spaces *)
Lemma merge_repeated_kw kws : forall seen,
  exists out, merge_repeated seen (map kwp kws) = Some (map kwp out) /\
              keys_nodup (map kw_entry out) /\
              (forall k, dget k (map kw_entry out)
                         = if mem_str k seen then None else kw_val (occ k (map kw_entry kws))).
Proof.
  induction kws as [|[[k idf] v] r IH]; intro seen.
  - exists []. repeat split; [constructor|]. intro k. now destruct (mem_str k seen).
  - cbn [map kwp fst snd merge_repeated]. fold (kwp) in *.
    change (map (fun x => (Some (fst x), TS (snd x))) r) with (map kwp r).
    destruct (mem_str (fst k) seen) eqn:M.
    + destruct (IH seen) as (out & O1 & O2 & O3). exists out. repeat split; auto.
      intro k1. rewrite O3. destruct (mem_str k1 seen) eqn:M1; [reflexivity|].
      cbn [map kw_entry occ fst snd]. destruct (str_eqb k1 (fst k)) eqn:E; [|reflexivity].
      apply str_eqb_eq in E. subst k1. rewrite M in M1. discriminate.
    + destruct (IH (fst k :: seen)) as (out & O1 & O2 & O3).
      assert (Hn : ~ In (fst k) (map (fun kv => fst (fst kv)) (map kw_entry out))).
      { apply dget_none_keys. rewrite O3, mem_str_cons, str_eqb_refl. reflexivity. }
      assert (Hget : forall w k1, dget k1 (map kw_entry (((k, idf), w) :: out))
                     = if str_eqb k1 (fst k) then Some w else dget k1 (map kw_entry out)).
      { intros w k1. reflexivity. }
      assert (Hnd : forall w, keys_nodup (map kw_entry (((k, idf), w) :: out))).
      { intro w. unfold keys_nodup. cbn [map kw_entry fst snd]. constructor; assumption. }
      rewrite later_vals_kw.
      destruct (occ (fst k) (map kw_entry r)) as [|v2 l] eqn:L.
      * cbn [map]. rewrite O1. exists (((k, idf), v) :: out). split; [reflexivity|]. split; [apply Hnd|].
        intro k1. rewrite Hget, O3, mem_str_cons. cbn [map kw_entry occ fst snd].
        destruct (str_eqb k1 (fst k)) eqn:E.
        -- apply str_eqb_eq in E. subst k1. rewrite M, L. reflexivity.
        -- reflexivity.
      * change (TS v :: map TS (v2 :: l)) with (map TS (v :: v2 :: l)). cbn [map].
        change (TS v :: TS v2 :: map TS l) with (map TS (v :: v2 :: l)).
        rewrite all_text_ts, O1.
        exists (((k, idf), VStr (join_sp (map text_of (v :: v2 :: l)))) :: out).
        split; [reflexivity|]. split; [apply Hnd|].
        intro k1. rewrite Hget, O3, mem_str_cons. cbn [map kw_entry occ fst snd].
        destruct (str_eqb k1 (fst k)) eqn:E.
        -- apply str_eqb_eq in E. subst k1. rewrite M, L. reflexivity.
        -- reflexivity.
Qed.

(* keywords that are neither aggregate keys (attrs:x) nor the two parameters of the tag *)
Definition extra_kw (x : (str * bool) * bool * aval) : bool :=
  negb (is_agg (fst (fst (fst x)))) && negb (str_eqb (fst (fst (fst x))) k_attrs)
  && negb (str_eqb (fst (fst (fst x))) k_defaults).

Lemma agg_loop_plain kws n : forallb extra_kw kws = true ->
  agg_loop (map kwp kws) n = Some (map kwp kws, map (fun x => fst (fst (fst x))) kws, n).
Proof.
  induction kws as [|[[k idf] v] r IH]; intro H; [reflexivity|].
  cbn [forallb] in H. apply andb_true_iff in H as [H1 H2]. unfold extra_kw in H1. cbn [fst] in H1.
  apply andb_true_iff in H1 as [H1 _]. apply andb_true_iff in H1 as [H1 _]. apply negb_true_iff in H1.
  cbn [map kwp fst snd agg_loop]. rewrite H1.
  change (map (fun x => (Some (fst x), TS (snd x))) r) with (map kwp r). now rewrite (IH H2).
Qed.

Lemma pas_kw kws b : positional_after_special (map kwp kws) b = false.
Proof.
  revert b. induction kws as [|[[k idf] v] r IH]; intro b; [reflexivity|]. cbn [map kwp fst snd positional_after_special].
  apply IH.
Qed.

Definition idents (kws : list ((str * bool) * bool * aval)) := filter (fun x => snd (fst x)) kws.
Definition specials (kws : list ((str * bool) * bool * aval)) := filter (fun x => negb (snd (fst x))) kws.
Definition kw_tentry (x : (str * bool) * bool * aval) : (str * bool) * tval := (fst (fst x), TS (snd x)).

Lemma bind_kw kws : forallb extra_kw kws = true -> forall b,
  exists b', bind (map kwp kws) b = Some b' /\ b_attrs b' = b_attrs b /\ b_defaults b' = b_defaults b /\
             b_kw b' = b_kw b ++ map kw_tentry (idents kws) /\
             b_special b' = b_special b ++ map kw_tentry (specials kws).
Proof.
  induction kws as [|[[k idf] v] r IH]; intros H b.
  - exists b. cbn. rewrite !app_nil_r. auto.
  - cbn [forallb] in H. apply andb_true_iff in H as [H1 H2]. unfold extra_kw in H1. cbn [fst] in H1.
    apply andb_true_iff in H1 as [H1 Hd]. apply andb_true_iff in H1 as [_ Ha].
    apply negb_true_iff in Ha. apply negb_true_iff in Hd.
    cbn [map kwp fst snd bind]. change (map (fun x => (Some (fst x), TS (snd x))) r) with (map kwp r).
    destruct idf.
    + rewrite Ha, Hd.
      destruct (IH H2 {| b_args := b_args b; b_attrs := b_attrs b; b_defaults := b_defaults b;
                         b_kw := b_kw b ++ [(k, TS v)]; b_special := b_special b; b_seen_kw := true |})
        as (b' & B1 & B2 & B3 & B4 & B5).
      exists b'. cbn [b_attrs b_defaults b_kw b_special] in *. repeat split; auto.
      rewrite B4, <- app_assoc. reflexivity.
    + destruct (IH H2 {| b_args := b_args b; b_attrs := b_attrs b; b_defaults := b_defaults b;
                         b_kw := b_kw b; b_special := b_special b ++ [(k, TS v)]; b_seen_kw := b_seen_kw b |})
        as (b' & B1 & B2 & B3 & B4 & B5).
      exists b'. cbn [b_attrs b_defaults b_kw b_special] in *. repeat split; auto.
      rewrite B5, <- app_assoc. reflexivity.
Qed.

Lemma as_scalars_kw l : as_scalars (map kw_tentry l) = Some (map kw_entry l).
Proof. induction l as [|[[k idf] v] r IH]; [reflexivity|]. cbn [map kw_tentry kw_entry as_scalars fst snd]. now rewrite IH. Qed.

(* moving the non-identifier keywords behind the others changes neither the names nor what each name holds *)
Lemma dget_partition k kws : keys_nodup (map kw_entry kws) ->
  dget k (map kw_entry (idents kws) ++ map kw_entry (specials kws)) = dget k (map kw_entry kws).
Proof.
  unfold keys_nodup. induction kws as [|[[k' idf] v] r IH]; [reflexivity|].
  cbn [map kw_entry fst snd]. intro ND. inversion ND as [|? ? Hn ND']; subst.
  unfold idents, specials. cbn [filter fst snd]. fold (idents r) (specials r).
  destruct idf; cbn [negb map kw_entry fst snd app dget].
  - destruct (str_eqb k (fst k')); [reflexivity|exact (IH ND')].
  - rewrite dget_app. cbn [map kw_entry fst snd dget]. destruct (str_eqb k (fst k')) eqn:E.
    + apply str_eqb_eq in E. subst k.
      assert (G : dget (fst k') (map kw_entry (idents r)) = None).
      { apply dget_none_keys. intro I. apply Hn. rewrite !map_map in *. apply in_map_iff in I as (x & X1 & X2).
        apply in_map_iff. exists x. split; [exact X1|]. unfold idents in X2. apply filter_In in X2. tauto. }
      now rewrite G.
    + rewrite <- (IH ND'), dget_app. reflexivity.
Qed.

Lemma NoDup_insert {A} (l1 l2 : list A) a : NoDup (l1 ++ l2) -> ~ In a (l1 ++ l2) -> NoDup (l1 ++ a :: l2).
Proof.
  induction l1 as [|x l1 IH]; cbn [app]; intros H Ha; [constructor; assumption|].
  inversion H as [|? ? Hx Hl]; subst. constructor.
  - intro K. apply in_app_or in K as [K|[K|K]].
    + apply Hx, in_or_app. left. exact K.
    + subst. apply Ha. left. reflexivity.
    + apply Hx, in_or_app. right. exact K.
  - apply IH; [exact Hl|]. intro K. apply Ha. right. exact K.
Qed.

Lemma partition_nodup kws : keys_nodup (map kw_entry kws) ->
  keys_nodup (map kw_entry (idents kws) ++ map kw_entry (specials kws)).
Proof.
  unfold keys_nodup. induction kws as [|[[k' idf] v] r IH]; [constructor|].
  cbn [map kw_entry fst snd]. intro ND. inversion ND as [|? ? Hn ND']; subst.
  assert (Hi : forall x, In x (map (fun kv => fst (fst kv)) (map kw_entry (idents r)
                              ++ map kw_entry (specials r))) -> In x (map (fun kv => fst (fst kv)) (map kw_entry r))).
  { intros x I. rewrite map_app in I. apply in_app_or in I. rewrite !map_map in *.
    destruct I as [I|I]; apply in_map_iff in I as (y & Y1 & Y2); apply in_map_iff; exists y; split; auto;
      [unfold idents in Y2|unfold specials in Y2]; apply filter_In in Y2; tauto. }
  unfold idents, specials. cbn [filter fst snd]. fold (idents r) (specials r).
  destruct idf; cbn [negb map kw_entry fst snd app].
  - constructor; [intro I; exact (Hn (Hi _ I))|exact (IH ND')].
  - specialize (IH ND'). rewrite map_app in *. cbn [map fst].
    cbn [kw_entry fst snd]. apply NoDup_insert; [exact IH|]. intro I. apply Hn, Hi. exact I.
Qed.

(* THE WHOLE TAG for the documented form `{% html_attrs attrs defaults k=v ... %}` (both dictionaries positional;
   any list of extra keywords - repeated in any pattern, identifiers or not, written in the tag or spread):
   it behaves as html_attrs on the two dictionaries and a keyword dictionary holding, per name, kw_val of the
   values written for that name *)
Lemma tag_chain a d kws : forallb extra_kw kws = true ->
  exists kw, html_attrs_tag ((None, TD a) :: (None, TD d) :: map kwp kws) = html_attrs a d kw /\
             keys_nodup kw /\ forall k, dget k kw = kw_val (occ k (map kw_entry kws)).
Proof.
  intro H. destruct (merge_repeated_kw kws []) as (out & O1 & O2 & O3).
  assert (Hout : forallb extra_kw out = true).
  { rewrite forallb_forall. intros x I. rewrite forallb_forall in H.
    assert (G : dget (fst (fst (fst x))) (map kw_entry out) <> None).
    { intro G. apply dget_none_keys in G. apply G. rewrite map_map. apply in_map_iff. exists x. auto. }
    rewrite O3 in G. cbn [mem_str] in G.
    assert (exists y, In y kws /\ fst (fst (fst y)) = fst (fst (fst x))) as (y & Y1 & Y2).
    { clear - G. induction kws as [|[[k' i'] v'] r IH]; [exfalso; apply G; reflexivity|].
      cbn [map kw_entry occ fst snd] in G. destruct (str_eqb (fst (fst (fst x))) (fst k')) eqn:E.
      - apply str_eqb_eq in E. exists ((k', i'), v'). split; [left; reflexivity|]. cbn. auto.
      - destruct (IH G) as (y & Y1 & Y2). exists y. split; [right; exact Y1|exact Y2]. }
    specialize (H y Y1). unfold extra_kw in *. rewrite Y2 in H. exact H. }
  exists (map kw_entry (idents out) ++ map kw_entry (specials out)). split; [|split].
  - unfold html_attrs_tag. cbn [merge_repeated]. rewrite O1. cbn [option_map].
    unfold aggregate. cbn [agg_loop]. rewrite (agg_loop_plain out [] Hout). cbn [agg_finish]. rewrite app_nil_r.
    cbn [positional_after_special orb]. rewrite pas_kw.
    cbn [bind bound0 b_seen_kw b_args b_attrs b_defaults b_kw b_special].
    destruct (bind_kw out Hout {| b_args := [TD a; TD d]; b_attrs := Some (TD a); b_defaults := Some (TD d);
                                  b_kw := []; b_special := []; b_seen_kw := false |})
      as (b' & B1 & B2 & B3 & B4 & B5).
    rewrite B1, B2, B3, B4, B5. cbn [b_attrs b_defaults b_kw b_special as_dict app].
    rewrite <- map_app, as_scalars_kw, map_app. reflexivity.
  - apply partition_nodup. exact O2.
  - intro k. rewrite (dget_partition k out O2), O3. reflexivity.
Qed.

(* TAG-LEVEL MERGE ORDER: outcome of the tag in terms of what was written *)
Definition tag_spec (a d : list ((str * bool) * aval)) (kws : list ((str * bool) * bool * aval)) (k : str)
  : option (option aval) :=
  merged_value (olist (base_val a d k) ++ olist (kw_val (occ k (map kw_entry kws)))).

Lemma tag_merge_order_lemma a d kws : forallb extra_kw kws = true ->
  match html_attrs_tag ((None, TD a) :: (None, TD d) :: map kwp kws) with
  | Out s => exists f, keys_nodup f /\ (forall k, tag_spec a d kws k = Some (dget k f)) /\
                       attributes_to_string f = Some s
  | ErrValue => exists f, keys_nodup f /\ (forall k, tag_spec a d kws k = Some (dget k f)) /\
                          attributes_to_string f = None
  | ErrType => exists k, tag_spec a d kws k = None
  | _ => False
  end.
Proof.
  intro H. destruct (tag_chain a d kws H) as (kw & -> & K1 & K2).
  unfold html_attrs. pose proof (merge_order_lemma a d kw) as M.
  assert (S : forall k, merged_value (olist (base_val a d k) ++ occ k kw) = tag_spec a d kws k).
  { intro k. unfold tag_spec. now rewrite (occ_nodup k kw K1), K2. }
  destruct (html_attrs_dict a d kw) as [f|].
  - destruct M as [M1 M2].
    destruct (attributes_to_string f) as [s|] eqn:E; exists f; repeat split; auto; intro k; rewrite <- S; apply M2.
  - destruct M as (k & M). exists k. now rewrite <- S.
Qed.

(* ================================================================================================ *)
(* the aggregate form: {% html_attrs attrs:k=v ... defaults:k=v ... k=v ... %}                       *)
(* ================================================================================================ *)
Definition kname (x : (str * bool) * bool * aval) : str := fst (fst (fst x)).
Definition extra_name (k : str) : bool :=
  negb (is_agg k) && negb (str_eqb k k_attrs) && negb (str_eqb k k_defaults).
(* attrs:<inner> or defaults:<inner> *)
Definition agg_name (k : str) : bool :=
  is_agg k && (str_eqb (fst (split_colon k)) k_attrs || str_eqb (fst (split_colon k)) k_defaults).
Definition tag_kw (x : (str * bool) * bool * aval) : bool := extra_name (kname x) || agg_name (kname x).
Definition plains (l : list ((str * bool) * bool * aval)) := filter (fun x => extra_name (kname x)) l.
Definition aggs (l : list ((str * bool) * bool * aval)) := filter (fun x => negb (extra_name (kname x))) l.
Definition nset (n : list (str * list ((str * bool) * aval))) (x : (str * bool) * bool * aval) :=
  let '(o, i) := split_colon (kname x) in nested_set o i (snd x) n.
Fixpoint nget (o : str) (n : list (str * list ((str * bool) * aval))) : list ((str * bool) * aval) :=
  match n with [] => [] | (o', d) :: r => if str_eqb o o' then d else nget o r end.
Definition nparam (e : str * list ((str * bool) * aval)) : option ((str * bool) * bool) * tval :=
  (Some ((fst e, false), true), TD (snd e)).

Lemma extra_kw_name x : extra_kw x = extra_name (kname x).
Proof. reflexivity. Qed.

Lemma agg_loop_tag l : forall n, forallb tag_kw l = true ->
  agg_loop (map kwp l) n = Some (map kwp (plains l), map kname (plains l), fold_left nset (aggs l) n).
Proof.
  induction l as [|[[k idf] v] r IH]; intros n H; [reflexivity|].
  cbn [forallb] in H. apply andb_true_iff in H as [H1 H2]. unfold tag_kw in H1. cbn [kname fst] in H1.
  unfold plains, aggs. cbn [filter]. fold (plains r) (aggs r).
  change (kname (k, idf, v)) with (fst k) in *.
  cbn [map kwp fst snd agg_loop]. change (map (fun x => (Some (fst x), TS (snd x))) r) with (map kwp r).
  destruct (extra_name (fst k)) eqn:E; cbn [negb].
  - assert (A : is_agg (fst k) = false).
    { unfold extra_name in E. apply andb_true_iff in E as [E _]. apply andb_true_iff in E as [E _].
      now apply negb_true_iff in E. }
    rewrite A, (IH n H2). reflexivity.
  - cbn [orb] in H1. unfold agg_name in H1. apply andb_true_iff in H1 as [A _]. rewrite A.
    cbn [fold_left]. unfold nset at 2. change (kname (k, idf, v)) with (fst k). cbn [snd].
    destruct (split_colon (fst k)) as [o i]. apply (IH _ H2).
Qed.

Lemma nget_nested_set o' o i v n :
  nget o' (nested_set o i v n) = if str_eqb o' o then dset (i, false) v (nget o' n) else nget o' n.
Proof.
  induction n as [|[o1 d1] r IH]; cbn [nested_set nget].
  - destruct (str_eqb o' o); reflexivity.
  - destruct (str_eqb o o1) eqn:E; cbn [nget].
    + apply str_eqb_eq in E. subst o1. destruct (str_eqb o' o); reflexivity.
    + destruct (str_eqb o' o1) eqn:F; [|exact IH].
      apply str_eqb_eq in F. subst o1. rewrite str_eqb_sym in E. now rewrite E.
Qed.

Lemma onames_nested_set o i v n o' :
  In o' (map fst (nested_set o i v n)) <-> o' = o \/ In o' (map fst n).
Proof.
  induction n as [|[o1 d1] r IH]; cbn [nested_set map fst In].
  - intuition.
  - destruct (str_eqb o o1) eqn:E; cbn [map fst In].
    + apply str_eqb_eq in E. subst o1. intuition.
    + rewrite IH. intuition.
Qed.

Lemma onames_nested_set_nodup o i v n : NoDup (map fst n) -> NoDup (map fst (nested_set o i v n)).
Proof.
  induction n as [|[o1 d1] r IH]; cbn [nested_set map fst]; intro H.
  - constructor; [intros []|constructor].
  - inversion H as [|? ? Hn Hr]; subst. destruct (str_eqb o o1) eqn:E; cbn [map fst].
    + constructor; assumption.
    + constructor; [|exact (IH Hr)]. intro K. apply onames_nested_set in K as [K|K]; [|exact (Hn K)].
      subst o1. now rewrite str_eqb_refl in E.
Qed.

Lemma split_colon_join k : has_colon k = true -> k = fst (split_colon k) ++ 58 :: snd (split_colon k).
Proof.
  induction k as [|c r IH]; [discriminate|]. cbn [has_colon split_colon].
  destruct (N.eqb_spec c 58) as [->|Hc]; [reflexivity|]. cbn [orb]. intro H.
  destruct (split_colon r) as [a b] eqn:S. cbn [fst snd app] in *. f_equal. exact (IH H).
Qed.

Lemma is_agg_has_colon k : is_agg k = true -> has_colon k = true.
Proof. destruct k as [|c r]; [discriminate|]. unfold is_agg. intro H. now apply andb_true_iff in H as [_ H]. Qed.

Lemma names_entries l : map (fun kv : (str * bool) * aval => fst (fst kv)) (map kw_entry l) = map kname l.
Proof. rewrite map_map. reflexivity. Qed.

(* invariants of the nested dictionaries while the aggregate keys are folded in *)
Lemma fold_inv l : forall n,
  (forall x, In x l -> agg_name (kname x) = true) ->
  NoDup (map fst n) -> (forall o, In o (map fst n) -> o = k_attrs \/ o = k_defaults) ->
  (forall o, keys_nodup (nget o n)) ->
  NoDup (map fst (fold_left nset l n)) /\
  (forall o, In o (map fst (fold_left nset l n)) -> o = k_attrs \/ o = k_defaults) /\
  (forall o, keys_nodup (nget o (fold_left nset l n))).
Proof.
  induction l as [|x r IH]; intros n Ha H1 H2 H3; [auto|].
  cbn [fold_left]. apply IH.
  - intros y I. apply Ha. right. exact I.
  - unfold nset. destruct (split_colon (kname x)). now apply onames_nested_set_nodup.
  - intros o I. unfold nset in I. destruct (split_colon (kname x)) as [ox ix] eqn:S.
    apply onames_nested_set in I as [->|I]; [|exact (H2 o I)].
    specialize (Ha x (or_introl eq_refl)). unfold agg_name in Ha. apply andb_true_iff in Ha as [_ Ha].
    rewrite S in Ha. cbn [fst] in Ha. apply orb_true_iff in Ha as [Ha|Ha]; apply str_eqb_eq in Ha; auto.
  - intro o. unfold nset. destruct (split_colon (kname x)) as [ox ix]. rewrite nget_nested_set.
    destruct (str_eqb o ox); [apply dset_keys_nodup|]; apply H3.
Qed.

(* what the nested dictionary of prefix o holds for an inner name = what the key o:inner holds *)
Lemma fold_nget o (Ho : forall i, split_colon (o ++ 58 :: i) = (o, i)) l : forall n,
  NoDup (map kname l) -> (forall x, In x l -> is_agg (kname x) = true) ->
  forall i, dget i (nget o (fold_left nset l n))
            = match dget (o ++ 58 :: i) (map kw_entry l) with Some v => Some v | None => dget i (nget o n) end.
Proof.
  induction l as [|x r IH]; intros n ND Ha i; [reflexivity|].
  cbn [map] in ND. inversion ND as [|? ? Hn ND']; subst.
  cbn [fold_left]. rewrite (IH _ ND' (fun y I => Ha y (or_intror I))).
  cbn [map]. unfold kw_entry at 2. cbn [dget fst snd]. fold (kname x).
  pose proof (split_colon_join _ (is_agg_has_colon _ (Ha x (or_introl eq_refl)))) as J.
  unfold nset. destruct (split_colon (kname x)) as [ox ix] eqn:S. cbn [fst snd] in J.
  rewrite nget_nested_set.
  destruct (str_eqb (o ++ 58 :: i) (kname x)) eqn:E.
  - apply str_eqb_eq in E. rewrite <- E, Ho in S. injection S as <- <-.
    assert (G : dget (o ++ 58 :: i) (map kw_entry r) = None).
    { apply dget_none_keys. rewrite names_entries, E. exact Hn. }
    rewrite G, str_eqb_refl, dget_dset. cbn [fst]. now rewrite str_eqb_refl.
  - destruct (dget (o ++ 58 :: i) (map kw_entry r)); [reflexivity|].
    destruct (str_eqb o ox) eqn:F; [|reflexivity]. apply str_eqb_eq in F. subst ox.
    rewrite dget_dset. cbn [fst]. destruct (str_eqb i ix) eqn:G; [|reflexivity].
    apply str_eqb_eq in G. subst ix. rewrite J, str_eqb_refl in E. discriminate E.
Qed.

Lemma agg_finish_ok (N : list (str * list ((str * bool) * aval))) seen :
  (forall o, In o (map fst N) -> (o = k_attrs \/ o = k_defaults) /\ mem_str o seen = false) ->
  agg_finish N seen = Some (Some (map nparam N)).
Proof.
  induction N as [|[o d] r IH]; intro H; [reflexivity|].
  cbn [agg_finish map nparam fst snd]. destruct (H o (or_introl eq_refl)) as [Ho Hs]. rewrite Hs.
  rewrite IH; [|intros o' I; apply H; right; exact I].
  destruct Ho as [->| ->]; reflexivity.
Qed.

Lemma pas_all_kw l : forall b,
  forallb (fun p : option ((str * bool) * bool) * tval => match fst p with Some _ => true | None => false end) l = true ->
  positional_after_special l b = false.
Proof.
  induction l as [|[[[k idf]|] v] r IH]; intros b H; [reflexivity| |discriminate H].
  cbn [forallb fst] in H. cbn [positional_after_special]. apply IH. exact H.
Qed.

Lemma bind_app l1 : forall l2 b,
  bind (l1 ++ l2) b = match bind l1 b with Some b' => bind l2 b' | None => None end.
Proof.
  induction l1 as [|[[[k idf]|] v] r IH]; intros l2 b; [reflexivity| |]; cbn [app bind].
  - destruct idf; [|apply IH].
    destruct (str_eqb (fst k) k_attrs); [destruct (b_attrs b); [reflexivity|apply IH]|].
    destruct (str_eqb (fst k) k_defaults); [destruct (b_defaults b); [reflexivity|apply IH]|]. apply IH.
  - destruct (b_seen_kw b); [reflexivity|]. destruct (b_args b) as [|a [|a2 t]]; [apply IH|apply IH|reflexivity].
Qed.

(* the nested dictionaries: at most `attrs` and `defaults`, each once *)
Lemma nested_shape (N : list (str * list ((str * bool) * aval))) : NoDup (map fst N) -> (forall o, In o (map fst N) -> o = k_attrs \/ o = k_defaults) ->
  N = [] \/ (exists A, N = [(k_attrs, A)]) \/ (exists D, N = [(k_defaults, D)]) \/
  (exists A D, N = [(k_attrs, A); (k_defaults, D)]) \/ (exists A D, N = [(k_defaults, D); (k_attrs, A)]).
Proof.
  intros ND H. destruct N as [|[o1 d1] [|[o2 d2] [|[o3 d3] t]]]; [auto| | |].
  - right. destruct (H o1 (or_introl eq_refl)) as [->| ->]; [left|right; left]; eauto.
  - right; right; right. cbn [map fst] in *.
    inversion ND as [|? ? N1 ND1]; subst.
    destruct (H o1 (or_introl eq_refl)) as [->| ->], (H o2 (or_intror (or_introl eq_refl))) as [->| ->].
    + exfalso. apply N1. left. reflexivity.
    + left. eauto.
    + right. eauto.
    + exfalso. apply N1. left. reflexivity.
  - exfalso. cbn [map fst] in *.
    inversion ND as [|? ? N1 ND1]; subst. inversion ND1 as [|? ? N2 ND2]; subst.
    destruct (H o1 (or_introl eq_refl)) as [->| ->], (H o2 (or_intror (or_introl eq_refl))) as [->| ->],
             (H o3 (or_intror (or_intror (or_introl eq_refl)))) as [->| ->];
      try (apply N1; left; reflexivity); try (apply N1; right; left; reflexivity); try (apply N2; left; reflexivity).
Qed.

Lemma dget_filter_name (fb : str -> bool) k l :
  dget k (map kw_entry (filter (fun x => fb (kname x)) l)) = if fb k then dget k (map kw_entry l) else None.
Proof.
  induction l as [|x r IH]; [now destruct (fb k)|]. cbn [filter].
  destruct (fb (kname x)) eqn:F; cbn [map kw_entry dget fst]; fold (kname x).
  - destruct (str_eqb k (kname x)) eqn:E; [|exact IH]. apply str_eqb_eq in E. subst k. now rewrite F.
  - rewrite IH. destruct (str_eqb k (kname x)) eqn:E; [|reflexivity]. apply str_eqb_eq in E. subst k. now rewrite F.
Qed.

Lemma nodup_filter_names (f : (str * bool) * bool * aval -> bool) l :
  NoDup (map kname l) -> NoDup (map kname (filter f l)).
Proof.
  induction l as [|x r IH]; [constructor|]. cbn [map filter]. intro H. inversion H as [|? ? Hn Hr]; subst.
  destruct (f x); [|exact (IH Hr)]. cbn [map]. constructor; [|exact (IH Hr)].
  intro I. apply Hn. apply in_map_iff in I as (y & Y1 & Y2). apply in_map_iff. exists y. split; [exact Y1|].
  apply filter_In in Y2. tauto.
Qed.

(* names of the merged list are names of the written list *)
Lemma merged_names_from kws out :
  (forall k, dget k (map kw_entry out) = kw_val (occ k (map kw_entry kws))) ->
  forall x, In x out -> exists y, In y kws /\ kname y = kname x.
Proof.
  intros O3 x I.
  assert (G : dget (kname x) (map kw_entry out) <> None).
  { intro G. apply dget_none_keys in G. apply G. rewrite names_entries. apply in_map_iff. exists x. auto. }
  rewrite O3 in G. clear - G. induction kws as [|[[k' i'] v'] r IH]; [exfalso; apply G; reflexivity|].
  cbn [map kw_entry occ fst snd] in G. destruct (str_eqb (kname x) (fst k')) eqn:E.
  - apply str_eqb_eq in E. exists ((k', i'), v'). split; [left; reflexivity|]. cbn. auto.
  - destruct (IH G) as (y & Y1 & Y2). exists y. split; [right; exact Y1|exact Y2].
Qed.

Lemma split_attrs i : split_colon (k_attrs ++ 58 :: i) = (k_attrs, i).
Proof. reflexivity. Qed.
Lemma split_defaults i : split_colon (k_defaults ++ 58 :: i) = (k_defaults, i).
Proof. reflexivity. Qed.

(* THE AGGREGATE FORM: any list of keywords each of which is attrs:<name>, defaults:<name> or an extra keyword -
   in any order, repeated in any pattern: the tag behaves as html_attrs on the dictionary A of the attrs: keys, the
   dictionary D of the defaults: keys and the dictionary of the extra keywords, each name holding kw_val of the
   values written for it *)
Lemma tag_aggregate_lemma kws : forallb tag_kw kws = true ->
  exists A D kw, html_attrs_tag (map kwp kws) = html_attrs A D kw /\
    keys_nodup A /\ keys_nodup D /\ keys_nodup kw /\
    (forall i, dget i A = kw_val (occ (k_attrs ++ 58 :: i) (map kw_entry kws))) /\
    (forall i, dget i D = kw_val (occ (k_defaults ++ 58 :: i) (map kw_entry kws))) /\
    (forall k, dget k kw = if extra_name k then kw_val (occ k (map kw_entry kws)) else None).
Proof.
  intro H. destruct (merge_repeated_kw kws []) as (out & O1 & O2 & O3). cbn [mem_str] in O3.
  assert (Hout : forallb tag_kw out = true).
  { rewrite forallb_forall. intros x I. rewrite forallb_forall in H.
    destruct (merged_names_from kws out O3 x I) as (y & Y1 & Y2). specialize (H y Y1). unfold tag_kw in *.
    now rewrite <- Y2. }
  assert (NDo : NoDup (map kname out)) by (rewrite <- names_entries; exact O2).
  set (N := fold_left nset (aggs out) []).
  assert (Hagg : forall x, In x (aggs out) -> agg_name (kname x) = true).
  { intros x I. unfold aggs in I. apply filter_In in I as [I E]. rewrite forallb_forall in Hout.
    specialize (Hout x I). unfold tag_kw in Hout. apply negb_true_iff in E. now rewrite E in Hout. }
  assert (Hisagg : forall x, In x (aggs out) -> is_agg (kname x) = true).
  { intros x I. specialize (Hagg x I). unfold agg_name in Hagg. now apply andb_true_iff in Hagg as [Hagg _]. }
  destruct (fold_inv (aggs out) [] Hagg (NoDup_nil _) (fun o (I : In o []) => match I with end)
                     (fun o => NoDup_nil _)) as (N1 & N2 & N3). fold N in N1, N2, N3.
  assert (NDa : NoDup (map kname (aggs out))) by (apply nodup_filter_names; exact NDo).
  assert (Hpl : forallb extra_kw (plains out) = true).
  { rewrite forallb_forall. intros x I. unfold plains in I. apply filter_In in I as [_ E]. exact E. }
  assert (Hseen : forall o, In o (map fst N) -> (o = k_attrs \/ o = k_defaults) /\ mem_str o (map kname (plains out)) = false).
  { intros o I. split; [exact (N2 o I)|].
    assert (Ex : extra_name o = false) by (destruct (N2 o I) as [->| ->]; reflexivity).
    clear - Ex. induction out as [|x r IH]; [reflexivity|]. unfold plains. cbn [filter].
    destruct (extra_name (kname x)) eqn:E; [|exact IH]. cbn [map mem_str]. fold (plains r). rewrite IH, orb_false_r.
    destruct (str_eqb o (kname x)) eqn:F; [|reflexivity]. apply str_eqb_eq in F. subst o. rewrite E in Ex. discriminate. }
  exists (nget k_attrs N), (nget k_defaults N),
         (map kw_entry (idents (plains out)) ++ map kw_entry (specials (plains out))).
  assert (NDp : keys_nodup (map kw_entry (plains out))).
  { unfold keys_nodup. rewrite names_entries. apply nodup_filter_names. exact NDo. }
  split; [|split; [apply N3|split; [apply N3|split; [apply partition_nodup; exact NDp|split; [|split]]]]].
  - unfold html_attrs_tag. rewrite O1. unfold aggregate. rewrite (agg_loop_tag out [] Hout). fold N.
    rewrite (agg_finish_ok N _ Hseen).
    rewrite pas_all_kw.
    2:{ rewrite forallb_app. apply andb_true_iff. split; rewrite forallb_forall; intros p I;
        apply in_map_iff in I as (y & <- & _); reflexivity. }
    rewrite bind_app.
    destruct (bind_kw (plains out) Hpl bound0) as (b' & B1 & B2 & B3 & B4 & B5).
    rewrite B1. cbn [bound0 b_attrs b_defaults b_kw b_special app] in B2, B3, B4, B5.
    destruct b' as [bargs battrs bdefaults bkw bspecial bseen]. cbn [b_attrs b_defaults b_kw b_special] in *. subst.
    destruct (nested_shape N N1 N2) as [E|[(A & E)|[(D & E)|[(A & D & E)|(A & D & E)]]]]; rewrite E;
      cbn [map nparam fst snd bind b_attrs b_defaults b_kw b_special b_args b_seen_kw str_eqb k_attrs k_defaults
           N.eqb Pos.eqb andb as_dict nget];
      rewrite <- map_app, as_scalars_kw, map_app; reflexivity.
  - intro i. unfold N. rewrite (fold_nget k_attrs split_attrs (aggs out) [] NDa Hisagg i). cbn [nget dget].
    unfold aggs. rewrite (dget_filter_name (fun k => negb (extra_name k))). cbn [negb]. rewrite O3.
    replace (extra_name (k_attrs ++ 58 :: i)) with false; [cbn [negb]|].
    + now destruct (kw_val (occ (k_attrs ++ 58 :: i) (map kw_entry kws))).
    + reflexivity.
  - intro i. unfold N. rewrite (fold_nget k_defaults split_defaults (aggs out) [] NDa Hisagg i). cbn [nget dget].
    unfold aggs. rewrite (dget_filter_name (fun k => negb (extra_name k))). cbn [negb]. rewrite O3.
    replace (extra_name (k_defaults ++ 58 :: i)) with false; [cbn [negb]|].
    + now destruct (kw_val (occ (k_defaults ++ 58 :: i) (map kw_entry kws))).
    + reflexivity.
  - intro k. rewrite (dget_partition k (plains out) NDp). unfold plains.
    rewrite (dget_filter_name extra_name), O3. reflexivity.
Qed.

(* ================================================================================================ *)
(* history: the caller's dictionaries are not written; every call is the pure function of them      *)
(* ================================================================================================ *)
Lemma length_hset h : forall i x, length (hset h i x) = length h.
Proof. induction h as [|y t IH]; intros [|j] x; cbn [hset length]; auto. Qed.

Lemma nth_hset_same h : forall i x, (i < length h)%nat -> nth i (hset h i x) [] = x.
Proof.
  induction h as [|y t IH]; intros [|j] x H; cbn [length] in H; try lia; cbn [hset nth]; [reflexivity|].
  apply IH. lia.
Qed.

Lemma nth_hset_other h : forall i j x, i <> j -> nth i (hset h j x) [] = nth i h [].
Proof.
  induction h as [|y t IH]; intros i j x H; [destruct j; reflexivity|].
  destruct j as [|j], i as [|i]; cbn [hset nth]; try reflexivity; [congruence|]. apply IH. congruence.
Qed.

Lemma firstn_hset h : forall n j x, (n <= j)%nat -> firstn n (hset h j x) = firstn n h.
Proof.
  induction h as [|y t IH]; intros n j x H; [destruct j; reflexivity|].
  destruct n as [|n]; [reflexivity|]. destruct j as [|j]; [lia|]. cbn [hset firstn]. f_equal. apply IH. lia.
Qed.

Lemma firstn_app_le {A} (h t : list A) n : (n <= length h)%nat -> firstn n (h ++ t) = firstn n h.
Proof.
  intro H. rewrite firstn_app. replace (n - length h)%nat with O by lia. cbn [firstn]. apply app_nil_r.
Qed.

Lemma nth_firstn_lt {A} (h : list A) d : forall n r, (r < n)%nat -> nth r (firstn n h) d = nth r h d.
Proof.
  induction h as [|y t IH]; intros n r H; [destruct n, r; reflexivity|].
  destruct n as [|n]; [lia|]. destruct r as [|r]; [reflexivity|]. cbn [firstn nth]. apply IH. lia.
Qed.

Lemma deref_app h t r : ref_ok (length h) r = true -> deref (h ++ t) r = deref h r.
Proof. destruct r as [i|]; [|reflexivity]. cbn [ref_ok deref]. intro H. apply Nat.ltb_lt in H. now apply app_nth1. Qed.

Lemma deref_hset h j x r : ref_ok j r = true -> deref (hset h j x) r = deref h r.
Proof.
  destruct r as [i|]; [|reflexivity]. cbn [ref_ok deref]. intro H. apply Nat.ltb_lt in H.
  apply nth_hset_other. lia.
Qed.

(* ONE CALL on objects: the result is the pure function of the contents of the two dictionaries and the keywords,
   and every object that existed before the call - in particular `attrs` and `defaults` - has the contents it had
   (the call writes only to the two dictionaries it creates) *)
Lemma render_heap_frame h a d kw : ref_ok (length h) a = true -> ref_ok (length h) d = true ->
  fst (render_heap h a d kw) = html_attrs (deref h a) (deref h d) kw /\
  firstn (length h) (snd (render_heap h a d kw)) = h /\
  (length h <= length (snd (render_heap h a d kw)))%nat.
Proof.
  intros Ha Hd. unfold render_heap, halloc.
  set (n := length h). set (h1 := h ++ [[]]).
  assert (L1 : length h1 = S n) by (unfold h1; rewrite app_length; cbn; lia).
  assert (F1 : nth n h1 [] = []) by (unfold h1, n; apply nth_middle).
  rewrite F1. cbn [dupdate fold_left].
  assert (D1 : deref h1 d = deref h d) by (apply deref_app; exact Hd).
  rewrite D1. fold (dupdate [] (deref h d)).
  set (h2 := hset h1 n (dupdate [] (deref h d))).
  assert (L2 : length h2 = S n) by (unfold h2; now rewrite length_hset).
  assert (F2 : nth n h2 [] = dupdate [] (deref h d)) by (unfold h2; apply nth_hset_same; lia).
  assert (D2 : deref h2 a = deref h a).
  { unfold h2. rewrite deref_hset; [apply deref_app; exact Ha|exact Ha]. }
  rewrite F2, D2.
  set (base := dupdate (dupdate [] (deref h d)) (deref h a)).
  set (h3 := hset h2 n base).
  assert (L3 : length h3 = S n) by (unfold h3; now rewrite length_hset).
  assert (F3 : nth n h3 [] = base) by (unfold h3; apply nth_hset_same; lia).
  assert (F4 : nth n (h3 ++ [[]]) [] = base) by (rewrite app_nth1; [exact F3|lia]).
  assert (R4 : nth (length h3) (h3 ++ [[]]) [] = []) by apply nth_middle.
  rewrite F4, R4.
  assert (P : firstn n (h3 ++ [[]]) = h).
  { rewrite firstn_app_le by lia. unfold h3. rewrite firstn_hset by lia. unfold h2. rewrite firstn_hset by lia.
    unfold h1, n. rewrite firstn_app_le by lia. apply firstn_all. }
  unfold html_attrs, html_attrs_dict. fold base.
  destruct (append_attributes (base ++ kw) []) as [res|]; cbn [fst snd].
  - rewrite nth_hset_same by (rewrite app_length; cbn; lia).
    split; [reflexivity|]. split.
    + rewrite firstn_hset by lia. exact P.
    + rewrite length_hset, app_length. lia.
  - split; [reflexivity|]. split; [exact P|]. rewrite app_length. lia.
Qed.

(* ANY HISTORY of calls that share dictionary objects (the same `defaults` and `attrs` objects reaching the tag again
   and again, in a loop or across renders, with any other arguments in between): every call renders what the pure
   function gives on the ORIGINAL contents, and afterwards the objects still have their original contents *)
Lemma history_lemma cs : forall h0 h,
  firstn (length h0) h = h0 -> (length h0 <= length h)%nat ->
  forallb (fun c : option nat * option nat * list ((str * bool) * aval) =>
             ref_ok (length h0) (fst (fst c)) && ref_ok (length h0) (snd (fst c))) cs = true ->
  fst (run_heap h cs) = map (fun c => html_attrs (deref h0 (fst (fst c))) (deref h0 (snd (fst c))) (snd c)) cs /\
  firstn (length h0) (snd (run_heap h cs)) = h0.
Proof.
  induction cs as [|[[a d] kw] r IH]; intros h0 h P L H; [split; [reflexivity|exact P]|].
  cbn [forallb fst snd] in H. apply andb_true_iff in H as [H1 H2]. apply andb_true_iff in H1 as [Ha Hd].
  assert (W : forall x, ref_ok (length h0) x = true -> ref_ok (length h) x = true /\ deref h x = deref h0 x).
  { intros [i|] X; [|split; reflexivity]. cbn [ref_ok deref] in *. apply Nat.ltb_lt in X. split; [apply Nat.ltb_lt; lia|].
    transitivity (nth i (firstn (length h0) h) []); [symmetry; now apply nth_firstn_lt|now rewrite P]. }
  destruct (W a Ha) as [Ha' Ea], (W d Hd) as [Hd' Ed].
  destruct (render_heap_frame h a d kw Ha' Hd') as (R1 & R2 & R3).
  cbn [run_heap map fst snd]. destruct (render_heap h a d kw) as [o h'] eqn:E. cbn [fst snd] in R1, R2, R3.
  assert (P' : firstn (length h0) h' = h0).
  { transitivity (firstn (length h0) (firstn (length h) h')); [rewrite firstn_firstn; f_equal; lia|rewrite R2; exact P]. }
  destruct (IH h0 h' P' ltac:(lia) H2) as [I1 I2].
  destruct (run_heap h' r) as [os h'']. cbn [fst snd] in *. split; [|exact I2].
  rewrite R1, Ea, Ed, I1. reflexivity.
Qed.

Lemma history_independent_lemma h0 cs :
  forallb (fun c : option nat * option nat * list ((str * bool) * aval) =>
             ref_ok (length h0) (fst (fst c)) && ref_ok (length h0) (snd (fst c))) cs = true ->
  fst (run_heap h0 cs) = map (fun c => html_attrs (deref h0 (fst (fst c))) (deref h0 (snd (fst c))) (snd c)) cs /\
  firstn (length h0) (snd (run_heap h0 cs)) = h0.
Proof. intro H. apply history_lemma; [apply firstn_all|lia|exact H]. Qed.

(* the aliasing variant (`final_attrs = defaults or {}` then update in place - seeded change C13d) is NOT
   history independent: the second call of a loop carries the first call's attrs *)
Definition render_heap_aliased (h : list (list ((str * bool) * aval))) (a d : option nat) (kw : list ((str * bool) * aval))
  : outcome * list (list ((str * bool) * aval)) :=
  match d with
  | Some f => let h3 := hset h f (dupdate (nth f h []) (deref h a)) in
              (html_attrs [] (nth f h3 []) kw, h3)
  | None => (html_attrs (deref h a) [] kw, h)
  end.
Lemma aliased_render_leaks : exists h a1 a2 d,
  fst (render_heap_aliased h a1 d []) = html_attrs (deref h a1) (deref h d) [] /\
  fst (render_heap_aliased (snd (render_heap_aliased h a1 d [])) a2 d []) <> html_attrs (deref h a2) (deref h d) [].
Proof.
  exists [[(([99], false), VStr [100])]; [(([120], false), VTrue)]; []], (Some 1%nat), (Some 2%nat), (Some 0%nat).
  split; [reflexivity|]. vm_compute. discriminate.
Qed.
