(* Proofs for property C13 (model: Attrs/Model.v). *)
From DJC Require Import Lib.Base Attrs.Model.
From DJC Require Gen.C13.
Local Open Scope N_scope.

(* ================================================================================================ *)
(* anchors: the constants the model was written for are the ones the source (and Django) has NOW     *)
(* (Gen/C13.v is regenerated from the tree under test on every run; an edit there breaks these)      *)
(* ================================================================================================ *)
Example wrap_js_anchor :
  (Gen.C13.js_needle, Gen.C13.js_lowered, Gen.C13.js_open, Gen.C13.js_close) = (needle_js, true, open_js, close_js).
Proof. reflexivity. Qed.
Example wrap_css_anchor :
  (Gen.C13.css_needle, Gen.C13.css_lowered, Gen.C13.css_open, Gen.C13.css_close) = (needle_css, true, open_css, close_css).
Proof. reflexivity. Qed.
(* format_html('{}="{}"', key, value), " ".join(...), result[key] += " " + value *)
Example attr_format_anchor :
  (Gen.C13.attr_format, Gen.C13.attr_sep, Gen.C13.append_sep) = ([123;125;61;34;123;125;34], [32], [32]).
Proof. reflexivity. Qed.
(* Django's escape changes exactly the five characters of escape1, in the same way *)
Example escape_anchor :
  map fst Gen.C13.escape_table = [34; 38; 39; 60; 62] /\
  forallb (fun p => str_eqb (escape1 (fst p)) (snd p)) Gen.C13.escape_table = true.
Proof. split; reflexivity. Qed.

(* ================================================================================================ *)
(* escape / decode                                                                                  *)
(* ================================================================================================ *)
Definition special (c : N) : bool :=
  N.eqb c 38 || N.eqb c 60 || N.eqb c 62 || N.eqb c 34 || N.eqb c 39.

Lemma escape1_ordinary c : special c = false -> escape1 c = [c].
Proof.
  unfold special, escape1. intro H.
  repeat (apply orb_false_iff in H; destruct H as [H ?]).
  now rewrite H, H0, H1, H2, H3.
Qed.

Lemma escape1_cases c :
  (c = 38 \/ c = 60 \/ c = 62 \/ c = 34 \/ c = 39) \/ special c = false.
Proof.
  unfold special.
  destruct (N.eqb_spec c 38); [left; auto|].
  destruct (N.eqb_spec c 60); [left; auto|].
  destruct (N.eqb_spec c 62); [left; auto|].
  destruct (N.eqb_spec c 34); [left; auto 6|].
  destruct (N.eqb_spec c 39); [left; auto 6|].
  right. reflexivity.
Qed.

Lemma escape_cons c s : escape (c :: s) = escape1 c ++ escape s.
Proof. reflexivity. Qed.

Lemma escape_app a b : escape (a ++ b) = escape a ++ escape b.
Proof. unfold escape. apply flat_map_app. Qed.

(* the reader undoes escape, for every string *)
Lemma decode_escape s : decode (escape s) = s.
Proof.
  unfold decode. induction s as [|c s IH]; [reflexivity|].
  rewrite escape_cons.
  destruct (escape1_cases c) as [[E|[E|[E|[E|E]]]]|E].
  1-5: subst c; cbn; f_equal; exact IH.
  rewrite (escape1_ordinary c E). cbn [app dec].
  assert (Hc : N.eqb c 38 = false).
  { unfold special in E. apply orb_false_iff in E. destruct E as [E _].
    repeat (apply orb_false_iff in E; destruct E as [E _]). exact E. }
  rewrite Hc. f_equal. exact IH.
Qed.

Lemma escape1_no_dq c : ~ In 34 (escape1 c).
Proof.
  destruct (escape1_cases c) as [[E|[E|[E|[E|E]]]]|E].
  1-5: subst c; cbn; intros H; repeat (destruct H as [H|H]; [discriminate H|]); exact H.
  rewrite (escape1_ordinary c E). intros [H|[]]. subst c. discriminate E.
Qed.

Lemma escape_no_dq s : ~ In 34 (escape s).
Proof.
  induction s as [|c s IH]; [intros []|]. rewrite escape_cons. intro H.
  apply in_app_or in H. destruct H as [H|H]; [exact (escape1_no_dq c H) | exact (IH H)].
Qed.

(* ================================================================================================ *)
(* the tokenizer on rendered attributes                                                             *)
(* ================================================================================================ *)
Lemma name_char_ok_facts c : name_char_ok c = true ->
  N.eqb c 62 = false /\ is_ws c = false /\ N.eqb c 47 = false /\ N.eqb c 61 = false /\ special c = false.
Proof.
  unfold name_char_ok, is_ws, special. intro H. apply negb_true_iff in H.
  repeat (apply orb_false_iff in H; destruct H as [H ?]).
  destruct (N.leb_spec c 32) as [L|L]; [discriminate H|].
  repeat match goal with
  | |- context [N.eqb c ?k] => destruct (N.eqb_spec c k); [subst c; try discriminate; try lia|]
  end.
  repeat split; reflexivity.
Qed.

Lemma valid_name_escape k : forallb name_char_ok k = true -> escape k = k.
Proof.
  induction k as [|c k IH]; [reflexivity|]. cbn [forallb]. intro H. apply andb_true_iff in H as [H1 H2].
  rewrite escape_cons, (IH H2). destruct (name_char_ok_facts c H1) as (_ & _ & _ & _ & S).
  now rewrite (escape1_ordinary c S).
Qed.

Lemma tok_cons c r st acc : tok (c :: r) st acc =
  match step st c acc with Go st' acc' => tok r st' acc' | Stop acc' => BrokeOut (rev acc') r end.
Proof. reflexivity. Qed.

(* the rest of a name *)
Lemma tok_name_rest k : forallb name_char_ok k = true -> forall rest n acc,
  tok (k ++ rest) (SName n) acc = tok rest (SName (rev (map lower_ascii k) ++ n)) acc.
Proof.
  induction k as [|c k IH]; intros H rest n acc; [reflexivity|].
  cbn [forallb] in H. apply andb_true_iff in H as [H1 H2].
  destruct (name_char_ok_facts c H1) as (G & W & S & E & _).
  cbn [app]. rewrite tok_cons. cbn [step]. rewrite G, W, S, E.
  rewrite (IH H2). cbn [map rev]. now rewrite <- app_assoc.
Qed.

(* states in which the tokenizer is ready for the next attribute, and what they still owe *)
Inductive ready : tstate -> Prop := ready_before : ready SBefore | ready_after m : ready (SAfterName m).
Definition owed (st : tstate) (acc : list (str * option str)) : list (str * option str) :=
  match st with SAfterName m => (m, None) :: acc | _ => acc end.

Lemma tok_name k : valid_name k = true -> forall R rest acc, ready R ->
  tok (k ++ rest) R acc = tok rest (SName (rev (map lower_ascii k))) (owed R acc).
Proof.
  destruct k as [|c k]; [discriminate|]. cbn [valid_name forallb]. intros H R rest acc HR.
  apply andb_true_iff in H as [H1 H2].
  destruct (name_char_ok_facts c H1) as (G & W & S & E & _).
  cbn [app]. rewrite tok_cons.
  destruct HR; cbn [step]; rewrite G, W; try rewrite E; unfold start_attr; rewrite S;
    rewrite (tok_name_rest k H2); cbn [map rev owed]; reflexivity.
Qed.

Lemma tok_dq_body body : ~ In 34 body -> forall rest m v acc,
  tok (body ++ rest) (SDQ m v) acc = tok rest (SDQ m (rev body ++ v)) acc.
Proof.
  induction body as [|c body IH]; intros H rest m v acc; [reflexivity|].
  cbn [app]. rewrite tok_cons. cbn [step].
  destruct (N.eqb_spec c 34) as [->|Hc]; [exfalso; apply H; left; reflexivity|].
  rewrite IH; [|intro; apply H; right; assumption]. cbn [rev]. now rewrite <- app_assoc.
Qed.

Lemma step_name_eq n acc : step (SName n) 61 acc = Go (SBeforeVal (rev n)) acc.
Proof. reflexivity. Qed.
Lemma step_beforeval_dq m acc : step (SBeforeVal m) 34 acc = Go (SDQ m []) acc.
Proof. reflexivity. Qed.
Lemma step_dq_close m v acc : step (SDQ m v) 34 acc = Go SAfterQ ((m, Some (decode (rev v))) :: acc).
Proof. reflexivity. Qed.

(* one rendered attribute with a value, read from a ready state *)
Lemma tok_valued k t : valid_name k = true -> forall R rest acc, ready R ->
  tok ((k ++ [61; 34] ++ escape t ++ [34]) ++ rest) R acc
  = tok rest SAfterQ ((map lower_ascii k, Some t) :: owed R acc).
Proof.
  intros Hk R rest acc HR. rewrite <- app_assoc. rewrite (tok_name k Hk R _ acc HR).
  cbn [app]. rewrite tok_cons, step_name_eq, tok_cons, step_beforeval_dq.
  rewrite <- app_assoc. rewrite (tok_dq_body (escape t) (escape_no_dq t)).
  cbn [app]. rewrite tok_cons, step_dq_close. rewrite app_nil_r, !rev_involutive, decode_escape.
  reflexivity.
Qed.

Lemma tok_bare k : valid_name k = true -> forall R rest acc, ready R ->
  tok (k ++ rest) R acc = tok rest (SName (rev (map lower_ascii k))) (owed R acc).
Proof. exact (tok_name k). Qed.

(* states in which the tokenizer stands right after a rendered attribute *)
Inductive after : tstate -> Prop := after_q : after SAfterQ | after_name n : after (SName n).
Definition next_ready (st : tstate) : tstate := match st with SName n => SAfterName (rev n) | _ => SBefore end.

Lemma tok_space A rest acc : after A -> tok (32 :: rest) A acc = tok rest (next_ready A) acc.
Proof. intros []; reflexivity. Qed.

Lemma next_ready_ready A : after A -> ready (next_ready A).
Proof. intros []; constructor. Qed.

Lemma owed_next_ready A acc : after A -> owed (next_ready A) acc = finish A acc.
Proof. intros []; reflexivity. Qed.

Lemma item_guard k v : rendered v = true -> valid_name k = true -> not_safe v = true ->
  (v = VTrue /\ render_item (k, v) = Some k /\ expected_item (k, v) = Some (map lower_ascii k, None)) \/
  (render_item (k, v) = Some (k ++ [61; 34] ++ escape (text_of v) ++ [34]) /\
   expected_item (k, v) = Some (map lower_ascii k, Some (text_of v))).
Proof.
  intros Hr Hk Hs. assert (Ek : escape k = k).
  { apply valid_name_escape. destruct k; [discriminate|exact Hk]. }
  destruct v; try discriminate; cbn [render_item expected_item cesc text_of]; rewrite Ek; auto.
Qed.

(* the attributes that follow the first one: each preceded by one space *)
Lemma tok_tail d : roundtrip_guard d = true -> forall A acc, after A ->
  tok (flat_map (cons 32) (filter_some (map render_item d))) A acc
  = Parsed (rev (finish A acc) ++ expected d).
Proof.
  induction d as [|[k v] d IH]; intros G A acc HA.
  - cbn. destruct HA; cbn; now rewrite app_nil_r.
  - cbn [roundtrip_guard forallb fst snd] in G. apply andb_true_iff in G as [G1 G2].
    fold (roundtrip_guard d) in G2. unfold expected. cbn [map].
    destruct (rendered v) eqn:Hr.
    + cbn [negb orb] in G1. apply andb_true_iff in G1 as [Hk Hs].
      destruct (item_guard k v Hr Hk Hs) as [(-> & Er & Ee)|(Er & Ee)]; rewrite Er, Ee;
        cbn [filter_some flat_map app]; rewrite (tok_space A _ acc HA).
      * rewrite (tok_bare k Hk _ _ acc (next_ready_ready A HA)).
        rewrite (owed_next_ready A acc HA).
        fold (expected d). rewrite (IH G2 _ _ (after_name _)). cbn [finish rev].
        rewrite rev_involutive, <- app_assoc. reflexivity.
      * rewrite (tok_valued k (text_of v) Hk _ _ acc (next_ready_ready A HA)).
        rewrite (owed_next_ready A acc HA).
        fold (expected d). rewrite (IH G2 _ _ after_q). cbn [finish rev].
        rewrite <- app_assoc. reflexivity.
    + assert (render_item (k, v) = None /\ expected_item (k, v) = None) as [Er Ee].
      { destruct v; try discriminate; split; reflexivity. }
      rewrite Er, Ee. cbn [filter_some]. fold (expected d). apply (IH G2 A acc HA).
Qed.

Lemma join_sp_cons x r : join_sp (x :: r) = x ++ flat_map (cons 32) r.
Proof.
  revert x. induction r as [|y r IH]; intro x; [cbn; now rewrite app_nil_r|].
  change (join_sp (x :: y :: r)) with (x ++ 32 :: join_sp (y :: r)). rewrite IH. reflexivity.
Qed.

(* ROUND TRIP: every emitted attribute has a valid name and a non-safe value => the reader finds exactly
   the names (lower-cased, as HTML reads them) and values given, in order, each once, nothing else. *)
Lemma attrs_roundtrip_lemma d : roundtrip_guard d = true ->
  parse_attrs (attributes_to_string d) = Parsed (expected d).
Proof.
  unfold parse_attrs, attributes_to_string.
  induction d as [|[k v] d IH]; intro G; [reflexivity|].
  pose proof G as G0.
  cbn [roundtrip_guard forallb fst snd] in G. apply andb_true_iff in G as [G1 G2].
  fold (roundtrip_guard d) in G2. unfold expected. cbn [map].
  destruct (rendered v) eqn:Hr.
  - cbn [negb orb] in G1. apply andb_true_iff in G1 as [Hk Hs].
    destruct (item_guard k v Hr Hk Hs) as [(-> & Er & Ee)|(Er & Ee)]; rewrite Er, Ee;
      cbn [filter_some]; rewrite join_sp_cons.
    + rewrite (tok_bare k Hk SBefore _ [] ready_before). cbn [owed].
      fold (expected d). rewrite (tok_tail d G2 _ _ (after_name _)). cbn [finish rev app].
      now rewrite rev_involutive.
    + rewrite (tok_valued k (text_of v) Hk SBefore _ [] ready_before). cbn [owed].
      fold (expected d). rewrite (tok_tail d G2 _ _ after_q). reflexivity.
  - assert (render_item (k, v) = None /\ expected_item (k, v) = None) as [Er Ee].
    { destruct v; try discriminate; split; reflexivity. }
    rewrite Er, Ee. cbn [filter_some]. fold (expected d). exact (IH G2).
Qed.

(* the guard is needed: a name with a space is read back as two attributes (html.parser agrees) *)
Lemma attrs_roundtrip_names_refuted_lemma :
  exists d, forallb (fun kv => not_safe (snd kv)) d = true /\
            parse_attrs (attributes_to_string d) <> Parsed (expected d).
Proof. exists [([97; 32; 98], VStr [118])]. split; [reflexivity|]. vm_compute. discriminate. Qed.

(* names and number of the attributes read back depend on the names and kinds only, never on the values *)
Definition shape (kv : str * aval) : str * option bool :=
  (fst kv, match snd kv with VNone | VFalse => None | VTrue => Some false | _ => Some true end).

Lemma expected_names_shape d d' : map shape d = map shape d' ->
  map fst (expected d) = map fst (expected d') /\
  map (fun a => match snd a with Some _ => true | None => false end) (expected d)
  = map (fun a => match snd a with Some _ => true | None => false end) (expected d').
Proof.
  revert d'. induction d as [|[k v] d IH]; intros [|[k' v'] d'] H; try discriminate; [split; reflexivity|].
  cbn [map shape fst snd] in H. injection H as Hk Hv Hr.
  destruct (IH d' Hr) as [I1 I2]. unfold expected in *. cbn [map]. subst k'.
  destruct v, v'; try discriminate; cbn [expected_item filter_some map fst snd]; split; congruence.
Qed.

Lemma cannot_break_out_lemma d d' :
  roundtrip_guard d = true -> roundtrip_guard d' = true -> map shape d = map shape d' ->
  exists l l', parse_attrs (attributes_to_string d) = Parsed l /\
               parse_attrs (attributes_to_string d') = Parsed l' /\
               map fst l = map fst l' /\ length l = length l'.
Proof.
  intros G G' H. exists (expected d), (expected d').
  rewrite (attrs_roundtrip_lemma d G), (attrs_roundtrip_lemma d' G').
  destruct (expected_names_shape d d' H) as [H1 _]. repeat split; try assumption.
  rewrite <- (map_length fst (expected d)), H1. apply map_length.
Qed.

(* ================================================================================================ *)
(* slot content                                                                                     *)
(* ================================================================================================ *)
Lemma repass_escaped f flags : travel (f, true) (map Repass flags) = (f, true).
Proof. induction flags as [|b r IH]; [reflexivity|]. cbn. exact IH. Qed.

Lemma user_value_normalize c b v : user_value c = Some v ->
  (exists w, c = CStr v /\ normalize c b = (FText w, false) /\ w = (if b then cond_escape v else v)) \/
  (exists f, normalize c b = (f, true) /\
             call f = if b && negb (declared_escaped c) then cond_escape v else v).
Proof.
  destruct c as [w|w|[f e]]; cbn [user_value]; intro H.
  - injection H as ->. left. eexists. repeat split.
  - injection H as ->. right. eexists. split; [reflexivity|]. cbn. destruct b; reflexivity.
  - destruct f; try discriminate. injection H as ->. right. destruct e; eexists; (split; [reflexivity|]).
    + cbn. now rewrite andb_false_r.
    + cbn. destruct b; reflexivity.
Qed.

Lemma stext_cond_escape v : stext (cond_escape v) = if is_plain v then escape (stext v) else stext v.
Proof. destruct v; reflexivity. Qed.

(* EXACTLY ONCE: through every chain of handing the normalised slot on (any flags, incl. the dynamic
   component's flag=false), the text emitted is the content escaped once iff escaping was on at the entry,
   the content is not safe and was not declared escaped - and the content itself otherwise. *)
Lemma slot_once_lemma c b v flags : user_value c = Some v ->
  emit (travel (normalize c b) (map Repass flags))
  = if b && negb (declared_escaped c) && is_plain v then escape (stext v) else stext v.
Proof.
  intro H. destruct (user_value_normalize c b v H) as [(w & -> & -> & ->)|(f & -> & Hc)].
  - cbn [declared_escaped negb]. rewrite andb_true_r.
    assert (E : forall w, emit (travel (FText w, false) (map Repass flags)) = stext w).
    { intro w. destruct flags as [|b1 r]; [reflexivity|]. cbn [map travel fold_left hop1 normalize].
      change (fold_left hop1 (map Repass r) (FEsc b1 (FText w), true))
        with (travel (FEsc b1 (FText w), true) (map Repass r)).
      rewrite repass_escaped. unfold emit. cbn. destruct b1; reflexivity. }
    rewrite E. destruct b; cbn [andb]; [apply stext_cond_escape|reflexivity].
  - rewrite repass_escaped. unfold emit. cbn [fst]. rewrite Hc.
    destruct (b && negb (declared_escaped c)); cbn [andb]; [apply stext_cond_escape|reflexivity].
Qed.

(* NEVER TWICE, whatever happens on the way (also when user code re-wraps the slot in a fresh Slot(...)
   and hands it on with escaping requested): the text emitted is the content or the content escaped once,
   and safe content is never touched. *)
Definition once_or_never (v r : sval) : Prop :=
  r = v \/ exists t, r = Safe t /\ (t = stext v \/ (is_plain v = true /\ t = escape (stext v))).

Lemma once_or_never_escape v r : once_or_never v r -> once_or_never v (cond_escape r).
Proof.
  intros [->|(t & -> & H)].
  - destruct v as [s|s]; [right; exists (escape s); split; [reflexivity|right; split; reflexivity]
                          | left; reflexivity].
  - right. exists t. split; [reflexivity|exact H].
Qed.

Lemma hop_preserves v s h : once_or_never v (call (fst s)) -> once_or_never v (call (fst (hop1 s h))).
Proof.
  destruct s as [f e]. intro H.
  destruct h as [b|b]; cbn [hop1 normalize fst].
  - destruct e; cbn [fst]; [exact H|]. cbn [call]. destruct b; [apply once_or_never_escape|]; exact H.
  - cbn [call]. destruct b; [apply once_or_never_escape|]; exact H.
Qed.

Lemma travel_preserves v hs : forall s, once_or_never v (call (fst s)) ->
  once_or_never v (call (fst (travel s hs))).
Proof.
  induction hs as [|h hs IH]; intros s H; [exact H|]. cbn [travel fold_left].
  apply (IH (hop1 s h)). apply hop_preserves. exact H.
Qed.

Lemma normalize_once_or_never c b v : user_value c = Some v -> once_or_never v (call (fst (normalize c b))).
Proof.
  intro H. destruct (user_value_normalize c b v H) as [(w & -> & -> & ->)|(f & -> & Hc)]; cbn [fst].
  - cbn [call]. right. destruct b.
    + exists (stext (cond_escape v)). split; [reflexivity|]. rewrite stext_cond_escape.
      destruct v; cbn; [right; split; reflexivity|left; reflexivity].
    + exists (stext v). split; [reflexivity|left; reflexivity].
  - rewrite Hc. destruct (b && negb (declared_escaped c)); [apply once_or_never_escape|]; left; reflexivity.
Qed.

Lemma slot_never_twice_lemma c b v hs : user_value c = Some v ->
  let out := emit (travel (normalize c b) hs) in
  (out = stext v \/ (is_plain v = true /\ out = escape (stext v))).
Proof.
  intros H out. pose proof (travel_preserves v hs _ (normalize_once_or_never c b v H)) as K.
  unfold out, emit. destruct K as [->|(t & -> & K)]; [left; reflexivity|exact K].
Qed.

(* ================================================================================================ *)
(* end-tag guard                                                                                    *)
(* ================================================================================================ *)
Definition ascii_fixed (x : N) : Prop := x < 65 \/ (90 < x /\ x < 128).

Definition lower_agree (n : str) : Prop :=
  forall s, starts_with n (py_lower s) = starts_with n (map lower_ascii s).

Lemma lower_agree_nil : lower_agree [].
Proof. intro s. destruct (py_lower s), (map lower_ascii s); reflexivity. Qed.

Lemma py_lower_cons c s : py_lower (c :: s) = py_lower1 c ++ py_lower s.
Proof. reflexivity. Qed.

Lemma py_lower1_cases c :
  (65 <= c <= 90 /\ py_lower1 c = [c + 32] /\ lower_ascii c = c + 32) \/
  (c = 304 /\ py_lower1 c = [105; 775] /\ lower_ascii c = c) \/
  (c = 8490 /\ py_lower1 c = [107] /\ lower_ascii c = c) \/
  ((c < 65 \/ 90 < c) /\ c <> 304 /\ c <> 8490 /\ py_lower1 c = [c] /\ lower_ascii c = c).
Proof.
  unfold py_lower1, lower_ascii.
  destruct (N.leb_spec 65 c), (N.leb_spec c 90); cbn [andb].
  - left. repeat split; assumption.
  - destruct (N.eqb_spec c 304); [right; left; auto|].
    destruct (N.eqb_spec c 8490); [right; right; left; auto|].
    right; right; right. repeat split; auto.
  - right; right; right. assert (c <> 304) by lia. assert (c <> 8490) by lia.
    destruct (N.eqb_spec c 304); [contradiction|]. destruct (N.eqb_spec c 8490); [contradiction|].
    repeat split; auto.
  - lia.
Qed.

Lemma starts_with_cons x p a l : starts_with (x :: p) (a :: l) = N.eqb x a && starts_with p l.
Proof. reflexivity. Qed.

(* a needle character that is ASCII, not upper case, and neither i nor k *)
Lemma lower_agree_cons x n : ascii_fixed x -> x <> 105 -> x <> 107 -> lower_agree n -> lower_agree (x :: n).
Proof.
  intros Hx Hi Hk Hn [|c s]; [reflexivity|].
  rewrite py_lower_cons. cbn [map].
  destruct (py_lower1_cases c) as [(R & -> & ->)|[(-> & -> & ->)|[(-> & -> & ->)|(R & N1 & N2 & -> & ->)]]];
    cbn [app]; rewrite !starts_with_cons.
  - now rewrite (Hn s).
  - destruct (N.eqb_spec x 105); [contradiction|]. destruct (N.eqb_spec x 304); [unfold ascii_fixed in Hx; lia|].
    reflexivity.
  - destruct (N.eqb_spec x 107); [contradiction|]. destruct (N.eqb_spec x 8490); [unfold ascii_fixed in Hx; lia|].
    reflexivity.
  - now rewrite (Hn s).
Qed.

(* the letter i, followed in the needle by something that is not U+0307 *)
Lemma lower_agree_i y n : y <> 775 -> lower_agree (y :: n) -> lower_agree (105 :: y :: n).
Proof.
  intros Hy Hn [|c s]; [reflexivity|].
  rewrite py_lower_cons. cbn [map].
  destruct (py_lower1_cases c) as [(R & -> & ->)|[(-> & -> & ->)|[(-> & -> & ->)|(R & N1 & N2 & -> & ->)]]];
    cbn [app].
  - rewrite !(starts_with_cons 105). now rewrite (Hn s).
  - rewrite !starts_with_cons. destruct (N.eqb_spec y 775); [contradiction|]. reflexivity.
  - rewrite !(starts_with_cons 105). reflexivity.
  - rewrite !(starts_with_cons 105). now rewrite (Hn s).
Qed.

Lemma lower_agree_js : lower_agree needle_js.
Proof.
  unfold needle_js.
  repeat first
    [ apply lower_agree_nil
    | apply lower_agree_i; [discriminate|]
    | apply lower_agree_cons; [unfold ascii_fixed; lia | discriminate | discriminate | ] ].
Qed.

Lemma lower_agree_css : lower_agree needle_css.
Proof.
  unfold needle_css.
  repeat first
    [ apply lower_agree_nil
    | apply lower_agree_cons; [unfold ascii_fixed; lia | discriminate | discriminate | ] ].
Qed.

(* the implementation's test `needle in content.lower()` is the ASCII case-insensitive test HTML applies *)
Lemma contains_lower_agree x n : x <> 775 -> lower_agree (x :: n) ->
  forall s, contains (x :: n) (py_lower s) = contains_ci (x :: n) s.
Proof.
  intros Hx Hn. unfold contains_ci. induction s as [|c s IH]; [reflexivity|].
  pose proof (Hn (c :: s)) as H0. rewrite py_lower_cons in *. cbn [map] in *.
  destruct (py_lower1_cases c) as [(R & E & E2)|[(-> & E & E2)|[(-> & E & E2)|(R & N1 & N2 & E & E2)]]];
    rewrite E, E2 in *; cbn [app] in *.
  - cbn [contains]. rewrite H0, IH. reflexivity.
  - change (contains (x :: n) (105 :: 775 :: py_lower s))
      with (starts_with (x :: n) (105 :: 775 :: py_lower s)
            || (starts_with (x :: n) (775 :: py_lower s) || contains (x :: n) (py_lower s))).
    rewrite H0, IH. cbn [contains].
    replace (starts_with (x :: n) (775 :: py_lower s)) with false; [reflexivity|].
    cbn [starts_with]. destruct (N.eqb_spec x 775); [contradiction|reflexivity].
  - cbn [contains]. rewrite H0, IH. reflexivity.
  - cbn [contains]. rewrite H0, IH. reflexivity.
Qed.

Lemma starts_with_app p s : starts_with p (p ++ s) = true.
Proof. induction p as [|x p IH]; [destruct s; reflexivity|]. cbn. now rewrite N.eqb_refl. Qed.

Lemma skipn_app_length {A} (p s : list A) : skipn (length p) (p ++ s) = s.
Proof. induction p; [reflexivity|assumption]. Qed.

(* an occurrence that starts inside a and is not contained in a runs on into t *)
Lemma overlap p : forall a t, starts_with p (a ++ t) = true -> starts_with p a = false ->
  exists y t', t = y :: t' /\ In y p.
Proof.
  induction p as [|x p IH]; intros a t H1 H2.
  - destruct a; discriminate.
  - destruct a as [|z a].
    + cbn [app] in H1. destruct t as [|y t']; [discriminate|]. cbn in H1.
      apply andb_true_iff in H1 as [H1 _]. apply N.eqb_eq in H1. subst. exists y, t'. split; [reflexivity|left; reflexivity].
    + cbn in H1, H2. apply andb_true_iff in H1 as [E H1]. rewrite E in H2. cbn in H2.
      destruct (IH a t H1 H2) as (y & t' & -> & Hy). exists y, t'. split; [reflexivity|right; exact Hy].
Qed.

Lemma contains_cons_false p c s : contains p (c :: s) = false -> starts_with p (c :: s) = false /\ contains p s = false.
Proof. cbn [contains]. intro H. apply orb_false_iff in H. exact H. Qed.

Lemma split_end_tag_app x n : map lower_ascii (x :: n) = x :: n -> ~ In x n ->
  forall s tail, contains_ci (x :: n) s = false ->
  split_end_tag (x :: n) (s ++ (x :: n) ++ tail) = Some (s, (x :: n) ++ tail).
Proof.
  intros Hlow Hnin s tail. unfold contains_ci. induction s as [|c s IH]; intro H.
  - cbn [app]. change (split_end_tag (x :: n) (x :: n ++ tail))
      with (if starts_with (x :: n) (map lower_ascii ((x :: n) ++ tail)) then Some ([], (x :: n) ++ tail)
            else match split_end_tag (x :: n) (n ++ tail) with Some (a, b) => Some (x :: a, b) | None => None end).
    rewrite map_app, Hlow, starts_with_app. reflexivity.
  - cbn [map] in H. apply contains_cons_false in H as [H1 H2].
    change (split_end_tag (x :: n) ((c :: s) ++ (x :: n) ++ tail))
      with (if starts_with (x :: n) (map lower_ascii ((c :: s) ++ (x :: n) ++ tail)) then Some ([], (c :: s) ++ (x :: n) ++ tail)
            else match split_end_tag (x :: n) (s ++ (x :: n) ++ tail) with Some (a, b) => Some (c :: a, b) | None => None end).
    rewrite (IH H2).
    destruct (starts_with (x :: n) (map lower_ascii ((c :: s) ++ (x :: n) ++ tail))) eqn:E; [|reflexivity].
    exfalso. rewrite map_app in E. cbn [map app] in E, H1. cbn [starts_with] in E, H1.
    apply andb_true_iff in E as [E1 E2]. rewrite E1 in H1. cbn [andb] in H1.
    destruct (overlap n _ _ E2 H1) as (y & t' & Ey & Hy).
    injection Ey as Ey1 _. cbn [map] in Hlow. injection Hlow as Hl1 _. rewrite Hl1 in Ey1. subst y. exact (Hnin Hy).
Qed.

Lemma wrap_some needle op cl s out : wrap needle op cl s = Some out ->
  contains needle (py_lower s) = false /\ out = op ++ s ++ cl.
Proof.
  unfold wrap. destruct (contains needle (py_lower s)); intro H.
  - discriminate H.
  - injection H as <-. auto.
Qed.

(* what is emitted is an element whose text - as an HTML reader delimits it - is exactly the code given *)
Lemma wrap_js_element_lemma s out : wrap_js s = Some out ->
  out = open_js ++ s ++ close_js /\ element_text needle_js open_js out = Some (s, close_js).
Proof.
  intro H. apply wrap_some in H as [H ->]. split; [reflexivity|].
  unfold element_text. rewrite starts_with_app, skipn_app_length.
  unfold needle_js in H. rewrite (contains_lower_agree 60 _ ltac:(discriminate) lower_agree_js) in H.
  unfold close_js, needle_js.
  apply split_end_tag_app; [reflexivity| |exact H].
  cbn. intros K. repeat (destruct K as [K|K]; [discriminate K|]). exact K.
Qed.

Lemma wrap_css_element_lemma s out : wrap_css s = Some out ->
  out = open_css ++ s ++ close_css /\ element_text needle_css open_css out = Some (s, close_css).
Proof.
  intro H. apply wrap_some in H as [H ->]. split; [reflexivity|].
  unfold element_text. rewrite starts_with_app, skipn_app_length.
  unfold needle_css in H. rewrite (contains_lower_agree 60 _ ltac:(discriminate) lower_agree_css) in H.
  unfold close_css, needle_css.
  apply split_end_tag_app; [reflexivity| |exact H].
  cbn. intros K. repeat (destruct K as [K|K]; [discriminate K|]). exact K.
Qed.

(* refusal happens exactly when the code contains the end tag of its own element in some letter case *)
Lemma wrap_js_refuses_iff_lemma s : wrap_js s = None <-> contains_ci needle_js s = true.
Proof.
  unfold wrap_js, wrap, needle_js.
  rewrite (contains_lower_agree 60 _ ltac:(discriminate) lower_agree_js).
  destruct (contains_ci _ s); split; intro H; try reflexivity; discriminate.
Qed.

Lemma wrap_css_refuses_iff_lemma s : wrap_css s = None <-> contains_ci needle_css s = true.
Proof.
  unfold wrap_css, wrap, needle_css.
  rewrite (contains_lower_agree 60 _ ltac:(discriminate) lower_agree_css).
  destruct (contains_ci _ s); split; intro H; try reflexivity; discriminate.
Qed.

(* ================================================================================================ *)
(* merge order: defaults, overridden by attrs, then every keyword value appended with one space     *)
(* ================================================================================================ *)
Fixpoint texts_for (k : str) (l : list (str * aval)) : list str :=
  match l with
  | [] => []
  | (k', v) :: r => if str_eqb k k' then text_of v :: texts_for k r else texts_for k r
  end.
Definition joined (l : list str) : option str := match l with [] => None | _ => Some (join_sp l) end.
Definition all_strv (l : list (str * aval)) : Prop := forallb (fun kv => is_strv (snd kv)) l = true.
Definition keys_nodup (l : list (str * aval)) : Prop := NoDup (map fst l).

Lemma str_eqb_sym a b : str_eqb a b = str_eqb b a.
Proof.
  destruct (str_eqb a b) eqn:E, (str_eqb b a) eqn:F; try reflexivity.
  - apply str_eqb_eq in E. subst. now rewrite str_eqb_refl in F.
  - apply str_eqb_eq in F. subst. now rewrite str_eqb_refl in E.
Qed.

Lemma texts_for_app k a b : texts_for k (a ++ b) = texts_for k a ++ texts_for k b.
Proof.
  induction a as [|[k' v] a IH]; [reflexivity|]. cbn [app texts_for].
  destruct (str_eqb k k'); [cbn [app]; f_equal|]; exact IH.
Qed.

Lemma dget_none_keys k d : dget k d = None <-> ~ In k (map fst d).
Proof.
  induction d as [|[k' v] d IH]; cbn [dget map fst In]; [tauto|].
  destruct (str_eqb k k') eqn:E.
  - apply str_eqb_eq in E. subst. split; [discriminate|]. intro H. exfalso. apply H. left. reflexivity.
  - rewrite IH. split; [|tauto]. intros H [F|F]; [|tauto]. subst. now rewrite str_eqb_refl in E.
Qed.

Lemma dget_none_texts k d : dget k d = None -> texts_for k d = [].
Proof.
  induction d as [|[k' v] d IH]; [reflexivity|]. cbn [dget texts_for].
  destruct (str_eqb k k'); [discriminate|exact IH].
Qed.

Lemma dset_absent k v d : dget k d = None -> dset k v d = d ++ [(k, v)].
Proof.
  induction d as [|[k' v'] d IH]; [reflexivity|]. cbn [dget dset app].
  destruct (str_eqb k k'); [discriminate|]. intro H. now rewrite (IH H).
Qed.

Lemma dset_present_keys k v d old : dget k d = Some old -> map fst (dset k v d) = map fst d.
Proof.
  induction d as [|[k' v'] d IH]; [discriminate|]. cbn [dget dset].
  destruct (str_eqb k k'); [reflexivity|]. intro H. cbn [map fst]. now rewrite (IH H).
Qed.

Lemma dset_texts_other k k0 v d : str_eqb k k0 = false -> texts_for k (dset k0 v d) = texts_for k d.
Proof.
  intro N0. induction d as [|[k' v'] d IH]; cbn [dset texts_for].
  - now rewrite N0.
  - destruct (str_eqb k0 k') eqn:E.
    + apply str_eqb_eq in E. subst k'. cbn [texts_for]. now rewrite N0.
    + cbn [texts_for]. destruct (str_eqb k k'); [f_equal|]; exact IH.
Qed.

Lemma dset_texts_same k v d old : keys_nodup d -> dget k d = Some old ->
  texts_for k d = [text_of old] /\ texts_for k (dset k v d) = [text_of v].
Proof.
  unfold keys_nodup. induction d as [|[k' v'] d IH]; [discriminate|].
  cbn [map fst dget dset]. intros ND H. inversion ND as [|? ? Hn ND']; subst.
  destruct (str_eqb k k') eqn:E.
  - apply str_eqb_eq in E. subst k'. injection H as ->. cbn [texts_for]. rewrite str_eqb_refl.
    apply dget_none_keys in Hn. rewrite (dget_none_texts _ _ Hn). split; reflexivity.
  - cbn [texts_for]. rewrite E. exact (IH ND' H).
Qed.

Lemma all_strv_dset k v d : is_strv v = true -> all_strv d -> all_strv (dset k v d).
Proof.
  unfold all_strv. intro Hv. induction d as [|[k' v'] d IH]; cbn [dset forallb snd]; intro H.
  - now rewrite Hv.
  - apply andb_true_iff in H as [H1 H2]. destruct (str_eqb k k'); cbn [forallb snd].
    + now rewrite Hv, H2.
    + now rewrite H1, (IH H2).
Qed.

Lemma all_strv_dget k d v : all_strv d -> dget k d = Some v -> is_strv v = true.
Proof.
  unfold all_strv. induction d as [|[k' v'] d IH]; [discriminate|]. cbn [forallb snd dget]. intros H G.
  apply andb_true_iff in H as [H1 H2]. destruct (str_eqb k k'); [now injection G as <-|exact (IH H2 G)].
Qed.

Lemma join_sp_merge a b t : join_sp ((a ++ 32 :: b) :: t) = join_sp (a :: b :: t).
Proof.
  destruct t as [|x t].
  - reflexivity.
  - change (join_sp ((a ++ 32 :: b) :: x :: t)) with ((a ++ 32 :: b) ++ 32 :: join_sp (x :: t)).
    change (join_sp (a :: b :: x :: t)) with (a ++ 32 :: (b ++ 32 :: join_sp (x :: t))).
    now rewrite <- app_assoc.
Qed.

Lemma NoDup_snoc {A} (l : list A) x : NoDup l -> ~ In x l -> NoDup (l ++ [x]).
Proof.
  induction l as [|a l IH]; intros H Hx; [constructor; [intros []|constructor]|].
  inversion H as [|? ? Ha Hl]; subst. cbn [app]. constructor.
  - intro K. apply in_app_or in K as [K|[K|[]]]; [exact (Ha K)|]. subst. apply Hx. left. reflexivity.
  - apply IH; [exact Hl|]. intro K. apply Hx. right. exact K.
Qed.

(* append_attributes over string values: never fails, keeps one entry per key, and the text of every key is
   all the texts given for that key, in order, joined by single spaces *)
Lemma append_spec items : forall res, all_strv items -> all_strv res -> keys_nodup res ->
  exists d, append_attributes items res = Some d /\ all_strv d /\ keys_nodup d /\
            forall k, option_map text_of (dget k d) = joined (texts_for k (res ++ items)).
Proof.
  induction items as [|[k0 v0] r IH]; intros res Hi Hr Hn.
  - exists res. repeat split; auto. intro k. rewrite app_nil_r.
    destruct (dget k res) as [old|] eqn:E.
    + destruct (dset_texts_same k old res old Hn E) as [-> _]. reflexivity.
    + now rewrite (dget_none_texts _ _ E).
  - unfold all_strv in Hi. cbn [forallb snd] in Hi. apply andb_true_iff in Hi as [Hv0 Hi].
    cbn [append_attributes]. destruct (dget k0 res) as [old|] eqn:E.
    + pose proof (all_strv_dget _ _ _ Hr E) as Ho. unfold add_str. rewrite Ho, Hv0. cbn [andb].
      set (nv := VStr (text_of old ++ 32 :: text_of v0)).
      destruct (IH (dset k0 nv res) Hi (all_strv_dset k0 nv res eq_refl Hr)) as (d & D1 & D2 & D3 & D4).
      { unfold keys_nodup. now rewrite (dset_present_keys k0 nv res old E). }
      exists d. repeat split; auto. intro k. rewrite D4, !texts_for_app. cbn [texts_for].
      destruct (str_eqb k k0) eqn:K.
      * apply str_eqb_eq in K. subst k0.
        destruct (dset_texts_same k nv res old Hn E) as [-> ->]. cbn [app text_of nv].
        unfold joined. now rewrite join_sp_merge.
      * now rewrite (dset_texts_other k k0 nv res K).
    + destruct (IH (dset k0 v0 res) Hi (all_strv_dset k0 v0 res Hv0 Hr)) as (d & D1 & D2 & D3 & D4).
      { unfold keys_nodup. rewrite (dset_absent _ _ _ E), map_app. cbn [map fst].
        apply NoDup_snoc; [exact Hn | apply dget_none_keys; exact E]. }
      exists d. repeat split; auto. intro k. rewrite D4, (dset_absent _ _ _ E), <- app_assoc. reflexivity.
Qed.

Lemma dget_dset k k0 v d : dget k (dset k0 v d) = if str_eqb k k0 then Some v else dget k d.
Proof.
  induction d as [|[k' v'] d IH]; cbn [dset dget]; [reflexivity|].
  destruct (str_eqb k0 k') eqn:E; cbn [dget].
  - apply str_eqb_eq in E. subst k'. destruct (str_eqb k k0); reflexivity.
  - destruct (str_eqb k k') eqn:F; [|exact IH].
    apply str_eqb_eq in F. subst k'. rewrite str_eqb_sym in E. now rewrite E.
Qed.

Lemma dget_app k a b : dget k (a ++ b) = match dget k a with Some v => Some v | None => dget k b end.
Proof.
  induction a as [|[k' v] a IH]; [reflexivity|]. cbn [app dget]. destruct (str_eqb k k'); [reflexivity|exact IH].
Qed.

(* dict.update: the last binding of the update wins, otherwise the old value stays *)
Lemma dget_dupdate k u : forall d,
  dget k (dupdate d u) = match dget k (rev u) with Some v => Some v | None => dget k d end.
Proof.
  unfold dupdate. induction u as [|[k1 v1] r IH]; intro d; [reflexivity|].
  cbn [fold_left fst snd rev]. rewrite IH, dget_app, dget_dset. cbn [dget].
  destruct (dget k (rev r)); [reflexivity|]. destruct (str_eqb k k1); reflexivity.
Qed.

Lemma dset_keys_nodup k v d : keys_nodup d -> keys_nodup (dset k v d).
Proof.
  intro H. destruct (dget k d) as [old|] eqn:E.
  - unfold keys_nodup. now rewrite (dset_present_keys k v d old E).
  - unfold keys_nodup. rewrite (dset_absent _ _ _ E), map_app. cbn [map fst].
    apply NoDup_snoc; [exact H | apply dget_none_keys; exact E].
Qed.

Lemma dupdate_inv u : forall d, keys_nodup d -> all_strv d -> all_strv u ->
  keys_nodup (dupdate d u) /\ all_strv (dupdate d u).
Proof.
  unfold dupdate. induction u as [|[k1 v1] r IH]; intros d H1 H2 H3; [split; assumption|].
  unfold all_strv in H3. cbn [forallb snd] in H3. apply andb_true_iff in H3 as [Hv H3].
  cbn [fold_left fst snd]. apply IH; [apply dset_keys_nodup; exact H1 | apply all_strv_dset; assumption | exact H3].
Qed.

Lemma all_strv_app a b : all_strv a -> all_strv b -> all_strv (a ++ b).
Proof. unfold all_strv. intros. rewrite forallb_app. now apply andb_true_iff. Qed.

Lemma texts_for_nodup k d : keys_nodup d ->
  texts_for k d = match dget k d with Some v => [text_of v] | None => [] end.
Proof.
  intro H. destruct (dget k d) as [old|] eqn:E.
  - now destruct (dset_texts_same k old d old H E) as [-> _].
  - now apply dget_none_texts.
Qed.

(* MERGE ORDER, every overlap pattern: the attribute text for every name is the value from `attrs` if it has
   the name, else from `defaults`, followed by every extra keyword value for that name, separated by single
   spaces; one entry per name; no failure (string values). *)
Lemma merge_order_lemma attrs defaults kwargs :
  all_strv attrs -> all_strv defaults -> all_strv kwargs ->
  exists d, append_attributes (dupdate (dupdate [] defaults) attrs ++ kwargs) [] = Some d /\
            html_attrs attrs defaults kwargs = Some (attributes_to_string d) /\
            keys_nodup d /\
            forall k, option_map text_of (dget k d)
                      = joined (match (match dget k (rev attrs) with Some v => Some v | None => dget k (rev defaults) end)
                                with Some v => [text_of v] | None => [] end ++ texts_for k kwargs).
Proof.
  intros Ha Hd Hk.
  destruct (dupdate_inv defaults [] (NoDup_nil _) eq_refl Hd) as [N1 S1].
  destruct (dupdate_inv attrs _ N1 S1 Ha) as [N2 S2].
  set (base := dupdate (dupdate [] defaults) attrs) in *.
  destruct (append_spec (base ++ kwargs) [] (all_strv_app _ _ S2 Hk) eq_refl (NoDup_nil _))
    as (d & D1 & D2 & D3 & D4).
  exists d. repeat split; auto.
  - unfold html_attrs, html_attrs_dict. fold base. now rewrite D1.
  - intro k. rewrite D4. cbn [app]. rewrite texts_for_app, (texts_for_nodup k base N2).
    unfold base. rewrite !dget_dupdate. cbn [dget].
    destruct (dget k (rev attrs)); [reflexivity|]. destruct (dget k (rev defaults)); reflexivity.
Qed.

(* the strict variant (proposed repair): the FULL statement - whatever the names contain, either the text is
   refused because an emitted name cannot be an attribute name, or it reads back exactly *)
Lemma names_ok_guard d : forallb (fun kv => not_safe (snd kv)) d = true -> names_ok d = true ->
  roundtrip_guard d = true.
Proof.
  unfold names_ok, roundtrip_guard. induction d as [|[k v] d IH]; [reflexivity|].
  cbn [forallb fst snd]. intros H1 H2. apply andb_true_iff in H1 as [A1 A2]. apply andb_true_iff in H2 as [B1 B2].
  rewrite (IH A2 B2), andb_true_r. destruct (rendered v); cbn [negb orb] in *; [now rewrite B1, A1|reflexivity].
Qed.

Lemma attrs_roundtrip_strict_lemma d : forallb (fun kv => not_safe (snd kv)) d = true ->
  match attributes_to_string_strict d with
  | Some out => parse_attrs out = Parsed (expected d)
  | None => exists k v, In (k, v) d /\ rendered v = true /\ valid_name k = false
  end.
Proof.
  intro Hs. unfold attributes_to_string_strict. destruct (names_ok d) eqn:E.
  - apply attrs_roundtrip_lemma. exact (names_ok_guard d Hs E).
  - unfold names_ok in E. clear Hs. induction d as [|[k v] d IH]; [discriminate|].
    cbn [forallb fst snd] in E. apply andb_false_iff in E as [E|E].
    + exists k, v. split; [left; reflexivity|]. destruct (rendered v); cbn [negb orb] in E; [split; [reflexivity|exact E]|discriminate].
    + destruct (IH E) as (k' & v' & I & R). exists k', v'. split; [right; exact I|exact R].
Qed.
