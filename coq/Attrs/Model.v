(* Model for property C13 - html_attrs and Python-passed slot content emit exactly the data given, escaped.

   Anchors in /repo/src/django_components (as of fix commits e6d6b5a, 30be467, c3ea7ff):
     attributes.py      HtmlAttrsNode.render, attributes_to_string, append_attributes
     util/template_tag.py  resolve_params (merge_repeated_kwargs), validate_params (binding to
                           render(self, context, attrs=None, defaults=None, **kwargs))
     expression.py      process_aggregate_kwargs
     node.py            wrapper_render (identifier / non-identifier keyword split)
     component.py       Component._normalize_slot_fills, slots.py Slot / _nodelist_to_slot_render_func
     dependencies.py    wrap_component_js / wrap_component_css
   Modelled, not verified: django.utils.html.escape (= html.escape: the five characters & < > dquote squote), SafeString arithmetic
   (str + SafeString and SafeString + str are plain str), NodeList.render returning a SafeString,
   str.isidentifier / keyword.iskeyword (their verdict is an input of the model, see [tkey]).
   The READER is the attribute part of the HTML tokenizer (WHATWG 13.2.5.32-13.2.5.40 states) without
   input-stream preprocessing (CR / NUL), i.e. what Python's html.parser implements on well-formed
   attribute text; character references are decoded when terminated by ';'.

   Definitions only - the proofs are in Attrs/Proofs.v. *)
From DJC Require Import Lib.Base.
Local Open Scope N_scope.

(* ================================================================================================ *)
(* 1. escaping                                                                                      *)
(* ================================================================================================ *)
Definition escape1 (c : N) : str :=
  if N.eqb c 38 then [38;97;109;112;59]                (* &amp;  *)
  else if N.eqb c 60 then [38;108;116;59]              (* &lt;   *)
  else if N.eqb c 62 then [38;103;116;59]              (* &gt;   *)
  else if N.eqb c 34 then [38;113;117;111;116;59]      (* &quot; *)
  else if N.eqb c 39 then [38;35;120;50;55;59]         (* &#x27; *)
  else [c].
Definition escape (s : str) : str := flat_map escape1 s.

(* ================================================================================================ *)
(* 2. attribute values, dictionaries, append_attributes, attributes_to_string                       *)
(* ================================================================================================ *)
(* VObj s = an object that is neither str, bool nor None, has no __html__, and whose str() is s
   (numbers).  VSafe = SafeString. *)
Inductive aval := VStr (s : str) | VSafe (s : str) | VTrue | VFalse | VNone | VObj (s : str).

Definition text_of (v : aval) : str :=      (* Python str(v) *)
  match v with
  | VStr s | VSafe s | VObj s => s
  | VTrue => [84;114;117;101]               (* True *)
  | VFalse => [70;97;108;115;101]           (* False *)
  | VNone => [78;111;110;101]               (* None *)
  end.

Definition is_strv (v : aval) : bool := match v with VStr _ | VSafe _ => true | _ => false end.

(* A dictionary key = (text, is the key object a SafeString).  Python compares and hashes a SafeString like the
   plain string with the same text, and an assignment to an existing key keeps the key OBJECT that was inserted
   first - so look-ups go by text and the safe mark of an entry is the mark of the key inserted first. *)
Notation akey := (str * bool)%type (only parsing).
Notation dict := (list ((str * bool) * aval)) (only parsing).

Fixpoint dget (k : str) (d : dict) : option aval :=
  match d with
  | [] => None
  | (k', v) :: r => if str_eqb k (fst k') then Some v else dget k r
  end.

(* d[k] = v : in place (old key object kept) when the key exists, at the end otherwise (insertion-ordered dict) *)
Fixpoint dset (k : str * bool) (v : aval) (d : dict) : dict :=
  match d with
  | [] => [(k, v)]
  | (k', v') :: r => if str_eqb (fst k) (fst k') then (k', v) :: r else (k', v') :: dset k v r
  end.

Definition dupdate (d upd : dict) : dict := fold_left (fun acc kv => dset (fst kv) (snd kv) acc) upd d.

(* `result[key] += " " + value` : both operands must be str; the sum of anything with a plain " " is a
   plain str, also when either side is a SafeString.  None = TypeError. *)
Definition add_str (old v : aval) : option aval :=
  if is_strv old && is_strv v then Some (VStr (text_of old ++ 32 :: text_of v)) else None.

Fixpoint append_attributes (items : dict) (res : dict) : option dict :=
  match items with
  | [] => Some res
  | (k, v) :: r =>
      match dget (fst k) res with
      | None => append_attributes r (dset k v res)
      | Some old => match add_str old v with
                    | Some nv => append_attributes r (dset k nv res)
                    | None => None
                    end
      end
  end.

(* conditional_escape of an attribute value / of an attribute name *)
Definition cesc (v : aval) : str := match v with VSafe s => s | _ => escape (text_of v) end.
Definition kesc (k : str * bool) : str := if snd k then fst k else escape (fst k).

Definition render_item (kv : (str * bool) * aval) : option str :=
  let '(k, v) := kv in
  match v with
  | VNone | VFalse => None
  | VTrue => Some (kesc k)
  | _ => Some (kesc k ++ [61; 34] ++ cesc v ++ [34])
  end.

Fixpoint filter_some {A} (l : list (option A)) : list A :=
  match l with [] => [] | Some x :: r => x :: filter_some r | None :: r => filter_some r end.

Fixpoint join_sp (l : list str) : str :=
  match l with
  | [] => []
  | [x] => x
  | x :: r => x ++ 32 :: join_sp r
  end.

(* the text attributes_to_string builds when it refuses nothing *)
Definition ats_text (d : dict) : str := join_sp (filter_some (map render_item d)).

(* _INVALID_ATTR_NAME_RE: a character class - controls and space (0-32), 127-159, both quotes, > / = & < .
   Characters a name must not contain (anchored to the pattern of the source in Attrs/Proofs.v) *)
Definition name_char_ok (c : N) : bool :=
  negb (N.leb c 32 || (N.leb 127 c && N.leb c 159)
        || N.eqb c 34 || N.eqb c 39 || N.eqb c 62 || N.eqb c 47 || N.eqb c 61 || N.eqb c 38 || N.eqb c 60).
(* not (not str(key) or RE.search(str(key))) *)
Definition valid_name (k : str) : bool :=
  match k with [] => false | _ => forallb name_char_ok k end.
Definition rendered (v : aval) : bool := match v with VNone | VFalse => false | _ => true end.
(* `isinstance(key, SafeData) or` the name is valid *)
Definition key_ok (k : str * bool) : bool := snd k || valid_name (fst k).
Definition names_ok (d : dict) : bool := forallb (fun kv => negb (rendered (snd kv)) || key_ok (fst kv)) d.

(* attributes_to_string: None = ValueError (an attribute that would be emitted has a non-safe name that cannot be
   written as one HTML attribute name).  The loop raises at the first such entry; nothing is returned then, so
   the position does not matter. *)
Definition attributes_to_string (d : dict) : option str :=
  if names_ok d then Some (ats_text d) else None.

Inductive outcome :=
| Out (s : str)
| ErrType              (* TypeError *)
| ErrTemplateSyntax    (* TemplateSyntaxError *)
| ErrSyntax            (* SyntaxError: positional after a non-identifier keyword *)
| ErrValue             (* ValueError: attribute name refused *)
| OutOfScope.          (* shapes the model does not cover (str() of a dict, non-dict attrs, ...) *)

(* HtmlAttrsNode.render(context, attrs, defaults, **kwargs); None = TypeError from append_attributes *)
Definition html_attrs_dict (attrs defaults : dict) (kwargs : dict) : option dict :=
  let final := dupdate (dupdate [] defaults) attrs in
  append_attributes (final ++ kwargs) [].
Definition html_attrs (attrs defaults : dict) (kwargs : dict) : outcome :=
  match html_attrs_dict attrs defaults kwargs with
  | None => ErrType
  | Some final => match attributes_to_string final with Some s => Out s | None => ErrValue end
  end.

(* ================================================================================================ *)
(* 3. the tag level: resolved params -> merge_repeated_kwargs -> aggregate -> split -> bind -> render *)
(* ================================================================================================ *)
Inductive tval := TS (v : aval) | TD (d : dict).
(* keyword = (key, key.isidentifier() and not keyword.iskeyword(key)) ; None = positional.
   Keys written in the tag are plain; keys brought in by a spread (`...dict`) are the dict's key objects. *)
Notation tkey := (option ((str * bool) * bool)) (only parsing).
Notation tparam := (option ((str * bool) * bool) * tval)%type (only parsing).

Definition key_is (k : str) (p : option ((str * bool) * bool) * tval) : bool :=
  match fst p with Some (k', _) => str_eqb k (fst k') | None => false end.

Fixpoint mem_str (k : str) (l : list str) : bool :=
  match l with [] => false | x :: r => str_eqb k x || mem_str k r end.

Fixpoint later_vals (k : str) (ps : list (option ((str * bool) * bool) * tval)) : list tval :=
  match ps with
  | [] => []
  | p :: r => if key_is k p then snd p :: later_vals k r else later_vals k r
  end.

Fixpoint all_text (l : list tval) : option (list str) :=
  match l with
  | [] => Some []
  | TS v :: r => match all_text r with Some t => Some (text_of v :: t) | None => None end
  | TD _ :: _ => None
  end.

(* merge_repeated_kwargs (as repaired by 30be467): the first occurrence of a repeated keyword receives
   str(v1) + " " + str(v2) + ... (and keeps its key object); later occurrences disappear.
   None = str() of a dict needed (out of scope). *)
Fixpoint merge_repeated (seen : list str) (ps : list (option ((str * bool) * bool) * tval))
  : option (list (option ((str * bool) * bool) * tval)) :=
  match ps with
  | [] => Some []
  | (None, v) :: r => option_map (cons (None, v)) (merge_repeated seen r)
  | (Some (k, idf), v) :: r =>
      if mem_str (fst k) seen then merge_repeated seen r
      else match later_vals (fst k) r with
           | [] => option_map (cons (Some (k, idf), v)) (merge_repeated (fst k :: seen) r)
           | l => match all_text (v :: l) with
                  | Some ts => option_map (cons (Some (k, idf), TS (VStr (join_sp ts))))
                                          (merge_repeated (fst k :: seen) r)
                  | None => None
                  end
           end
  end.

(* is_aggregate_key: ":" in key and not key.startswith(":") *)
Fixpoint has_colon (k : str) : bool := match k with [] => false | c :: r => N.eqb c 58 || has_colon r end.
Definition is_agg (k : str) : bool :=
  match k with [] => false | c :: _ => negb (N.eqb c 58) && has_colon k end.
Fixpoint split_colon (k : str) : str * str :=   (* key.split(":", 1) : both parts are plain str *)
  match k with
  | [] => ([], [])
  | c :: r => if N.eqb c 58 then ([], r) else let '(a, b) := split_colon r in (c :: a, b)
  end.

Fixpoint nested_set (outer inner : str) (v : aval) (n : list (str * dict)) : list (str * dict) :=
  match n with
  | [] => [(outer, [((inner, false), v)])]
  | (o, d) :: r => if str_eqb outer o then (o, dset (inner, false) v d) :: r else (o, d) :: nested_set outer inner v r
  end.

(* the loop of process_aggregate_kwargs: (processed params, seen regular keys, nested dicts).
   (_check_kwargs_for_agg_conflict, which runs first, can never fire: it looks for a key that is both an
   aggregate key and a regular key.) *)
Fixpoint agg_loop (ps : list (option ((str * bool) * bool) * tval)) (nested : list (str * dict))
  : option (list (option ((str * bool) * bool) * tval) * list str * list (str * dict)) :=
  match ps with
  | [] => Some ([], [], nested)
  | (None, v) :: r =>
      match agg_loop r nested with
      | Some (out, seen, n) => Some ((None, v) :: out, seen, n)
      | None => None
      end
  | (Some (k, idf), v) :: r =>
      if is_agg (fst k) then
        match v with
        | TS av => let '(o, i) := split_colon (fst k) in agg_loop r (nested_set o i av nested)
        | TD _ => None                       (* dict nested in an aggregated dict: out of scope *)
        end
      else
        match agg_loop r nested with
        | Some (out, seen, n) => Some ((Some (k, idf), v) :: out, fst k :: seen, n)
        | None => None
        end
  end.

Inductive agg_res := AggOk (ps : list (option ((str * bool) * bool) * tval)) | AggConflict | AggScope.

(* aggregated keys: only `attrs` / `defaults` are in scope (both are identifiers); any other prefix
   produces a dict-valued extra attribute whose rendering is str(dict) - out of scope. *)
Definition k_attrs : str := [97;116;116;114;115].
Definition k_defaults : str := [100;101;102;97;117;108;116;115].

Fixpoint agg_finish (n : list (str * dict)) (seen : list str)
  : option (option (list (option ((str * bool) * bool) * tval))) :=   (* None = conflict; Some None = scope *)
  match n with
  | [] => Some (Some [])
  | (o, d) :: r =>
      if mem_str o seen then None
      else match agg_finish r seen with
           | None => None
           | Some None => Some None
           | Some (Some l) =>
               if str_eqb o k_attrs || str_eqb o k_defaults then Some (Some ((Some ((o, false), true), TD d) :: l))
               else Some None
           end
  end.

Definition aggregate (ps : list (option ((str * bool) * bool) * tval)) : agg_res :=
  match agg_loop ps [] with
  | None => AggScope
  | Some (out, seen, n) =>
      match agg_finish n seen with
      | None => AggConflict
      | Some None => AggScope
      | Some (Some extra) => AggOk (out ++ extra)
      end
  end.

(* node.py wrapper_render: non-identifier keywords are taken out (and re-added LAST);
   a positional after one of them is a SyntaxError.  (Its duplicate check cannot fire here: keys are unique
   after merge_repeated_kwargs, and aggregation only adds the identifiers attrs / defaults.) *)
Fixpoint positional_after_special (ps : list (option ((str * bool) * bool) * tval)) (seen_special : bool) : bool :=
  match ps with
  | [] => false
  | (None, _) :: r => seen_special || positional_after_special r seen_special
  | (Some (_, idf), _) :: r => positional_after_special r (seen_special || negb idf)
  end.

Record bound := { b_args : list tval; b_attrs : option tval; b_defaults : option tval;
                  b_kw : list ((str * bool) * tval); b_special : list ((str * bool) * tval); b_seen_kw : bool }.

(* _validate_params_with_code for render(attrs=None, defaults=None, **kwargs); None = TypeError *)
Fixpoint bind (ps : list (option ((str * bool) * bool) * tval)) (b : bound) : option bound :=
  match ps with
  | [] => Some b
  | (None, v) :: r =>
      if b_seen_kw b then None                                   (* positional follows keyword *)
      else match b_args b with
           | [] => bind r {| b_args := [v]; b_attrs := Some v; b_defaults := b_defaults b;
                             b_kw := b_kw b; b_special := b_special b; b_seen_kw := false |}
           | [a] => bind r {| b_args := [a; v]; b_attrs := b_attrs b; b_defaults := Some v;
                              b_kw := b_kw b; b_special := b_special b; b_seen_kw := false |}
           | _ => None                                           (* takes 2 positional arguments *)
           end
  | (Some (k, false), v) :: r =>
      bind r {| b_args := b_args b; b_attrs := b_attrs b; b_defaults := b_defaults b;
                b_kw := b_kw b; b_special := b_special b ++ [(k, v)]; b_seen_kw := b_seen_kw b |}
  | (Some (k, true), v) :: r =>
      if str_eqb (fst k) k_attrs then
        match b_attrs b with
        | Some _ => None                                         (* multiple values *)
        | None => bind r {| b_args := b_args b; b_attrs := Some v; b_defaults := b_defaults b;
                            b_kw := b_kw b; b_special := b_special b; b_seen_kw := true |}
        end
      else if str_eqb (fst k) k_defaults then
        match b_defaults b with
        | Some _ => None
        | None => bind r {| b_args := b_args b; b_attrs := b_attrs b; b_defaults := Some v;
                            b_kw := b_kw b; b_special := b_special b; b_seen_kw := true |}
        end
      else
        bind r {| b_args := b_args b; b_attrs := b_attrs b; b_defaults := b_defaults b;
                  b_kw := b_kw b ++ [(k, v)]; b_special := b_special b; b_seen_kw := true |}
  end.

Definition bound0 : bound :=
  {| b_args := []; b_attrs := None; b_defaults := None; b_kw := []; b_special := []; b_seen_kw := false |}.

(* `attrs or {}` : a dict, or None / False *)
Definition as_dict (v : option tval) : option dict :=
  match v with
  | None | Some (TS VNone) | Some (TS VFalse) => Some []
  | Some (TD d) => Some d
  | Some (TS _) => None
  end.

Fixpoint as_scalars (l : list ((str * bool) * tval)) : option dict :=
  match l with
  | [] => Some []
  | (k, TS v) :: r => match as_scalars r with Some d => Some ((k, v) :: d) | None => None end
  | (_, TD _) :: _ => None
  end.

Definition html_attrs_tag (ps : list (option ((str * bool) * bool) * tval)) : outcome :=
  match merge_repeated [] ps with
  | None => OutOfScope
  | Some ps1 =>
      match aggregate ps1 with
      | AggScope => OutOfScope
      | AggConflict => ErrTemplateSyntax
      | AggOk ps2 =>
          if positional_after_special ps2 false then ErrSyntax
          else match bind ps2 bound0 with
               | None => ErrType
               | Some b =>
                   match as_dict (b_attrs b), as_dict (b_defaults b), as_scalars (b_kw b ++ b_special b) with
                   | Some a, Some d, Some kw => html_attrs a d kw
                   | _, _, _ => OutOfScope
                   end
               end
      end
  end.

(* ------------------------------------------------------------------------------------------------ *)
(* 3b. HtmlAttrsNode.render on dictionary OBJECTS: what it does to the caller's dictionaries          *)
(* ------------------------------------------------------------------------------------------------ *)
(* The caller's `attrs` / `defaults` are objects that live on (context variables, class constants) and reach the
   tag again.  A heap is the list of dictionary objects, a reference an index; None = argument absent / None
   (`x or {}`).  render_heap transliterates the statements of render / append_attributes WITH their targets:
     final_attrs = {}                       a NEW object f
     final_attrs.update(defaults or {})     writes f, reads defaults
     final_attrs.update(attrs or {})        writes f, reads attrs
     result = {} ... result[key] = ...      a NEW object r (append_attributes), reads f and kwargs
     attributes_to_string(result)           reads r
   [kw] is the keyword dictionary the call receives (built per call by the tag machinery). *)
Notation heap := (list (list ((str * bool) * aval))) (only parsing).
Definition deref (h : list (list ((str * bool) * aval))) (r : option nat) : list ((str * bool) * aval) :=
  match r with Some i => nth i h [] | None => [] end.
Fixpoint hset (h : list (list ((str * bool) * aval))) (i : nat) (x : list ((str * bool) * aval))
  : list (list ((str * bool) * aval)) :=
  match h, i with
  | [], _ => []
  | _ :: t, O => x :: t
  | y :: t, S j => y :: hset t j x
  end.
Definition halloc (h : list (list ((str * bool) * aval))) : list (list ((str * bool) * aval)) * nat :=
  (h ++ [[]], length h).

Definition render_heap (h : list (list ((str * bool) * aval))) (a d : option nat) (kw : list ((str * bool) * aval))
  : outcome * list (list ((str * bool) * aval)) :=
  let '(h1, f) := halloc h in
  let h2 := hset h1 f (dupdate (nth f h1 []) (deref h1 d)) in
  let h3 := hset h2 f (dupdate (nth f h2 []) (deref h2 a)) in
  let '(h4, r) := halloc h3 in
  match append_attributes (nth f h4 [] ++ kw) (nth r h4 []) with
  | None => (ErrType, h4)
  | Some res =>
      let h5 := hset h4 r res in
      (match attributes_to_string (nth r h5 []) with Some s => Out s | None => ErrValue end, h5)
  end.

(* a history: successive calls on the same heap; a call = (attrs reference, defaults reference, keyword dict) *)
Fixpoint run_heap (h : list (list ((str * bool) * aval)))
                  (cs : list (option nat * option nat * list ((str * bool) * aval)))
  : list outcome * list (list ((str * bool) * aval)) :=
  match cs with
  | [] => ([], h)
  | (a, d, kw) :: r =>
      let '(o, h') := render_heap h a d kw in
      let '(os, h'') := run_heap h' r in (o :: os, h'')
  end.

Definition ref_ok (n : nat) (r : option nat) : bool := match r with Some i => Nat.ltb i n | None => true end.

(* ================================================================================================ *)
(* 4. the reader: character references and the attribute tokenizer                                  *)
(* ================================================================================================ *)
Definition is_digit (c : N) : bool := N.leb 48 c && N.leb c 57.
Definition is_alpha (c : N) : bool := (N.leb 65 c && N.leb c 90) || (N.leb 97 c && N.leb c 122).
Definition is_refchar (c : N) : bool := is_digit c || is_alpha c || N.eqb c 35.

Definition hexval (c : N) : option N :=
  if is_digit c then Some (c - 48)
  else if N.leb 97 c && N.leb c 102 then Some (c - 87)
  else if N.leb 65 c && N.leb c 70 then Some (c - 55)
  else None.

Fixpoint parse_num (base : N) (s : str) (acc : N) : option N :=
  match s with
  | [] => Some acc
  | c :: r => match hexval c with
              | Some d => if N.ltb d base then parse_num base r (acc * base + d) else None
              | None => None
              end
  end.

(* the reference name between '&' and ';' *)
Definition resolve_ref (nm : str) : option N :=
  match nm with
  | [97;109;112] => Some 38           (* amp *)
  | [108;116] => Some 60              (* lt *)
  | [103;116] => Some 62              (* gt *)
  | [113;117;111;116] => Some 34      (* quot *)
  | [97;112;111;115] => Some 39       (* apos *)
  | 35 :: 120 :: (_ :: _) as h => parse_num 16 h 0    (* #x.. *)
  | 35 :: 88 :: (_ :: _) as h => parse_num 16 h 0     (* #X.. *)
  | 35 :: (_ :: _) as d => parse_num 10 d 0           (* #.. *)
  | _ => None
  end.

(* one pass; pending = Some p : an '&' was seen, p = the characters after it, reversed *)
Fixpoint dec (pending : option str) (s : str) : str :=
  match s with
  | [] => match pending with Some p => 38 :: rev p | None => [] end
  | c :: r =>
      match pending with
      | None => if N.eqb c 38 then dec (Some []) r else c :: dec None r
      | Some p =>
          if N.eqb c 59 then
            match resolve_ref (rev p) with
            | Some d => d :: dec None r
            | None => 38 :: rev p ++ 59 :: dec None r
            end
          else if N.eqb c 38 then 38 :: rev p ++ dec (Some []) r
          else if is_refchar c then dec (Some (c :: p)) r
          else 38 :: rev p ++ c :: dec None r
      end
  end.
Definition decode (s : str) : str := dec None s.

Definition is_ws (c : N) : bool :=
  N.eqb c 32 || N.eqb c 9 || N.eqb c 10 || N.eqb c 12 || N.eqb c 13.
Definition lower_ascii (c : N) : N := if N.leb 65 c && N.leb c 90 then c + 32 else c.

Notation attr := (str * option str)%type (only parsing).

Inductive tstate :=
| SBefore                      (* before attribute name *)
| SName (n : str)              (* attribute name; n reversed *)
| SAfterName (n : str)         (* after attribute name *)
| SBeforeVal (n : str)         (* before attribute value *)
| SDQ (n v : str)              (* attribute value (double-quoted); v reversed, raw *)
| SSQ (n v : str)              (* attribute value (single-quoted) *)
| SUQ (n v : str)              (* attribute value (unquoted) *)
| SAfterQ                      (* after attribute value (quoted) *)
| SSlash.                      (* self-closing start tag *)

(* the tag ends here (a '>' or the end of the attribute text): close the attribute under construction *)
Definition finish (st : tstate) (acc : list (str * option str)) : list (str * option str) :=
  match st with
  | SBefore | SAfterQ | SSlash | SDQ _ _ | SSQ _ _ => acc
  | SName n => (rev n, None) :: acc
  | SAfterName n => (n, None) :: acc
  | SBeforeVal n => (n, Some []) :: acc
  | SUQ n v => (n, Some (decode (rev v))) :: acc
  end.

Inductive sres := Go (st : tstate) (acc : list (str * option str)) | Stop (acc : list (str * option str)).

Definition start_attr (c : N) (acc : list (str * option str)) : sres :=
  (* "before attribute name" on a character that is neither white space nor '>' *)
  if N.eqb c 47 then Go SSlash acc else Go (SName [lower_ascii c]) acc.

Definition step (st : tstate) (c : N) (acc : list (str * option str)) : sres :=
  match st with
  | SDQ n v => if N.eqb c 34 then Go SAfterQ ((n, Some (decode (rev v))) :: acc) else Go (SDQ n (c :: v)) acc
  | SSQ n v => if N.eqb c 39 then Go SAfterQ ((n, Some (decode (rev v))) :: acc) else Go (SSQ n (c :: v)) acc
  | _ =>
    if N.eqb c 62 then Stop (finish st acc) else
    match st with
    | SBefore | SSlash => if is_ws c then Go SBefore acc else start_attr c acc
    | SAfterQ => if is_ws c then Go SBefore acc else start_attr c acc
    | SName n =>
        if is_ws c then Go (SAfterName (rev n)) acc
        else if N.eqb c 47 then Go SSlash ((rev n, None) :: acc)
        else if N.eqb c 61 then Go (SBeforeVal (rev n)) acc
        else Go (SName (lower_ascii c :: n)) acc
    | SAfterName n =>
        if is_ws c then Go st acc
        else if N.eqb c 61 then Go (SBeforeVal n) acc
        else start_attr c ((n, None) :: acc)
    | SBeforeVal n =>
        if is_ws c then Go st acc
        else if N.eqb c 34 then Go (SDQ n []) acc
        else if N.eqb c 39 then Go (SSQ n []) acc
        else Go (SUQ n [c]) acc
    | SUQ n v =>
        if is_ws c then Go SBefore ((n, Some (decode (rev v))) :: acc) else Go (SUQ n (c :: v)) acc
    | SDQ _ _ | SSQ _ _ => Go st acc   (* not reached *)
    end
  end.

Inductive pres :=
| Parsed (l : list (str * option str))                     (* the whole text was attributes of the one tag *)
| BrokeOut (l : list (str * option str)) (rest : str)      (* a '>' ended the tag early; rest is outside it *)
| Unterminated (l : list (str * option str)).              (* a quoted value is still open: it swallows what follows *)

Fixpoint tok (s : str) (st : tstate) (acc : list (str * option str)) : pres :=
  match s with
  | [] => match st with
          | SDQ _ _ | SSQ _ _ => Unterminated (rev acc)
          | _ => Parsed (rev (finish st acc))
          end
  | c :: r => match step st c acc with
              | Go st' acc' => tok r st' acc'
              | Stop acc' => BrokeOut (rev acc') r
              end
  end.

(* the attribute text as it stands after `<tag ` and before the closing `>` *)
Definition parse_attrs (s : str) : pres := tok s SBefore [].

(* what the property demands the reader to find: omitted None/False, bare True, the text otherwise *)
Definition expected_item (kv : (str * bool) * aval) : option (str * option str) :=
  let '(k, v) := kv in
  match v with
  | VNone | VFalse => None
  | VTrue => Some (map lower_ascii (fst k), None)
  | _ => Some (map lower_ascii (fst k), Some (text_of v))
  end.
Definition expected (d : dict) : list (str * option str) := filter_some (map expected_item d).

Definition not_safe (v : aval) : bool := match v with VSafe _ => false | _ => true end.
(* the statement speaks about non-safe names and values: no attribute that is emitted has a SafeString key or value
   (a SafeString is the caller's declaration that the text is HTML already; it is emitted as given) *)
Definition plain_emitted (d : dict) : bool :=
  forallb (fun kv => negb (rendered (snd kv)) || (negb (snd (fst kv)) && not_safe (snd kv))) d.

(* ================================================================================================ *)
(* 5. slot content handed to Component.render                                                       *)
(* ================================================================================================ *)
(* a Python string value: plain str or SafeString *)
Inductive sval := Plain (s : str) | Safe (s : str).
Definition stext (v : sval) : str := match v with Plain s | Safe s => s end.
Definition cond_escape (v : sval) : sval := match v with Plain s => Safe (escape s) | Safe s => Safe s end.

(* slot functions, as syntax *)
Inductive sfn :=
| FUser (v : sval)                (* a user function returning v *)
| FText (v : sval)                (* render_func of _nodelist_to_slot_render_func over NodeList([TextNode(v)]) *)
| FEsc (flag : bool) (f : sfn).   (* content_fn of gen_escaped_content_func, closed over escape_content=flag *)

Fixpoint call (f : sfn) : sval :=
  match f with
  | FUser v => v
  | FText v => Safe (stext v)     (* Template.render -> NodeList.render returns a SafeString *)
  | FEsc b g => if b then cond_escape (call g) else call g
  end.

(* a Slot instance: content_func, escaped flag *)
Notation slot := (sfn * bool)%type (only parsing).

Inductive content :=
| CStr (v : sval)                 (* not callable: str / SafeString *)
| CFun (v : sval)                 (* plain function returning v *)
| CSlot (s : sfn * bool).         (* Slot instance *)

(* Component._normalize_slot_fills for one entry *)
Definition normalize (c : content) (flag : bool) : sfn * bool :=
  match c with
  | CStr v => (FText (if flag then cond_escape v else v), false)
  | CFun v => (FEsc flag (FUser v), true)
  | CSlot (f, true) => (f, true)
  | CSlot (f, false) => (FEsc flag f, true)
  end.

(* what the {% slot %} tag emits: the function's result, joined into the output unescaped *)
Definition emit (s : sfn * bool) : str := stext (call (fst s)).

(* ways a normalised slot travels on: handed to another Component.render with some flag (the dynamic
   component uses flag=false), possibly re-wrapped in a fresh `Slot(...)` first (escaped flag lost) *)
Inductive hop := Repass (flag : bool) | Rewrap (flag : bool).
Definition hop1 (s : sfn * bool) (h : hop) : sfn * bool :=
  match h with
  | Repass b => normalize (CSlot s) b
  | Rewrap b => normalize (CSlot (fst s, false)) b
  end.
Definition travel (s : sfn * bool) (hs : list hop) : sfn * bool := fold_left hop1 hs s.

(* user-level content: a string, a function, or a user-made Slot(fn) / Slot(fn, escaped=True) *)
Definition user_value (c : content) : option sval :=
  match c with
  | CStr v | CFun v => Some v
  | CSlot (FUser v, _) => Some v
  | CSlot _ => None
  end.
Definition declared_escaped (c : content) : bool :=
  match c with CSlot (_, true) => true | _ => false end.
Definition is_plain (v : sval) : bool := match v with Plain _ => true | Safe _ => false end.

(* ================================================================================================ *)
(* 6. wrap_component_js / wrap_component_css                                                        *)
(* ================================================================================================ *)
(* Python str.lower() as far as a comparison with an ASCII needle can tell: ASCII letters, the two
   non-ASCII code points whose lower-casing contains an ASCII letter (U+0130 -> "i" U+0307,
   U+212A KELVIN -> "k"); every other code point stays outside ASCII (harness checks that claim
   over all of Unicode on every run). *)
Definition py_lower1 (c : N) : str :=
  if N.leb 65 c && N.leb c 90 then [c + 32]
  else if N.eqb c 304 then [105; 775]
  else if N.eqb c 8490 then [107]
  else [c].
Definition py_lower (s : str) : str := flat_map py_lower1 s.

Definition needle_js : str := [60;47;115;99;114;105;112;116].        (* </script *)
Definition needle_css : str := [60;47;115;116;121;108;101].          (* </style  *)
Definition open_js : str := [60;115;99;114;105;112;116;62].          (* <script> *)
Definition close_js : str := needle_js ++ [62].
Definition open_css : str := [60;115;116;121;108;101;62].            (* <style>  *)
Definition close_css : str := needle_css ++ [62].

(* None = RuntimeError *)
Definition wrap (needle op cl : str) (content : str) : option str :=
  if contains needle (py_lower content) then None else Some (op ++ content ++ cl).
Definition wrap_js := wrap needle_js open_js close_js.
Definition wrap_css := wrap needle_css open_css close_css.

(* the reader: in script data / RAWTEXT state the element's text runs up to the first ASCII
   case-insensitive occurrence of "</script" ("</style"); result = (text, rest) *)
Fixpoint split_end_tag (needle : str) (s : str) : option (str * str) :=
  if starts_with needle (map lower_ascii s) then Some ([], s)
  else match s with
       | [] => None
       | c :: r => match split_end_tag needle r with
                   | Some (a, b) => Some (c :: a, b)
                   | None => None
                   end
       end.
Definition element_text (needle op : str) (doc : str) : option (str * str) :=
  if starts_with op doc then split_end_tag needle (skipn (length op) doc) else None.
Definition contains_ci (needle s : str) : bool := contains needle (map lower_ascii s).

(* ================================================================================================ *)
(* 7. correspondence cases                                                                          *)
(* ================================================================================================ *)
Definition attr_eqb (a b : str * option str) : bool :=
  str_eqb (fst a) (fst b) && option_eqb str_eqb (snd a) (snd b).

Definition outcome_eqb (a b : outcome) : bool :=
  match a, b with
  | Out x, Out y => str_eqb x y
  | ErrType, ErrType | ErrTemplateSyntax, ErrTemplateSyntax | ErrSyntax, ErrSyntax | ErrValue, ErrValue => true
  | _, _ => false            (* OutOfScope never equals an observation *)
  end.

(* (resolved params of the tag, what the template render did, html.parser's reading of `<div OUT>` when compared) *)
Definition tag_case := (list (option ((str * bool) * bool) * tval) * outcome * option (list (str * option str)))%type.
Definition check_tag (c : tag_case) : bool :=
  let '(ps, obs, parsed) := c in
  let m := html_attrs_tag ps in
  outcome_eqb m obs &&
  match parsed with
  | None => true
  | Some l => match m with
              | Out s => match parse_attrs s with Parsed l' => list_eqb attr_eqb l l' | _ => false end
              | _ => false
              end
  end.

(* attributes_to_string called directly on a dict; observed: Some text | None = ValueError *)
Definition ats_case := (list ((str * bool) * aval) * option str)%type.
Definition check_ats (c : ats_case) : bool := option_eqb str_eqb (attributes_to_string (fst c)) (snd c).

(* history: initial objects, calls, what each render did, the caller's objects afterwards *)
Definition aval_eqb (a b : aval) : bool :=
  match a, b with
  | VStr x, VStr y | VSafe x, VSafe y | VObj x, VObj y => str_eqb x y
  | VTrue, VTrue | VFalse, VFalse | VNone, VNone => true
  | _, _ => false
  end.
Definition entry_eqb (a b : (str * bool) * aval) : bool :=
  str_eqb (fst (fst a)) (fst (fst b)) && Bool.eqb (snd (fst a)) (snd (fst b)) && aval_eqb (snd a) (snd b).
Definition hist_case := (list (list ((str * bool) * aval)) * list (option nat * option nat * list ((str * bool) * aval))
                         * list outcome * list (list ((str * bool) * aval)))%type.
Definition check_hist (c : hist_case) : bool :=
  let '(h0, cs, obs, final) := c in
  let '(os, h') := run_heap h0 cs in
  forallb (fun c => ref_ok (length h0) (fst (fst c)) && ref_ok (length h0) (snd (fst c))) cs &&
  list_eqb outcome_eqb os obs && list_eqb (list_eqb entry_eqb) (firstn (length h0) h') final.

(* reader differential: attribute text, html.parser's attribute list *)
Definition parse_case := (str * list (str * option str))%type.
Definition check_parse (c : parse_case) : bool :=
  match parse_attrs (fst c) with Parsed l => list_eqb attr_eqb l (snd c) | _ => false end.

(* escape differential: s, django.utils.html.escape(s) *)
Definition esc_case := (str * str)%type.
Definition check_esc (c : esc_case) : bool := str_eqb (escape (fst c)) (snd c) && str_eqb (decode (snd c)) (fst c).

(* slot content, first flag, onward hops, the text found in the rendered output *)
Definition slot_case := (content * bool * list hop * str)%type.
Definition check_slot (c : slot_case) : bool :=
  let '(ct, b, hs, out) := c in str_eqb (emit (travel (normalize ct b) hs)) out.

(* js? , content, Some emitted | None = RuntimeError *)
Definition wrap_case := (bool * str * option str)%type.
Definition check_wrap (c : wrap_case) : bool :=
  let '(js, s, obs) := c in option_eqb str_eqb (if js then wrap_js s else wrap_css s) obs.
