(* Model of django_components.util.cache.LRUCache and template.cached_template (property C18).

   The implementation keeps a dict `cache : key -> node` and a doubly linked list of nodes between
   two sentinels (head = most recently used).  The model keeps what that pair represents: the list
   of (key, value) entries, most recently used first.  `_remove` followed by `_add_to_front` is
   "move to the head of the list"; `self.tail.prev` is the last entry.  Definitions only - the
   proofs are in LRU/Proofs.v so the model still runs when a proof breaks. *)
From DJC Require Import Lib.Base.

Section LRU.
  Context {V : Type}.

  Record lru := { cap : option Z; items : list (N * V) }.

  Definition init (c : option Z) : lru := {| cap := c; items := [] |}.

  (* `self.maxsize is not None and self.maxsize <= 0` *)
  Definition disabled (s : lru) : bool :=
    match cap s with Some c => Z.leb c 0 | None => false end.

  (* `self.maxsize is not None and len(self.cache) >= self.maxsize` *)
  Definition full (s : lru) : bool :=
    match cap s with Some c => Z.leb c (Z.of_nat (length (items s))) | None => false end.

  Inductive op := OGet (k : N) | OHas (k : N) | OSet (k : N) (v : V) | OClear.
  Inductive out := RVal (v : option V) | RBool (b : bool) | RUnit | RErr.

  Definition get (k : N) (s : lru) : option V * lru :=
    match alookup k (items s) with
    | Some v => (Some v, {| cap := cap s; items := (k, v) :: aremove k (items s) |})
    | None => (None, s)
    end.

  Definition has (k : N) (s : lru) : bool := amem k (items s).

  (* result: None = the `RuntimeError`/KeyError branch (evicting from an empty list) *)
  Definition set (k : N) (v : V) (s : lru) : option lru :=
    if disabled s then Some s
    else if amem k (items s) then
      Some {| cap := cap s; items := (k, v) :: aremove k (items s) |}
    else if full s then
      match items s with
      | [] => None
      | _ :: _ => Some {| cap := cap s; items := (k, v) :: removelast (items s) |}
      end
    else Some {| cap := cap s; items := (k, v) :: items s |}.

  Definition clear (s : lru) : lru := {| cap := cap s; items := [] |}.

  Definition step (s : lru) (o : op) : lru * out :=
    match o with
    | OGet k => let '(r, s') := get k s in (s', RVal r)
    | OHas k => (s, RBool (has k s))
    | OSet k v => match set k v s with Some s' => (s', RUnit) | None => (s, RErr) end
    | OClear => (clear s, RUnit)
    end.

  Fixpoint run (s : lru) (ops : list op) : lru * list out :=
    match ops with
    | [] => (s, [])
    | o :: r => let '(s1, x) := step s o in let '(s2, xs) := run s1 r in (s2, x :: xs)
    end.

  Definition final (s : lru) (ops : list op) : lru := fst (run s ops).
End LRU.

Arguments lru : clear implicits.
Arguments op : clear implicits.
Arguments out : clear implicits.

(* ---------- cached_template ---------- *)
(* A compiled template object is (the cache key it was compiled from, a fresh object identity).
   `Template(...)` is deterministic in the key apart from the identity. *)
Notation tobj := (N * N)%type (only parsing).

(* cached_template(key) with `fresh` the identity a new compilation would get *)
Definition cached_template (k fresh : N) (s : lru tobj) : option (tobj * lru tobj) :=
  match get k s with
  | (Some t, s') => Some (t, s')
  | (None, s') => let t := (k, fresh) in
                  match set k t s' with Some s'' => Some (t, s'') | None => None end
  end.

Inductive top := TCompile (k : N) | TClear.

(* run a history; the i-th op uses identity i *)
Fixpoint trun (s : lru tobj) (i : N) (ops : list top) : option (lru tobj * list (option tobj)) :=
  match ops with
  | [] => Some (s, [])
  | TClear :: r => match trun (clear s) (N.succ i) r with
                   | Some (s', xs) => Some (s', None :: xs) | None => None end
  | TCompile k :: r =>
      match cached_template k i s with
      | None => None
      | Some (t, s1) => match trun s1 (N.succ i) r with
                        | Some (s', xs) => Some (s', Some t :: xs) | None => None end
      end
  end.

(* ---------- correspondence cases ---------- *)
Definition out_eqb (a b : out N) : bool :=
  match a, b with
  | RVal x, RVal y => option_eqb N.eqb x y
  | RBool x, RBool y => Bool.eqb x y
  | RUnit, RUnit => true
  | RErr, RErr => true
  | _, _ => false
  end.

(* case = (maxsize, ops, outputs observed on LRUCache, keys present at the end sorted by key, len(cache)) *)
Definition lru_case := (option Z * list (op N) * list (out N) * list N * N)%type.

Fixpoint insert_sorted (k : N) (l : list N) : list N :=
  match l with
  | [] => [k]
  | x :: r => if N.leb k x then k :: l else x :: insert_sorted k r
  end.
Definition sort_keys (l : list N) : list N := fold_right insert_sorted [] l.

Definition check_lru (c : lru_case) : bool :=
  let '(cp, ops, outs, keys, n) := c in
  let '(s, outs') := run (init cp) ops in
  list_eqb out_eqb outs outs'
  && list_eqb N.eqb keys (sort_keys (map fst (items s)))
  && N.eqb n (N.of_nat (length (items s))).

(* case = (template_cache_size, history, identity observed per call: index of the call that created the object) *)
Definition ct_case := (option Z * list top * list (option N))%type.
Definition check_ct (c : ct_case) : bool :=
  let '(cp, ops, ids) := c in
  match trun (init cp) 0%N ops with
  | None => false
  | Some (_, xs) => list_eqb (option_eqb N.eqb) ids (map (option_map snd) xs)
  end.
