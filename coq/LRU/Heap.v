(* Pointer-level (mechanism) model of django_components.util.cache.LRUCache  (property C18).

   The implementation keeps
     * CacheNode objects {key; value; prev; next},
     * two sentinel nodes `self.head` (most recently used side) and `self.tail`,
     * `self.cache : Dict[key, CacheNode]`.
   Here: a heap `node id -> node` (association list, one binding per id, updated in place), the
   sentinels are the ids 0 and 1, `prev`/`next` are `option id` (None = Python None), the dict is an
   association list `key -> node id` with one binding per key.  Every method is transliterated line by
   line, including the `maxsize <= 0` no-op of `set`, the `tail.prev is None` RuntimeError branch and
   the KeyError of `del self.cache[lru_node.key]`.  Objects that become unreachable (evicted nodes, all
   nodes after `clear`) stay in the heap with their stale pointers, exactly like the Python objects do
   until collected.  Definitions only; the refinement proof is in LRU/HeapProofs.v. *)
From DJC Require Import Lib.Base LRU.Model.

Section Heap.
  Context {V : Type}.

  (* `value` of the sentinels is None (cast(T, None)); real nodes carry Some v *)
  Record node := { nkey : N; nval : option V; nprev : option N; nnext : option N }.

  Definition head_id : N := 0%N.
  Definition tail_id : N := 1%N.
  (* CacheNode("", None): the sentinels' key is an ordinary member of the key universe *)
  Definition sentinel_key : N := 0%N.

  Record hstate := { hcap : option Z; hheap : list (N * node); hdict : list (N * N); hnext : N }.

  (* Python exceptions that the transliterated code can raise; EDangling = attribute access through a
     node id that is not in the heap (cannot happen in Python - an artefact of modelling references by
     ids - kept explicit so that it cannot be defaulted away) *)
  Inductive herr := EKeyError | ERuntimeError | EDangling.
  Inductive hres (A : Type) := HOk (a : A) | HErr (e : herr).
  Arguments HOk {A} a.
  Arguments HErr {A} e.

  Definition bind {A B} (m : hres A) (f : A -> hres B) : hres B :=
    match m with HOk a => f a | HErr e => HErr e end.

  (* ---------- heap access ---------- *)
  Definition rd (h : list (N * node)) (i : N) : option node := alookup i h.

  Fixpoint upd (h : list (N * node)) (i : N) (f : node -> node) : list (N * node) :=
    match h with
    | [] => []
    | (j, n) :: r => if N.eqb i j then (j, f n) :: r else (j, n) :: upd r i f
    end.

  Definition getn (h : list (N * node)) (i : N) : hres node :=
    match rd h i with Some n => HOk n | None => HErr EDangling end.

  (* attribute assignment `obj.field = x` *)
  Definition modify (h : list (N * node)) (i : N) (f : node -> node) : hres (list (N * node)) :=
    match rd h i with Some _ => HOk (upd h i f) | None => HErr EDangling end.

  Definition set_next (x : option N) (n : node) : node :=
    {| nkey := nkey n; nval := nval n; nprev := nprev n; nnext := x |}.
  Definition set_prev (x : option N) (n : node) : node :=
    {| nkey := nkey n; nval := nval n; nprev := x; nnext := nnext n |}.
  Definition set_val (x : option V) (n : node) : node :=
    {| nkey := nkey n; nval := x; nprev := nprev n; nnext := nnext n |}.

  (* ---------- __init__ ---------- *)
  Definition hinit (c : option Z) : hstate :=
    {| hcap := c;
       hheap := [ (head_id, {| nkey := sentinel_key; nval := None; nprev := None; nnext := Some tail_id |});
                  (tail_id, {| nkey := sentinel_key; nval := None; nprev := Some head_id; nnext := None |}) ];
       hdict := [];
       hnext := 2%N |}.

  (* ---------- _remove(node) ----------
       prev_node = node.prev
       next_node = node.next
       if prev_node is not None: prev_node.next = next_node
       if next_node is not None: next_node.prev = prev_node            *)
  Definition h_remove (i : N) (h : list (N * node)) : hres (list (N * node)) :=
    bind (getn h i) (fun n =>
    let prev_node := nprev n in
    let next_node := nnext n in
    bind (match prev_node with Some p => modify h p (set_next next_node) | None => HOk h end) (fun h1 =>
    match next_node with Some q => modify h1 q (set_prev prev_node) | None => HOk h1 end)).

  (* ---------- _add_to_front(node) ----------
       node.next = self.head.next
       node.prev = self.head
       if self.head.next:                  (a CacheNode is always truthy: the test is `is not None`)
           self.head.next.prev = node
           self.head.next = node                                         *)
  Definition h_add_to_front (i : N) (h : list (N * node)) : hres (list (N * node)) :=
    bind (getn h head_id) (fun hd =>
    bind (modify h i (set_next (nnext hd))) (fun h1 =>
    bind (modify h1 i (set_prev (Some head_id))) (fun h2 =>
    bind (getn h2 head_id) (fun hd2 =>
    match nnext hd2 with
    | Some x => bind (modify h2 x (set_prev (Some i))) (fun h3 => modify h3 head_id (set_next (Some i)))
    | None => HOk h2
    end)))).

  Definition with_heap (s : hstate) (h : list (N * node)) : hstate :=
    {| hcap := hcap s; hheap := h; hdict := hdict s; hnext := hnext s |}.

  (* ---------- get(key) ---------- *)
  Definition hget (k : N) (s : hstate) : hres (option V * hstate) :=
    match alookup k (hdict s) with               (* if key in self.cache: node = self.cache[key] *)
    | Some i =>
        bind (h_remove i (hheap s)) (fun h1 =>
        bind (h_add_to_front i h1) (fun h2 =>
        bind (getn h2 i) (fun n =>               (* return node.value *)
        HOk (nval n, with_heap s h2))))
    | None => HOk (None, s)
    end.

  (* ---------- has(key) ---------- *)
  Definition hhas (k : N) (s : hstate) : bool := amem k (hdict s).

  (* `self.maxsize is not None and self.maxsize <= 0` *)
  Definition hdisabled (s : hstate) : bool :=
    match hcap s with Some c => Z.leb c 0 | None => false end.
  (* `self.maxsize is not None and len(self.cache) >= self.maxsize` *)
  Definition hfull (s : hstate) : bool :=
    match hcap s with Some c => Z.leb c (Z.of_nat (length (hdict s))) | None => false end.

  (* new_node = CacheNode(key, value); self.cache[key] = new_node; self._add_to_front(new_node) *)
  Definition h_insert_new (k : N) (v : V) (s : hstate) : hres hstate :=
    let i := hnext s in
    let h0 := (i, {| nkey := k; nval := Some v; nprev := None; nnext := None |}) :: hheap s in
    bind (h_add_to_front i h0) (fun h1 =>
    HOk {| hcap := hcap s; hheap := h1; hdict := (k, i) :: aremove k (hdict s); hnext := N.succ i |}).

  (* ---------- set(key, value) ---------- *)
  Definition hset (k : N) (v : V) (s : hstate) : hres hstate :=
    if hdisabled s then HOk s
    else match alookup k (hdict s) with
    | Some i =>
        bind (modify (hheap s) i (set_val (Some v))) (fun h0 =>     (* node.value = value *)
        bind (h_remove i h0) (fun h1 =>
        bind (h_add_to_front i h1) (fun h2 =>
        HOk (with_heap s h2))))
    | None =>
        if hfull s then
          bind (getn (hheap s) tail_id) (fun t =>
          match nprev t with                                         (* lru_node = self.tail.prev *)
          | None => HErr ERuntimeError                                (* raise RuntimeError(...) *)
          | Some j =>
              bind (h_remove j (hheap s)) (fun h1 =>
              bind (getn h1 j) (fun lru =>
              match alookup (nkey lru) (hdict s) with                 (* del self.cache[lru_node.key] *)
              | None => HErr EKeyError
              | Some _ =>
                  h_insert_new k v {| hcap := hcap s; hheap := h1;
                                      hdict := aremove (nkey lru) (hdict s); hnext := hnext s |}
              end))
          end)
        else h_insert_new k v s
    end.

  (* ---------- clear() ----------   self.cache.clear(); self.head.next = self.tail; self.tail.prev = self.head *)
  Definition hclear (s : hstate) : hres hstate :=
    bind (modify (hheap s) head_id (set_next (Some tail_id))) (fun h1 =>
    bind (modify h1 tail_id (set_prev (Some head_id))) (fun h2 =>
    HOk {| hcap := hcap s; hheap := h2; hdict := []; hnext := hnext s |})).

  (* one API call; the outputs are those of LRU/Model.v *)
  Definition hstep (s : hstate) (o : op V) : hres (hstate * out V) :=
    match o with
    | OGet k => bind (hget k s) (fun '(r, s') => HOk (s', RVal r))
    | OHas k => HOk (s, RBool (hhas k s))
    | OSet k v => bind (hset k v s) (fun s' => HOk (s', RUnit))
    | OClear => bind (hclear s) (fun s' => HOk (s', RUnit))
    end.

  Fixpoint hrun (s : hstate) (ops : list (op V)) : hres (hstate * list (out V)) :=
    match ops with
    | [] => HOk (s, [])
    | o :: r => bind (hstep s o) (fun '(s1, x) =>
                bind (hrun s1 r) (fun '(s2, xs) => HOk (s2, x :: xs)))
    end.

  (* ---------- reading the structure ---------- *)
  Definition nx (h : list (N * node)) (i : N) : option N :=
    match rd h i with Some n => nnext n | None => None end.
  Definition pv (h : list (N * node)) (i : N) : option N :=
    match rd h i with Some n => nprev n | None => None end.
  (* (key, value) of a real node *)
  Definition kv (h : list (N * node)) (i : N) : option (N * V) :=
    match rd h i with
    | Some n => match nval n with Some v => Some (nkey n, v) | None => None end
    | None => None
    end.

  (* follow `next` from node i until the tail sentinel (fuel = number of objects: a walk that does not
     reach the tail within that many steps is cyclic) *)
  Fixpoint walk (fuel : nat) (h : list (N * node)) (i : N) : list N :=
    match fuel with
    | O => []
    | S f => if N.eqb i tail_id then []
             else i :: match nx h i with Some j => walk f h j | None => [] end
    end.
  (* follow `prev` from node i until the head sentinel *)
  Fixpoint walkb (fuel : nat) (h : list (N * node)) (i : N) : list N :=
    match fuel with
    | O => []
    | S f => if N.eqb i head_id then []
             else i :: match pv h i with Some j => walkb f h j | None => [] end
    end.

  (* node ids from head.next to the tail / from tail.prev to the head *)
  Definition walk_fwd (s : hstate) : list N :=
    match nx (hheap s) head_id with Some j => walk (length (hheap s)) (hheap s) j | None => [] end.
  Definition walk_bwd (s : hstate) : list N :=
    match pv (hheap s) tail_id with Some j => walkb (length (hheap s)) (hheap s) j | None => [] end.

  Fixpoint filter_map {A B} (f : A -> option B) (l : list A) : list B :=
    match l with
    | [] => []
    | x :: r => match f x with Some y => y :: filter_map f r | None => filter_map f r end
    end.

  (* THE ABSTRACTION: the entry list (most recently used first) obtained by walking `next` from head *)
  Definition habs_items (s : hstate) : list (N * V) := filter_map (kv (hheap s)) (walk_fwd s).
  Definition habs (s : hstate) : lru V := {| cap := hcap s; items := habs_items s |}.
End Heap.

Arguments node : clear implicits.
Arguments hstate : clear implicits.
Arguments hres : clear implicits.
Arguments HOk {A} a.
Arguments HErr {A} e.

(* ---------- correspondence cases (values are N) ---------- *)
(* What the harness reads off the real object after one call, independent of object identities:
     (key, value) of the nodes met walking `next` from head.next up to the tail sentinel,
     keys of the nodes met walking `prev` from tail.prev up to the head sentinel,
     for every key of the dict: the position in the forward walk of the node it maps to (None = not on the list). *)
Definition hsnap := (list (N * N) * list N * list (N * option N))%type.
(* case = (maxsize, calls, outputs observed, snapshot observed after every call) *)
Definition heap_case := (option Z * list (op N) * list (out N) * list hsnap)%type.

Fixpoint index_of (i : N) (l : list N) (n : N) : option N :=
  match l with
  | [] => None
  | x :: r => if N.eqb i x then Some n else index_of i r (N.succ n)
  end.

Definition dict_agrees (d : list (N * N)) (fwd : list N) (obs : list (N * option N)) : bool :=
  Nat.eqb (length d) (length obs) &&
  forallb (fun e => match alookup (fst e) d with
                    | Some i => option_eqb N.eqb (index_of i fwd 0%N) (snd e)
                    | None => false
                    end) obs.

Definition snap_eqb (s : hstate N) (x : hsnap) : bool :=
  let '(f, b, d) := x in
  list_eqb (pair_eqb N.eqb N.eqb) (habs_items s) f
  && list_eqb N.eqb (filter_map (fun i => option_map fst (kv (hheap s) i)) (walk_bwd s)) b
  && Nat.eqb (length (walk_fwd s)) (length f) && Nat.eqb (length (walk_bwd s)) (length b)
  && dict_agrees (hdict s) (walk_fwd s) d.

Fixpoint heap_trace (s : hstate N) (ops : list (op N)) (outs : list (out N)) (snaps : list hsnap)
  : option (hstate N) :=
  match ops, outs, snaps with
  | [], [], [] => Some s
  | o :: ops', x :: outs', sn :: snaps' =>
      match hstep s o with
      | HOk (s1, y) => if out_eqb x y && snap_eqb s1 sn then heap_trace s1 ops' outs' snaps' else None
      | HErr _ => None
      end
  | _, _, _ => None
  end.

Definition check_heap (c : heap_case) : bool :=
  let '(cp, ops, outs, snaps) := c in
  match heap_trace (hinit cp) ops outs snaps with
  | Some s =>
      (* the abstraction of the pointer structure is the state of the list-level model *)
      list_eqb (pair_eqb N.eqb N.eqb) (habs_items s) (items (final (init cp) ops))
  | None => false
  end.
