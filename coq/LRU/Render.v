(* Rendering THROUGH the template cache (property C18, transparency clause).

   A compiled Template is an object (key, identity) - see LRU/Model.v.  Its node list may carry state of
   its own (memo fields on nodes, compiled sub-expressions, ...).  `rend k s i = (o, s')`: rendering a
   template compiled from key k whose nodes are in state s, on input i, prints o and leaves the nodes in
   state s'.  A fresh compilation of k starts in state `s0 k`.  The cache hands the SAME object to every
   caller for as long as it is cached, so node state survives from one render to the next; compiling afresh
   never sees it.  Definitions only; proofs in LRU/RenderProofs.v. *)
From DJC Require Import Lib.Base LRU.Model.

Section Render.
  Context {S I O : Type}.
  Context (s0 : N -> S) (rend : N -> S -> I -> O * S).

  Inductive rop := RRender (k : N) (i : I) | RClear.

  (* node state per Template OBJECT (key, identity) *)
  Fixpoint plookup (t : N * N) (st : list ((N * N) * S)) : option S :=
    match st with
    | [] => None
    | (t', s) :: r => if pair_eqb N.eqb N.eqb t t' then Some s else plookup t r
    end.
  Definition sget (st : list ((N * N) * S)) (t : N * N) : S :=
    match plookup t st with Some s => s | None => s0 (fst t) end.

  (* a history of renders through cached_template; the n-th call creates identity n on a miss *)
  Fixpoint rrun (c : lru (N * N)) (st : list ((N * N) * S)) (n : N) (ops : list rop) : option (list (option O)) :=
    match ops with
    | [] => Some []
    | RClear :: r => option_map (cons None) (rrun (clear c) st (N.succ n) r)
    | RRender k i :: r =>
        match cached_template k n c with
        | None => None
        | Some (t, c') =>
            let '(o, s') := rend (fst t) (sget st t) i in
            option_map (cons (Some o)) (rrun c' ((t, s') :: st) (N.succ n) r)
        end
    end.

  (* the same history, compiling afresh for every render *)
  Definition fresh_run (ops : list rop) : list (option O) :=
    map (fun o => match o with RRender k i => Some (fst (rend k (s0 k) i)) | RClear => None end) ops.
End Render.

Arguments rop : clear implicits.

(* ---------- correspondence cases ----------
   Pages whose tags pass a literal list of `base k` items to a component that appends one item in place and
   prints how many items it was given.  The code under test builds the literal anew on every render: the
   nodes keep no state (S = unit).
   case = (template_cache_size, base lengths, history, number of items printed per render) *)
Definition rr_case := (option Z * list N * list (rop unit) * list (option N))%type.
Definition check_rr (c : rr_case) : bool :=
  let '(cp, bases, ops, outs) := c in
  match rrun (fun _ => tt) (fun k s _ => (N.succ (nth (N.to_nat k) bases 0%N), s)) (init cp) [] 0%N ops with
  | Some xs => list_eqb (option_eqb N.eqb) outs xs
  | None => false
  end.
