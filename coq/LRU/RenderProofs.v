From DJC Require Import Lib.Base LRU.Model LRU.Proofs LRU.Render.

Section RenderProofs.
  Context {S I O : Type}.
  Context (s0 : N -> S) (rend : N -> S -> I -> O * S).

  Lemma pair_eqb_N_eq (a b : N * N) : pair_eqb N.eqb N.eqb a b = true -> a = b.
  Proof.
    destruct a as [a1 a2], b as [b1 b2]. unfold pair_eqb. simpl. intro H.
    apply andb_true_iff in H. destruct H as [H1 H2]. apply N.eqb_eq in H1. apply N.eqb_eq in H2. congruence.
  Qed.

  (* every stored node state is the state of a fresh compilation *)
  Definition st_fresh (st : list ((N * N) * S)) : Prop :=
    forall t s, plookup t st = Some s -> s = s0 (fst t).

  Lemma sget_fresh st t : st_fresh st -> sget s0 st t = s0 (fst t).
  Proof. intro H. unfold sget. destruct (plookup t st) eqn:E; [apply H; exact E | reflexivity]. Qed.

  (* If rendering a freshly compiled template leaves its nodes as compiled (Templates and their node lists are
     immutable under render), then for EVERY history and EVERY cache size the outputs through the cache are
     the outputs of compiling afresh. *)
  Lemma render_transparent_lemma :
    (forall k i, snd (rend k (s0 k) i) = s0 k) ->
    forall ops c st n, wf c -> ct_inv c -> st_fresh st ->
      rrun s0 rend c st n ops = Some (fresh_run s0 rend ops).
  Proof.
    intro Hpure. induction ops as [|o ops IH]; intros c st n Hwf Hct Hst; [reflexivity|].
    destruct o as [k i|]; cbn [rrun fresh_run map].
    - destruct (cached_template k n c) as [[t c']|] eqn:Ec.
      + destruct (ct_step_inv _ _ _ _ _ Hwf Hct Ec) as [Hk [Hct' Hwf']].
        rewrite (sget_fresh st t Hst), Hk.
        pose proof (Hpure k i) as Hp. destruct (rend k (s0 k) i) as [o s'] eqn:Er. simpl in Hp. subst s'.
        fold (fresh_run s0 rend ops). rewrite IH; [reflexivity | exact Hwf' | exact Hct' |].
        intros t2 s2. cbn [plookup]. destruct (pair_eqb N.eqb N.eqb t2 t) eqn:Ee.
        * apply pair_eqb_N_eq in Ee. subst t2. intro H. injection H as H. rewrite <- H, Hk. reflexivity.
        * apply Hst.
      + exfalso. revert Ec. unfold cached_template, get. destruct (alookup k (items c)); [discriminate|].
        destruct (set k (k, n) c) eqn:Es; [discriminate|]. intros _. eapply set_total; eauto.
    - fold (fresh_run s0 rend ops). rewrite IH; [reflexivity | | | exact Hst].
      + split; simpl; [constructor|]. destruct (cap c); simpl; lia.
      + intros x w Hx; discriminate.
  Qed.

  Lemma render_transparent_init :
    (forall k i, snd (rend k (s0 k) i) = s0 k) ->
    forall cp ops, rrun s0 rend (init cp) [] 0%N ops = Some (fresh_run s0 rend ops).
  Proof.
    intros Hpure cp ops. apply render_transparent_lemma; auto.
    - apply wf_init.
    - apply ct_inv_init.
    - intros t s H. discriminate.
  Qed.
End RenderProofs.
