From DJC Require Import Lib.Base LRU.Model.

(* ---------- association-list facts ---------- *)
Section AssocFacts.
  Context {V : Type}.
  Implicit Types (l : list (N * V)).

  Lemma alookup_in_keys k l v : alookup k l = Some v -> In k (map fst l).
  Proof.
    induction l as [|[k' v'] l IH]; simpl; [discriminate|].
    destruct (N.eqb_spec k k'); intro H; [left; congruence | right; auto].
  Qed.

  Lemma alookup_none_keys k l : alookup k l = None <-> ~ In k (map fst l).
  Proof.
    induction l as [|[k' v'] l IH]; simpl; [tauto|].
    destruct (N.eqb_spec k k'); split; intro H; try discriminate.
    - exfalso; apply H; left; congruence.
    - intros [E|E]; [congruence | apply IH in H; auto].
    - apply IH. intro; apply H; auto.
  Qed.

  Lemma amem_true k l : amem k l = true <-> In k (map fst l).
  Proof.
    unfold amem. destruct (alookup k l) eqn:E; split; intro H; try reflexivity; try discriminate.
    - eapply alookup_in_keys; eauto.
    - apply alookup_none_keys in E. contradiction.
  Qed.

  Lemma aremove_keys x k l : In x (map fst (aremove k l)) <-> In x (map fst l) /\ x <> k.
  Proof.
    induction l as [|[k' v'] l IH]; simpl; [tauto|].
    destruct (N.eqb_spec k k'); simpl; rewrite IH; split.
    - intros [H1 H2]; auto.
    - intros [[H|H] H2]; [subst; congruence | auto].
    - intros [H|[H1 H2]]; [subst; auto | auto].
    - intros [[H|H] H2]; auto.
  Qed.

  Lemma aremove_nodup k l : NoDup (map fst l) -> NoDup (map fst (aremove k l)).
  Proof.
    induction l as [|[k' v'] l IH]; simpl; intro H; [constructor|].
    inversion H; subst. destruct (N.eqb_spec k k'); simpl; auto.
    constructor; auto. rewrite aremove_keys. tauto.
  Qed.

  Lemma aremove_length_le k l : length (aremove k l) <= length l.
  Proof. induction l as [|[k' v'] l IH]; simpl; [lia|]. destruct (N.eqb k k'); simpl; lia. Qed.

  Lemma aremove_length_mem k l : In k (map fst l) -> S (length (aremove k l)) <= length l.
  Proof.
    induction l as [|[k' v'] l IH]; simpl; [tauto|].
    destruct (N.eqb_spec k k'); simpl; intro H.
    - pose proof (aremove_length_le k l). lia.
    - destruct H as [H|H]; [congruence|]. apply IH in H. lia.
  Qed.

  Lemma alookup_aremove_same k l : alookup k (aremove k l) = None.
  Proof. apply alookup_none_keys. rewrite aremove_keys. tauto. Qed.

  Lemma alookup_aremove_other x k l : x <> k -> alookup x (aremove k l) = alookup x l.
  Proof.
    intro Hx. induction l as [|[k' v'] l IH]; simpl; [reflexivity|].
    destruct (N.eqb_spec k k'); simpl.
    - subst. destruct (N.eqb_spec x k'); [congruence | auto].
    - destruct (N.eqb_spec x k'); auto.
  Qed.

  Lemma removelast_keys_incl x l : In x (map fst (removelast l)) -> In x (map fst l).
  Proof.
    induction l as [|a l IH]; simpl; [tauto|]. destruct l as [|b l]; [simpl; tauto|].
    simpl in *. intros [H|H]; auto.
  Qed.

  Lemma removelast_nodup l : NoDup (map fst l) -> NoDup (map fst (removelast l)).
  Proof.
    induction l as [|a l IH]; simpl; intro H; [constructor|]. destruct l as [|b l]; [constructor|].
    inversion H; subst. change (NoDup (fst a :: map fst (removelast (b :: l)))).
    constructor; auto. intro Hin. apply removelast_keys_incl in Hin. auto.
  Qed.

  Lemma removelast_length l : length (removelast l) = length l - 1.
  Proof.
    induction l as [|a l IH]; simpl; [reflexivity|]. destruct l as [|b l]; [reflexivity|].
    simpl in *. lia.
  Qed.

  Lemma alookup_removelast k l v :
    NoDup (map fst l) -> alookup k (removelast l) = Some v -> alookup k l = Some v.
  Proof.
    induction l as [|[k' v'] l IH]; simpl; [discriminate|]. intro Hnd. inversion Hnd; subst.
    destruct l as [|b l]; [simpl; discriminate|].
    change (alookup k ((k', v') :: removelast (b :: l)) = Some v -> alookup k ((k', v') :: b :: l) = Some v).
    simpl alookup at 1. simpl alookup at 2.
    destruct (N.eqb_spec k k'); auto.
  Qed.
End AssocFacts.
Local Arguments removelast : simpl never.

(* ---------- well-formedness invariant: distinct keys, size bound ---------- *)
Section Inv.
  Context {V : Type}.
  Implicit Types (s : lru V).

  Definition wf s : Prop :=
    NoDup (map fst (items s)) /\
    match cap s with
    | Some c => (Z.of_nat (length (items s)) <= Z.max 0 c)%Z
    | None => True
    end.

  Lemma wf_init c : wf (@init V c).
  Proof. split; simpl; [constructor|]. destruct c; simpl; lia. Qed.

  Lemma get_wf k s r s' : wf s -> get k s = (r, s') -> wf s'.
  Proof.
    unfold get. intros [Hnd Hc]. destruct (alookup k (items s)) eqn:E; intro H; inversion H; subst; clear H.
    - split; simpl.
      + constructor; [rewrite aremove_keys; tauto | apply aremove_nodup; auto].
      + destruct (cap s); auto. pose proof (aremove_length_mem k (items s) (alookup_in_keys _ _ _ E)). lia.
    - split; auto.
  Qed.

  Lemma get_cap k s r s' : get k s = (r, s') -> cap s' = cap s.
  Proof. unfold get. destruct (alookup k (items s)); intro H; inversion H; reflexivity. Qed.

  Lemma set_wf k v s s' : wf s -> set k v s = Some s' -> wf s'.
  Proof.
    unfold set, disabled, full, wf. intros [Hnd Hc].
    destruct (cap s) as [c|] eqn:Ec.
    - destruct (Z.leb_spec c 0) as [Hle0|Hgt0].
      { intro H; inversion H; subst. rewrite Ec. split; auto. }
      destruct (amem k (items s)) eqn:Em.
      + intro H; inversion H; subst; clear H. cbn [items cap]. split.
        * cbn [map fst]. constructor; [rewrite aremove_keys; tauto | apply aremove_nodup; auto].
        * apply amem_true in Em. pose proof (aremove_length_mem k _ Em). cbn [length]. lia.
      + assert (Hk : ~ In k (map fst (items s))).
        { intro Hin. apply amem_true in Hin. congruence. }
        destruct (Z.leb_spec c (Z.of_nat (length (items s)))) as [Hfull|Hnfull].
        * destruct (items s) as [|a l] eqn:El; [discriminate|].
          pose proof (removelast_length (a :: l)) as Hrl.
          pose proof (removelast_nodup (a :: l) Hnd) as Hrn.
          assert (Hri : ~ In k (map fst (removelast (a :: l)))).
          { intro Hin. apply removelast_keys_incl in Hin. auto. }
          remember (removelast (a :: l)) as rl eqn:Erl. clear Erl.
          intro H; inversion H; subst; clear H. cbn [items cap]. split.
          -- cbn [map fst]. constructor; auto.
          -- cbn [length] in *. lia.
        * intro H; inversion H; subst; clear H. cbn [items cap]. split.
          -- cbn [map fst]. constructor; auto.
          -- cbn [length]. lia.
    - destruct (amem k (items s)) eqn:Em; intro H; inversion H; subst; clear H; cbn [items cap map fst]; split; auto.
      + constructor; [rewrite aremove_keys; tauto | apply aremove_nodup; auto].
      + constructor; auto. intro Hin. apply amem_true in Hin. congruence.
  Qed.

  Lemma set_cap k v s s' : set k v s = Some s' -> cap s' = cap s.
  Proof.
    unfold set. destruct (disabled s); [intro H; inversion H; reflexivity|].
    destruct (amem k (items s)); [intro H; inversion H; reflexivity|].
    destruct (full s); [destruct (items s); [discriminate|]|]; intro H; inversion H; reflexivity.
  Qed.

  (* the RuntimeError / KeyError branch of `set` is unreachable from well-formed states *)
  Lemma set_total k v s : wf s -> set k v s <> None.
  Proof.
    unfold set, disabled, full. intros [Hnd Hc].
    destruct (cap s) as [c|]; [|destruct (amem k (items s)); discriminate].
    destruct (Z.leb_spec c 0); [discriminate|].
    destruct (amem k (items s)); [discriminate|].
    destruct (Z.leb_spec c (Z.of_nat (length (items s)))); [|discriminate].
    destruct (items s); [simpl in *; lia | discriminate].
  Qed.

  Lemma step_wf s o : wf s -> wf (fst (step s o)).
  Proof.
    intro H. destruct o as [k|k|k v|]; simpl.
    - destruct (get k s) as [r s'] eqn:E. simpl. eapply get_wf; eauto.
    - exact H.
    - destruct (set k v s) as [s'|] eqn:E; simpl; [eapply set_wf; eauto | exact H].
    - split; simpl; [constructor|]. destruct (cap s); simpl; lia.
  Qed.

  Lemma step_cap s o : cap (fst (step s o)) = cap s.
  Proof.
    destruct o as [k|k|k v|]; simpl; try reflexivity.
    - destruct (get k s) as [r s'] eqn:E. simpl. eapply get_cap; eauto.
    - destruct (set k v s) as [s'|] eqn:E; simpl; [eapply set_cap; eauto | reflexivity].
  Qed.

  Lemma final_cons s o ops : final s (o :: ops) = final (fst (step s o)) ops.
  Proof.
    unfold final. simpl. destruct (step s o) as [s1 x]. simpl. destruct (run s1 ops) as [s2 xs]. reflexivity.
  Qed.

  Lemma run_wf ops : forall s, wf s -> wf (final s ops).
  Proof.
    induction ops as [|o ops IH]; intros s H; [exact H|].
    rewrite final_cons. apply IH. apply step_wf. exact H.
  Qed.

  Lemma run_cap ops : forall s, cap (final s ops) = cap s.
  Proof.
    induction ops as [|o ops IH]; intros s; [reflexivity|].
    rewrite final_cons, IH. apply step_cap.
  Qed.

  (* --- every reachable state: size bound, distinct keys --- *)
  Lemma size_le_cap_lemma (c : Z) ops :
    (Z.of_nat (length (items (final (@init V (Some c)) ops))) <= Z.max 0 c)%Z.
  Proof.
    pose proof (run_wf ops _ (wf_init (Some c))) as [_ H].
    rewrite run_cap in H. exact H.
  Qed.

  Lemma keys_distinct_lemma c ops : NoDup (map fst (items (final (@init V c) ops))).
  Proof. apply (run_wf ops _ (wf_init c)). Qed.

  Lemma cap0_never_stores_lemma (c : Z) ops : (c <= 0)%Z -> items (final (@init V (Some c)) ops) = [].
  Proof.
    intro Hc. pose proof (size_le_cap_lemma c ops) as H.
    destruct (items (final (init (Some c)) ops)); [reflexivity | simpl in H; lia].
  Qed.

  (* no reachable state takes the error branch *)
  Lemma no_error_lemma c ops : ~ In RErr (snd (run (@init V c) ops)).
  Proof.
    assert (G : forall ops s, wf s -> ~ In RErr (snd (run s ops))).
    { clear. induction ops as [|o ops IH]; intros s H; simpl; [tauto|].
      destruct (step s o) as [s1 x] eqn:E. pose proof (step_wf s o H) as H1. rewrite E in H1. simpl in H1.
      specialize (IH s1 H1). destruct (run s1 ops) as [s2 xs]. simpl in *.
      intros [Hx|Hx]; [|auto]. subst x.
      destruct o as [k|k|k v|]; simpl in E.
      - destruct (get k s); inversion E.
      - inversion E.
      - destruct (set k v s) eqn:Es; [inversion E|]. exact (set_total k v s H Es).
      - inversion E. }
    apply G. apply wf_init.
  Qed.

  (* --- transparency: the cache only ever answers what a plain dictionary would --- *)
  Definition dict_step (d : list (N * V)) (o : op V) : list (N * V) :=
    match o with
    | OSet k v => (k, v) :: aremove k d
    | OClear => []
    | _ => d
    end.

  Definition sub_dict s (d : list (N * V)) : Prop :=
    forall k v, alookup k (items s) = Some v -> alookup k d = Some v.

  Lemma alookup_cons_move k (v : V) x (l : list (N * V)) :
    alookup x ((k, v) :: aremove k l) = if N.eqb x k then Some v else alookup x l.
  Proof.
    simpl. destruct (N.eqb_spec x k); [reflexivity|]. apply alookup_aremove_other; auto.
  Qed.

  Lemma disabled_empty s : wf s -> disabled s = true -> items s = [].
  Proof.
    unfold disabled. intros [_ Hc] Hd. destruct (cap s) as [c|]; [|discriminate].
    apply Z.leb_le in Hd. destruct (items s); [reflexivity | simpl in Hc; lia].
  Qed.

  Lemma step_sub_dict s d o : wf s -> sub_dict s d -> sub_dict (fst (step s o)) (dict_step d o).
  Proof.
    intros Hwf H. destruct o as [k|k|k v|]; simpl.
    - unfold get. destruct (alookup k (items s)) eqn:E; cbn [fst items]; [|exact H].
      intros x w. cbn [items]. rewrite alookup_cons_move. destruct (N.eqb_spec x k); [|apply H].
      intro Hw; inversion Hw; subst. apply H; auto.
    - exact H.
    - destruct (set k v s) as [s'|] eqn:E; simpl.
      + revert E. unfold set. destruct (disabled s) eqn:Ed.
        { intro E; inversion E; subst. intros x w Hx.
          rewrite (disabled_empty _ Hwf Ed) in Hx. discriminate. }
        destruct (amem k (items s)) eqn:Em.
        { intro E; inversion E; subst; clear E. simpl. intros x w. cbn [items].
          rewrite !alookup_cons_move. destruct (N.eqb_spec x k); [auto | apply H]. }
        destruct (full s).
        { destruct (items s) as [|a l] eqn:El; [discriminate|].
          intro E; inversion E; subst; clear E. simpl items. intros x w.
          change (alookup x ((k, v) :: removelast (a :: l)) = Some w -> alookup x ((k, v) :: aremove k d) = Some w).
          rewrite alookup_cons_move. simpl alookup at 1.
          destruct (N.eqb_spec x k); [auto|].
          intro Hx. apply H. rewrite El. apply alookup_removelast; auto.
          destruct Hwf as [Hnd _]. rewrite El in Hnd. exact Hnd. }
        { intro E; inversion E; subst; clear E. simpl items. intros x w.
          rewrite alookup_cons_move. simpl. destruct (N.eqb_spec x k); [auto | apply H]. }
      + intros x w Hx. exfalso. eapply set_total; eauto.
    - intros x w Hx. discriminate.
  Qed.

  Lemma run_sub_dict ops : forall s d, wf s -> sub_dict s d -> sub_dict (final s ops) (fold_left dict_step ops d).
  Proof.
    induction ops as [|o ops IH]; intros s d Hwf H; [exact H|].
    rewrite final_cons. simpl. apply IH; [apply step_wf; auto | apply step_sub_dict; auto].
  Qed.

  (* whatever history preceded it, a hit returns the value of the latest `set` of that key
     (since the latest `clear`) - i.e. what a plain dictionary holds *)
  Lemma cache_sub_dict_lemma c ops k v :
    alookup k (items (final (@init V c) ops)) = Some v ->
    alookup k (fold_left dict_step ops []) = Some v.
  Proof. apply run_sub_dict; [apply wf_init | intros x w Hx; discriminate]. Qed.

  (* unbounded cache = dictionary *)
  Definition eq_dict s (d : list (N * V)) : Prop := forall k, alookup k (items s) = alookup k d.

  Lemma step_eq_dict s d o : cap s = None -> eq_dict s d -> eq_dict (fst (step s o)) (dict_step d o).
  Proof.
    intros Hc H. destruct o as [k|k|k v|]; simpl.
    - unfold get. destruct (alookup k (items s)) eqn:E; cbn [fst items]; [|exact H].
      intros x. cbn [items]. rewrite alookup_cons_move.
      destruct (N.eqb_spec x k); [subst; rewrite <- H; auto | apply H].
    - exact H.
    - unfold set, disabled, full. rewrite Hc. destruct (amem k (items s)) eqn:Em; cbn [fst items]; intros x; cbn [items].
      + rewrite !alookup_cons_move. destruct (N.eqb x k); auto.
      + rewrite alookup_cons_move. cbn [alookup]. destruct (N.eqb_spec x k); auto.
    - intros x. reflexivity.
  Qed.

  Lemma unbounded_eq_dict_lemma ops k :
    alookup k (items (final (@init V None) ops)) = alookup k (fold_left dict_step ops []).
  Proof.
    assert (G : forall ops s d, cap s = None -> eq_dict s d -> eq_dict (final s ops) (fold_left dict_step ops d)).
    { clear. induction ops as [|o ops IH]; intros s d Hc H; [exact H|].
      rewrite final_cons. simpl. apply IH; [rewrite step_cap; auto | apply step_eq_dict; auto]. }
    apply G; [reflexivity | intro; reflexivity].
  Qed.

  (* output of a `get` = lookup in the state before it *)
  Lemma get_output k s : snd (step s (OGet k)) = RVal (alookup k (items s)).
  Proof. simpl. unfold get. destruct (alookup k (items s)); reflexivity. Qed.
End Inv.

(* ---------- LRU order: ghost time stamps ---------- *)
(* Instrumented copy: every entry carries the time (index of the operation) of its last use
   (successful get, or set).  `erase` forgets the stamps; the instrumented run erases to the
   plain run, so statements about stamps are statements about the model. *)
Section Stamps.
  Context {V : Type}.
  Definition erase_items (l : list (N * (V * N))) : list (N * V) := map (fun e => (fst e, fst (snd e))) l.
  Definition erase (s : lru (V * N)) : lru V := {| cap := cap s; items := erase_items (items s) |}.

  Definition step_t (t : N) (s : lru (V * N)) (o : op V) : lru (V * N) :=
    match o with
    | OGet k => match alookup k (items s) with
                | Some (v, _) => {| cap := cap s; items := (k, (v, t)) :: aremove k (items s) |}
                | None => s
                end
    | OHas k => s
    | OSet k v => match set k (v, t) s with Some s' => s' | None => s end
    | OClear => clear s
    end.

  Fixpoint run_t (t : N) (s : lru (V * N)) (ops : list (op V)) : lru (V * N) :=
    match ops with
    | [] => s
    | o :: r => run_t (N.succ t) (step_t t s o) r
    end.

  Lemma erase_alookup k l :
    alookup k (erase_items l) = option_map fst (alookup k l).
  Proof.
    induction l as [|[k' [v t]] l IH]; simpl; [reflexivity|]. destruct (N.eqb k k'); auto.
  Qed.

  Lemma erase_aremove k l : erase_items (aremove k l) = aremove k (erase_items l).
  Proof.
    induction l as [|[k' [v t]] l IH]; simpl; [reflexivity|]. destruct (N.eqb k k'); simpl; congruence.
  Qed.

  Lemma erase_removelast l : erase_items (removelast l) = removelast (erase_items l).
  Proof.
    unfold erase_items. induction l as [|a l IH]; [reflexivity|]. destruct l as [|b l]; [reflexivity|].
    change (removelast (a :: b :: l)) with (a :: removelast (b :: l)).
    change (map (fun e : N * (V * N) => (fst e, fst (snd e))) (a :: b :: l))
      with ((fst a, fst (snd a)) :: map (fun e : N * (V * N) => (fst e, fst (snd e))) (b :: l)).
    change (removelast ((fst a, fst (snd a)) :: map (fun e : N * (V * N) => (fst e, fst (snd e))) (b :: l)))
      with ((fst a, fst (snd a)) :: removelast (map (fun e : N * (V * N) => (fst e, fst (snd e))) (b :: l))).
    rewrite <- IH. reflexivity.
  Qed.

  Lemma erase_amem k l : amem k (erase_items l) = amem k l.
  Proof. unfold amem. rewrite erase_alookup. destruct (alookup k l); reflexivity. Qed.

  Lemma erase_step t s o : erase (step_t t s o) = fst (step (erase s) o).
  Proof.
    destruct o as [k|k|k v|]; simpl; try reflexivity.
    - unfold get. simpl. rewrite erase_alookup. destruct (alookup k (items s)) as [[v t']|]; simpl; [|reflexivity].
      unfold erase; simpl. rewrite erase_aremove. reflexivity.
    - unfold set, disabled, full. simpl. rewrite erase_amem.
      unfold erase_items at 2. rewrite map_length.
      destruct (cap s) as [c|]; simpl.
      + destruct (Z.leb c 0); [reflexivity|]. destruct (amem k (items s)).
        * unfold erase; simpl. rewrite erase_aremove. reflexivity.
        * destruct (Z.leb c (Z.of_nat (length (items s)))).
          -- destruct (items s) as [|a l] eqn:El; [simpl; unfold erase; rewrite El; reflexivity|].
             unfold erase. cbn [cap items]. rewrite <- erase_removelast. reflexivity.
          -- reflexivity.
      + destruct (amem k (items s)); unfold erase; simpl; [rewrite erase_aremove|]; reflexivity.
  Qed.

  Lemma erase_run ops : forall t s, erase (run_t t s ops) = final (erase s) ops.
  Proof.
    induction ops as [|o ops IH]; intros t s; [reflexivity|].
    simpl run_t. rewrite IH, erase_step, final_cons. reflexivity.
  Qed.

  (* stamps strictly decrease from head to tail, and are below the clock *)
  Fixpoint desc (bound : N) (l : list (N * (V * N))) : Prop :=
    match l with
    | [] => True
    | (_, (_, t)) :: r => (t < bound)%N /\ desc t r
    end.

  Lemma desc_weaken b b' l : (b <= b')%N -> desc b l -> desc b' l.
  Proof. destruct l as [|[k [v t]] l]; simpl; [tauto|]. intros Hb [H1 H2]. split; [lia | auto]. Qed.

  Lemma desc_aremove k b l : desc b l -> desc b (aremove k l).
  Proof.
    revert b. induction l as [|[k' [v t]] l IH]; simpl; intros b H; [exact I|].
    destruct H as [H1 H2]. destruct (N.eqb k k'); simpl.
    - eapply desc_weaken; [|apply IH; eauto]. lia.
    - split; auto.
  Qed.

  Lemma desc_removelast b l : desc b l -> desc b (removelast l).
  Proof.
    revert b. induction l as [|[k' [v t]] l IH]; simpl; intros b H; [exact I|].
    destruct H as [H1 H2]. destruct l as [|a l]; [exact I|]. split; auto.
  Qed.

  Lemma step_desc t s o : desc t (items s) -> desc (N.succ t) (items (step_t t s o)).
  Proof.
    intro H. assert (Hw : desc (N.succ t) (items s)) by (eapply desc_weaken; [|eauto]; lia).
    destruct o as [k|k|k v|]; simpl; auto.
    - destruct (alookup k (items s)) as [[v t']|]; simpl; auto. split; [lia | apply desc_aremove; auto].
    - unfold set. destruct (disabled s); auto. destruct (amem k (items s)); simpl.
      + split; [lia | apply desc_aremove; auto].
      + destruct (full s).
        * destruct (items s) as [|a l] eqn:El; [rewrite El; auto|].
          simpl items. split; [lia | apply desc_removelast; auto].
        * simpl. split; [lia | auto].
  Qed.

  Lemma run_desc ops : forall t s, desc t (items s) -> exists t', desc t' (items (run_t t s ops)).
  Proof.
    induction ops as [|o ops IH]; intros t s H; [exists t; exact H|].
    simpl. eapply IH. apply step_desc. exact H.
  Qed.

  (* in a descending list the last entry carries the smallest stamp *)
  Lemma desc_last_min b l k v t :
    desc b l -> In (k, (v, t)) l -> forall d, (snd (snd (last l d)) <= t)%N.
  Proof.
    revert b. induction l as [|[k' [v' t']] l IH]; simpl; intros b H Hin d; [tauto|].
    destruct H as [H1 H2]. destruct l as [|a l].
    - destruct Hin as [E|[]]. inversion E; subst. simpl. lia.
    - destruct Hin as [E|Hin].
      + inversion E; subst. destruct a as [ka [va ta]].
        assert (Hl : In (last ((ka, (va, ta)) :: l) d) ((ka, (va, ta)) :: l)).
        { clear. generalize (ka, (va, ta)) as a. induction l as [|x l IHl]; intros a; simpl; [auto|].
          right. apply IHl. }
        destruct (last ((ka, (va, ta)) :: l) d) as [kl [vl tl]] eqn:El. simpl.
        assert (Hlt : forall b l k v t, desc b l -> In (k, (v, t)) l -> (t < b)%N).
        { clear. intros b l. revert b. induction l as [|[k' [v' t']] l IHl]; simpl; intros b k v t H Hin; [tauto|].
          destruct H as [H1 H2]. destruct Hin as [E|Hin]; [inversion E; subst; auto|].
          specialize (IHl _ _ _ _ H2 Hin). lia. }
        specialize (Hlt _ _ _ _ _ H2 Hl). lia.
      + eapply IH; eauto.
  Qed.

  (* the entry a full cache drops on inserting a new key is the least recently used one *)
  Lemma evicts_lru_lemma c ops k v tnow :
    let s := run_t 0%N (init c) ops in
    amem k (items s) = false -> full s = true -> disabled s = false ->
    forall d, exists rest,
      items s = rest ++ [last (items s) d] /\
      set k (v, tnow) s = Some {| cap := cap s; items := (k, (v, tnow)) :: rest |} /\
      (forall k' v' t', In (k', (v', t')) (items s) -> (snd (snd (last (items s) d)) <= t')%N).
  Proof.
    intros s Hm Hf Hd d.
    destruct (run_desc ops 0%N (init c) I) as [b Hb]. fold s in Hb.
    assert (Hne : items s <> []).
    { pose proof (run_wf ops _ (wf_init c)) as Hwf. unfold final in Hwf.
      intro E. pose proof (@set_total (V * N) k (v, tnow)) as Ht.
      (* full and empty means cap <= 0, i.e. disabled *)
      unfold full, disabled in *. destruct (cap s) as [cc|]; [|discriminate].
      rewrite E in Hf. simpl in Hf. apply Z.leb_le in Hf. apply Z.leb_gt in Hd. lia. }
    exists (removelast (items s)). split; [apply app_removelast_last; auto|]. split.
    - unfold set. rewrite Hd, Hm, Hf. destruct (items s); [congruence | reflexivity].
    - intros k' v' t' Hin. eapply desc_last_min; eauto.
  Qed.
End Stamps.

(* ---------- cached_template ---------- *)
Definition ct_inv (s : lru tobj) : Prop :=
  forall k t, alookup k (items s) = Some t -> fst t = k.

Lemma ct_inv_init c : ct_inv (init c).
Proof. intros k t H. discriminate. Qed.

Lemma ct_step_inv k i s t s' :
  wf s -> ct_inv s -> cached_template k i s = Some (t, s') -> fst t = k /\ ct_inv s' /\ wf s'.
Proof.
  unfold cached_template, get. intros Hwf H.
  destruct (alookup k (items s)) as [t0|] eqn:E.
  - intro Hs; inversion Hs; subst; clear Hs. split; [apply H; auto|]. split.
    + intros x w. cbn [items]. rewrite alookup_cons_move. destruct (N.eqb_spec x k); [|apply H].
      intro Hw; inversion Hw; subst. apply H; auto.
    + eapply (get_wf k s); eauto. unfold get. rewrite E. reflexivity.
  - destruct (set k (k, i) s) as [s''|] eqn:Es; [|discriminate].
    intro Hs; inversion Hs; subst; clear Hs. split; [reflexivity|]. split; [|eapply set_wf; eauto].
    revert Es. unfold set. destruct (disabled s); [intro Es; inversion Es; subst; auto|].
    destruct (amem k (items s)).
    + intro Es; inversion Es; subst; clear Es. intros x w. simpl items. rewrite alookup_cons_move.
      destruct (N.eqb_spec x k); [intro Hw; inversion Hw; subst; reflexivity | apply H].
    + destruct (full s).
      * destruct (items s) as [|a l] eqn:El; [discriminate|].
        intro Es; inversion Es; subst; clear Es. intros x w. simpl items.
        change (alookup x ((k, (k, i)) :: removelast (a :: l)) = Some w -> fst w = x).
        simpl alookup at 1. destruct (N.eqb_spec x k); [intro Hw; inversion Hw; subst; reflexivity|].
        intro Hx. apply H. rewrite El. apply alookup_removelast; auto.
        destruct Hwf as [Hnd _]. rewrite El in Hnd. exact Hnd.
      * intro Es; inversion Es; subst; clear Es. intros x w. simpl.
        destruct (N.eqb_spec x k); [intro Hw; inversion Hw; subst; reflexivity | apply H].
Qed.

(* every returned template was compiled from the requested key *)
Fixpoint results_match (ops : list top) (xs : list (option tobj)) : Prop :=
  match ops, xs with
  | [], [] => True
  | TClear :: r, None :: xs' => results_match r xs'
  | TCompile k :: r, Some t :: xs' => fst t = k /\ results_match r xs'
  | _, _ => False
  end.

Lemma trun_transparent ops : forall s i s' xs,
  wf s -> ct_inv s -> trun s i ops = Some (s', xs) -> results_match ops xs.
Proof.
  induction ops as [|o ops IH]; intros s i s' xs Hwf H; simpl.
  - intro E; inversion E; exact I.
  - destruct o as [k|].
    + destruct (cached_template k i s) as [[t s1]|] eqn:Ec; [|discriminate].
      destruct (ct_step_inv _ _ _ _ _ Hwf H Ec) as [H1 [H2 H3]].
      destruct (trun s1 (N.succ i) ops) as [[s2 xs2]|] eqn:Et; [|discriminate].
      intro E; inversion E; subst. split; [auto | eapply IH; eauto].
    + destruct (trun (clear s) (N.succ i) ops) as [[s2 xs2]|] eqn:Et; [|discriminate].
      intro E; inversion E; subst. eapply IH; [| |eauto].
      * split; simpl; [constructor|]. destruct (cap s); simpl; lia.
      * intros x w Hx; discriminate.
Qed.

Lemma trun_total ops : forall s i, wf s -> trun s i ops <> None.
Proof.
  induction ops as [|o ops IH]; intros s i Hwf; simpl; [discriminate|].
  destruct o as [k|].
  - destruct (cached_template k i s) as [[t s1]|] eqn:Ec.
    + assert (Hwf1 : wf s1).
      { revert Ec. unfold cached_template, get. destruct (alookup k (items s)) eqn:E.
        - intro Hs; inversion Hs; subst. eapply (get_wf k s); eauto. unfold get; rewrite E; reflexivity.
        - destruct (set k (k, i) s) eqn:Es; [|discriminate]. intro Hs; inversion Hs; subst. eapply set_wf; eauto. }
      specialize (IH s1 (N.succ i) Hwf1). destruct (trun s1 (N.succ i) ops) as [[? ?]|]; [discriminate | congruence].
    + exfalso. revert Ec. unfold cached_template, get. destruct (alookup k (items s)); [discriminate|].
      destruct (set k (k, i) s) eqn:Es; [discriminate|]. intros _. eapply set_total; eauto.
  - assert (Hwf1 : wf (clear s)).
    { split; simpl; [constructor|]. destruct (cap s); simpl; lia. }
    specialize (IH (clear s) (N.succ i) Hwf1). destruct (trun (clear s) (N.succ i) ops) as [[? ?]|]; [discriminate | congruence].
Qed.

Lemma cached_template_transparent_lemma c ops :
  exists s xs, trun (init c) 0%N ops = Some (s, xs) /\ results_match ops xs.
Proof.
  destruct (trun (init c) 0%N ops) as [[s xs]|] eqn:E.
  - exists s, xs. split; [reflexivity|]. eapply trun_transparent; [apply wf_init | apply ct_inv_init | eauto].
  - exfalso. eapply trun_total; [apply wf_init | eauto].
Qed.

(* as long as the key is cached, the identical object comes back and stays cached *)
Lemma identity_stable_lemma k i (s : lru tobj) t0 :
  alookup k (items s) = Some t0 ->
  exists s', cached_template k i s = Some (t0, s') /\ alookup k (items s') = Some t0.
Proof.
  intro H. unfold cached_template, get. rewrite H. eexists. split; [reflexivity|].
  simpl. rewrite N.eqb_refl. reflexivity.
Qed.
