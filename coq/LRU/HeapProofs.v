(* Refinement proof: the pointer-level model LRU/Heap.v (heap of nodes with prev/next, sentinels, dict)
   refines the list-level model LRU/Model.v.

   hinv s g  - the representation invariant, g = the ghost list of (node id, (key, value)) from head.next
               to tail.prev:  the sentinels and the nodes of g are pairwise distinct objects, walking
               `next` from head goes through exactly the nodes of g and reaches tail, `prev` is the inverse
               of `next` along that path, node i carries (key, value) of its entry, keys are distinct, the
               dict has one binding per key, as many bindings as there are nodes, and dict[k] = i exactly
               when node i of the list carries key k.
   lru_refines - every API call preserves the invariant, raises nothing, and commutes with the
               abstraction `habs` (walk `next` from head) : same output, same abstract state as the
               list-level `step`. *)
From DJC Require Import Lib.Base LRU.Model LRU.Proofs LRU.Heap.
From Coq Require Import Permutation.

Local Arguments removelast : simpl never.
Local Arguments N.eqb : simpl never.

(* ---------- lists ---------- *)
Lemma NoDup_app_inv {A} (l1 l2 : list A) :
  NoDup (l1 ++ l2) -> NoDup l1 /\ NoDup l2 /\ (forall x, In x l1 -> In x l2 -> False).
Proof.
  induction l1 as [|a l1 IH]; simpl; intro H.
  - split; [constructor|]. split; [exact H|]. intros x [].
  - inversion H as [|? ? Hn Hd]; subst. destruct (IH Hd) as [H1 [H2 H3]].
    split; [constructor; auto; intro Hin; apply Hn; apply in_or_app; auto|].
    split; [exact H2|]. intros x [E|Hin] Hx; [subst; apply Hn; apply in_or_app; auto | eauto].
Qed.

Lemma removelast_snoc {A} (l : list A) (a : A) : removelast (l ++ [a]) = l.
Proof. apply removelast_last. Qed.

Lemma in_removelast {A} (x : A) (l : list A) : In x (removelast l) -> In x l.
Proof.
  induction l as [|a l IH]; [simpl; tauto|]. destruct l as [|b l]; [simpl; tauto|].
  change (removelast (a :: b :: l)) with (a :: removelast (b :: l)).
  intros [E|H]; [left; exact E | right; apply IH; exact H].
Qed.

Lemma removelast_cons2 {A} (a b : A) (l : list A) : removelast (a :: b :: l) = a :: removelast (b :: l).
Proof. reflexivity. Qed.

(* ---------- association lists ---------- *)
Section AssocMore.
  Context {W : Type}.
  Implicit Types (l : list (N * W)).

  Lemma aremove_notin k l : ~ In k (map fst l) -> aremove k l = l.
  Proof.
    induction l as [|[k' v'] l IH]; simpl; intro H; [reflexivity|].
    destruct (N.eqb_spec k k'); [exfalso; apply H; left; congruence|].
    f_equal. apply IH. intro; apply H; auto.
  Qed.

  Lemma aremove_app k l1 l2 : aremove k (l1 ++ l2) = aremove k l1 ++ aremove k l2.
  Proof.
    induction l1 as [|[k' v'] l1 IH]; simpl; [reflexivity|].
    destruct (N.eqb k k'); simpl; congruence.
  Qed.

  Lemma aremove_middle k v l1 l2 :
    ~ In k (map fst l1) -> ~ In k (map fst l2) -> aremove k (l1 ++ (k, v) :: l2) = l1 ++ l2.
  Proof.
    intros H1 H2. rewrite aremove_app. simpl. rewrite N.eqb_refl.
    rewrite !aremove_notin; auto.
  Qed.

  Lemma alookup_app_notin k l1 l2 : ~ In k (map fst l1) -> alookup k (l1 ++ l2) = alookup k l2.
  Proof.
    induction l1 as [|[k' v'] l1 IH]; simpl; intro H; [reflexivity|].
    destruct (N.eqb_spec k k'); [exfalso; apply H; left; congruence|].
    apply IH. intro; apply H; auto.
  Qed.

  Lemma aremove_length_nodup k l :
    NoDup (map fst l) -> In k (map fst l) -> S (length (aremove k l)) = length l.
  Proof.
    induction l as [|[k' v'] l IH]; simpl; intros Hnd Hin; [tauto|].
    inversion Hnd as [|? ? Hn Hd]; subst.
    destruct (N.eqb_spec k k').
    - subst. rewrite aremove_notin; auto.
    - simpl. destruct Hin as [E|Hin]; [congruence|]. rewrite IH; auto.
  Qed.

  Lemma alookup_some_in k l v : alookup k l = Some v -> In (k, v) l.
  Proof.
    induction l as [|[k' v'] l IH]; simpl; [discriminate|].
    destruct (N.eqb_spec k k'); intro H; [left; congruence | right; auto].
  Qed.

  Lemma alookup_nodup_in k l v : NoDup (map fst l) -> In (k, v) l -> alookup k l = Some v.
  Proof.
    induction l as [|[k' v'] l IH]; simpl; intros Hnd Hin; [tauto|].
    inversion Hnd as [|? ? Hn Hd]; subst.
    destruct Hin as [E|Hin].
    - inversion E; subst. rewrite N.eqb_refl. reflexivity.
    - destruct (N.eqb_spec k k'); [|auto].
      subst. exfalso. apply Hn. change k' with (fst (k', v)). apply in_map. exact Hin.
  Qed.
End AssocMore.

Section HeapFacts.
  Context {V : Type}.
  Notation heap := (list (N * node V)).
  Implicit Types (h : heap) (i j : N).

  (* ---------- upd ---------- *)
  Lemma rd_upd h i f j :
    rd (upd h i f) j = if N.eqb j i then option_map f (rd h i) else rd h j.
  Proof.
    unfold rd. induction h as [|[j0 n] h IH]; simpl.
    - destruct (N.eqb j i); reflexivity.
    - destruct (N.eqb_spec i j0) as [E|E]; simpl.
      + subst j0. destruct (N.eqb_spec j i); reflexivity.
      + destruct (N.eqb_spec j j0) as [E2|E2].
        * subst j0. destruct (N.eqb_spec j i); [congruence | reflexivity].
        * exact IH.
  Qed.

  Lemma keys_upd h i f : map fst (upd h i f) = map fst h.
  Proof.
    induction h as [|[j0 n] h IH]; simpl; [reflexivity|].
    destruct (N.eqb i j0); simpl; congruence.
  Qed.

  Lemma modify_ok h i f : rd h i <> None -> modify h i f = HOk (upd h i f).
  Proof. unfold modify. destruct (rd h i); [reflexivity | congruence]. Qed.

  (* liveness: the id denotes an object *)
  Definition live h i : Prop := rd h i <> None.

  Lemma live_upd h i f j : live (upd h i f) j <-> live h j.
  Proof.
    unfold live. rewrite rd_upd. destruct (N.eqb_spec j i); [subst|tauto].
    destruct (rd h i); simpl; split; congruence.
  Qed.

  Lemma nx_live h i j : nx h i = Some j -> live h i.
  Proof. unfold nx, live. destruct (rd h i); congruence. Qed.
  Lemma pv_live h i j : pv h i = Some j -> live h i.
  Proof. unfold pv, live. destruct (rd h i); congruence. Qed.
  Lemma kv_live h i e : kv h i = Some e -> live h i.
  Proof. unfold kv, live. destruct (rd h i); congruence. Qed.

  Lemma live_in_keys h i : live h i -> In i (map fst h).
  Proof.
    unfold live, rd. destruct (alookup i h) eqn:E; [|congruence]. intros _.
    eapply alookup_in_keys; eauto.
  Qed.

  (* views after one attribute assignment *)
  Lemma nx_upd_other h i f j : j <> i -> nx (upd h i f) j = nx h j.
  Proof. intro H. unfold nx. rewrite rd_upd. destruct (N.eqb_spec j i); [congruence | reflexivity]. Qed.
  Lemma pv_upd_other h i f j : j <> i -> pv (upd h i f) j = pv h j.
  Proof. intro H. unfold pv. rewrite rd_upd. destruct (N.eqb_spec j i); [congruence | reflexivity]. Qed.
  Lemma kv_upd_other h i f j : j <> i -> kv (upd h i f) j = kv h j.
  Proof. intro H. unfold kv. rewrite rd_upd. destruct (N.eqb_spec j i); [congruence | reflexivity]. Qed.

  Lemma nx_set_next_same h i x : live h i -> nx (upd h i (set_next x)) i = x.
  Proof. unfold live, nx. rewrite rd_upd, N.eqb_refl. destruct (rd h i); [reflexivity | congruence]. Qed.
  Lemma pv_set_prev_same h i x : live h i -> pv (upd h i (set_prev x)) i = x.
  Proof. unfold live, pv. rewrite rd_upd, N.eqb_refl. destruct (rd h i); [reflexivity | congruence]. Qed.

  Lemma nx_set_prev h i x j : nx (upd h i (set_prev x)) j = nx h j.
  Proof. unfold nx. rewrite rd_upd. destruct (N.eqb_spec j i); [subst; destruct (rd h i)|]; reflexivity. Qed.
  Lemma nx_set_val h i x j : nx (upd h i (set_val x)) j = nx h j.
  Proof. unfold nx. rewrite rd_upd. destruct (N.eqb_spec j i); [subst; destruct (rd h i)|]; reflexivity. Qed.
  Lemma pv_set_next h i x j : pv (upd h i (set_next x)) j = pv h j.
  Proof. unfold pv. rewrite rd_upd. destruct (N.eqb_spec j i); [subst; destruct (rd h i)|]; reflexivity. Qed.
  Lemma pv_set_val h i x j : pv (upd h i (set_val x)) j = pv h j.
  Proof. unfold pv. rewrite rd_upd. destruct (N.eqb_spec j i); [subst; destruct (rd h i)|]; reflexivity. Qed.
  Lemma kv_set_next h i x j : kv (upd h i (set_next x)) j = kv h j.
  Proof. unfold kv. rewrite rd_upd. destruct (N.eqb_spec j i); [subst; destruct (rd h i)|]; reflexivity. Qed.
  Lemma kv_set_prev h i x j : kv (upd h i (set_prev x)) j = kv h j.
  Proof. unfold kv. rewrite rd_upd. destruct (N.eqb_spec j i); [subst; destruct (rd h i)|]; reflexivity. Qed.
  Lemma kv_set_val_same h i k v w : kv h i = Some (k, v) -> kv (upd h i (set_val (Some w))) i = Some (k, w).
  Proof.
    unfold kv. rewrite rd_upd, N.eqb_refl. destruct (rd h i) as [n|]; [|discriminate]. simpl.
    destruct (nval n); [|discriminate]. intro H; inversion H; reflexivity.
  Qed.

  (* ---------- links: next/prev agree along a path ---------- *)
  Fixpoint links h (l : list N) : Prop :=
    match l with
    | a :: ((b :: _) as r) => nx h a = Some b /\ pv h b = Some a /\ links h r
    | _ => True
    end.

  Lemma links_app h l1 x l2 : links h (l1 ++ x :: l2) <-> links h (l1 ++ [x]) /\ links h (x :: l2).
  Proof.
    induction l1 as [|a l1 IH]; [simpl; tauto|].
    destruct l1 as [|b l1].
    - simpl. tauto.
    - simpl app in *.
      change (links h (a :: b :: l1 ++ x :: l2)) with
        (nx h a = Some b /\ pv h b = Some a /\ links h (b :: l1 ++ x :: l2)).
      change (links h (a :: b :: l1 ++ [x])) with
        (nx h a = Some b /\ pv h b = Some a /\ links h (b :: l1 ++ [x])).
      rewrite IH. tauto.
  Qed.

  Lemma links_frame h h' l :
    (forall x, In x (removelast l) -> nx h' x = nx h x) ->
    (forall x, In x (tl l) -> pv h' x = pv h x) ->
    links h l -> links h' l.
  Proof.
    induction l as [|a l IH]; [simpl; tauto|].
    destruct l as [|b l]; [simpl; tauto|].
    intros Hn Hp [H1 [H2 H3]].
    change (nx h' a = Some b /\ pv h' b = Some a /\ links h' (b :: l)).
    split; [rewrite Hn; [exact H1 | rewrite removelast_cons2; left; reflexivity]|].
    split; [rewrite Hp; [exact H2 | left; reflexivity]|].
    apply IH; [| |exact H3].
    - intros x Hx. apply Hn. rewrite removelast_cons2. right. exact Hx.
    - intros x Hx. apply Hp. simpl. right. destruct l; [destruct Hx | exact Hx].
  Qed.

  Lemma links_live h l : links h l -> (2 <= length l)%nat -> forall x, In x l -> live h x.
  Proof.
    induction l as [|a l IH]; [simpl; intros; lia|].
    destruct l as [|b l]; [simpl; intros; lia|].
    intros [H1 [H2 H3]] _ x [E|Hx].
    - subst. eapply nx_live; eauto.
    - destruct l as [|c l].
      + destruct Hx as [E|[]]. subst. eapply pv_live; eauto.
      + apply IH; auto. simpl. lia.
  Qed.

  Lemma in_tl {A} (x : A) (l : list A) : In x (tl l) -> In x l.
  Proof. destruct l; simpl; auto. Qed.

  (* ---------- _remove on a node in the middle of a path ---------- *)
  Lemma remove_ok h P i Q :
    NoDup (P ++ i :: Q) -> P <> [] -> Q <> [] -> links h (P ++ i :: Q) ->
    exists h', h_remove i h = HOk h' /\ links h' (P ++ Q) /\
               (forall j, kv h' j = kv h j) /\ (forall j, live h' j <-> live h j) /\
               map fst h' = map fst h.
  Proof.
    intros Hnd HP HQ Hl.
    destruct (exists_last HP) as [L [a EP]]. subst P.
    destruct Q as [|b R]; [congruence|]. clear HP HQ.
    rewrite <- app_assoc in Hnd, Hl. simpl in Hnd, Hl.
    apply links_app in Hl. destruct Hl as [Hl1 Hl2].
    destruct Hl2 as [Hai [Hia [Hib [Hbi HlR]]]].
    apply NoDup_app_inv in Hnd. destruct Hnd as [HndL [HndR Hdisj]].
    assert (Hab : a <> b).
    { intro E. subst b. inversion HndR as [|? ? Hn _]; subst. apply Hn. right; left; reflexivity. }
    assert (HLa : forall x, In x L -> x <> a).
    { intros x Hx E. subst x. apply (Hdisj a Hx). left; reflexivity. }
    assert (HLb : forall x, In x (L ++ [a]) -> x <> b).
    { intros x Hx E. subst x. apply in_app_or in Hx. destruct Hx as [Hx|[Hx|[]]].
      - apply (Hdisj b Hx). right; right; left; reflexivity.
      - congruence. }
    assert (HRa : forall x, In x (b :: R) -> x <> a).
    { intros x Hx E. subst x. inversion HndR as [|? ? Hn _]; subst. apply Hn. right. exact Hx. }
    assert (HRb : forall x, In x R -> x <> b).
    { intros x Hx E. subst x. inversion HndR as [|? ? _ Hd]; subst. inversion Hd as [|? ? _ Hd2]; subst.
      inversion Hd2 as [|? ? Hn _]; subst. apply Hn. exact Hx. }
    pose proof (nx_live _ _ _ Hai) as Hla. pose proof (pv_live _ _ _ Hbi) as Hlb.
    unfold h_remove, getn.
    assert (Hn : exists n, rd h i = Some n /\ nprev n = Some a /\ nnext n = Some b).
    { unfold pv in Hia. unfold nx in Hib. destruct (rd h i) as [n|]; [|discriminate]. exists n. auto. }
    destruct Hn as [n [Hrd [Hnp Hnn]]]. rewrite Hrd. simpl bind. rewrite Hnp, Hnn.
    rewrite (modify_ok h a _ Hla). simpl bind.
    assert (Hlb1 : live (upd h a (set_next (Some b))) b) by (apply live_upd; exact Hlb).
    rewrite (modify_ok _ b _ Hlb1).
    eexists. split; [reflexivity|]. split; [|split; [|split]].
    - rewrite <- app_assoc. simpl. apply links_app. split.
      + eapply links_frame; [| |exact Hl1].
        * intros x Hx. rewrite removelast_snoc in Hx. rewrite nx_set_prev. apply nx_upd_other. auto.
        * intros x Hx. apply in_tl in Hx. rewrite pv_upd_other by auto. apply pv_set_next.
      + change (nx (upd (upd h a (set_next (Some b))) b (set_prev (Some a))) a = Some b /\
                pv (upd (upd h a (set_next (Some b))) b (set_prev (Some a))) b = Some a /\
                links (upd (upd h a (set_next (Some b))) b (set_prev (Some a))) (b :: R)).
        split; [rewrite nx_set_prev; apply nx_set_next_same; exact Hla|].
        split; [apply pv_set_prev_same; exact Hlb1|].
        eapply links_frame; [| |exact HlR].
        * intros x Hx. apply in_removelast in Hx. rewrite nx_set_prev. apply nx_upd_other. auto.
        * intros x Hx. simpl in Hx. rewrite pv_upd_other by auto. apply pv_set_next.
    - intro j. rewrite kv_set_prev. apply kv_set_next.
    - intro j. rewrite !live_upd. tauto.
    - rewrite !keys_upd. reflexivity.
  Qed.

  (* ---------- _add_to_front of a node that is not on the path ---------- *)
  Lemma add_front_ok h i Q :
    NoDup (head_id :: Q) -> Q <> [] -> ~ In i (head_id :: Q) -> live h i -> links h (head_id :: Q) ->
    exists h', h_add_to_front i h = HOk h' /\ links h' (head_id :: i :: Q) /\
               (forall j, kv h' j = kv h j) /\ (forall j, live h' j <-> live h j) /\
               map fst h' = map fst h.
  Proof.
    intros Hnd HQ Hi Hli Hl.
    destruct Q as [|c R]; [congruence|]. clear HQ.
    destruct Hl as [Hhc [Hch HlR]].
    assert (Hih : i <> head_id) by (intro E; apply Hi; left; congruence).
    assert (Hic : i <> c) by (intro E; apply Hi; right; left; congruence).
    assert (HRi : forall x, In x (c :: R) -> x <> i) by (intros x Hx E; subst x; apply Hi; right; exact Hx).
    assert (HRh : forall x, In x (c :: R) -> x <> head_id).
    { intros x Hx E. subst x. inversion Hnd as [|? ? Hn _]; subst. apply Hn. exact Hx. }
    assert (HRc : forall x, In x R -> x <> c).
    { intros x Hx E. subst x. inversion Hnd as [|? ? _ Hd]; subst. inversion Hd as [|? ? Hn _]; subst. auto. }
    pose proof (nx_live _ _ _ Hhc) as Hlh. pose proof (pv_live _ _ _ Hch) as Hlc.
    unfold h_add_to_front, getn.
    assert (Hn : exists hd, rd h head_id = Some hd /\ nnext hd = Some c).
    { unfold nx in Hhc. destruct (rd h head_id) as [n|]; [|discriminate]. exists n. auto. }
    destruct Hn as [hd [Hrd Hnn]]. rewrite Hrd. simpl bind. rewrite Hnn.
    rewrite (modify_ok h i _ Hli). simpl bind.
    set (h1 := upd h i (set_next (Some c))).
    assert (Hli1 : live h1 i) by (apply live_upd; exact Hli).
    rewrite (modify_ok h1 i _ Hli1). simpl bind.
    set (h2 := upd h1 i (set_prev (Some head_id))).
    assert (Hrd2 : rd h2 head_id = Some hd).
    { unfold h2, h1. rewrite !rd_upd.
      destruct (N.eqb_spec head_id i) as [E|E]; [congruence | exact Hrd]. }
    rewrite Hrd2. simpl bind. rewrite Hnn.
    assert (Hlc2 : live h2 c) by (unfold h2, h1; rewrite !live_upd; exact Hlc).
    rewrite (modify_ok h2 c _ Hlc2). simpl bind.
    set (h3 := upd h2 c (set_prev (Some i))).
    assert (Hlh3 : live h3 head_id) by (unfold h3, h2, h1; rewrite !live_upd; exact Hlh).
    rewrite (modify_ok h3 head_id _ Hlh3).
    eexists. split; [reflexivity|]. split; [|split; [|split]].
    - change (nx (upd h3 head_id (set_next (Some i))) head_id = Some i /\
              pv (upd h3 head_id (set_next (Some i))) i = Some head_id /\
              nx (upd h3 head_id (set_next (Some i))) i = Some c /\
              pv (upd h3 head_id (set_next (Some i))) c = Some i /\
              links (upd h3 head_id (set_next (Some i))) (c :: R)).
      split; [apply nx_set_next_same; exact Hlh3|].
      split.
      { rewrite pv_set_next. unfold h3. rewrite pv_upd_other by exact Hic.
        unfold h2. apply pv_set_prev_same. exact Hli1. }
      split.
      { rewrite nx_upd_other by exact Hih. unfold h3. rewrite nx_set_prev. unfold h2. rewrite nx_set_prev.
        unfold h1. apply nx_set_next_same. exact Hli. }
      split.
      { rewrite pv_set_next. unfold h3. apply pv_set_prev_same. exact Hlc2. }
      eapply links_frame; [| |exact HlR].
      + intros x Hx. apply in_removelast in Hx.
        rewrite nx_upd_other by auto. unfold h3, h2, h1. rewrite !nx_set_prev. apply nx_upd_other. auto.
      + intros x Hx. simpl in Hx. rewrite pv_set_next. unfold h3. rewrite pv_upd_other by auto.
        unfold h2. rewrite pv_upd_other by (apply HRi; right; exact Hx). unfold h1. apply pv_set_next.
    - intro j. rewrite kv_set_next. unfold h3, h2, h1. rewrite !kv_set_prev. apply kv_set_next.
    - intro j. unfold h3, h2, h1. rewrite !live_upd. tauto.
    - unfold h3, h2, h1. rewrite !keys_upd. reflexivity.
  Qed.
End HeapFacts.

(* ---------- the shape of the heap, relative to the ghost list of (id, (key, value)) ---------- *)
Section Shape.
  Context {V : Type}.
  Notation heap := (list (N * node V)).
  Notation ghost := (list (N * (N * V))).
  Implicit Types (h : heap) (g : ghost).

  (* head, the nodes in order, tail *)
  Definition gpath g : list N := head_id :: map fst g ++ [tail_id].

  Record hshape h g : Prop := {
    sh_nodup : NoDup (gpath g);                                        (* pairwise distinct objects *)
    sh_links : links h (gpath g);                                      (* next/prev along head .. tail *)
    sh_kv : Forall (fun e => kv h (fst e) = Some (snd e)) g;          (* node i carries its entry *)
    sh_heapkeys : NoDup (map fst h) }.                                (* one object per id *)

  Lemma gpath_split g1 (e : N * (N * V)) g2 :
    gpath (g1 ++ e :: g2) = (head_id :: map fst g1) ++ fst e :: (map fst g2 ++ [tail_id]).
  Proof. unfold gpath. rewrite map_app. simpl. rewrite <- app_assoc. reflexivity. Qed.

  Lemma gpath_merge g1 g2 :
    (head_id :: map fst g1) ++ (map fst g2 ++ [tail_id]) = gpath (g1 ++ g2).
  Proof. unfold gpath. rewrite map_app. simpl. rewrite <- app_assoc. reflexivity. Qed.

  Lemma gpath_length g : (2 <= length (gpath g))%nat.
  Proof. unfold gpath. simpl. rewrite app_length. simpl. lia. Qed.

  Lemma in_move {A} (x e : A) l1 l2 : In x (e :: l1 ++ l2) <-> In x (l1 ++ e :: l2).
  Proof. simpl. rewrite !in_app_iff. simpl. tauto. Qed.

  Lemma shape_live h g x : hshape h g -> In x (gpath g) -> live h x.
  Proof. intros [_ Hl _ _] Hx. eapply links_live; eauto. apply gpath_length. Qed.

  Lemma tail_nonempty (l : list N) : l ++ [tail_id] <> [].
  Proof. destruct l; discriminate. Qed.

  (* _remove(node); _add_to_front(node) on a node of the list = move to front *)
  Lemma move_front h g1 e g2 :
    hshape h (g1 ++ e :: g2) ->
    exists h1 h2, h_remove (fst e) h = HOk h1 /\ h_add_to_front (fst e) h1 = HOk h2 /\
                  hshape h2 (e :: g1 ++ g2) /\ map fst h2 = map fst h.
  Proof.
    intros [Hnd Hl Hkv Hk].
    rewrite gpath_split in Hnd, Hl.
    destruct (remove_ok h _ _ _ Hnd) as [h1 [E1 [Hl1 [Hkv1 [Hlv1 Hk1]]]]];
      [discriminate | apply tail_nonempty | exact Hl |].
    pose proof (NoDup_remove_1 _ _ _ Hnd) as Hnd1. pose proof (NoDup_remove_2 _ _ _ Hnd) as Hni.
    rewrite gpath_merge in Hl1, Hnd1, Hni.
    assert (Hlive : live h (fst e)).
    { rewrite Forall_forall in Hkv. eapply kv_live. apply Hkv. apply in_or_app. right. left. reflexivity. }
    destruct (add_front_ok h1 (fst e) (map fst (g1 ++ g2) ++ [tail_id])) as [h2 [E2 [Hl2 [Hkv2 [Hlv2 Hk2]]]]];
      [exact Hnd1 | apply tail_nonempty | exact Hni | apply Hlv1; exact Hlive | exact Hl1 |].
    exists h1, h2. split; [exact E1|]. split; [exact E2|]. split; [|congruence].
    constructor.
    - change (gpath (e :: g1 ++ g2)) with (head_id :: fst e :: map fst (g1 ++ g2) ++ [tail_id]).
      unfold gpath in Hnd1, Hni. inversion Hnd1 as [|? ? Hn Hd]; subst.
      constructor.
      + intros [E|Hin]; [apply Hni; left; symmetry; exact E | apply Hn; exact Hin].
      + constructor; [intro Hin; apply Hni; right; exact Hin | exact Hd].
    - exact Hl2.
    - rewrite Forall_forall in *. intros x Hx. rewrite Hkv2, Hkv1. apply Hkv. apply in_move. exact Hx.
    - rewrite Hk2, Hk1. exact Hk.
  Qed.

  (* node.value = value *)
  Lemma set_val_shape h g1 i k v g2 w :
    hshape h (g1 ++ (i, (k, v)) :: g2) ->
    live h i /\ hshape (upd h i (set_val (Some w))) (g1 ++ (i, (k, w)) :: g2).
  Proof.
    intros [Hnd Hl Hkv Hk].
    assert (Hfull : gpath (g1 ++ (i, (k, w)) :: g2) = gpath (g1 ++ (i, (k, v)) :: g2)).
    { rewrite !gpath_split. reflexivity. }
    rewrite Forall_forall in Hkv.
    assert (Hkvi : kv h i = Some (k, v)).
    { apply (Hkv (i, (k, v))). apply in_or_app. right. left. reflexivity. }
    split; [eapply kv_live; eauto|].
    constructor.
    - rewrite Hfull. exact Hnd.
    - rewrite Hfull. eapply links_frame; [| |exact Hl]; intros x _; [apply nx_set_val | apply pv_set_val].
    - rewrite gpath_split in Hnd. inversion Hnd as [|? ? _ Hd]; subst.
      apply NoDup_remove_2 in Hd. cbn [fst] in Hd.
      rewrite Forall_forall. intros x Hx. apply in_app_or in Hx. destruct Hx as [Hx|[Hx|Hx]].
      + rewrite kv_upd_other; [apply Hkv; apply in_or_app; auto|].
        intro E. apply Hd. apply in_or_app. left. rewrite <- E. apply in_map. exact Hx.
      + subst x. cbn [fst snd]. eapply kv_set_val_same. exact Hkvi.
      + rewrite kv_upd_other; [apply Hkv; apply in_or_app; right; right; exact Hx|].
        intro E. apply Hd. apply in_or_app. right. apply in_or_app. left. rewrite <- E. apply in_map. exact Hx.
    - rewrite keys_upd. exact Hk.
  Qed.

  (* lru_node = self.tail.prev; self._remove(lru_node) *)
  Lemma evict_shape h g1 e :
    hshape h (g1 ++ [e]) ->
    pv h tail_id = Some (fst e) /\
    exists h1, h_remove (fst e) h = HOk h1 /\ hshape h1 g1 /\ kv h1 (fst e) = Some (snd e) /\
               map fst h1 = map fst h.
  Proof.
    intros [Hnd Hl Hkv Hk].
    rewrite gpath_split in Hnd, Hl. simpl app in Hnd, Hl.
    split.
    { change (head_id :: map fst g1 ++ fst e :: [tail_id]) with ((head_id :: map fst g1) ++ fst e :: [tail_id]) in Hl.
      apply links_app in Hl. destruct Hl as [_ [_ [H _]]]. exact H. }
    change (head_id :: map fst g1 ++ fst e :: [tail_id]) with ((head_id :: map fst g1) ++ fst e :: [tail_id]) in Hnd, Hl.
    destruct (remove_ok h _ _ _ Hnd) as [h1 [E1 [Hl1 [Hkv1 [Hlv1 Hk1]]]]];
      [discriminate | discriminate | exact Hl |].
    exists h1. split; [exact E1|].
    rewrite Forall_forall in Hkv.
    split; [|split; [rewrite Hkv1; apply Hkv; apply in_or_app; right; left; reflexivity | exact Hk1]].
    constructor.
    - apply NoDup_remove_1 in Hnd. exact Hnd.
    - exact Hl1.
    - rewrite Forall_forall. intros x Hx. rewrite Hkv1. apply Hkv. apply in_or_app. left. exact Hx.
    - rewrite Hk1. exact Hk.
  Qed.

  (* views of a heap extended with a new object *)
  Lemma rd_cons_other h i n j : j <> i -> rd ((i, n) :: h) j = rd h j.
  Proof. intro H. unfold rd. simpl. destruct (N.eqb_spec j i); [congruence | reflexivity]. Qed.

  (* new_node = CacheNode(key, value); self._add_to_front(new_node) *)
  Lemma push_shape h g i k v :
    hshape h g -> ~ In i (map fst h) ->
    exists h', h_add_to_front i ((i, {| nkey := k; nval := Some v; nprev := None; nnext := None |}) :: h) = HOk h' /\
               hshape h' ((i, (k, v)) :: g) /\ map fst h' = i :: map fst h.
  Proof.
    intros Hs Hi. pose proof Hs as [Hnd Hl Hkv Hk].
    set (nn := {| nkey := k; nval := Some v; nprev := None; nnext := None |}).
    assert (Hne : forall x, live h x -> x <> i).
    { intros x Hx E. subst x. apply Hi. apply live_in_keys. exact Hx. }
    assert (Hfi : ~ In i (gpath g)).
    { intro Hin. apply (Hne i); [eapply shape_live; eauto | reflexivity]. }
    assert (Hl0 : links ((i, nn) :: h) (gpath g)).
    { eapply links_frame; [| |exact Hl]; intros x Hx.
      - apply in_removelast in Hx. unfold nx. rewrite rd_cons_other; [reflexivity|].
        apply Hne. eapply shape_live; eauto.
      - apply in_tl in Hx. unfold pv. rewrite rd_cons_other; [reflexivity|].
        apply Hne. eapply shape_live; eauto. }
    assert (Hli : live ((i, nn) :: h) i).
    { unfold live, rd. simpl. rewrite N.eqb_refl. discriminate. }
    destruct (add_front_ok ((i, nn) :: h) i (map fst g ++ [tail_id])) as [h' [E [Hl' [Hkv' [Hlv' Hk']]]]];
      [exact Hnd | apply tail_nonempty | exact Hfi | exact Hli | exact Hl0 |].
    exists h'. split; [exact E|]. split; [|exact Hk'].
    constructor.
    - change (gpath ((i, (k, v)) :: g)) with (head_id :: i :: map fst g ++ [tail_id]).
      unfold gpath in Hnd, Hfi. inversion Hnd as [|? ? Hn Hd]; subst.
      constructor.
      + intros [E2|Hin]; [apply Hfi; left; symmetry; exact E2 | apply Hn; exact Hin].
      + constructor; [intro Hin; apply Hfi; right; exact Hin | exact Hd].
    - exact Hl'.
    - constructor.
      + cbn [fst snd]. rewrite Hkv'. unfold kv, rd. simpl. rewrite N.eqb_refl. reflexivity.
      + rewrite Forall_forall in *. intros x Hx. rewrite Hkv'. unfold kv. rewrite rd_cons_other; [apply Hkv; exact Hx|].
        apply Hne. eapply kv_live. apply Hkv. exact Hx.
    - rewrite Hk'. constructor; assumption.
  Qed.

  (* self.head.next = self.tail; self.tail.prev = self.head *)
  Lemma clear_shape h g :
    hshape h g ->
    exists h1 h2, modify h head_id (set_next (Some tail_id)) = HOk h1 /\
                  modify h1 tail_id (set_prev (Some head_id)) = HOk h2 /\
                  hshape h2 [] /\ map fst h2 = map fst h.
  Proof.
    intros Hs. pose proof Hs as [Hnd Hl Hkv Hk].
    assert (Hlh : live h head_id) by (eapply shape_live; eauto; left; reflexivity).
    assert (Hlt : live h tail_id).
    { eapply shape_live; eauto. unfold gpath. right. apply in_or_app. right. left. reflexivity. }
    exists (upd h head_id (set_next (Some tail_id))),
           (upd (upd h head_id (set_next (Some tail_id))) tail_id (set_prev (Some head_id))).
    split; [apply modify_ok; exact Hlh|].
    split; [apply modify_ok; apply live_upd; exact Hlt|].
    split; [|rewrite !keys_upd; reflexivity].
    constructor.
    - unfold gpath. simpl. constructor; [intros [E|[]]; discriminate E|]. constructor; [intros []|constructor].
    - unfold gpath. simpl. split; [rewrite nx_set_prev; apply nx_set_next_same; exact Hlh|].
      split; [apply pv_set_prev_same; apply live_upd; exact Hlt | exact I].
    - constructor.
    - rewrite !keys_upd. exact Hk.
  Qed.
End Shape.

(* ---------- the representation invariant and the refinement ---------- *)
Section Refine.
  Context {V : Type}.
  Notation heap := (list (N * node V)).
  Notation ghost := (list (N * (N * V))).
  Implicit Types (s : hstate V) (g : ghost).

  Definition gkeys g : list N := map fst (map snd g).

  Record hinv s g : Prop := {
    inv_shape : hshape (hheap s) g;
    inv_keys : NoDup (gkeys g);                                               (* each key once on the list *)
    inv_dict_nodup : NoDup (map fst (hdict s));                               (* dict: one binding per key *)
    inv_dict_len : length (hdict s) = length g;                               (* len(self.cache) = number of nodes *)
    inv_dict : forall k i, alookup k (hdict s) = Some i <-> exists v, In (i, (k, v)) g;   (* dict[k] = the node carrying k *)
    inv_fresh : forall i, In i (map fst (hheap s)) -> (i < hnext s)%N }.

  (* the abstract state a ghost list stands for *)
  Definition mk s g : lru V := {| cap := hcap s; items := map snd g |}.

  Lemma gkeys_app g1 g2 : gkeys (g1 ++ g2) = gkeys g1 ++ gkeys g2.
  Proof. unfold gkeys. rewrite !map_app. reflexivity. Qed.

  Lemma in_gkeys k g : In k (gkeys g) <-> exists i v, In (i, (k, v)) g.
  Proof.
    unfold gkeys. rewrite map_map. rewrite in_map_iff. split.
    - intros [[i [k' v]] [E Hin]]. simpl in E. subst. eauto.
    - intros [i [v Hin]]. exists (i, (k, v)). auto.
  Qed.

  Lemma dict_keys s g k : hinv s g -> (In k (map fst (hdict s)) <-> In k (gkeys g)).
  Proof.
    intros Hi. rewrite in_gkeys. split.
    - intro Hin. destruct (alookup k (hdict s)) as [i|] eqn:E.
      + apply (inv_dict _ _ Hi) in E. destruct E as [v Hv]. eauto.
      + apply alookup_none_keys in E. contradiction.
    - intros [i [v Hin]]. eapply alookup_in_keys. apply (inv_dict _ _ Hi). eauto.
  Qed.

  Lemma dict_miss s g k : hinv s g -> alookup k (hdict s) = None -> ~ In k (gkeys g).
  Proof. intros Hi E Hin. apply (dict_keys _ _ k Hi) in Hin. apply alookup_none_keys in E. contradiction. Qed.

  Lemma dict_hit s g k i : hinv s g -> alookup k (hdict s) = Some i ->
    exists g1 v g2, g = g1 ++ (i, (k, v)) :: g2 /\ ~ In k (gkeys g1) /\ ~ In k (gkeys g2).
  Proof.
    intros Hi E. apply (inv_dict _ _ Hi) in E. destruct E as [v Hin].
    apply in_split in Hin. destruct Hin as [g1 [g2 Eg]]. exists g1, v, g2. split; [exact Eg|].
    pose proof (inv_keys _ _ Hi) as Hnd. rewrite Eg, gkeys_app in Hnd.
    change (gkeys ((i, (k, v)) :: g2)) with (k :: gkeys g2) in Hnd.
    apply NoDup_remove_2 in Hnd. split; intro Hin; apply Hnd; apply in_or_app; auto.
  Qed.

  Lemma amem_agree s g k : hinv s g -> amem k (hdict s) = amem k (map snd g).
  Proof.
    intro Hi. destruct (amem k (map snd g)) eqn:E.
    - apply amem_true. apply amem_true in E. apply (dict_keys _ _ k Hi). exact E.
    - destruct (amem k (hdict s)) eqn:E2; [|reflexivity].
      apply amem_true in E2. apply (dict_keys _ _ k Hi) in E2. apply amem_true in E2.
      unfold gkeys in E2. congruence.
  Qed.

  Lemma kv_rd (h : heap) i k v : kv h i = Some (k, v) -> exists n, rd h i = Some n /\ nkey n = k /\ nval n = Some v.
  Proof.
    unfold kv. destruct (rd h i) as [n|]; [|discriminate]. destruct (nval n) eqn:E; [|discriminate].
    intro H; inversion H; subst. eauto.
  Qed.

  (* the invariant for a list with one entry moved to the front (dict untouched) *)
  Lemma hinv_moved s g1 i k v w g2 h2 :
    hinv s (g1 ++ (i, (k, v)) :: g2) ->
    hshape h2 ((i, (k, w)) :: g1 ++ g2) -> map fst h2 = map fst (hheap s) ->
    hinv (with_heap s h2) ((i, (k, w)) :: g1 ++ g2).
  Proof.
    intros Hi Hs Hk. constructor; cbn [with_heap hheap hdict hnext].
    - exact Hs.
    - pose proof (inv_keys _ _ Hi) as Hnd. rewrite gkeys_app in Hnd.
      change (gkeys ((i, (k, w)) :: g1 ++ g2)) with (k :: gkeys (g1 ++ g2)). rewrite gkeys_app.
      change (gkeys ((i, (k, v)) :: g2)) with (k :: gkeys g2) in Hnd.
      constructor; [apply NoDup_remove_2 in Hnd; exact Hnd | apply NoDup_remove_1 in Hnd; exact Hnd].
    - apply (inv_dict_nodup _ _ Hi).
    - rewrite (inv_dict_len _ _ Hi). simpl. rewrite !app_length. simpl. lia.
    - intros k' i'. rewrite (inv_dict _ _ Hi). split; intros [v' Hin].
      + apply in_app_or in Hin. destruct Hin as [Hin|[E|Hin]].
        * exists v'. right. apply in_or_app. auto.
        * inversion E; subst. exists w. left. reflexivity.
        * exists v'. right. apply in_or_app. auto.
      + destruct Hin as [E|Hin].
        * inversion E; subst. exists v. apply in_or_app. right. left. reflexivity.
        * exists v'. apply in_app_or in Hin. apply in_or_app. destruct Hin; [left | right; right]; assumption.
    - rewrite Hk. apply (inv_fresh _ _ Hi).
  Qed.

  (* ---- get ---- *)
  Lemma get_refines s g k : hinv s g ->
    exists r s' g', hget k s = HOk (r, s') /\ hinv s' g' /\ get k (mk s g) = (r, mk s' g').
  Proof.
    intro Hi. unfold hget. destruct (alookup k (hdict s)) as [i|] eqn:E.
    - destruct (dict_hit _ _ _ _ Hi E) as [g1 [v [g2 [Eg [Hk1 Hk2]]]]]. subst g.
      destruct (move_front _ _ _ _ (inv_shape _ _ Hi)) as [h1 [h2 [E1 [E2 [Hs2 Hkeys]]]]].
      cbn [fst] in E1, E2. rewrite E1. simpl bind. rewrite E2. simpl bind.
      pose proof (sh_kv _ _ Hs2) as Hkv. inversion Hkv as [|? ? Hkvi _]; subst. cbn [fst snd] in Hkvi.
      destruct (kv_rd _ _ _ _ Hkvi) as [n [Hrd [_ Hnv]]].
      unfold getn. rewrite Hrd. simpl bind. rewrite Hnv.
      exists (Some v), (with_heap s h2), ((i, (k, v)) :: g1 ++ g2).
      split; [reflexivity|]. split; [eapply hinv_moved; eauto|].
      unfold get, mk. cbn [items cap with_heap hcap]. rewrite !map_app. cbn [map snd].
      rewrite alookup_app_notin by exact Hk1. cbn [alookup]. rewrite N.eqb_refl.
      rewrite aremove_middle by assumption. rewrite ?map_app. reflexivity.
    - exists None, s, g. split; [reflexivity|]. split; [exact Hi|].
      unfold get, mk. cbn [items cap].
      assert (Hn : alookup k (map snd g) = None) by (apply alookup_none_keys; eapply dict_miss; eauto).
      rewrite Hn. reflexivity.
  Qed.

  (* ---- insertion of a key that is not cached ---- *)
  Lemma insert_new_refines s g k v : hinv s g -> ~ In k (gkeys g) ->
    exists s', h_insert_new k v s = HOk s' /\ hinv s' ((hnext s, (k, v)) :: g) /\ hcap s' = hcap s.
  Proof.
    intros Hi Hk. unfold h_insert_new.
    assert (Hfresh : ~ In (hnext s) (map fst (hheap s))).
    { intro Hin. apply (inv_fresh _ _ Hi) in Hin. lia. }
    destruct (push_shape _ _ _ k v (inv_shape _ _ Hi) Hfresh) as [h' [E [Hs' Hkeys]]].
    rewrite E. simpl bind. eexists. split; [reflexivity|]. split; [|reflexivity].
    assert (Hkd : ~ In k (map fst (hdict s))) by (rewrite (dict_keys _ _ k Hi); exact Hk).
    constructor; cbn [hheap hdict hnext hcap].
    - exact Hs'.
    - change (gkeys ((hnext s, (k, v)) :: g)) with (k :: gkeys g). constructor; [exact Hk | apply (inv_keys _ _ Hi)].
    - cbn [map fst]. constructor; [rewrite aremove_keys; tauto | apply aremove_nodup; apply (inv_dict_nodup _ _ Hi)].
    - rewrite aremove_notin by exact Hkd. simpl. rewrite (inv_dict_len _ _ Hi). reflexivity.
    - intros k' i'. rewrite alookup_cons_move. destruct (N.eqb_spec k' k) as [Ek|Ek].
      + subst k'. split.
        * intro H; inversion H; subst. exists v. left. reflexivity.
        * intros [v' [Hin|Hin]]; [inversion Hin; reflexivity|].
          exfalso. apply Hk. apply in_gkeys. eauto.
      + rewrite (inv_dict _ _ Hi). split; intros [v' Hin].
        * exists v'. right. exact Hin.
        * destruct Hin as [Hin|Hin]; [inversion Hin; congruence | eauto].
    - rewrite Hkeys. intros i' [Ei|Hin]; [subst; lia|]. apply (inv_fresh _ _ Hi) in Hin. lia.
  Qed.

  (* ---- set ---- *)
  Lemma set_refines s g k v : hinv s g ->
    exists s' g', hset k v s = HOk s' /\ hinv s' g' /\ set k v (mk s g) = Some (mk s' g').
  Proof.
    intro Hi. unfold hset, set.
    change (disabled (mk s g)) with (hdisabled s).
    destruct (hdisabled s) eqn:Ed.
    { exists s, g. auto. }
    cbn [mk items]. rewrite <- (amem_agree _ _ k Hi). unfold amem.
    destruct (alookup k (hdict s)) as [i|] eqn:E.
    - (* cached key: update the value, move to front *)
      destruct (dict_hit _ _ _ _ Hi E) as [g1 [v0 [g2 [Eg [Hk1 Hk2]]]]]. subst g.
      destruct (set_val_shape _ _ _ _ _ _ v (inv_shape _ _ Hi)) as [Hlive Hs0].
      rewrite (modify_ok _ _ _ Hlive). simpl bind.
      destruct (move_front _ _ _ _ Hs0) as [h1 [h2 [E1 [E2 [Hs2 Hkeys]]]]].
      cbn [fst] in E1, E2. rewrite E1. simpl bind. rewrite E2. simpl bind.
      exists (with_heap s h2), ((i, (k, v)) :: g1 ++ g2).
      split; [reflexivity|]. split.
      + eapply hinv_moved; eauto. rewrite Hkeys. apply keys_upd.
      + unfold mk. cbn [cap with_heap hcap]. rewrite !map_app. cbn [map snd].
        rewrite aremove_middle by assumption. rewrite ?map_app. reflexivity.
    - pose proof (dict_miss _ _ _ Hi E) as Hk.
      assert (Hfull : full (mk s g) = hfull s).
      { unfold full, hfull, mk. cbn [cap items]. rewrite map_length, (inv_dict_len _ _ Hi). reflexivity. }
      rewrite Hfull.
      destruct (hfull s) eqn:Ef.
      + (* full: evict tail.prev first *)
        assert (Hne : g <> []).
        { intro Eg. subst g. unfold hfull in Ef. unfold hdisabled in Ed. destruct (hcap s) as [c|]; [|discriminate].
          rewrite (inv_dict_len _ _ Hi) in Ef. simpl in Ef. apply Z.leb_le in Ef. apply Z.leb_gt in Ed. lia. }
        destruct (exists_last Hne) as [g1 [e Eg]]. subst g. destruct e as [j [kj vj]].
        destruct (evict_shape _ _ _ (inv_shape _ _ Hi)) as [Hpv [h1 [E1 [Hs1 [Hkvj Hkeys]]]]].
        cbn [fst snd] in Hpv, E1, Hkvj.
        assert (Ht : exists t, rd (hheap s) tail_id = Some t /\ nprev t = Some j).
        { unfold pv in Hpv. destruct (rd (hheap s) tail_id) as [t|]; [|discriminate]. eauto. }
        destruct Ht as [t [Hrt Hnt]]. unfold getn at 1. rewrite Hrt. simpl bind. rewrite Hnt.
        rewrite E1. simpl bind.
        destruct (kv_rd _ _ _ _ Hkvj) as [n [Hrd [Hnk _]]]. unfold getn. rewrite Hrd. simpl bind. rewrite Hnk.
        assert (Hdj : alookup kj (hdict s) = Some j).
        { apply (inv_dict _ _ Hi). exists vj. apply in_or_app. right. left. reflexivity. }
        rewrite Hdj.
        pose proof (inv_keys _ _ Hi) as Hndk. rewrite gkeys_app in Hndk.
        change (gkeys [(j, (kj, vj))]) with [kj] in Hndk.
        assert (Hkj1 : ~ In kj (gkeys g1)).
        { apply NoDup_remove_2 in Hndk. rewrite app_nil_r in Hndk. exact Hndk. }
        set (s1 := {| hcap := hcap s; hheap := h1; hdict := aremove kj (hdict s); hnext := hnext s |}).
        assert (Hi1 : hinv s1 g1).
        { constructor; cbn [s1 hheap hdict hnext].
          - exact Hs1.
          - apply NoDup_remove_1 in Hndk. rewrite app_nil_r in Hndk. exact Hndk.
          - apply aremove_nodup. apply (inv_dict_nodup _ _ Hi).
          - pose proof (aremove_length_nodup kj (hdict s) (inv_dict_nodup _ _ Hi)) as Hlen.
            pose proof (inv_dict_len _ _ Hi) as Hl. rewrite app_length in Hl. simpl in Hl.
            assert (Hin : In kj (map fst (hdict s))) by (eapply alookup_in_keys; eauto).
            specialize (Hlen Hin). lia.
          - intros k' i'. destruct (N.eqb_spec k' kj) as [Ek|Ek].
            + subst k'. rewrite alookup_aremove_same. split; [discriminate|].
              intros [v' Hin]. exfalso. apply Hkj1. apply in_gkeys. eauto.
            + rewrite alookup_aremove_other by exact Ek. rewrite (inv_dict _ _ Hi). split; intros [v' Hin].
              * apply in_app_or in Hin. destruct Hin as [Hin|[Hin|[]]]; [eauto | inversion Hin; congruence].
              * exists v'. apply in_or_app. left. exact Hin.
          - rewrite Hkeys. apply (inv_fresh _ _ Hi). }
        assert (Hk' : ~ In k (gkeys g1)).
        { intro Hin. apply Hk. rewrite gkeys_app. apply in_or_app. left. exact Hin. }
        destruct (insert_new_refines s1 g1 k v Hi1 Hk') as [s' [Es' [Hi' Hc']]].
        fold s1. rewrite Es'. exists s', ((hnext s1, (k, v)) :: g1). split; [reflexivity|]. split; [exact Hi'|].
        rewrite map_app. cbn [map snd].
        destruct (map snd g1 ++ [(kj, vj)]) as [|a l] eqn:El; [destruct (map snd g1); discriminate|].
        rewrite <- El. rewrite removelast_snoc. unfold mk. rewrite Hc'. reflexivity.
      + destruct (insert_new_refines s g k v Hi Hk) as [s' [Es' [Hi' Hc']]].
        rewrite Es'. exists s', ((hnext s, (k, v)) :: g). split; [reflexivity|]. split; [exact Hi'|].
        unfold mk. rewrite Hc'. reflexivity.
  Qed.

  (* ---- clear ---- *)
  Lemma clear_refines s g : hinv s g ->
    exists s', hclear s = HOk s' /\ hinv s' [] /\ clear (mk s g) = mk s' [].
  Proof.
    intro Hi. unfold hclear.
    destruct (clear_shape _ _ (inv_shape _ _ Hi)) as [h1 [h2 [E1 [E2 [Hs2 Hkeys]]]]].
    rewrite E1. simpl bind. rewrite E2. simpl bind.
    eexists. split; [reflexivity|]. split; [|reflexivity].
    constructor; cbn [hheap hdict hnext].
    - exact Hs2.
    - constructor.
    - constructor.
    - reflexivity.
    - intros k i. simpl. split; [discriminate | intros [v []]].
    - rewrite Hkeys. apply (inv_fresh _ _ Hi).
  Qed.

  (* ---- one API call ---- *)
  Lemma hstep_refines s g o : hinv s g ->
    exists s' g' x, hstep s o = HOk (s', x) /\ hinv s' g' /\ step (mk s g) o = (mk s' g', x).
  Proof.
    intro Hi. destruct o as [k|k|k v|]; cbn [hstep step].
    - destruct (get_refines s g k Hi) as [r [s' [g' [E [Hi' Eg]]]]].
      rewrite E, Eg. simpl. exists s', g', (RVal r). auto.
    - exists s, g, (RBool (hhas k s)). split; [reflexivity|]. split; [exact Hi|].
      unfold hhas, has. cbn [mk items]. rewrite (amem_agree _ _ k Hi). reflexivity.
    - destruct (set_refines s g k v Hi) as [s' [g' [E [Hi' Eg]]]].
      rewrite E, Eg. simpl. exists s', g', RUnit. auto.
    - destruct (clear_refines s g Hi) as [s' [E [Hi' Eg]]].
      rewrite E, Eg. simpl. exists s', [], RUnit. auto.
  Qed.
End Refine.

(* ---------- the computable abstraction agrees with the ghost list ---------- *)
Section Abs.
  Context {V : Type}.
  Notation heap := (list (N * node V)).
  Notation ghost := (list (N * (N * V))).
  Implicit Types (s : hstate V) (g : ghost) (h : heap).

  Lemma walk_links h : forall ids p fuel,
    links h (p :: ids ++ [tail_id]) -> ~ In tail_id ids -> (length ids < fuel)%nat ->
    nx h p = Some (hd tail_id (ids ++ [tail_id])) /\ walk fuel h (hd tail_id (ids ++ [tail_id])) = ids.
  Proof.
    induction ids as [|i r IH]; intros p fuel Hl Hnt Hf.
    - destruct Hl as [H _]. split; [exact H|]. destruct fuel; [simpl in Hf; lia|].
      cbn [app hd walk]. rewrite N.eqb_refl. reflexivity.
    - change (links h (p :: i :: r ++ [tail_id])) in Hl. destruct Hl as [H1 [_ H3]].
      cbn [app hd]. split; [exact H1|]. destruct fuel; [simpl in Hf; lia|].
      cbn [walk]. destruct (N.eqb_spec i tail_id) as [E|E]; [exfalso; apply Hnt; left; auto|].
      destruct (IH i fuel H3) as [Hn Hw]; [intro; apply Hnt; right; assumption | simpl in Hf; lia|].
      rewrite Hn, Hw. reflexivity.
  Qed.

  Lemma walkb_links h : forall ids q fuel,
    links h (head_id :: ids ++ [q]) -> ~ In head_id ids -> (length ids < fuel)%nat ->
    pv h q = Some (last ids head_id) /\ walkb fuel h (last ids head_id) = rev ids.
  Proof.
    induction ids as [|i r IH] using rev_ind; intros q fuel Hl Hnh Hf.
    - destruct Hl as [_ [H _]]. split; [exact H|]. destruct fuel; [simpl in Hf; lia|].
      cbn [last walkb rev]. rewrite N.eqb_refl. reflexivity.
    - rewrite <- app_assoc in Hl. cbn [app] in Hl.
      change (head_id :: r ++ i :: [q]) with ((head_id :: r) ++ i :: [q]) in Hl.
      apply links_app in Hl. destruct Hl as [Hl1 [_ [Hqi _]]].
      rewrite last_last. split; [exact Hqi|]. rewrite app_length in Hf. simpl in Hf.
      destruct fuel; [lia|]. cbn [walkb].
      destruct (N.eqb_spec i head_id) as [E|E]; [exfalso; apply Hnh; apply in_or_app; right; left; auto|].
      destruct (IH i fuel Hl1) as [Hp Hw]; [intro; apply Hnh; apply in_or_app; left; assumption | lia|].
      rewrite Hp, Hw. rewrite rev_app_distr. reflexivity.
  Qed.

  Lemma shape_fuel h g : hshape h g -> (length (map fst g) < length h)%nat.
  Proof.
    intro Hs. pose proof (sh_nodup _ _ Hs) as Hnd.
    assert (Hincl : incl (gpath g) (map fst h)).
    { intros x Hx. apply live_in_keys. eapply shape_live; eauto. }
    pose proof (NoDup_incl_length Hnd Hincl) as Hlen.
    unfold gpath in Hlen. simpl in Hlen. rewrite app_length, map_length in Hlen. simpl in Hlen.
    rewrite map_length in *. lia.
  Qed.

  Lemma walk_fwd_ghost s g : hinv s g -> walk_fwd s = map fst g.
  Proof.
    intro Hi. pose proof (inv_shape _ _ Hi) as Hs. pose proof (sh_nodup _ _ Hs) as Hnd.
    unfold gpath in Hnd. inversion Hnd as [|? ? _ Hd]; subst.
    apply NoDup_app_inv in Hd. destruct Hd as [_ [_ Hdisj]].
    destruct (walk_links (hheap s) (map fst g) head_id (length (hheap s))) as [Hn Hw].
    - exact (sh_links _ _ Hs).
    - intro Hin. apply (Hdisj tail_id Hin). left. reflexivity.
    - apply shape_fuel. exact Hs.
    - unfold walk_fwd. rewrite Hn. exact Hw.
  Qed.

  Lemma walk_bwd_ghost s g : hinv s g -> walk_bwd s = rev (map fst g).
  Proof.
    intro Hi. pose proof (inv_shape _ _ Hi) as Hs. pose proof (sh_nodup _ _ Hs) as Hnd.
    unfold gpath in Hnd. inversion Hnd as [|? ? Hn _]; subst.
    destruct (walkb_links (hheap s) (map fst g) tail_id (length (hheap s))) as [Hp Hw].
    - exact (sh_links _ _ Hs).
    - intro Hin. apply Hn. apply in_or_app. left. exact Hin.
    - apply shape_fuel. exact Hs.
    - unfold walk_bwd. rewrite Hp. exact Hw.
  Qed.

  Lemma filter_map_kv h g :
    Forall (fun e => kv h (fst e) = Some (snd e)) g -> filter_map (kv h) (map fst g) = map snd g.
  Proof.
    induction g as [|e g IH]; intro H; [reflexivity|].
    inversion H as [|? ? He Hr]; subst. cbn [map filter_map]. rewrite He, (IH Hr). reflexivity.
  Qed.

  Lemma habs_items_ghost s g : hinv s g -> habs_items s = map snd g.
  Proof.
    intro Hi. unfold habs_items. rewrite (walk_fwd_ghost _ _ Hi).
    apply filter_map_kv. exact (sh_kv _ _ (inv_shape _ _ Hi)).
  Qed.

  Lemma habs_ghost s g : hinv s g -> habs s = mk s g.
  Proof. intro Hi. unfold habs, mk. rewrite (habs_items_ghost _ _ Hi). reflexivity. Qed.

  (* well-formed = some ghost list satisfies the invariant *)
  Definition hwf s : Prop := exists g, hinv s g.

  Lemma hwf_init_lemma (c : option Z) : hwf (@hinit V c) /\ habs (@hinit V c) = init c.
  Proof.
    split; [|reflexivity]. exists []. constructor.
    - constructor.
      + unfold gpath. simpl. constructor; [intros [E|[]]; discriminate E|]. constructor; [intros []|constructor].
      + split; [reflexivity|]. split; [reflexivity | exact I].
      + constructor.
      + simpl. constructor; [intros [E|[]]; discriminate E|]. constructor; [intros []|constructor].
    - constructor.
    - constructor.
    - reflexivity.
    - intros k i. simpl. split; [discriminate | intros [v []]].
    - simpl. intros i [E|[E|[]]]; subst; reflexivity.
  Qed.

  (* THE REFINEMENT THEOREM: from a well-formed pointer structure every API call succeeds (no
     RuntimeError / KeyError / dangling access), re-establishes the invariant, and does on the abstraction
     (walk `next` from head) exactly what the list-level model does: same output, same abstract state *)
  Lemma lru_refines_lemma s (o : op V) : hwf s ->
    exists s' x, hstep s o = HOk (s', x) /\ hwf s' /\ step (habs s) o = (habs s', x).
  Proof.
    intros [g Hi]. destruct (hstep_refines s g o Hi) as [s' [g' [x [E [Hi' Es]]]]].
    exists s', x. split; [exact E|]. split; [exists g'; exact Hi'|].
    rewrite (habs_ghost _ _ Hi), (habs_ghost _ _ Hi'). exact Es.
  Qed.

  Lemma hrun_refines_lemma (ops : list (op V)) : forall s, hwf s ->
    exists s', hrun s ops = HOk (s', snd (run (habs s) ops)) /\ hwf s' /\ habs s' = fst (run (habs s) ops).
  Proof.
    induction ops as [|o ops IH]; intros s Hw.
    - exists s. simpl. auto.
    - destruct (lru_refines_lemma s o Hw) as [s1 [x [E [Hw1 Es]]]].
      destruct (IH s1 Hw1) as [s2 [E2 [Hw2 Ea]]].
      exists s2. cbn [hrun run]. rewrite E. cbn [bind]. rewrite E2. cbn [bind]. rewrite Es.
      destruct (run (habs s1) ops) as [s2' xs]. simpl in *. auto.
  Qed.

  (* from the constructor's state: any history *)
  Lemma hrun_init_lemma (c : option Z) (ops : list (op V)) :
    exists s, hrun (hinit c) ops = HOk (s, snd (run (init c) ops)) /\ hwf s /\ habs s = final (init c) ops.
  Proof.
    destruct (hwf_init_lemma c) as [Hw Ha].
    destruct (hrun_refines_lemma ops _ Hw) as [s [E [Hw' Ea]]]. rewrite Ha in *.
    exists s. auto.
  Qed.

  Lemma hrun_init_inv (c : option Z) (ops : list (op V)) s outs :
    hrun (hinit c) ops = HOk (s, outs) ->
    outs = snd (run (init c) ops) /\ hwf s /\ habs s = final (init c) ops.
  Proof.
    intro E. destruct (hrun_init_lemma c ops) as [s' [E' [Hw Ha]]]. rewrite E' in E. inversion E; subst. auto.
  Qed.

  (* ---- corollaries transferred from the list-level theorems ---- *)
  Lemma heap_no_error_lemma (c : option Z) (ops : list (op V)) e : hrun (hinit c) ops <> HErr e.
  Proof. destruct (hrun_init_lemma c ops) as [s [E _]]. rewrite E. discriminate. Qed.

  Lemma heap_size_le_cap_lemma (c : Z) (ops : list (op V)) s outs :
    hrun (hinit (Some c)) ops = HOk (s, outs) ->
    (Z.of_nat (length (hdict s)) <= Z.max 0 c)%Z /\ (Z.of_nat (length (walk_fwd s)) <= Z.max 0 c)%Z.
  Proof.
    intro E. destruct (hrun_init_inv _ _ _ _ E) as [_ [[g Hi] Ha]].
    pose proof (size_le_cap_lemma c ops) as H. rewrite <- Ha in H.
    rewrite (habs_ghost _ _ Hi) in H. cbn [mk items] in H. rewrite map_length in H.
    rewrite (inv_dict_len _ _ Hi), (walk_fwd_ghost _ _ Hi), map_length. auto.
  Qed.

  Lemma heap_cap0_lemma (c : Z) (ops : list (op V)) s outs :
    (c <= 0)%Z -> hrun (hinit (Some c)) ops = HOk (s, outs) -> hdict s = [] /\ walk_fwd s = [].
  Proof.
    intros Hc E. destruct (heap_size_le_cap_lemma _ _ _ _ E) as [H1 H2].
    split; [destruct (hdict s) | destruct (walk_fwd s)]; try reflexivity; simpl in *; lia.
  Qed.

  (* after every history the dict and the doubly linked list describe the same thing *)
  Lemma heap_in_sync_lemma (c : option Z) (ops : list (op V)) s outs :
    hrun (hinit c) ops = HOk (s, outs) ->
    walk_bwd s = rev (walk_fwd s) /\
    NoDup (walk_fwd s) /\ NoDup (map fst (habs_items s)) /\
    length (hdict s) = length (walk_fwd s) /\
    (forall k i, alookup k (hdict s) = Some i <-> In i (walk_fwd s) /\ exists v, kv (hheap s) i = Some (k, v)).
  Proof.
    intro E. destruct (hrun_init_inv _ _ _ _ E) as [_ [[g Hi] _]].
    rewrite (walk_bwd_ghost _ _ Hi), (walk_fwd_ghost _ _ Hi), (habs_items_ghost _ _ Hi).
    pose proof (inv_shape _ _ Hi) as Hs.
    split; [reflexivity|]. split.
    { pose proof (sh_nodup _ _ Hs) as Hnd. unfold gpath in Hnd. inversion Hnd as [|? ? _ Hd]; subst.
      apply NoDup_app_inv in Hd. tauto. }
    split; [apply (inv_keys _ _ Hi)|]. split; [rewrite map_length; apply (inv_dict_len _ _ Hi)|].
    intros k i. rewrite (inv_dict _ _ Hi).
    pose proof (sh_kv _ _ Hs) as Hkv. rewrite Forall_forall in Hkv.
    split.
    - intros [v Hin]. split; [change i with (fst (i, (k, v))); apply in_map; exact Hin|].
      exists v. apply (Hkv _ Hin).
    - intros [Hin [v Hv]]. apply in_map_iff in Hin. destruct Hin as [[i' [k' v']] [Ei Hin]]. simpl in Ei. subst i'.
      pose proof (Hkv _ Hin) as Hv'. cbn [fst snd] in Hv'. rewrite Hv in Hv'. inversion Hv'; subst.
      exists v'. exact Hin.
  Qed.

  (* a hit answers what a plain dictionary driven by the same set/clear calls holds *)
  Lemma heap_get_dict_lemma (c : option Z) (ops : list (op V)) s outs k :
    hrun (hinit c) ops = HOk (s, outs) ->
    exists r s', hget k s = HOk (r, s') /\
                 forall v, r = Some v -> alookup k (fold_left dict_step ops []) = Some v.
  Proof.
    intro E. destruct (hrun_init_inv _ _ _ _ E) as [_ [Hw Ha]].
    destruct (lru_refines_lemma s (OGet k) Hw) as [s' [x [Es [_ Em]]]].
    pose proof (get_output k (habs s)) as Ho. rewrite Em in Ho. simpl in Ho. subst x.
    cbn [hstep] in Es. destruct (hget k s) as [[r s'']|e] eqn:Eg; [|discriminate].
    cbn [bind] in Es. inversion Es; subst.
    eexists _, _. split; [reflexivity|]. intros v Hv.
    change (habs_items s) with (items (habs s)) in Hv. rewrite Ha in Hv.
    eapply cache_sub_dict_lemma. exact Hv.
  Qed.
End Abs.

(* eviction order: the node a full cache unlinks (tail.prev) carries the entry with the oldest last use *)
Lemma heap_evicts_lru_lemma {V : Type} (c : option Z) (ops : list (op V)) k v s outs :
  hrun (hinit c) ops = HOk (s, outs) ->
  let st := run_t 0%N (init c) ops in
  amem k (items st) = false -> full st = true -> disabled st = false ->
  forall d, exists rest s'',
    items st = rest ++ [last (items st) d] /\
    (forall k' v' t', In (k', (v', t')) (items st) -> (snd (snd (last (items st) d)) <= t')%N) /\
    habs_items s = erase_items (items st) /\
    hset k v s = HOk s'' /\ habs_items s'' = (k, v) :: erase_items rest.
Proof.
  intros E st Hm Hf Hd d.
  destruct (evicts_lru_lemma c ops k v 0%N Hm Hf Hd d) as [rest [Hrest [Hset Hmin]]]. fold st in Hrest, Hset, Hmin.
  destruct (hrun_init_inv _ _ _ _ E) as [_ [Hw Ha]].
  pose proof (erase_run ops 0%N (init c)) as Her. fold st in Her.
  change (erase (init c)) with (@init V c) in Her.
  exists rest. destruct (lru_refines_lemma s (OSet k v) Hw) as [s'' [x [Es [_ Em]]]].
  exists s''. split; [exact Hrest|]. split; [exact Hmin|].
  assert (Hab : habs s = erase st) by (rewrite Ha, Her; reflexivity).
  split; [change (habs_items s) with (items (habs s)); rewrite Hab; reflexivity|].
  cbn [hstep] in Es. destruct (hset k v s) as [s3|e] eqn:Eh; [|discriminate].
  cbn [bind] in Es. inversion Es; subst. split; [reflexivity|].
  pose proof (erase_step 0%N st (OSet k v)) as Hst. rewrite <- Hab, Em in Hst. cbn [fst] in Hst.
  cbn [step_t] in Hst. rewrite Hset in Hst.
  change (habs_items s'') with (items (habs s'')). rewrite <- Hst. reflexivity.
Qed.
