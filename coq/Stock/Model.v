(* Property C10 - stock templating is preserved.  Definitions only (proofs: Stock/Proofs.v).

   Part A (stock templates unchanged)
     * [balancedb] - "the quotes of a block tag are balanced": the quote scan of Lexer/Model.v ([qrun]) run
       over the tag's contents ends outside every string.  Used as the premise of the theorem that the
       patched lexer returns the stock token stream.
     * [patched_render] / [stock_render] - django_monkeypatch._template_render vs django.template.base.
       Template.render, over a model of RenderContext.push_state (a stack of layers).

   Part B (composition by inlining)
     * M-model [rl] / [render_family]: django.template.loader_tags - BlockContext (per-name queue of block
       nodes, add_blocks / pop / push / get_block), BlockNode.render, BlockNode.super, ExtendsNode.render,
       with the BlockContext as mutable state threaded through the rendering of every node (also through
       every iteration of a loop).
     * S-model [fl] / [flatten]: hand inlining - a pure, scoped resolution of blocks that produces a
       template without block tags ([fnode]); [render_f] renders such a template.

   Every other template node is abstract: [Leaf id] (text, variable, any tag without a body) renders to
   [leaf id e]; [Wrap id body] (if / for / with / filter / autoescape / a fill ...) renders its body once per
   environment of [envs id e] and combines the pieces with [deco id e] (0 or 1 environments = if, k = for,
   a changed environment = with).  [env], [leaf], [envs], [deco] are parameters: the theorems hold for every
   interpretation of the non-block nodes. *)
From Coq Require Import String.
From DJC Require Import Lib.Base Lexer.Model.

(* ================================================================================================ *)
(* Part A.1  balanced quotes                                                                         *)
(* ================================================================================================ *)
Definition balancedb (contents : str) : bool := is_qout (qrun QOut contents).

(* the premise of C10a on a whole source: every block tag of the STOCK token stream that contains a quote
   character has balanced quotes *)
Definition stock_premiseb (dotall : bool) (s : str) : bool :=
  forallb (fun t => negb (is_broken t) || balancedb (tcontents t)) (django_lex dotall s).

(* ================================================================================================ *)
(* Part A.2  Template.render: patched vs stock                                                       *)
(* ================================================================================================ *)
(* hasattr(template, "_djc_is_component_nested") and its value *)
Record tflags := { has_nested_attr : bool; nested_attr : bool }.

Section Render.
  Context {layer out : Type}.
  Variable empty_layer : layer.                 (* the dict pushed by RenderContext.push() *)
  Notation rctx := (list layer).                (* RenderContext.dicts, top = head *)
  (* Template._render (the body of the with-statement): reads and may update the render context *)
  Variable inner : rctx -> out * rctx.

  (* RenderContext.push_state(template, isolated_context): push before, pop after (the finally clause) *)
  Definition push_state (isolated : bool) (rc : rctx) : out * rctx :=
    if isolated then let '(o, rc') := inner (empty_layer :: rc) in (o, tl rc')
    else inner rc.

  (* django.template.base.Template.render *)
  Definition stock_render (rc : rctx) : out * rctx := push_state true rc.

  (* django_monkeypatch._template_render *)
  Definition isolated_of (f : tflags) : bool :=
    if has_nested_attr f then negb (nested_attr f) else true.
  Definition patched_render (f : tflags) (rc : rctx) : out * rctx := push_state (isolated_of f) rc.
End Render.

(* ================================================================================================ *)
(* Part B.1  templates, BlockContext                                                                 *)
(* ================================================================================================ *)
Inductive node :=
| Leaf (id : N)
| Wrap (id : N) (body : list node)
| Block (name : N) (body : list node)        (* {% block name %}body{% endblock %} *)
| Super.                                       (* {{ block.super }} *)

(* BlockContext.blocks: name -> queue.  Orientation: the HEAD of our list is the END of the Python list
   (get_block = blocks[name][-1] = head; pop() removes the head; push() = cons; add_blocks inserts at
   Python index 0 = appends at our tail). *)
Notation bctx := (list (N * list (list node))) (only parsing).

Definition bget (m : N) (bc : bctx) : list (list node) :=
  match alookup m bc with Some q => q | None => [] end.

Fixpoint bset (m : N) (q : list (list node)) (bc : bctx) : bctx :=
  match bc with
  | [] => [(m, q)]
  | (k, v) :: r => if N.eqb m k then (k, q) :: r else (k, v) :: bset m q r
  end.

(* Node.get_nodes_by_type(BlockNode): pre-order, through every child nodelist *)
Fixpoint blocks_of_node (n : node) : list (N * list node) :=
  match n with
  | Leaf _ | Super => []
  | Wrap _ b =>
      (fix go (l : list node) := match l with [] => [] | x :: r => blocks_of_node x ++ go r end) b
  | Block m b =>
      (m, b) :: (fix go (l : list node) := match l with [] => [] | x :: r => blocks_of_node x ++ go r end) b
  end.
Fixpoint blocks_of (l : list node) : list (N * list node) :=
  match l with [] => [] | x :: r => blocks_of_node x ++ blocks_of r end.

(* BlockContext.add_blocks(blocks) *)
Fixpoint add_blocks (bs : list (N * list node)) (bc : bctx) : bctx :=
  match bs with
  | [] => bc
  | (m, b) :: r => add_blocks r (bset m (bget m bc ++ [b]) bc)
  end.

(* a family: the templates that say {% extends %}, leaf first, and the root they end in *)
Record family := { f_chain : list (list node); f_root : list node }.

(* ExtendsNode.render, followed up the chain: the leaf's blocks, then its parent's, ..., then the root's *)
Definition init_bc_from (bc : bctx) (f : family) : bctx :=
  add_blocks (blocks_of (f_root f)) (fold_left (fun acc t => add_blocks (blocks_of t) acc) (f_chain f) bc).
Definition init_bc (f : family) : bctx := init_bc_from [] f.

(* ================================================================================================ *)
(* Part B.2  flattened templates                                                                     *)
(* ================================================================================================ *)
Inductive fnode :=
| FLeaf (id : N)
| FWrap (id : N) (body : list fnode).

(* nesting depth (fuel is counted in nesting levels) *)
Fixpoint depth_node (n : node) : nat :=
  match n with
  | Leaf _ | Super => 1
  | Wrap _ b | Block _ b =>
      S ((fix go (l : list node) := match l with [] => 0 | x :: r => Nat.max (depth_node x) (go r) end) b)
  end.
Fixpoint depth (l : list node) : nat :=
  match l with [] => 0 | x :: r => Nat.max (depth_node x) (depth r) end.

Fixpoint qweight (q : list (list node)) : nat :=
  match q with [] => 0 | b :: r => S (depth b) + qweight r end.
Fixpoint weight (bc : bctx) : nat :=
  match bc with [] => 0 | (_, q) :: r => qweight q + weight r end.

Section Blocks.
  Variable env : Type.
  Variable leaf : N -> env -> str.
  Variable envs : N -> env -> list env.
  Variable deco : N -> env -> list str -> str.

  (* rendering of a flattened template *)
  Fixpoint render_fnode (e : env) (n : fnode) : str :=
    match n with
    | FLeaf id => leaf id e
    | FWrap id b =>
        deco id e (map (fun e' =>
          (fix go (l : list fnode) := match l with [] => [] | x :: r => render_fnode e' x ++ go r end) b)
          (envs id e))
    end.
  Fixpoint render_f (e : env) (l : list fnode) : str :=
    match l with [] => [] | x :: r => render_fnode e x ++ render_f e r end.

  (* ---------- S-model: hand inlining of blocks (no components) ---------- *)
  (* [bc]: the definitions still available, most derived first per name; [cur]: name of the block whose
     content is being inlined (what block.super refers to).  Scoped: a definition taken for a block is
     unavailable inside that block only.  One unit of fuel per nesting level. *)
  Fixpoint fl (fuel : nat) (bc : bctx) (cur : option N) (ns : list node) : option (list fnode) :=
    match fuel with
    | O => None
    | S f =>
        (fix go (ns : list node) : option (list fnode) :=
           match ns with
           | [] => Some []
           | n :: rest =>
               let hd :=
                 match n with
                 | Leaf id => Some [FLeaf id]
                 | Wrap id b => option_map (fun x => [FWrap id x]) (fl f bc cur b)
                 | Block m b =>
                     match bget m bc with
                     | [] => fl f bc (Some m) b
                     | b' :: q => fl f (bset m q bc) (Some m) b'
                     end
                 | Super =>
                     match cur with
                     | None => Some []
                     | Some m =>
                         match bget m bc with
                         | [] => Some []
                         | b' :: q => fl f (bset m q bc) (Some m) b'
                         end
                     end
                 end in
               match hd, go rest with
               | Some a, Some b => Some (a ++ b)
               | _, _ => None
               end
           end) ns
    end.

  (* ---------- M-model: Django's BlockNode.render / BlockNode.super over a mutable BlockContext ---------- *)
  (* result: output and the BlockContext afterwards *)
  Fixpoint rl (fuel : nat) (bc : bctx) (cur : option N) (e : env) (ns : list node) : option (str * bctx) :=
    match fuel with
    | O => None
    | S f =>
        (fix go (bc : bctx) (ns : list node) : option (str * bctx) :=
           match ns with
           | [] => Some ([], bc)
           | n :: rest =>
               let hd :=
                 match n with
                 | Leaf id => Some (leaf id e, bc)
                 | Wrap id b =>
                     (* the body once per environment; the same BlockContext object all along *)
                     match (fix it (es : list env) (bc : bctx) : option (list str * bctx) :=
                              match es with
                              | [] => Some ([], bc)
                              | e' :: es' =>
                                  match rl f bc cur e' b with
                                  | None => None
                                  | Some (o, bc1) =>
                                      match it es' bc1 with
                                      | None => None
                                      | Some (os, bc2) => Some (o :: os, bc2)
                                      end
                                  end
                              end) (envs id e) bc with
                     | None => None
                     | Some (os, bc') => Some (deco id e os, bc')
                     end
                 | Block m b =>
                     (* push = block = block_context.pop(name); if None: block = self ... push back *)
                     match bget m bc with
                     | [] => rl f bc (Some m) e b
                     | b' :: q =>
                         match rl f (bset m q bc) (Some m) e b' with
                         | None => None
                         | Some (o, bc1) => Some (o, bset m (b' :: bget m bc1) bc1)
                         end
                     end
                 | Super =>
                     (* {{ block.super }}: "" when `block` is unset or get_block(name) is None, else
                        self.render(self.context) = BlockNode.render of a node named [m] *)
                     match cur with
                     | None => Some ([], bc)
                     | Some m =>
                         match bget m bc with
                         | [] => Some ([], bc)
                         | b' :: q =>
                             match rl f (bset m q bc) (Some m) e b' with
                             | None => None
                             | Some (o, bc1) => Some (o, bset m (b' :: bget m bc1) bc1)
                             end
                         end
                     end
                 end in
               match hd with
               | None => None
               | Some (o1, bc1) =>
                   match go bc1 rest with
                   | None => None
                   | Some (o2, bc2) => Some (o1 ++ o2, bc2)
                   end
               end
           end) bc ns
    end.

  (* fuel that is always enough (Proofs.v: fl_total) *)
  Definition fuel_of (bc : bctx) (ns : list node) : nat := S (depth ns + weight bc).

  Definition flatten (fam : family) : option (list fnode) :=
    fl (fuel_of (init_bc fam) (f_root fam)) (init_bc fam) None (f_root fam).

  (* rendering the leaf template of a family with stock Django *)
  Definition render_family (fam : family) (e : env) : option (str * bctx) :=
    rl (fuel_of (init_bc fam) (f_root fam)) (init_bc fam) None e (f_root fam).
End Blocks.

(* ================================================================================================ *)
(* Part B.3  a concrete interpretation, for the correspondence check                                 *)
(* ================================================================================================ *)
(* Leaves are literal texts (id = index into a table), Wrap id = the body repeated [reps id] times with
   a marker around it - enough to observe how often and where every block body is rendered. *)
Section Concrete.
  Variable texts : list str.
  Definition c_leaf (id : N) (_ : unit) : str := nth (N.to_nat id) texts [].
  Definition c_envs (id : N) (_ : unit) : list unit := repeat tt (N.to_nat (id mod 4)).
  Definition c_deco (id : N) (_ : unit) (os : list str) : str := concat os.
End Concrete.

(* case = (texts, family, output of Django for the family, flattened template printed by the harness,
           output of Django for the flattened template) *)
Notation blk_case := (list str * family * str * list fnode * str)%type (only parsing).

Fixpoint fnode_eqb (a b : fnode) : bool :=
  match a, b with
  | FLeaf x, FLeaf y => N.eqb x y
  | FWrap x l, FWrap y m =>
      N.eqb x y &&
      (fix go (l m : list fnode) :=
         match l, m with
         | [], [] => true
         | p :: l', q :: m' => fnode_eqb p q && go l' m'
         | _, _ => false
         end) l m
  | _, _ => false
  end.

Definition check_blk (c : blk_case) : bool :=
  let '(texts, fam, out_family, flat, out_flat) := c in
  match flatten fam, render_family unit (c_leaf texts) c_envs c_deco fam tt with
  | Some fl', Some (o, _) =>
      list_eqb fnode_eqb fl' flat && str_eqb o out_family
      && str_eqb (render_f unit (c_leaf texts) c_envs c_deco tt flat) out_flat
  | _, _ => false
  end.


(* the harness's hand-flattening of a template family (of a page or component template; other tags abstracted to
   Leaf / Wrap) is the flattening defined here *)
Notation flat_case := (family * list fnode)%type (only parsing).
Definition check_flat (c : flat_case) : bool :=
  let '(fam, flat) := c in
  match flatten fam with Some fl' => list_eqb fnode_eqb fl' flat | None => false end.

(* ---------- Part A correspondence ---------- *)
(* case = (re.DOTALL on tag_re?, source, observed parse_template(source), observed DebugLexer(source).tokenize(),
           the harness's evaluation of the premise "every block tag of the stock stream has balanced quotes") *)
Notation slex_case := (bool * str * obs * list otok * bool)%type (only parsing).
Definition check_stock_lex (c : slex_case) : bool :=
  let '(d, s, o, stock, prem) := c in
  check_lex (d, s, o, stock) && Bool.eqb (stock_premiseb d s) prem.
