(* Property C10 - proofs about Stock/Model.v. *)
From Coq Require Import String.
From DJC Require Import Lib.Base Lexer.Model Lexer.Proofs Stock.Model.

(* ================================================================================================ *)
(* Part A.1  balanced quotes => the patched lexer returns the stock token stream                     *)
(* ================================================================================================ *)
Lemma qrun_app st a b : qrun st (a ++ b) = qrun (qrun st a) b.
Proof. unfold qrun. apply fold_left_app. Qed.

Lemma qrun_spaces l : (forall c, In c l -> py_isspace c = true) -> qrun QOut l = QOut.
Proof.
  induction l as [|c l IH]; intros H; [reflexivity|]. unfold qrun. cbn [fold_left qstep].
  rewrite (space_not_quote c (H c (or_introl eq_refl))). apply IH. intros x X. apply H. right. exact X.
Qed.

(* str.strip() does not change whether the quotes are balanced: white space around a tag's contents lies
   outside every string *)
Lemma balanced_strip x : qrun QOut (strip x) = QOut -> qrun QOut x = QOut.
Proof.
  intros H. destruct (strip_decomp x) as [h [t [E [Sh St]]]]. rewrite E.
  rewrite !qrun_app, (qrun_spaces h Sh), H. apply qrun_spaces. exact St.
Qed.

Lemma is_qout_true st : is_qout st = true -> st = QOut.
Proof. destruct st; [reflexivity|discriminate|discriminate]. Qed.

(* a stock BLOCK token whose contents have balanced quotes: the percent-brace that ends it for stock Django
   is read outside every quoted string *)
Lemma balanced_close_unquoted d s t :
  In t (django_lex d s) -> ttype t = TBlock -> balancedb (tcontents t) = true ->
  qstate_at (tok_body s t) (close_index t) = QOut.
Proof.
  intros I Ty Bal. destruct (django_lex_v_wf d None s) as [F _]. rewrite Forall_forall in F.
  destruct (F t I) as [_ [_ [_ W]]]. rewrite Ty in W. destruct W as [L [_ [_ C]]].
  unfold qstate_at, tok_body, close_index.
  replace (firstn (tend t - tstart t - 4) (skipn (tstart t + 2) s)) with (slice s (tstart t + 2) (tend t - 2))
    by (unfold slice; f_equal; lia).
  apply balanced_strip. rewrite <- C. apply is_qout_true. exact Bal.
Qed.

Lemma balanced_quotes_stock_lemma d s :
  stock_premiseb d s = true -> parse_template d s = POk (django_lex d s).
Proof.
  intros P. apply eq_stock_when_stock_close_unquoted. intros t I B.
  unfold stock_premiseb in P. rewrite forallb_forall in P. specialize (P t I). rewrite B in P. cbn in P.
  apply (balanced_close_unquoted d s t I (is_broken_block _ B) P).
Qed.

(* the premise in words: [stock_premiseb] holds iff every block tag of the stock stream has balanced quotes
   (tags without a quote character are balanced trivially) *)
Lemma no_quote_balanced c : existsb is_quote c = false -> balancedb c = true.
Proof. intros H. unfold balancedb. rewrite (qrun_no_quote c H). reflexivity. Qed.

Lemma stock_premiseb_iff d s :
  stock_premiseb d s = true <->
  (forall t, In t (django_lex d s) -> ttype t = TBlock -> balancedb (tcontents t) = true).
Proof.
  unfold stock_premiseb. rewrite forallb_forall. split.
  - intros H t I Ty. specialize (H t I). destruct (is_broken t) eqn:B; [exact H|].
    apply no_quote_balanced. unfold is_broken in B. rewrite Ty in B. exact B.
  - intros H t I. destruct (is_broken t) eqn:B; [|reflexivity]. cbn. apply H; [exact I|apply is_broken_block; exact B].
Qed.

Lemma balanced_quotes_same_tokens_lemma : forall (dotall : bool) (s : str),
  (forall t, In t (django_lex dotall s) -> ttype t = TBlock -> balancedb (tcontents t) = true) ->
  parse_template dotall s = POk (django_lex dotall s).
Proof. intros d s H. apply balanced_quotes_stock_lemma. apply stock_premiseb_iff. exact H. Qed.

(* ================================================================================================ *)
(* Part A.2  Template.render                                                                         *)
(* ================================================================================================ *)
Section RenderProofs.
  Context {layer out : Type}.
  Variable empty_layer : layer.
  Variable inner : list layer -> out * list layer.

  (* a template that was never prepared as a component template renders through the stock method *)
  Lemma patched_render_unflagged f rc :
    has_nested_attr f = false -> patched_render empty_layer inner f rc = stock_render empty_layer inner rc.
  Proof. intros H. unfold patched_render, stock_render, isolated_of. rewrite H. reflexivity. Qed.

  (* ... and so does one whose flag is False *)
  Lemma patched_render_not_nested f rc :
    nested_attr f = false -> patched_render empty_layer inner f rc = stock_render empty_layer inner rc.
  Proof.
    intros H. unfold patched_render, stock_render, isolated_of. rewrite H.
    destruct (has_nested_attr f); reflexivity.
  Qed.

  (* the patched method is the stock one exactly when the render context is isolated *)
  Lemma patched_render_is_push_state f rc :
    patched_render empty_layer inner f rc =
    if has_nested_attr f && nested_attr f then inner rc else stock_render empty_layer inner rc.
  Proof.
    unfold patched_render, stock_render, isolated_of, push_state.
    destruct (has_nested_attr f), (nested_attr f); reflexivity.
  Qed.
End RenderProofs.

(* ================================================================================================ *)
(* Part B  blocks                                                                                    *)
(* ================================================================================================ *)
Lemma bget_bset m k q bc : bget m (bset k q bc) = if N.eqb m k then q else bget m bc.
Proof.
  unfold bget. induction bc as [|[k' v] r IH]; cbn [bset alookup].
  - destruct (N.eqb m k); reflexivity.
  - destruct (N.eqb k k') eqn:E; cbn [alookup].
    + apply N.eqb_eq in E. subst k'. destruct (N.eqb m k); reflexivity.
    + destruct (N.eqb m k') eqn:E2.
      * apply N.eqb_eq in E2. subst k'. rewrite N.eqb_sym in E. rewrite E. reflexivity.
      * exact IH.
Qed.

Lemma bget_bset_same m q bc : bget m (bset m q bc) = q.
Proof. rewrite bget_bset, N.eqb_refl. reflexivity. Qed.

Lemma bget_alookup m bc b q : bget m bc = b :: q -> alookup m bc = Some (b :: q).
Proof. unfold bget. destruct (alookup m bc); [intros; f_equal; assumption|discriminate]. Qed.

(* push after pop restores the BlockContext *)
Lemma bset_restore m q v bc : alookup m bc = Some v -> bset m v (bset m q bc) = bc.
Proof.
  induction bc as [|[k w] r IH]; cbn [alookup bset]; [discriminate|].
  destruct (N.eqb m k) eqn:E; intros H.
  - apply N.eqb_eq in E. subst k. inversion H; subst. cbn [bset]. rewrite N.eqb_refl. reflexivity.
  - cbn [bset]. rewrite E. f_equal. apply IH. exact H.
Qed.

Lemma weight_bset m b q bc : alookup m bc = Some (b :: q) ->
  weight (bset m q bc) + S (depth b) = weight bc.
Proof.
  induction bc as [|[k w] r IH]; cbn [alookup bset weight]; [discriminate|].
  destruct (N.eqb m k) eqn:E; intros H.
  - inversion H; subst. cbn [weight qweight]. lia.
  - cbn [weight]. specialize (IH H). lia.
Qed.

Lemma depth_node_wrap id b : depth_node (Wrap id b) = S (depth b).
Proof. reflexivity. Qed.
Lemma depth_node_block m b : depth_node (Block m b) = S (depth b).
Proof. reflexivity. Qed.

Section BlockProofs.
  Variable env : Type.
  Variable leaf : N -> env -> str.
  Variable envs : N -> env -> list env.
  Variable deco : N -> env -> list str -> str.

  Notation render_f := (render_f env leaf envs deco).
  Notation render_fnode := (render_fnode env leaf envs deco).
  Notation rl := (rl env leaf envs deco).

  Lemma render_fnode_wrap e id b :
    render_fnode e (FWrap id b) = deco id e (map (fun e' => render_f e' b) (envs id e)).
  Proof.
    cbn [Model.render_fnode]. f_equal. apply map_ext. intros e'.
    induction b as [|x r IH]; [reflexivity|]. cbn [Model.render_f]. rewrite <- IH. reflexivity.
  Qed.

  Lemma render_f_app e a b : render_f e (a ++ b) = render_f e a ++ render_f e b.
  Proof. induction a as [|x r IH]; [reflexivity|]. cbn [app Model.render_f]. rewrite IH, app_assoc. reflexivity. Qed.

  (* THE REFINEMENT: whenever hand inlining produces a flattened template, Django's stateful block resolution
     renders exactly that template - in every environment - and leaves the BlockContext as it found it. *)
  Lemma rl_fl : forall fuel bc cur ns flat,
    fl fuel bc cur ns = Some flat ->
    forall e, rl fuel bc cur e ns = Some (render_f e flat, bc).
  Proof.
    induction fuel as [|f IH]; intros bc cur ns flat H e; [discriminate|].
    cbn [fl] in H. cbn [Model.rl].
    revert flat H. induction ns as [|n rest IHns]; intros flat H.
    - inversion H; subst. reflexivity.
    - (* head *)
      assert (HD : forall hd_s,
                 match n with
                 | Leaf id => Some [FLeaf id]
                 | Wrap id b => option_map (fun x => [FWrap id x]) (fl f bc cur b)
                 | Block m b => match bget m bc with
                                | [] => fl f bc (Some m) b
                                | b' :: q => fl f (bset m q bc) (Some m) b'
                                end
                 | Super => match cur with
                            | None => Some []
                            | Some m => match bget m bc with
                                        | [] => Some []
                                        | b' :: q => fl f (bset m q bc) (Some m) b'
                                        end
                            end
                 end = Some hd_s ->
                 match n with
                 | Leaf id => Some (leaf id e, bc)
                 | Wrap id b =>
                     match (fix it (es : list env) (bc : list (N * list (list node))) : option (list str * list (N * list (list node))) :=
                              match es with
                              | [] => Some ([], bc)
                              | e' :: es' =>
                                  match rl f bc cur e' b with
                                  | None => None
                                  | Some (o, bc1) =>
                                      match it es' bc1 with
                                      | None => None
                                      | Some (os, bc2) => Some (o :: os, bc2)
                                      end
                                  end
                              end) (envs id e) bc with
                     | None => None
                     | Some (os, bc') => Some (deco id e os, bc')
                     end
                 | Block m b =>
                     match bget m bc with
                     | [] => rl f bc (Some m) e b
                     | b' :: q =>
                         match rl f (bset m q bc) (Some m) e b' with
                         | None => None
                         | Some (o, bc1) => Some (o, bset m (b' :: bget m bc1) bc1)
                         end
                     end
                 | Super =>
                     match cur with
                     | None => Some ([], bc)
                     | Some m =>
                         match bget m bc with
                         | [] => Some ([], bc)
                         | b' :: q =>
                             match rl f (bset m q bc) (Some m) e b' with
                             | None => None
                             | Some (o, bc1) => Some (o, bset m (b' :: bget m bc1) bc1)
                             end
                         end
                     end
                 end = Some (render_f e hd_s, bc)).
      { intros hd_s Hh. destruct n as [id|id b|m b|].
        - inversion Hh; subst. cbn [Model.render_f Model.render_fnode]. rewrite app_nil_r. reflexivity.
        - destruct (fl f bc cur b) as [x|] eqn:Fb; [|discriminate]. inversion Hh; subst.
          assert (IT : forall es,
                    (fix it (es : list env) (bc : list (N * list (list node))) : option (list str * list (N * list (list node))) :=
                              match es with
                              | [] => Some ([], bc)
                              | e' :: es' =>
                                  match rl f bc cur e' b with
                                  | None => None
                                  | Some (o, bc1) =>
                                      match it es' bc1 with
                                      | None => None
                                      | Some (os, bc2) => Some (o :: os, bc2)
                                      end
                                  end
                              end) es bc = Some (map (fun e' => render_f e' x) es, bc)).
          { induction es as [|e' es IHes]; [reflexivity|].
            rewrite (IH _ _ _ _ Fb e'). rewrite IHes. reflexivity. }
          rewrite IT. cbn [Model.render_f]. rewrite render_fnode_wrap, app_nil_r. reflexivity.
        - destruct (bget m bc) as [|b' q] eqn:G.
          + apply IH. exact Hh.
          + rewrite (IH _ _ _ _ Hh e). rewrite bget_bset_same.
            rewrite (bset_restore m q (b' :: q) bc (bget_alookup _ _ _ _ G)). reflexivity.
        - destruct cur as [m|]; [|inversion Hh; subst; reflexivity].
          destruct (bget m bc) as [|b' q] eqn:G; [inversion Hh; subst; reflexivity|].
          rewrite (IH _ _ _ _ Hh e). rewrite bget_bset_same.
          rewrite (bset_restore m q (b' :: q) bc (bget_alookup _ _ _ _ G)). reflexivity. }
      match type of H with
      | match ?hd with _ => _ end = _ => destruct hd as [a|] eqn:Hhd; [|discriminate]
      end.
      match type of H with
      | match ?g with _ => _ end = _ => destruct g as [b0|] eqn:Hgo; [|discriminate]
      end.
      inversion H; subst flat. rewrite (HD a eq_refl).
      rewrite (IHns b0 eq_refl). rewrite render_f_app. reflexivity.
  Qed.
End BlockProofs.

(* hand inlining always succeeds with the fuel [fuel_of] (one unit per nesting level of the template and of
   every definition still available) *)
Lemma fl_total : forall fuel bc cur ns, depth ns + weight bc < fuel -> fl fuel bc cur ns <> None.
Proof.
  induction fuel as [|f IH]; intros bc cur ns Hf; [lia|].
  cbn [fl]. induction ns as [|n rest IHns]; [discriminate|].
  cbn [depth] in Hf.
  assert (HD : match n with
               | Leaf id => Some [FLeaf id]
               | Wrap id b => option_map (fun x => [FWrap id x]) (fl f bc cur b)
               | Block m b => match bget m bc with
                              | [] => fl f bc (Some m) b
                              | b' :: q => fl f (bset m q bc) (Some m) b'
                              end
               | Super => match cur with
                          | None => Some []
                          | Some m => match bget m bc with
                                      | [] => Some []
                                      | b' :: q => fl f (bset m q bc) (Some m) b'
                                      end
                          end
               end <> None).
  { destruct n as [id|id b|m b|].
    - discriminate.
    - rewrite depth_node_wrap in Hf. specialize (IH bc cur b). destruct (fl f bc cur b); [discriminate|].
      exfalso. apply IH; [lia|reflexivity].
    - rewrite depth_node_block in Hf. destruct (bget m bc) as [|b' q] eqn:G.
      + apply IH. lia.
      + apply IH. pose proof (weight_bset m b' q bc (bget_alookup _ _ _ _ G)). lia.
    - destruct cur as [m|]; [|discriminate]. destruct (bget m bc) as [|b' q] eqn:G; [discriminate|].
      apply IH. pose proof (weight_bset m b' q bc (bget_alookup _ _ _ _ G)). lia. }
  match goal with |- match ?hd with _ => _ end <> None => destruct hd as [a|]; [|contradiction] end.
  match goal with |- match ?g with _ => _ end <> None => destruct g as [b0|] eqn:Hgo; [discriminate|] end.
  exfalso. apply IHns; [lia|reflexivity].
Qed.

(* ---------- the family theorem ---------- *)
Lemma django_blocks_flatten_lemma :
  forall (env : Type) (leaf : N -> env -> str) (envs : N -> env -> list env) (deco : N -> env -> list str -> str)
         (fam : family),
  exists flat, flatten fam = Some flat /\
    forall e, render_family env leaf envs deco fam e = Some (render_f env leaf envs deco e flat, init_bc fam).
Proof.
  intros env leaf envs deco fam. unfold flatten, render_family.
  destruct (fl (fuel_of (init_bc fam) (f_root fam)) (init_bc fam) None (f_root fam)) as [flat|] eqn:F.
  - exists flat. split; [reflexivity|]. intros e. apply rl_fl. exact F.
  - exfalso. revert F. apply fl_total. unfold fuel_of. lia.
Qed.

(* more fuel changes nothing (so the fixed bound of [flatten] is no restriction) *)
Lemma fl_mono : forall fuel bc cur ns flat, fl fuel bc cur ns = Some flat ->
  forall fuel', fuel <= fuel' -> fl fuel' bc cur ns = Some flat.
Proof.
  induction fuel as [|f IH]; intros bc cur ns flat H fuel' Hle; [discriminate|].
  destruct fuel' as [|f']; [lia|]. assert (Hle' : f <= f') by lia.
  cbn [fl] in *. revert flat H. induction ns as [|n rest IHns]; intros flat H; [exact H|].
  match type of H with
  | match ?hd with _ => _ end = _ => destruct hd as [a|] eqn:Hhd; [|discriminate]
  end.
  match type of H with
  | match ?g with _ => _ end = _ => destruct g as [b0|] eqn:Hgo; [|discriminate]
  end.
  rewrite (IHns b0 eq_refl).
  assert (HD : match n with
               | Leaf id => Some [FLeaf id]
               | Wrap id b => option_map (fun x => [FWrap id x]) (fl f' bc cur b)
               | Block m b => match bget m bc with
                              | [] => fl f' bc (Some m) b
                              | b' :: q => fl f' (bset m q bc) (Some m) b'
                              end
               | Super => match cur with
                          | None => Some []
                          | Some m => match bget m bc with
                                      | [] => Some []
                                      | b' :: q => fl f' (bset m q bc) (Some m) b'
                                      end
                          end
               end = Some a).
  { destruct n as [id|id b|m b|].
    - exact Hhd.
    - destruct (fl f bc cur b) as [x|] eqn:Fb; [|discriminate]. rewrite (IH _ _ _ _ Fb f' Hle'). exact Hhd.
    - destruct (bget m bc) as [|b' q]; apply (IH _ _ _ _ Hhd f' Hle').
    - destruct cur as [m|]; [|exact Hhd]. destruct (bget m bc) as [|b' q]; [exact Hhd|].
      apply (IH _ _ _ _ Hhd f' Hle'). }
  rewrite HD. exact H.
Qed.

Lemma flatten_terminates_lemma : forall fuel bc cur ns,
  depth ns + weight bc < fuel ->
  exists flat, fl fuel bc cur ns = Some flat /\ forall fuel', fuel <= fuel' -> fl fuel' bc cur ns = Some flat.
Proof.
  intros fuel bc cur ns H. destruct (fl fuel bc cur ns) as [flat|] eqn:F.
  - exists flat. split; [reflexivity|]. intros fuel' L. apply (fl_mono _ _ _ _ _ F _ L).
  - exfalso. revert F. apply fl_total. exact H.
Qed.

(* ---------- what the queues hold: per name, the definitions from the most derived template to the root ---------- *)
Definition defs (m : N) (bs : list (N * list node)) : list (list node) :=
  map snd (filter (fun p => N.eqb m (fst p)) bs).

Lemma bget_add_blocks m : forall bs bc, bget m (add_blocks bs bc) = bget m bc ++ defs m bs.
Proof.
  induction bs as [|[k b] r IH]; intros bc; cbn [add_blocks defs filter map fst].
  - rewrite app_nil_r. reflexivity.
  - rewrite IH, bget_bset. destruct (N.eqb m k) eqn:E.
    + apply N.eqb_eq in E. subst k. cbn [map snd]. rewrite <- app_assoc. reflexivity.
    + reflexivity.
Qed.

Lemma init_bc_queue m fam :
  bget m (init_bc fam) = concat (map (fun t => defs m (blocks_of t)) (f_chain fam ++ [f_root fam])).
Proof.
  unfold init_bc, init_bc_from. rewrite bget_add_blocks.
  rewrite map_app, concat_app. cbn [map concat]. rewrite app_nil_r. f_equal.
  assert (G : forall l bc, bget m (fold_left (fun acc t => add_blocks (blocks_of t) acc) l bc)
                           = bget m bc ++ concat (map (fun t => defs m (blocks_of t)) l)).
  { induction l as [|t l IH]; intros bc; cbn [fold_left map concat]; [rewrite app_nil_r; reflexivity|].
    rewrite IH, bget_add_blocks, <- app_assoc. reflexivity. }
  rewrite G. reflexivity.
Qed.

(* ---------- unfolding facts about hand inlining (the three rules of block resolution) ---------- *)
(* a block nobody overrides shows its own content *)
Lemma fl_block_own f bc cur m b rest :
  bget m bc = [] ->
  fl (S f) bc cur (Block m b :: rest) =
  match fl f bc (Some m) b, fl (S f) bc cur rest with Some a, Some r => Some (a ++ r) | _, _ => None end.
Proof. intros G. cbn [fl]. rewrite G. reflexivity. Qed.

(* an overridden block shows the most derived definition, inside which that definition is no longer available *)
Lemma fl_block_override f bc cur m b b' q rest :
  bget m bc = b' :: q ->
  fl (S f) bc cur (Block m b :: rest) =
  match fl f (bset m q bc) (Some m) b', fl (S f) bc cur rest with Some a, Some r => Some (a ++ r) | _, _ => None end.
Proof. intros G. cbn [fl]. rewrite G. reflexivity. Qed.

(* block.super shows the next definition up the chain, or nothing when there is none *)
Lemma fl_super f bc m rest :
  fl (S f) bc (Some m) (Super :: rest) =
  match (match bget m bc with [] => Some [] | b' :: q => fl f (bset m q bc) (Some m) b' end),
        fl (S f) bc (Some m) rest with Some a, Some r => Some (a ++ r) | _, _ => None end.
Proof. reflexivity. Qed.
