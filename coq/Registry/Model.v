(* Model of django_components.component_registry.ComponentRegistry together with the Django tag
   Library it writes to (library.py: register_tag / mark_protected_tags / is_tag_protected) and the
   tag formatters of tag_formatter.py (property C15).

   State of one registry:  _registry : name -> (class, tag)   and   _tags : tag -> {names}
   State of one Library:    tags : tag -> function             and   _protected_tags
   Both dictionaries are Python dicts: ordered, `d[k] = v` replaces in place or appends, `del d[k]`
   removes.  What a Library slot holds is abstracted to its *owner*: the function that was there when
   the Library was handed to the registry (OBuiltin) or a `tag_fn` closure created by registry `rid`.
   A class is (code of `_class_hash`, identity of the class object).  CLASS IDENTITY IS THE HASH: `_class_hash`
   is derived from the import path (util/misc.py hash_comp_cls), `register` compares nothing else
   (`cls_hash`, `same_class`), so two class objects with one import path are "the same class" for the registry;
   `get`/`all` return the stored object, which is the one passed to the LAST accepted register call.

   Every Python operation that could raise is an explicit outcome (KeyError of `self._tags[tag]`,
   of `set.remove`, ...).  Definitions only; the proofs are in Registry/Proofs.v. *)
From DJC Require Import Lib.Base.
From DJC Require Gen.C15.

(* ---------- ordered dictionaries keyed by strings ---------- *)
Section SMap.
  Context {V : Type}.

  Fixpoint slookup (k : str) (l : list (str * V)) : option V :=
    match l with
    | [] => None
    | (k', v) :: r => if str_eqb k k' then Some v else slookup k r
    end.

  (* d[k] = v *)
  Fixpoint sset (k : str) (v : V) (l : list (str * V)) : list (str * V) :=
    match l with
    | [] => [(k, v)]
    | (k', v') :: r => if str_eqb k k' then (k', v) :: r else (k', v') :: sset k v r
    end.

  (* del d[k]  (the caller has checked that k is present) *)
  Fixpoint sdel (k : str) (l : list (str * V)) : list (str * V) :=
    match l with
    | [] => []
    | (k', v') :: r => if str_eqb k k' then sdel k r else (k', v') :: sdel k r
    end.

  Definition smem (k : str) (l : list (str * V)) : bool :=
    match slookup k l with Some _ => true | None => false end.

  Definition skeys (l : list (str * V)) : list str := map fst l.
End SMap.

(* ---------- Python sets of strings / `x in list` ---------- *)
Fixpoint nmem (x : str) (l : list str) : bool :=
  match l with
  | [] => false
  | y :: r => str_eqb x y || nmem x r
  end.

Definition nadd (x : str) (l : list str) : list str := if nmem x l then l else l ++ [x].

Fixpoint nremove (x : str) (l : list str) : list str :=
  match l with
  | [] => []
  | y :: r => if str_eqb x y then nremove x r else y :: nremove x r
  end.

(* ---------- state ---------- *)
Inductive owner := OBuiltin | OComp (rid : N).

Record rstate := { reg : list (str * ((N * N) * str)); tgs : list (str * list str) }.
Record lib := { ltags : list (str * owner); prot : list str }.

Definition rempty : rstate := {| reg := []; tgs := [] |}.

Inductive err :=
  EAlreadyRegistered | ENotRegistered | EValueError | ETagProtected | EKeyError | ENoSuchRegistry | EOther.

Inductive out := RNone | RCls (c : N * N) | RAll (d : list (str * (N * N))) | RErr (e : err).

(* OProtect ps = library.mark_protected_tags(the registry's Library, ps): the protected list is STATE of the Library and
   may be replaced at any point of a history (`tags=None` is the list PROTECTED_TAGS, written out by the caller) *)
Inductive op :=
  ORegister (n : str) (c : N * N) | OUnregister (n : str) | OClear | OGet (n : str) | OAll | OProtect (ps : list str).

(* the two components of a class: what `register` compares, and which object `get` hands back *)
Definition cls_hash (c : N * N) : N := fst c.
Definition cls_obj (c : N * N) : N := snd c.

(* `existing.cls._class_hash != component._class_hash` *)
Definition same_class (a b : N * N) : bool := N.eqb (fst a) (fst b).

(* registry.all() *)
Definition contents (r : rstate) : list (str * (N * N)) :=
  map (fun e => (fst e, fst (snd e))) (reg r).

(* ComponentRegistry.unregister *)
Definition unregister (n : str) (r : rstate) (l : lib) : rstate * lib * out :=
  match slookup n (reg r) with
  | None => (r, l, RErr ENotRegistered)                        (* self.get(name) *)
  | Some (_, t) =>
      match slookup t (tgs r) with
      | None => (r, l, RErr EKeyError)                         (* self._tags[tag] *)
      | Some ns =>
          if negb (nmem n ns) then (r, l, RErr EKeyError)      (* set.remove(name) *)
          else
            let ns' := nremove n ns in
            let empty := match ns' with [] => true | _ :: _ => false end in
            let tgs' := if empty then sdel t (tgs r) else sset t ns' (tgs r) in
            let l' := if negb (nmem t (prot l)) && empty && smem t (ltags l)
                      then {| ltags := sdel t (ltags l); prot := prot l |}
                      else l in
            ({| reg := sdel n (reg r); tgs := tgs' |}, l', RNone)
      end
  end.

(* the loop of ComponentRegistry.clear: an exception leaves the loop with the state reached so far *)
Fixpoint unregister_all (ns : list str) (r : rstate) (l : lib) : rstate * lib * option err :=
  match ns with
  | [] => (r, l, None)
  | n :: rest =>
      match unregister n r l with
      | (r', l', RErr e) => (r', l', Some e)
      | (r', l', _) => unregister_all rest r' l'
      end
  end.

Definition clear (r : rstate) (l : lib) : rstate * lib * out :=
  match unregister_all (skeys (reg r)) r l with
  | (r', l', Some e) => (r', l', RErr e)
  | (_, l', None) => (rempty, l', RNone)                       (* self._registry = {}; self._tags = {} *)
  end.

Definition get (n : str) (r : rstate) : out :=
  match slookup n (reg r) with
  | None => RErr ENotRegistered
  | Some (c, _) => RCls c
  end.

Section Registry.
  (* rid: identity of this registry (captured by its tag functions);
     fmt: InternalTagFormatter.start_tag, None = ValueError from _validate_tag *)
  Context (rid : N) (fmt : str -> option str).

  (* ComponentRegistry.register + _register_to_library + library.register_tag *)
  Definition register (n : str) (c : N * N) (r : rstate) (l : lib) : rstate * lib * out :=
    let go :=
      match fmt n with
      | None => (r, l, RErr EValueError)
      | Some t =>
          if nmem t (prot l) then (r, l, RErr ETagProtected)
          else
            let ns := match slookup t (tgs r) with Some ns => ns | None => [] end in
            ({| reg := sset n (c, t) (reg r); tgs := sset t (nadd n ns) (tgs r) |},
             {| ltags := sset t (OComp rid) (ltags l); prot := prot l |},
             RNone)
      end in
    match slookup n (reg r) with
    | Some (c', _) => if same_class c' c then go else (r, l, RErr EAlreadyRegistered)
    | None => go
    end.

  Definition step (r : rstate) (l : lib) (o : op) : rstate * lib * out :=
    match o with
    | ORegister n c => register n c r l
    | OUnregister n => unregister n r l
    | OClear => clear r l
    | OGet n => (r, l, get n r)
    | OAll => (r, l, RAll (contents r))
    | OProtect ps => (r, {| ltags := ltags l; prot := ps |}, RNone)       (* lib._protected_tags = [*tags] *)
    end.

  Fixpoint run (r : rstate) (l : lib) (ops : list op) : rstate * lib * list out :=
    match ops with
    | [] => (r, l, [])
    | o :: rest =>
        let '(r1, l1, x) := step r l o in
        let '(r2, l2, xs) := run r1 l1 rest in
        (r2, l2, x :: xs)
    end.

  (* some registered component uses tag t *)
  Definition tag_used (r : rstate) (t : str) : bool :=
    existsb (fun n => match slookup n (reg r) with Some (_, t') => str_eqb t t' | None => false end) (skeys (reg r)).

  (* A history is DISCIPLINED when it never marks a tag as protected while a registered component uses that tag
     (protecting the tag of a live component is the one way to leave its tag function behind: unregister then
     refuses to delete it). *)
  Definition protect_ok (r : rstate) (o : op) : bool :=
    match o with OProtect ps => negb (existsb (tag_used r) ps) | _ => true end.

  Fixpoint disciplined (r : rstate) (l : lib) (ops : list op) : bool :=
    match ops with
    | [] => true
    | o :: rest => protect_ok r o && (let '(r1, l1, _) := step r l o in disciplined r1 l1 rest)
    end.

  (* ---------- specification: a plain dictionary (and the current protected list) driven by the same calls ---------- *)
  Notation dstate := (list str * list (str * (N * N)))%type (only parsing).

  Definition dict_step (s : dstate) (o : op) : dstate * out :=
    let '(ps, d) := s in
    match o with
    | ORegister n c =>
        let go := match fmt n with
                  | None => (s, RErr EValueError)
                  | Some t => if nmem t ps then (s, RErr ETagProtected) else ((ps, sset n c d), RNone)
                  end in
        match slookup n d with
        | Some c' => if same_class c' c then go else (s, RErr EAlreadyRegistered)
        | None => go
        end
    | OUnregister n =>
        match slookup n d with None => (s, RErr ENotRegistered) | Some _ => ((ps, sdel n d), RNone) end
    | OClear => ((ps, []), RNone)
    | OGet n => (s, match slookup n d with None => RErr ENotRegistered | Some c => RCls c end)
    | OAll => (s, RAll d)
    | OProtect ps' => ((ps', d), RNone)
    end.

  Fixpoint dict_run (s : dstate) (ops : list op) : dstate * list out :=
    match ops with
    | [] => (s, [])
    | o :: rest =>
        let '(s1, x) := dict_step s o in
        let '(s2, xs) := dict_run s1 rest in
        (s2, x :: xs)
    end.
End Registry.

(* ---------- any number of registries and libraries ---------- *)
Record wreg := { wlib : nat; wfmt : str -> option str; wst : rstate }.
Record world := { wlibs : list lib; wregs : list wreg }.

Inductive wop := WOp (i : nat) (o : op).

Fixpoint upd {A} (i : nat) (x : A) (l : list A) : list A :=
  match l, i with
  | [], _ => []
  | _ :: r, O => x :: r
  | y :: r, S j => y :: upd j x r
  end.

(* registry number i has identity N.of_nat i *)
Definition wstep (w : world) (x : wop) : world * out :=
  let '(WOp i o) := x in
  match nth_error (wregs w) i with
  | None => (w, RErr ENoSuchRegistry)
  | Some rg =>
      match nth_error (wlibs w) (wlib rg) with
      | None => (w, RErr ENoSuchRegistry)
      | Some l =>
          let '(r', l', y) := step (N.of_nat i) (wfmt rg) (wst rg) l o in
          ({| wlibs := upd (wlib rg) l' (wlibs w);
              wregs := upd i {| wlib := wlib rg; wfmt := wfmt rg; wst := r' |} (wregs w) |}, y)
      end
  end.

Fixpoint wrun (w : world) (ops : list wop) : world * list out :=
  match ops with
  | [] => (w, [])
  | x :: rest =>
      let '(w1, y) := wstep w x in
      let '(w2, ys) := wrun w1 rest in
      (w2, y :: ys)
  end.

(* the calls addressed to registry i, and their results *)
Fixpoint project (i : nat) (ops : list wop) : list op :=
  match ops with
  | [] => []
  | WOp j o :: rest => if Nat.eqb i j then o :: project i rest else project i rest
  end.

Fixpoint project_outs (i : nat) (ops : list wop) (outs : list out) : list out :=
  match ops, outs with
  | WOp j _ :: rest, y :: ys => if Nat.eqb i j then y :: project_outs i rest ys else project_outs i rest ys
  | _, _ => []
  end.

(* ---------- the tag formatters ---------- *)
(* TAG_CHARS = r"\w\-\:\@\.\#/".  Below code point 128 the class is written out by hand (anchored to the
   pattern string in Props/C15.v).  Python's \w is Unicode-aware: from 128 on the class is the table
   Gen.C15.tag_ranges_hi = the code points c >= 128 for which TAG_RE itself accepts the one-character tag chr(c)
   (harness/gen_c15.py probes the compiled TAG_RE of /repo on every run; inclusive ranges). *)
Definition is_word (c : N) : bool :=
  (N.leb 48 c && N.leb c 57) || (N.leb 65 c && N.leb c 90) || (N.leb 97 c && N.leb c 122) || N.eqb c 95.

Fixpoint in_ranges (c : N) (rs : list (N * N)) : bool :=
  match rs with
  | [] => false
  | (lo, hi) :: r => (N.leb lo c && N.leb c hi) || in_ranges c r
  end.

Definition tag_char (c : N) : bool :=
  if N.ltb c 128
  then is_word c || N.eqb c 45 || N.eqb c 58 || N.eqb c 64 || N.eqb c 46 || N.eqb c 35 || N.eqb c 47
  else in_ranges c Gen.C15.tag_ranges_hi.

(* InternalTagFormatter._validate_tag: `not tag` or `not TAG_RE.match(tag)` => ValueError.
   TAG_RE = ^[chars]+$ ; `$` also matches just before a final newline. *)
Definition valid_tag (s : str) : bool :=
  let body := match rev s with 10%N :: b => rev b | _ => s end in
  match body with
  | [] => false
  | _ :: _ => forallb tag_char body
  end.

Inductive fmtspec :=
  | FComponent (t : str)      (* ComponentFormatter(t): start_tag(name) = t *)
  | FShorthand                (* ShorthandComponentFormatter: start_tag(name) = name *)
  | FPrefix (p : str).        (* a user TagFormatterABC: start_tag(name) = p + name *)

Definition fmt_of (f : fmtspec) (n : str) : option str :=
  let t := match f with FComponent t => t | FShorthand => n | FPrefix p => p ++ n end in
  if valid_tag t then Some t else None.

(* ---------- correspondence cases ---------- *)
Definition is_builtin (o : owner) : bool := match o with OBuiltin => true | OComp _ => false end.

(* set(library.tags) with, per tag, whether it still is the function that was there at the start *)
Definition obs_lib (l : lib) : list (str * bool) := map (fun e => (fst e, is_builtin (snd e))) (ltags l).

Definition cls_eqb (a b : N * N) : bool := pair_eqb N.eqb N.eqb a b.

Section AssocEquiv.
  Context {V : Type} (veqb : V -> V -> bool).
  Definition assoc_sub (a b : list (str * V)) : bool :=
    forallb (fun e => match slookup (fst e) b with Some v => veqb (snd e) v | None => false end) a.
  (* equal as dictionaries (the order of a Python dict is not compared) *)
  Definition assoc_equiv (a b : list (str * V)) : bool :=
    Nat.eqb (length a) (length b) && assoc_sub a b && assoc_sub b a.
End AssocEquiv.

Definition err_eqb (a b : err) : bool :=
  match a, b with
  | EAlreadyRegistered, EAlreadyRegistered | ENotRegistered, ENotRegistered | EValueError, EValueError
  | ETagProtected, ETagProtected | EKeyError, EKeyError | ENoSuchRegistry, ENoSuchRegistry => true
  | _, _ => false                                  (* EOther (an unexpected exception class) equals nothing *)
  end.

Definition out_eqb (a b : out) : bool :=
  match a, b with
  | RNone, RNone => true
  | RCls x, RCls y => cls_eqb x y
  | RAll x, RAll y => assoc_equiv cls_eqb x y
  | RErr x, RErr y => err_eqb x y
  | _, _ => false
  end.

(* a library at creation: the tags it already has, and the argument of mark_protected_tags ([] = not called) *)
Notation libspec := (list str * list str)%type (only parsing).
(* a registry at creation: index of its library, formatter *)
Notation regspec := (nat * fmtspec)%type (only parsing).
Definition mk_world (ls : list libspec) (rs : list regspec) : world :=
  {| wlibs := map (fun s => {| ltags := map (fun t => (t, OBuiltin)) (fst s); prot := snd s |}) ls;
     wregs := map (fun s => {| wlib := fst s; wfmt := fmt_of (snd s); wst := rempty |}) rs |}.

(* ---------- correspondence cases, tree form ----------
   All histories over an alphabet share their prefixes: a forest of calls, each node carrying what was observed
   after the call (its result, all() of EVERY registry, the tag table of EVERY library).  The model state is
   threaded down the tree, so a node costs one `wstep`.  Registry/Proofs.v (check_forest_paths) shows that
   checking a forest is checking every root-to-node history call by call. *)
Notation wobs := (out * list (list (str * (N * N))) * list (list (str * bool)))%type (only parsing).

Definition observe (w : world) (y : out) : wobs :=
  (y, map (fun rg => contents (wst rg)) (wregs w), map obs_lib (wlibs w)).

Definition wobs_eqb (a b : wobs) : bool :=
  out_eqb (fst (fst a)) (fst (fst b))
  && list_eqb (assoc_equiv cls_eqb) (snd (fst a)) (snd (fst b))
  && list_eqb (assoc_equiv Bool.eqb) (snd a) (snd b).

Inductive otree := K (o : wop) (q : wobs) (kids : oforest)
with oforest := FN | FC (t : otree) (f : oforest).

Fixpoint check_tree (w : world) (t : otree) : bool :=
  match t with
  | K o q kids => let '(w1, y) := wstep w o in wobs_eqb q (observe w1 y) && check_forest w1 kids
  end
with check_forest (w : world) (f : oforest) : bool :=
  match f with
  | FN => true
  | FC t f' => check_tree w t && check_forest w f'
  end.

(* one history with its observations, call by call *)
Fixpoint check_path (w : world) (p : list (wop * wobs)) : bool :=
  match p with
  | [] => true
  | (o, q) :: r => let '(w1, y) := wstep w o in wobs_eqb q (observe w1 y) && check_path w1 r
  end.

Fixpoint tree_paths (t : otree) : list (list (wop * wobs)) :=
  match t with
  | K o q kids => [(o, q)] :: map (cons (o, q)) (forest_paths kids)
  end
with forest_paths (f : oforest) : list (list (wop * wobs)) :=
  match f with
  | FN => []
  | FC t f' => tree_paths t ++ forest_paths f'
  end.

Notation tree_case := (list libspec * list regspec * oforest)%type (only parsing).
Notation path_case := (list libspec * list regspec * list (wop * wobs))%type (only parsing).

(* one history (random long ones; locating the shortest disagreeing history inside a refused forest) *)
Definition check_path_case (c : path_case) : bool :=
  let '(ls, rs, p) := c in check_path (mk_world ls rs) p.

Definition check_forest_case (c : tree_case) : bool :=
  let '(ls, rs, f) := c in check_forest (mk_world ls rs) f.

(* matcher-level differential: (string, what InternalTagFormatter._validate_tag decided) *)
Definition check_valid (c : str * bool) : bool := Bool.eqb (valid_tag (fst c)) (snd c).
