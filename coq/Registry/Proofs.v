From DJC Require Import Lib.Base Registry.Model.

(* ---------- strings ---------- *)
Lemma str_eqb_spec a b : reflect (a = b) (str_eqb a b).
Proof.
  destruct (str_eqb a b) eqn:E; constructor.
  - apply str_eqb_eq; assumption.
  - intro H. apply str_eqb_eq in H. congruence.
Qed.

Lemma str_eq_dec (a b : str) : {a = b} + {a <> b}.
Proof. destruct (str_eqb_spec a b); [left | right]; assumption. Qed.

(* ---------- ordered dictionaries ---------- *)
Section SMapFacts.
  Context {V : Type}.
  Implicit Types (l : list (str * V)).

  Lemma slookup_sset_same k v l : slookup k (sset k v l) = Some v.
  Proof.
    induction l as [|[k' v'] l IH]; simpl.
    - rewrite str_eqb_refl. reflexivity.
    - destruct (str_eqb_spec k k') as [E|E]; simpl.
      + subst. rewrite str_eqb_refl. reflexivity.
      + destruct (str_eqb_spec k k'); [contradiction | exact IH].
  Qed.

  Lemma slookup_sset_other x k v l : x <> k -> slookup x (sset k v l) = slookup x l.
  Proof.
    intro Hx. induction l as [|[k' v'] l IH]; simpl.
    - destruct (str_eqb_spec x k); [contradiction | reflexivity].
    - destruct (str_eqb_spec k k') as [E|E]; simpl.
      + subst. destruct (str_eqb_spec x k'); [contradiction | reflexivity].
      + destruct (str_eqb_spec x k'); [reflexivity | exact IH].
  Qed.

  Lemma slookup_sdel_same k l : slookup k (sdel k l) = None.
  Proof.
    induction l as [|[k' v'] l IH]; simpl; [reflexivity|].
    destruct (str_eqb_spec k k') as [E|E]; simpl; [exact IH|].
    destruct (str_eqb_spec k k'); [contradiction | exact IH].
  Qed.

  Lemma slookup_sdel_other x k l : x <> k -> slookup x (sdel k l) = slookup x l.
  Proof.
    intro Hx. induction l as [|[k' v'] l IH]; simpl; [reflexivity|].
    destruct (str_eqb_spec k k') as [E|E]; simpl.
    - subst. destruct (str_eqb_spec x k'); [contradiction | exact IH].
    - destruct (str_eqb_spec x k'); [reflexivity | exact IH].
  Qed.

  (* d[k] = v when d[k] already is v changes nothing, not even the order *)
  Lemma sset_same_id k v l : slookup k l = Some v -> sset k v l = l.
  Proof.
    induction l as [|[k' v'] l IH]; simpl; [discriminate|].
    destruct (str_eqb_spec k k') as [E|E]; intro H.
    - congruence.
    - rewrite IH; auto.
  Qed.

  Lemma slookup_in_keys k l v : slookup k l = Some v -> In k (skeys l).
  Proof.
    induction l as [|[k' v'] l IH]; simpl; [discriminate|].
    destruct (str_eqb_spec k k'); intro H; [left; congruence | right; auto].
  Qed.

  Lemma slookup_none_keys k l : slookup k l = None <-> ~ In k (skeys l).
  Proof.
    induction l as [|[k' v'] l IH]; simpl; [tauto|].
    destruct (str_eqb_spec k k'); split; intro H; try discriminate.
    - exfalso; apply H; left; congruence.
    - intros [E|E]; [congruence | apply IH in H; auto].
    - apply IH. intro; apply H; auto.
  Qed.

  Lemma in_keys_slookup k l : In k (skeys l) -> exists v, slookup k l = Some v.
  Proof.
    intro H. destruct (slookup k l) eqn:E; [eauto|].
    apply slookup_none_keys in E. contradiction.
  Qed.

  Lemma skeys_sset_in x k v l : In x (skeys (sset k v l)) <-> x = k \/ In x (skeys l).
  Proof.
    induction l as [|[k' v'] l IH]; simpl.
    - split; [intros [H|[]]; auto | intros [H|[]]; auto].
    - destruct (str_eqb_spec k k') as [E|E]; simpl.
      + subst. intuition congruence.
      + rewrite IH. intuition congruence.
  Qed.

  Lemma skeys_sset_nodup k v l : NoDup (skeys l) -> NoDup (skeys (sset k v l)).
  Proof.
    induction l as [|[k' v'] l IH]; simpl; intro H.
    - constructor; [simpl; tauto | constructor].
    - inversion H; subst. destruct (str_eqb_spec k k') as [E|E]; simpl.
      + constructor; assumption.
      + constructor; [|apply IH; assumption].
        intro Hin. apply skeys_sset_in in Hin. destruct Hin; [congruence | contradiction].
  Qed.

  Lemma skeys_sdel_in x k l : In x (skeys (sdel k l)) <-> In x (skeys l) /\ x <> k.
  Proof.
    induction l as [|[k' v'] l IH]; simpl; [tauto|].
    destruct (str_eqb_spec k k') as [E|E]; simpl; rewrite IH; split.
    - intros [H1 H2]; auto.
    - intros [[H|H] H2]; [subst; congruence | auto].
    - intros [H|[H1 H2]]; [subst; auto | auto].
    - intros [[H|H] H2]; auto.
  Qed.

  Lemma skeys_sdel_nodup k l : NoDup (skeys l) -> NoDup (skeys (sdel k l)).
  Proof.
    induction l as [|[k' v'] l IH]; simpl; intro H; [constructor|].
    inversion H; subst. destruct (str_eqb_spec k k'); simpl; auto.
    constructor; auto. rewrite skeys_sdel_in. tauto.
  Qed.

  Lemma all_none_nil l : (forall k, slookup k l = None) -> l = [].
  Proof.
    destruct l as [|[k v] l]; [reflexivity|]. intro H. specialize (H k). simpl in H.
    rewrite str_eqb_refl in H. discriminate.
  Qed.
End SMapFacts.

Section SMapMap.
  Context {V W : Type} (f : V -> W).
  Definition smap (l : list (str * V)) : list (str * W) := map (fun e => (fst e, f (snd e))) l.

  Lemma smap_sset k v l : smap (sset k v l) = sset k (f v) (smap l).
  Proof.
    induction l as [|[k' v'] l IH]; simpl; [reflexivity|].
    destruct (str_eqb k k'); simpl; [reflexivity | rewrite IH; reflexivity].
  Qed.

  Lemma smap_sdel k l : smap (sdel k l) = sdel k (smap l).
  Proof.
    induction l as [|[k' v'] l IH]; simpl; [reflexivity|].
    destruct (str_eqb k k'); simpl; [exact IH | rewrite IH; reflexivity].
  Qed.

  Lemma slookup_smap k l : slookup k (smap l) = option_map f (slookup k l).
  Proof.
    induction l as [|[k' v'] l IH]; simpl; [reflexivity|].
    destruct (str_eqb k k'); simpl; [reflexivity | exact IH].
  Qed.
End SMapMap.

(* ---------- sets of names ---------- *)
Lemma nmem_In x l : nmem x l = true <-> In x l.
Proof.
  induction l as [|y l IH]; simpl; [split; [discriminate | tauto]|].
  destruct (str_eqb_spec x y); simpl.
  - split; auto.
  - rewrite IH. split; [auto | intros [H|H]; [congruence | assumption]].
Qed.

Lemma nmem_false x l : nmem x l = false <-> ~ In x l.
Proof. rewrite <- nmem_In. destruct (nmem x l); split; congruence. Qed.

Lemma nadd_In y x l : In y (nadd x l) <-> y = x \/ In y l.
Proof.
  unfold nadd. destruct (nmem x l) eqn:E.
  - apply nmem_In in E. split; [auto | intros [H|H]; [subst; assumption | assumption]].
  - rewrite in_app_iff. simpl. split; [intros [H|[H|[]]]; auto | intros [H|H]; auto].
Qed.

Lemma nodup_snoc (x : str) l : NoDup l -> ~ In x l -> NoDup (l ++ [x]).
Proof.
  induction l as [|y l IH]; simpl; intros H E.
  - constructor; [simpl; tauto | constructor].
  - inversion H; subst. constructor.
    + rewrite in_app_iff. simpl. intros [H1|[H1|[]]]; [contradiction|]. subst. apply E. left. reflexivity.
    + apply IH; [assumption|]. intro H1. apply E. right. assumption.
Qed.

Lemma nadd_nodup x l : NoDup l -> NoDup (nadd x l).
Proof.
  unfold nadd. destruct (nmem x l) eqn:E; [auto|]. intro H. apply nmem_false in E.
  apply nodup_snoc; assumption.
Qed.

Lemma nadd_same x l : In x l -> nadd x l = l.
Proof. intro H. unfold nadd. apply nmem_In in H. rewrite H. reflexivity. Qed.

Lemma nremove_In y x l : In y (nremove x l) <-> In y l /\ y <> x.
Proof.
  induction l as [|z l IH]; simpl; [tauto|].
  destruct (str_eqb_spec x z) as [E|E]; simpl; rewrite IH; split.
  - intros [H1 H2]; auto.
  - intros [[H|H] H2]; [subst; congruence | auto].
  - intros [H|[H1 H2]]; [subst; auto | auto].
  - intros [[H|H] H2]; auto.
Qed.

Lemma nremove_nodup x l : NoDup l -> NoDup (nremove x l).
Proof.
  induction l as [|z l IH]; simpl; intro H; [constructor|].
  inversion H; subst. destruct (str_eqb_spec x z); auto.
  constructor; auto. rewrite nremove_In. tauto.
Qed.

(* ---------- specification predicates ---------- *)
(* component `n` is registered and its template tag is `t` *)
Definition uses (r : rstate) (n t : str) : Prop := exists c, slookup n (reg r) = Some (c, t).

(* `_tags` is exactly the inverse image of `_registry` (no empty sets, no stale names) *)
Definition tags_consistent (r : rstate) : Prop :=
  forall t, match slookup t (tgs r) with
            | Some ns => ns <> [] /\ NoDup ns /\ forall n, In n ns <-> uses r n t
            | None => forall n, ~ uses r n t
            end.

(* a library handed to registry `rid` holds no tag function of that registry yet *)
Definition lib_foreign (rid : N) (l0 : lib) : Prop := forall t, slookup t (ltags l0) <> Some (OComp rid).

Lemma owner_eq_dec (a b : owner) : {a = b} + {a <> b}.
Proof. decide equality. apply N.eq_dec. Qed.

Lemma uses_fun r n t t' : uses r n t -> uses r n t' -> t = t'.
Proof. intros [c H] [c' H']. congruence. Qed.

Lemma slookup_sdel_some {V} x k (l : list (str * V)) v : slookup x (sdel k l) = Some v -> x <> k /\ slookup x l = Some v.
Proof.
  intro H. destruct (str_eq_dec x k) as [E|E].
  - subst. rewrite slookup_sdel_same in H. discriminate.
  - rewrite slookup_sdel_other in H by assumption. auto.
Qed.

Lemma tag_used_uses r t : tag_used r t = true <-> exists n, uses r n t.
Proof.
  unfold tag_used, uses. rewrite existsb_exists. split.
  - intros (n & _ & H). destruct (slookup n (reg r)) as [[c t']|] eqn:E; [|discriminate].
    apply str_eqb_eq in H. subst. eauto.
  - intros (n & c & H). exists n. split; [eapply slookup_in_keys; eassumption|]. rewrite H. apply str_eqb_refl.
Qed.

Lemma protect_ok_spec r ps : protect_ok r (OProtect ps) = true <-> forall t, In t ps -> forall n, ~ uses r n t.
Proof.
  unfold protect_ok. rewrite negb_true_iff. split.
  - intros H t Ht n Hn. assert (X : existsb (tag_used r) ps = true).
    { apply existsb_exists. exists t. split; [assumption|]. apply tag_used_uses. eauto. }
    congruence.
  - intro H. destruct (existsb (tag_used r) ps) eqn:E; [|reflexivity].
    apply existsb_exists in E. destruct E as (t & Ht & Hu). apply tag_used_uses in Hu. destruct Hu as [n Hn].
    destruct (H t Ht n Hn).
Qed.

(* ---------- the invariants of one registry on its library ---------- *)
Section Inv.
  Context (rid : N) (fmt : str -> option str) (l0 : lib).

  (* holds after EVERY history (the protected list may change at any time) *)
  Record ginv (r : rstate) (l : lib) : Prop := {
    g_nodup : NoDup (skeys (reg r));
    g_tags : tags_consistent r;
    g_fmt : forall n c t, slookup n (reg r) = Some (c, t) -> fmt n = Some t;
    g_used : forall n t, uses r n t -> slookup t (ltags l) = Some (OComp rid);
    g_other : forall t o, slookup t (ltags l) = Some o -> o <> OComp rid -> slookup t (ltags l0) = Some o
  }.

  (* holds in addition after every DISCIPLINED history (no tag is marked protected while a component uses it) *)
  Record dinv (r : rstate) (l : lib) : Prop := {
    d_unprot : forall n t, uses r n t -> nmem t (prot l) = false;
    d_owned : forall t, slookup t (ltags l) = Some (OComp rid) ->
              (exists n, uses r n t) \/ slookup t (ltags l0) = Some (OComp rid)
  }.

  Lemma ginv_init : ginv rempty l0.
  Proof.
    constructor; simpl; try (intros; discriminate); auto.
    - constructor.
    - intros t. simpl. intros n [c H]. discriminate.
    - intros n t [c H]. discriminate.
  Qed.

  Lemma dinv_init : dinv rempty l0.
  Proof. constructor; [intros n t [c H]; discriminate | auto]. Qed.

  (* --- register --- *)
  Section RegisterOk.
    Context (n : str) (c : N * N) (t : str) (r : rstate) (l : lib) (I : ginv r l) (Hf : fmt n = Some t).
    Let ns := match slookup t (tgs r) with Some ns => ns | None => [] end.
    Let r' := {| reg := sset n (c, t) (reg r); tgs := sset t (nadd n ns) (tgs r) |}.
    Let l' := {| ltags := sset t (OComp rid) (ltags l); prot := prot l |}.

    Lemma reg_uses : forall x t1, uses r' x t1 <-> (x = n /\ t1 = t) \/ uses r x t1.
    Proof.
      assert (Hold : forall t1, uses r n t1 -> t1 = t).
      { intros t1 [c1 H1]. apply (g_fmt _ _ I) in H1. congruence. }
      intros x t1. unfold uses, r'. simpl. destruct (str_eq_dec x n) as [E|E].
      - subst x. rewrite slookup_sset_same. split.
        + intros [c1 H1]. left. split; congruence.
        + intros [[_ H1]|H1]; [|apply Hold in H1]; subst t1; eauto.
      - rewrite slookup_sset_other by assumption. split; [auto | intros [[H1 _]|H1]; [contradiction | assumption]].
    Qed.

    Lemma register_ok_ginv : ginv r' l'.
    Proof.
      pose proof reg_uses as Hu.
      assert (Hns : NoDup ns /\ forall x, In x ns <-> uses r x t).
      { pose proof (g_tags _ _ I t) as Ht. unfold ns. destruct (slookup t (tgs r)) as [ns0|].
        - tauto.
        - split; [constructor|]. intro x. simpl. split; [tauto | apply Ht]. }
      destruct Hns as [Hnd Hin].
      constructor.
      - simpl. apply skeys_sset_nodup. apply (g_nodup _ _ I).
      - intro t1. simpl tgs. destruct (str_eq_dec t1 t) as [E|E].
        + subst t1. rewrite slookup_sset_same. split; [|split].
          * intro H. assert (In n (nadd n ns)) by (apply nadd_In; auto). rewrite H in H0. destruct H0.
          * apply nadd_nodup. assumption.
          * intro x. rewrite nadd_In, Hu, Hin. tauto.
        + rewrite slookup_sset_other by assumption.
          pose proof (g_tags _ _ I t1) as Ht. destruct (slookup t1 (tgs r)) as [ns1|].
          * destruct Ht as (H1 & H2 & H3). split; [assumption | split; [assumption|]].
            intro x. rewrite H3, Hu. tauto.
          * intros x Hx. apply Hu in Hx. destruct Hx as [[_ Hx]|Hx]; [contradiction | exact (Ht x Hx)].
      - intros x c1 t1. simpl. destruct (str_eq_dec x n) as [E|E].
        + subst x. rewrite slookup_sset_same. congruence.
        + rewrite slookup_sset_other by assumption. apply (g_fmt _ _ I).
      - intros x t1 Hx. apply Hu in Hx. simpl ltags. destruct Hx as [[_ Hx]|Hx].
        + subst t1. apply slookup_sset_same.
        + pose proof (g_used _ _ I _ _ Hx) as H1.
          destruct (str_eq_dec t1 t) as [E|E]; [subst; apply slookup_sset_same|].
          rewrite slookup_sset_other; assumption.
      - intros t1 o. simpl ltags. destruct (str_eq_dec t1 t) as [E|E].
        + subst t1. rewrite slookup_sset_same. congruence.
        + rewrite slookup_sset_other by assumption. apply (g_other _ _ I).
    Qed.

    Lemma register_ok_dinv : dinv r l -> nmem t (prot l) = false -> dinv r' l'.
    Proof.
      intros D Hp. pose proof reg_uses as Hu. constructor.
      - intros x t1 Hx. apply Hu in Hx. simpl prot. destruct Hx as [[_ Hx]|Hx]; [subst; assumption|].
        apply (d_unprot _ _ D _ _ Hx).
      - intros t1. simpl ltags. destruct (str_eq_dec t1 t) as [E|E].
        + subst t1. intros _. left. exists n. apply Hu. auto.
        + rewrite slookup_sset_other by assumption. intro H. destruct (d_owned _ _ D _ H) as [[x Hx]|Hx]; [|auto].
          left. exists x. apply Hu. auto.
    Qed.
  End RegisterOk.

  Lemma register_inv n c r l r' l' x :
    ginv r l -> register rid fmt n c r l = (r', l', x) -> ginv r' l' /\ (dinv r l -> dinv r' l').
  Proof.
    intros I. unfold register.
    assert (G : match fmt n with
                | None => (r, l, RErr EValueError)
                | Some t =>
                    if nmem t (prot l) then (r, l, RErr ETagProtected)
                    else
                      ({| reg := sset n (c, t) (reg r);
                          tgs := sset t (nadd n match slookup t (tgs r) with Some ns => ns | None => [] end) (tgs r) |},
                       {| ltags := sset t (OComp rid) (ltags l); prot := prot l |}, RNone)
                end = (r', l', x) -> ginv r' l' /\ (dinv r l -> dinv r' l')).
    { destruct (fmt n) as [t|] eqn:Hf; [|intro H; inversion H; subst; auto].
      destruct (nmem t (prot l)) eqn:Hp; intro H; inversion H; subst; [auto|].
      split; [apply register_ok_ginv; assumption | intro D; apply register_ok_dinv; assumption]. }
    destruct (slookup n (reg r)) as [[c' t']|]; [|exact G].
    destruct (same_class c' c); [exact G|]. intro H; inversion H; subst; auto.
  Qed.

  (* --- unregister --- *)
  Lemma unregister_spec n c t r l :
    ginv r l -> slookup n (reg r) = Some (c, t) ->
    exists r' l', unregister n r l = (r', l', RNone) /\ reg r' = sdel n (reg r) /\ prot l' = prot l /\
                  ginv r' l' /\ (dinv r l -> dinv r' l').
  Proof.
    intros I Hn. unfold unregister. rewrite Hn.
    assert (Hun : uses r n t) by (exists c; assumption).
    pose proof (g_tags _ _ I t) as Ht.
    destruct (slookup t (tgs r)) as [ns|] eqn:Hns; [|exfalso; exact (Ht n Hun)].
    destruct Ht as (Hne & Hnd & Hin).
    assert (Hmem : nmem n ns = true) by (apply nmem_In, Hin; assumption).
    rewrite Hmem. simpl negb. cbv iota.
    pose proof (g_used _ _ I _ _ Hun) as Hl.
    unfold smem. rewrite Hl. rewrite andb_true_r.
    set (ns' := nremove n ns).
    set (emp := match ns' with [] => true | _ :: _ => false end).
    set (r' := {| reg := sdel n (reg r); tgs := if emp then sdel t (tgs r) else sset t ns' (tgs r) |}).
    set (del := negb (nmem t (prot l)) && emp).
    set (l' := if del then {| ltags := sdel t (ltags l); prot := prot l |} else l).
    assert (Hu : forall x t1, uses r' x t1 <-> x <> n /\ uses r x t1).
    { intros x t1. unfold uses, r'. simpl. destruct (str_eq_dec x n) as [E|E].
      - subst x. rewrite slookup_sdel_same. split; [intros [c1 H1]; discriminate | tauto].
      - rewrite slookup_sdel_other by assumption. tauto. }
    assert (Hu' : forall x t1, t1 <> t -> (uses r' x t1 <-> uses r x t1)).
    { intros x t1 E. rewrite Hu. split; [tauto|]. intro H. split; [|assumption].
      intro. subst x. apply E. eapply uses_fun; eassumption. }
    assert (Hin' : forall x, In x ns' <-> uses r' x t).
    { intro x. unfold ns'. rewrite nremove_In, Hu, Hin. tauto. }
    assert (Hemp : emp = true -> forall x t1, uses r' x t1 -> t1 <> t).
    { unfold emp. intros He x t1 Hx E. subst t1. apply Hin' in Hx. destruct ns'; [destruct Hx | discriminate]. }
    assert (Hprot : prot l' = prot l) by (unfold l'; destruct del; reflexivity).
    exists r', l'. split; [reflexivity|]. split; [reflexivity|]. split; [exact Hprot|].
    assert (Htags : tags_consistent r').
    { intro t1. destruct (str_eq_dec t1 t) as [E|E].
      - subst t1. unfold r' at 1, emp. simpl tgs. destruct ns' as [|y ns''] eqn:En.
        + rewrite slookup_sdel_same. intros x Hx. apply Hin' in Hx. destruct Hx.
        + rewrite slookup_sset_same. split; [discriminate|]. split; [|exact Hin'].
          rewrite <- En. apply nremove_nodup. assumption.
      - assert (Hl1 : slookup t1 (tgs r') = slookup t1 (tgs r)).
        { unfold r'. simpl. destruct emp; [apply slookup_sdel_other | apply slookup_sset_other]; assumption. }
        rewrite Hl1. pose proof (g_tags _ _ I t1) as Ht1. destruct (slookup t1 (tgs r)) as [ns1|].
        + destruct Ht1 as (H1 & H2 & H3). split; [assumption | split; [assumption|]].
          intro x. rewrite H3. symmetry. apply Hu'. assumption.
        + intros x Hx. apply Hu' in Hx; [|assumption]. exact (Ht1 x Hx). }
    split.
    - constructor.
      + simpl. apply skeys_sdel_nodup, (g_nodup _ _ I).
      + exact Htags.
      + intros x c1 t1 H1. assert (Hx : uses r' x t1) by (exists c1; assumption).
        apply Hu in Hx. destruct Hx as [_ [c2 Hx]]. eapply (g_fmt _ _ I); eassumption.
      + intros x t1 Hx. pose proof (proj2 (proj1 (Hu _ _) Hx)) as Hx0. pose proof (g_used _ _ I _ _ Hx0) as H1.
        unfold l'. destruct del eqn:Ed; [|assumption].
        apply andb_true_iff in Ed. destruct Ed as [_ Ee].
        simpl ltags. rewrite slookup_sdel_other; [assumption | exact (Hemp Ee _ _ Hx)].
      + intros t1 o. unfold l'. destruct del; [|apply (g_other _ _ I)].
        simpl ltags. destruct (str_eq_dec t1 t) as [E|E]; [subst; rewrite slookup_sdel_same; discriminate|].
        rewrite slookup_sdel_other by assumption. apply (g_other _ _ I).
    - intro D. pose proof (d_unprot _ _ D _ _ Hun) as Hp. constructor.
      + intros x t1 Hx. rewrite Hprot. apply Hu in Hx. destruct Hx as [_ Hx]. apply (d_unprot _ _ D _ _ Hx).
      + intros t1 H. unfold l', del in H. rewrite Hp in H. simpl negb in H. rewrite andb_true_l in H.
        destruct (str_eq_dec t1 t) as [E|E].
        * subst t1. unfold emp in H. destruct ns' as [|y ns''] eqn:En.
          -- simpl ltags in H. rewrite slookup_sdel_same in H. discriminate.
          -- left. exists y. apply Hin'. left. reflexivity.
        * assert (H1 : slookup t1 (ltags l) = Some (OComp rid)).
          { destruct emp; [|assumption]. simpl ltags in H. rewrite slookup_sdel_other in H; assumption. }
          destruct (d_owned _ _ D _ H1) as [[x Hx]|Hx]; [|auto]. left. exists x. apply Hu'; assumption.
  Qed.

  Lemma unregister_missing n r l :
    slookup n (reg r) = None -> unregister n r l = (r, l, RErr ENotRegistered).
  Proof. intro H. unfold unregister. rewrite H. reflexivity. Qed.

  Lemma unregister_inv n r l r' l' x :
    ginv r l -> unregister n r l = (r', l', x) -> ginv r' l' /\ (dinv r l -> dinv r' l').
  Proof.
    intros I H. destruct (slookup n (reg r)) as [[c t]|] eqn:E.
    - destruct (unregister_spec _ _ _ _ _ I E) as (r1 & l1 & H1 & _ & _ & I1 & D1).
      assert (r1 = r' /\ l1 = l') as [? ?] by (split; congruence). subst. auto.
    - rewrite (unregister_missing _ _ _ E) in H. inversion H; subst. auto.
  Qed.

  (* --- clear --- *)
  Lemma unregister_all_spec ns : forall r l,
    ginv r l -> NoDup ns -> (forall n, In n ns -> In n (skeys (reg r))) ->
    exists r' l', unregister_all ns r l = (r', l', None) /\ prot l' = prot l /\ ginv r' l' /\ (dinv r l -> dinv r' l') /\
                  forall x, slookup x (reg r') = if nmem x ns then None else slookup x (reg r).
  Proof.
    induction ns as [|n rest IH]; intros r l I Hnd Hin.
    - exists r, l. simpl. auto.
    - inversion Hnd as [|? ? Hn Hrest]; subst.
      destruct (in_keys_slookup n (reg r) (Hin n (or_introl eq_refl))) as [[c t] Hl].
      destruct (unregister_spec _ _ _ _ _ I Hl) as (r1 & l1 & H1 & Hr1 & Hp1 & I1 & D1).
      destruct (IH r1 l1 I1 Hrest) as (r2 & l2 & H2 & Hp2 & I2 & D2 & Hl2).
      { intros m Hm. rewrite Hr1. apply skeys_sdel_in. split; [apply Hin; right; assumption|].
        intro; subst m. contradiction. }
      exists r2, l2. simpl unregister_all. rewrite H1. split; [assumption|]. split; [congruence|].
      split; [assumption|]. split; [auto|].
      intro x. rewrite Hl2, Hr1. simpl nmem. destruct (str_eqb_spec x n) as [E|E]; simpl.
      + subst x. apply nmem_false in Hn. rewrite Hn. apply slookup_sdel_same.
      + destruct (nmem x rest); [reflexivity | apply slookup_sdel_other; assumption].
  Qed.

  Lemma clear_spec r l :
    ginv r l -> exists l', clear r l = (rempty, l', RNone) /\ prot l' = prot l /\ ginv rempty l' /\ (dinv r l -> dinv rempty l').
  Proof.
    intro I.
    destruct (unregister_all_spec (skeys (reg r)) r l I (g_nodup _ _ I) (fun n H => H)) as (r' & l' & H & Hp & I' & D' & Hl).
    exists l'. unfold clear. rewrite H. split; [reflexivity|]. split; [assumption|].
    assert (Hr : reg r' = []).
    { apply all_none_nil. intro k. rewrite Hl. destruct (nmem k (skeys (reg r))) eqn:E; [reflexivity|].
      apply nmem_false in E. apply slookup_none_keys. assumption. }
    assert (Hno : forall n t, ~ uses r' n t).
    { intros n t [c Hc]. rewrite Hr in Hc. discriminate. }
    split.
    - constructor; simpl; try (intros; discriminate).
      + constructor.
      + intros t n [c Hc]. discriminate.
      + intros n t [c Hc]. discriminate.
      + apply (g_other _ _ I').
    - intro D. specialize (D' D). constructor.
      + intros n t [c Hc]. discriminate.
      + intros t Ht. destruct (d_owned _ _ D' _ Ht) as [[n Hn]|Hn]; [destruct (Hno _ _ Hn) | auto].
  Qed.

  (* --- every call preserves the invariants --- *)
  Lemma step_inv o r l r' l' x :
    ginv r l -> step rid fmt r l o = (r', l', x) -> ginv r' l' /\ (dinv r l -> protect_ok r o = true -> dinv r' l').
  Proof.
    intros I. destruct o as [n c|n| |n| |ps]; simpl.
    - intro H. destruct (register_inv _ _ _ _ _ _ _ I H). auto.
    - intro H. destruct (unregister_inv _ _ _ _ _ _ I H). auto.
    - destruct (clear_spec _ _ I) as (l1 & H1 & _ & I1 & D1). rewrite H1. intro H; inversion H; subst. auto.
    - intro H; inversion H; subst. auto.
    - intro H; inversion H; subst. auto.
    - intro H; inversion H; subst. split.
      + constructor; simpl; apply I.
      + intros D Hok. pose proof (proj1 (protect_ok_spec _ _) Hok) as Hd. constructor; simpl.
        * intros n t Hn. apply nmem_false. intro Hin. exact (Hd t Hin n Hn).
        * apply (d_owned _ _ D).
  Qed.

  Lemma run_inv ops : forall r l r' l' xs,
    ginv r l -> run rid fmt r l ops = (r', l', xs) ->
    ginv r' l' /\ (dinv r l -> disciplined rid fmt r l ops = true -> dinv r' l').
  Proof.
    induction ops as [|o ops IH]; intros r l r' l' xs I; simpl.
    - intro H; inversion H; subst. auto.
    - destruct (step rid fmt r l o) as [[r1 l1] x] eqn:E1.
      destruct (run rid fmt r1 l1 ops) as [[r2 l2] ys] eqn:E2.
      intro H; inversion H; subst.
      destruct (step_inv _ _ _ _ _ _ I E1) as [I1 D1].
      destruct (IH _ _ _ _ _ I1 E2) as [I2 D2]. split; [assumption|].
      intros D Hd. apply andb_true_iff in Hd. destruct Hd as [Hok Hd]. auto.
  Qed.
End Inv.

(* ---------- refinement: the registry IS a plain dictionary (with the current protected list) ---------- *)
Section Refine.
  Context (rid : N) (fmt : str -> option str) (l0 : lib).

  Lemma contents_smap r : contents r = smap fst (reg r).
  Proof. reflexivity. Qed.

  Lemma contents_lookup n r : slookup n (contents r) = option_map fst (slookup n (reg r)).
  Proof. apply (slookup_smap fst). Qed.

  Lemma step_refines o r l r' l' x :
    ginv rid fmt l0 r l -> step rid fmt r l o = (r', l', x) ->
    dict_step fmt (prot l, contents r) o = ((prot l', contents r'), x).
  Proof.
    intros I. destruct o as [n c|n| |n| |ps]; simpl.
    - unfold register. rewrite contents_lookup.
      assert (G : match fmt n with
                  | None => (r, l, RErr EValueError)
                  | Some t =>
                      if nmem t (prot l) then (r, l, RErr ETagProtected)
                      else
                        ({| reg := sset n (c, t) (reg r);
                            tgs := sset t (nadd n match slookup t (tgs r) with Some ns => ns | None => [] end) (tgs r) |},
                         {| ltags := sset t (OComp rid) (ltags l); prot := prot l |}, RNone)
                  end = (r', l', x) ->
                  match fmt n with
                  | None => ((prot l, contents r), RErr EValueError)
                  | Some t => if nmem t (prot l) then ((prot l, contents r), RErr ETagProtected)
                              else ((prot l, sset n c (contents r)), RNone)
                  end = ((prot l', contents r'), x)).
      { destruct (fmt n) as [t|]; [|intro H; inversion H; subst; reflexivity].
        destruct (nmem t (prot l)); intro H; inversion H; subst; [reflexivity|].
        rewrite !contents_smap. simpl reg. rewrite (smap_sset fst). reflexivity. }
      destruct (slookup n (reg r)) as [[c' t']|]; cbn [option_map fst]; [|exact G].
      destruct (same_class c' c); [exact G|]. intro H; inversion H; subst. reflexivity.
    - rewrite contents_lookup. destruct (slookup n (reg r)) as [[c t]|] eqn:E; simpl option_map.
      + destruct (unregister_spec _ _ _ _ _ _ _ _ I E) as (r1 & l1 & H1 & Hr1 & Hp1 & _).
        rewrite H1. intro H; inversion H; subst. rewrite Hp1, !contents_smap, Hr1, (smap_sdel fst). reflexivity.
      + rewrite (unregister_missing _ _ _ E). intro H; inversion H; subst. reflexivity.
    - destruct (clear_spec _ _ _ _ _ I) as (l1 & H1 & Hp1 & _). rewrite H1. intro H; inversion H; subst.
      rewrite Hp1. reflexivity.
    - intro H; inversion H; subst. unfold get. rewrite contents_lookup.
      destruct (slookup n (reg r')) as [[c t]|]; reflexivity.
    - intro H; inversion H; subst. reflexivity.
    - intro H; inversion H; subst. reflexivity.
  Qed.

  Lemma run_refines ops : forall r l r' l' xs,
    ginv rid fmt l0 r l -> run rid fmt r l ops = (r', l', xs) ->
    dict_run fmt (prot l, contents r) ops = ((prot l', contents r'), xs).
  Proof.
    induction ops as [|o ops IH]; intros r l r' l' xs I; cbn [run dict_run].
    - intro H; inversion H; subst. reflexivity.
    - destruct (step rid fmt r l o) as [[r1 l1] x] eqn:E1.
      destruct (run rid fmt r1 l1 ops) as [[r2 l2] ys] eqn:E2.
      intro H; inversion H; subst.
      rewrite (step_refines _ _ _ _ _ _ I E1).
      rewrite (IH _ _ _ _ _ (proj1 (step_inv _ _ _ _ _ _ _ _ _ I E1)) E2). reflexivity.
  Qed.
End Refine.

(* ---------- statements used by Props/C15.v ---------- *)
Lemma refines_dict_lemma : forall rid fmt l0 ops,
  let '(r, l, outs) := run rid fmt rempty l0 ops in
  dict_run fmt (prot l0, []) ops = ((prot l, contents r), outs).
Proof.
  intros rid fmt l0 ops. destruct (run rid fmt rempty l0 ops) as [[r l] xs] eqn:E.
  exact (run_refines rid fmt l0 ops _ _ _ _ _ (ginv_init rid fmt l0) E).
Qed.

Lemma reachable_ginv rid fmt l0 ops r l xs :
  run rid fmt rempty l0 ops = (r, l, xs) -> ginv rid fmt l0 r l.
Proof. intro E. exact (proj1 (run_inv rid fmt l0 ops _ _ _ _ _ (ginv_init rid fmt l0) E)). Qed.

Lemma reachable_dinv rid fmt l0 ops r l xs :
  run rid fmt rempty l0 ops = (r, l, xs) -> disciplined rid fmt rempty l0 ops = true -> dinv rid l0 r l.
Proof. intros E Hd. exact (proj2 (run_inv rid fmt l0 ops _ _ _ _ _ (ginv_init rid fmt l0) E) (dinv_init rid l0) Hd). Qed.

Lemma no_internal_error_lemma : forall rid fmt l0 ops,
  let '(_, _, outs) := run rid fmt rempty l0 ops in
  ~ In (RErr EKeyError) outs /\ ~ In (RErr EOther) outs /\ ~ In (RErr ENoSuchRegistry) outs.
Proof.
  intros rid fmt l0 ops. pose proof (refines_dict_lemma rid fmt l0 ops) as H.
  destruct (run rid fmt rempty l0 ops) as [[r l] xs].
  assert (G : forall ops s s' ys, dict_run fmt s ops = (s', ys) ->
              forall e, In (RErr e) ys -> e = EAlreadyRegistered \/ e = ENotRegistered \/ e = EValueError \/ e = ETagProtected).
  { clear. induction ops as [|o ops IH]; intros s s' ys; simpl.
    - intro H; inversion H; subst. intros e [].
    - destruct (dict_step fmt s o) as [s1 x] eqn:E1.
      destruct (dict_run fmt s1 ops) as [s2 xs] eqn:E2.
      intro H; inversion H; subst. intros e [He|He]; [|eapply IH; eassumption].
      subst x. destruct s as [ps d]. destruct o as [n c|n| |n| |ps']; simpl in E1.
      + destruct (slookup n d) as [c'|]; [destruct (same_class c' c)|];
          try (destruct (fmt n) as [t|]; [destruct (nmem t ps)|]); inversion E1; auto.
      + destruct (slookup n d); inversion E1; auto.
      + inversion E1.
      + destruct (slookup n d); inversion E1; auto.
      + inversion E1.
      + inversion E1. }
  repeat split; intro Hin; destruct (G _ _ _ _ H _ Hin) as [X|[X|[X|X]]]; discriminate.
Qed.

Lemma tags_consistent_lemma : forall rid fmt l0 ops,
  let '(r, _, _) := run rid fmt rempty l0 ops in tags_consistent r.
Proof.
  intros rid fmt l0 ops. destruct (run rid fmt rempty l0 ops) as [[r l] xs] eqn:E.
  exact (g_tags _ _ _ _ _ (reachable_ginv _ _ _ _ _ _ _ E)).
Qed.

(* every history: a used tag is in the library, as this registry's tag function *)
Lemma used_tag_in_library_lemma : forall rid fmt l0 ops n t,
  let '(r, l, _) := run rid fmt rempty l0 ops in
  uses r n t -> slookup t (ltags l) = Some (OComp rid).
Proof.
  intros rid fmt l0 ops n t. destruct (run rid fmt rempty l0 ops) as [[r l] xs] eqn:E.
  exact (g_used _ _ _ _ _ (reachable_ginv _ _ _ _ _ _ _ E) n t).
Qed.

Lemma library_tag_iff_used_lemma : forall rid fmt l0 ops t,
  lib_foreign rid l0 -> disciplined rid fmt rempty l0 ops = true ->
  let '(r, l, _) := run rid fmt rempty l0 ops in
  ((exists n, uses r n t) <-> slookup t (ltags l) = Some (OComp rid)) /\
  (slookup t (ltags l0) = None -> (smem t (ltags l) = true <-> exists n, uses r n t)) /\
  (forall n, uses r n t -> nmem t (prot l) = false).
Proof.
  intros rid fmt l0 ops t Hf Hd. destruct (run rid fmt rempty l0 ops) as [[r l] xs] eqn:E.
  pose proof (reachable_ginv _ _ _ _ _ _ _ E) as I. pose proof (reachable_dinv _ _ _ _ _ _ _ E Hd) as D.
  assert (A : (exists n, uses r n t) <-> slookup t (ltags l) = Some (OComp rid)).
  { split.
    - intros [n Hn]. apply (g_used _ _ _ _ _ I _ _ Hn).
    - intro H. destruct (d_owned _ _ _ _ D _ H) as [H1|H1]; [assumption | destruct (Hf _ H1)]. }
  split; [exact A|]. split; [|intros n Hn; exact (d_unprot _ _ _ _ D _ _ Hn)]. intro H0. unfold smem. split.
  - destruct (slookup t (ltags l)) as [o|] eqn:Eo; [|discriminate]. intros _.
    destruct (owner_eq_dec o (OComp rid)) as [Ho|Ho]; [subst; apply A; reflexivity|].
    pose proof (g_other _ _ _ _ _ I _ _ Eo Ho). congruence.
  - intro H. apply A in H. rewrite H. reflexivity.
Qed.

(* ---------- protected tags: a call never touches the library entry of a tag that is protected NOW ---------- *)
Section Protected.
  Context (rid : N) (fmt : str -> option str) (t : str).

  Lemma unregister_keeps n r l r' l' x :
    unregister n r l = (r', l', x) -> nmem t (prot l) = true ->
    prot l' = prot l /\ slookup t (ltags l') = slookup t (ltags l) /\ ((forall m, ~ uses r m t) -> forall m, ~ uses r' m t).
  Proof.
    unfold unregister. intros H Hp.
    destruct (slookup n (reg r)) as [[c t']|]; [|inversion H; subst; auto].
    destruct (slookup t' (tgs r)) as [ns|]; [|inversion H; subst; auto].
    destruct (negb (nmem n ns)); [inversion H; subst; auto|].
    inversion H; subst; clear H. split; [|split].
    - destruct (_ && _ && _); reflexivity.
    - destruct (negb (nmem t' (prot l))) eqn:E; simpl; [|reflexivity].
      destruct (_ && _); [|reflexivity]. simpl ltags. apply slookup_sdel_other.
      intro; subst t'. rewrite Hp in E. discriminate.
    - intros Hno m [c1 Hm]. simpl in Hm. apply slookup_sdel_some in Hm. destruct Hm as [_ Hm]. apply (Hno m). exists c1. assumption.
  Qed.

  Lemma unregister_all_keeps ns : forall r l r' l' e,
    unregister_all ns r l = (r', l', e) -> nmem t (prot l) = true ->
    prot l' = prot l /\ slookup t (ltags l') = slookup t (ltags l) /\ ((forall m, ~ uses r m t) -> forall m, ~ uses r' m t).
  Proof.
    induction ns as [|n ns IH]; intros r l r' l' e; simpl.
    - intros H _. inversion H; subst. auto.
    - destruct (unregister n r l) as [[r1 l1] x] eqn:E1. intros H Hp.
      destruct (unregister_keeps _ _ _ _ _ _ E1 Hp) as (P1 & L1 & U1).
      destruct x; try (inversion H; subst; auto; fail);
        (assert (Hp1 : nmem t (prot l1) = true) by (rewrite P1; assumption);
         destruct (IH _ _ _ _ _ H Hp1) as (P2 & L2 & U2); split; [congruence | split; [congruence | auto]]).
  Qed.

  Lemma step_keeps o r l r' l' x :
    step rid fmt r l o = (r', l', x) -> nmem t (prot l) = true -> (forall ps, o = OProtect ps -> In t ps) ->
    nmem t (prot l') = true /\ slookup t (ltags l') = slookup t (ltags l) /\ ((forall m, ~ uses r m t) -> forall m, ~ uses r' m t).
  Proof.
    intros H Hp Hk. destruct o as [n c|n| |n| |ps]; simpl in H.
    - unfold register in H.
      assert (G : match fmt n with
                  | None => (r, l, RErr EValueError)
                  | Some t' =>
                      if nmem t' (prot l) then (r, l, RErr ETagProtected)
                      else
                        ({| reg := sset n (c, t') (reg r);
                            tgs := sset t' (nadd n match slookup t' (tgs r) with Some ns => ns | None => [] end) (tgs r) |},
                         {| ltags := sset t' (OComp rid) (ltags l); prot := prot l |}, RNone)
                  end = (r', l', x) ->
                  nmem t (prot l') = true /\ slookup t (ltags l') = slookup t (ltags l) /\
                  ((forall m, ~ uses r m t) -> forall m, ~ uses r' m t)).
      { destruct (fmt n) as [t'|]; [|intro G; inversion G; subst; auto].
        destruct (nmem t' (prot l)) eqn:Ep; intro G; inversion G; subst; [auto|].
        assert (Hne : t <> t') by (intro; subst; congruence).
        split; [assumption|]. split; [simpl; apply slookup_sset_other; assumption|].
        intros Hno m [c1 Hm]. simpl in Hm. destruct (str_eq_dec m n) as [E|E].
        - subst m. rewrite slookup_sset_same in Hm. inversion Hm; subst. contradiction.
        - rewrite slookup_sset_other in Hm by assumption. apply (Hno m). exists c1. assumption. }
      destruct (slookup n (reg r)) as [[c' t'']|]; [|exact (G H)].
      destruct (same_class c' c); [exact (G H)|]. inversion H; subst. auto.
    - destruct (unregister_keeps _ _ _ _ _ _ H Hp) as (P & L & U). split; [rewrite P; assumption | auto].
    - unfold clear in H. destruct (unregister_all (skeys (reg r)) r l) as [[r1 l1] e] eqn:E.
      destruct (unregister_all_keeps _ _ _ _ _ _ E Hp) as (P & L & U).
      destruct e; inversion H; subst; (split; [rewrite P; assumption | split; [assumption|]]); [exact U|].
      intros _ m [c1 Hm]. discriminate.
    - inversion H; subst. auto.
    - inversion H; subst. auto.
    - inversion H; subst. simpl. split; [apply nmem_In, Hk; reflexivity | auto].
  Qed.

  Lemma run_keeps ops : forall r l r' l' xs,
    run rid fmt r l ops = (r', l', xs) -> nmem t (prot l) = true -> (forall ps, In (OProtect ps) ops -> In t ps) ->
    nmem t (prot l') = true /\ slookup t (ltags l') = slookup t (ltags l) /\ ((forall m, ~ uses r m t) -> forall m, ~ uses r' m t).
  Proof.
    induction ops as [|o ops IH]; intros r l r' l' xs; simpl.
    - intros H Hp _. inversion H; subst. auto.
    - destruct (step rid fmt r l o) as [[r1 l1] x] eqn:E1.
      destruct (run rid fmt r1 l1 ops) as [[r2 l2] ys] eqn:E2.
      intros H Hp Hk. inversion H; subst.
      destruct (step_keeps _ _ _ _ _ _ E1 Hp) as (P1 & L1 & U1).
      { intros ps Eo. apply Hk. left. assumption. }
      destruct (IH _ _ _ _ _ E2 P1) as (P2 & L2 & U2).
      { intros ps Hin. apply Hk. right. assumption. }
      split; [assumption | split; [congruence | auto]].
  Qed.
End Protected.

(* a tag protected at some point of a history (ops1) is not touched afterwards (ops2) for as long as every
   mark_protected_tags call keeps it in the list: still protected, same library entry (kept, not overwritten, not
   removed, not created); and if no component used it at that point, none ever does *)
Lemma protected_never_touched_lemma : forall rid fmt l0 ops1 ops2 t,
  let '(r1, l1, _) := run rid fmt rempty l0 ops1 in
  In t (prot l1) -> (forall ps, In (OProtect ps) ops2 -> In t ps) ->
  let '(r2, l2, _) := run rid fmt r1 l1 ops2 in
  In t (prot l2) /\ slookup t (ltags l2) = slookup t (ltags l1) /\
  ((forall n, ~ uses r1 n t) -> forall n, ~ uses r2 n t).
Proof.
  intros rid fmt l0 ops1 ops2 t. destruct (run rid fmt rempty l0 ops1) as [[r1 l1] xs1].
  intros Ht Hk. destruct (run rid fmt r1 l1 ops2) as [[r2 l2] xs2] eqn:E2.
  apply nmem_In in Ht. destruct (run_keeps rid fmt t ops2 _ _ _ _ _ E2 Ht Hk) as (P & L & U).
  split; [apply nmem_In; assumption | auto].
Qed.

(* the protected list is what the last mark_protected_tags call said (or the initial one) *)
Lemma protected_list_lemma : forall rid fmt l0 ops,
  let '(_, l, _) := run rid fmt rempty l0 ops in
  prot l = fold_left (fun ps o => match o with OProtect ps' => ps' | _ => ps end) ops (prot l0).
Proof.
  intros rid fmt l0 ops. pose proof (refines_dict_lemma rid fmt l0 ops) as H.
  destruct (run rid fmt rempty l0 ops) as [[r l] xs].
  assert (G : forall ops s s' ys, dict_run fmt s ops = (s', ys) ->
              fst s' = fold_left (fun ps o => match o with OProtect ps' => ps' | _ => ps end) ops (fst s)).
  { clear. induction ops as [|o ops IH]; intros s s' ys; simpl.
    - intro H; inversion H; subst. reflexivity.
    - destruct (dict_step fmt s o) as [s1 x] eqn:E1. destruct (dict_run fmt s1 ops) as [s2 xs] eqn:E2.
      intro H; inversion H; subst. rewrite (IH _ _ _ E2). f_equal.
      destruct s as [ps d]. destruct o as [n c|n| |n| |ps']; simpl in E1.
      + destruct (slookup n d) as [c'|]; [destruct (same_class c' c)|];
          try (destruct (fmt n) as [t|]; [destruct (nmem t ps)|]); inversion E1; reflexivity.
      + destruct (slookup n d); inversion E1; reflexivity.
      + inversion E1; reflexivity.
      + inversion E1; reflexivity.
      + inversion E1; reflexivity.
      + inversion E1; reflexivity. }
  exact (G _ _ _ _ H).
Qed.

(* tags of the library that are not this registry's are never overwritten by another owner's function:
   whatever else is in the table is what was there at the start *)
Lemma foreign_tags_kept_or_removed_lemma : forall rid fmt l0 ops t o,
  let '(_, l, _) := run rid fmt rempty l0 ops in
  slookup t (ltags l) = Some o -> o <> OComp rid -> slookup t (ltags l0) = Some o.
Proof.
  intros rid fmt l0 ops t o. destruct (run rid fmt rempty l0 ops) as [[r l] xs] eqn:E.
  exact (g_other _ _ _ _ _ (reachable_ginv _ _ _ _ _ _ _ E) t o).
Qed.

(* ---------- "the same class" = the same _class_hash ---------- *)
(* What register does when the name is held by a class with the SAME hash (the identical object or another
   class object with the same import path) and its tag is not protected at that moment: it is accepted; names,
   tags, `_tags`, the library's tag table and the protected list stay as they are; the stored object becomes the one
   just passed, in place (dict order kept). *)
Lemma same_hash_reregistration_lemma : forall rid fmt l0 ops n c t c',
  let '(r, l, _) := run rid fmt rempty l0 ops in
  slookup n (reg r) = Some (c, t) -> cls_hash c' = cls_hash c -> nmem t (prot l) = false ->
  step rid fmt r l (ORegister n c') = ({| reg := sset n (c', t) (reg r); tgs := tgs r |}, l, RNone).
Proof.
  intros rid fmt l0 ops n c t c'. destruct (run rid fmt rempty l0 ops) as [[r l] xs] eqn:E.
  pose proof (reachable_ginv _ _ _ _ _ _ _ E) as I. intros H Hh Hp.
  assert (Hu : uses r n t) by (exists c; assumption).
  simpl. unfold register. rewrite H. unfold same_class. unfold cls_hash in Hh. rewrite Hh, N.eqb_refl.
  rewrite (g_fmt _ _ _ _ _ I _ _ _ H), Hp.
  pose proof (g_used _ _ _ _ _ I _ _ Hu) as Hl.
  pose proof (g_tags _ _ _ _ _ I t) as Ht.
  destruct (slookup t (tgs r)) as [ns|] eqn:Ens; [|destruct (Ht n Hu)].
  destruct Ht as (_ & _ & Hin).
  rewrite (nadd_same n ns) by (apply Hin; assumption).
  rewrite (sset_same_id _ _ _ Ens), (sset_same_id _ _ _ Hl).
  destruct l; reflexivity.
Qed.

Lemma same_hash_reregistration_api_lemma : forall rid fmt l0 ops n c t c',
  let '(r, l, _) := run rid fmt rempty l0 ops in
  slookup n (reg r) = Some (c, t) -> cls_hash c' = cls_hash c -> nmem t (prot l) = false ->
  let '(r', l', x) := step rid fmt r l (ORegister n c') in
  x = RNone /\ l' = l /\ tgs r' = tgs r /\ get n r' = RCls c' /\
  (forall m, m <> n -> get m r' = get m r) /\ skeys (reg r') = skeys (reg r).
Proof.
  intros rid fmt l0 ops n c t c'.
  pose proof (same_hash_reregistration_lemma rid fmt l0 ops n c t c') as S.
  destruct (run rid fmt rempty l0 ops) as [[r l] xs]. intros H Hh Hp. rewrite (S H Hh Hp).
  split; [reflexivity|]. split; [reflexivity|]. split; [reflexivity|]. split; [|split].
  - unfold get. simpl. rewrite slookup_sset_same. reflexivity.
  - intros m Hm. unfold get. simpl. rewrite slookup_sset_other by assumption. reflexivity.
  - simpl. clear S Hh. revert H. induction (reg r) as [|[k v] d IH]; simpl; [discriminate|].
    destruct (str_eqb_spec n k) as [Ek|Ek]; intro H; simpl; [reflexivity|]. rewrite IH by assumption. reflexivity.
Qed.

Lemma same_class_noop_lemma : forall rid fmt l0 ops n c t,
  let '(r, l, _) := run rid fmt rempty l0 ops in
  slookup n (reg r) = Some (c, t) -> nmem t (prot l) = false -> step rid fmt r l (ORegister n c) = (r, l, RNone).
Proof.
  intros rid fmt l0 ops n c t. pose proof (same_hash_reregistration_lemma rid fmt l0 ops n c t c) as S.
  destruct (run rid fmt rempty l0 ops) as [[r l] xs]. intros H Hp. rewrite (S H eq_refl Hp).
  rewrite (sset_same_id _ _ _ H). destruct r; reflexivity.
Qed.

(* in a disciplined history the tag of a registered name is never protected, so the premise above always holds *)
Lemma disciplined_used_unprotected_lemma : forall rid fmt l0 ops n c t,
  disciplined rid fmt rempty l0 ops = true ->
  let '(r, l, _) := run rid fmt rempty l0 ops in
  slookup n (reg r) = Some (c, t) -> nmem t (prot l) = false.
Proof.
  intros rid fmt l0 ops n c t Hd. destruct (run rid fmt rempty l0 ops) as [[r l] xs] eqn:E.
  intro H. apply (d_unprot _ _ _ _ (reachable_dinv _ _ _ _ _ _ _ E Hd) n t). exists c. assumption.
Qed.

(* ---------- any number of registries, each on its own library ---------- *)
Lemma nth_error_upd_same {A} (l : list A) : forall i x y, nth_error l i = Some y -> nth_error (upd i x l) i = Some x.
Proof. induction l as [|a l IH]; intros [|i] x y; simpl; try discriminate; [reflexivity | apply IH]. Qed.

Lemma nth_error_upd_other {A} (l : list A) : forall i j x, i <> j -> nth_error (upd i x l) j = nth_error l j.
Proof.
  induction l as [|a l IH]; intros [|i] [|j] x H; simpl; try reflexivity; try congruence.
  apply IH. congruence.
Qed.

Lemma map_upd_same {A B} (f : A -> B) (l : list A) : forall i x y,
  nth_error l i = Some y -> f x = f y -> map f (upd i x l) = map f l.
Proof.
  induction l as [|a l IH]; intros [|i] x y; simpl; try discriminate.
  - intros H E. inversion H; subst. rewrite E. reflexivity.
  - intros H E. rewrite (IH _ _ _ H E). reflexivity.
Qed.

Lemma nodup_map_nth_neq {A B} (f : A -> B) (l : list A) i j a b :
  NoDup (map f l) -> nth_error l i = Some a -> nth_error l j = Some b -> i <> j -> f a <> f b.
Proof.
  intros Hnd Hi Hj Hij E. apply Hij.
  apply (proj1 (NoDup_nth_error (map f l)) Hnd).
  - rewrite map_length. apply nth_error_Some. congruence.
  - rewrite (map_nth_error f _ _ Hi), (map_nth_error f _ _ Hj). congruence.
Qed.

Lemma private_independent_lemma : forall ops w0 i rg l0,
  NoDup (map wlib (wregs w0)) ->
  nth_error (wregs w0) i = Some rg -> nth_error (wlibs w0) (wlib rg) = Some l0 ->
  let '(w, outs) := wrun w0 ops in
  let '(r, l, outs1) := run (N.of_nat i) (wfmt rg) (wst rg) l0 (project i ops) in
  nth_error (wregs w) i = Some {| wlib := wlib rg; wfmt := wfmt rg; wst := r |} /\
  nth_error (wlibs w) (wlib rg) = Some l /\
  project_outs i ops outs = outs1.
Proof.
  induction ops as [|[j o] ops IH]; intros w0 i rg l0 Hnd Hr Hl.
  - simpl. destruct rg; auto.
  - simpl wrun. simpl project. unfold wstep.
    destruct (Nat.eqb_spec i j) as [E|E].
    + subst j. rewrite Hr, Hl. simpl run.
      destruct (step (N.of_nat i) (wfmt rg) (wst rg) l0 o) as [[r1 l1] y] eqn:E1.
      set (rg1 := {| wlib := wlib rg; wfmt := wfmt rg; wst := r1 |}).
      set (w1 := {| wlibs := upd (wlib rg) l1 (wlibs w0); wregs := upd i rg1 (wregs w0) |}).
      specialize (IH w1 i rg1 l1).
      destruct (wrun w1 ops) as [w2 ys] eqn:E2. simpl project_outs. rewrite Nat.eqb_refl.
      simpl in IH.
      destruct (run (N.of_nat i) (wfmt rg) r1 l1 (project i ops)) as [[r2 l2] xs] eqn:E3.
      destruct IH as (H1 & H2 & H3).
      * simpl. rewrite (map_upd_same wlib _ _ _ _ Hr); [assumption | reflexivity].
      * simpl. eapply nth_error_upd_same; eassumption.
      * simpl. eapply nth_error_upd_same; eassumption.
      * split; [assumption | split; [assumption | congruence]].
    + assert (Hstep : exists w1 y, (match nth_error (wregs w0) j with
                                    | None => (w0, RErr ENoSuchRegistry)
                                    | Some rg0 =>
                                        match nth_error (wlibs w0) (wlib rg0) with
                                        | None => (w0, RErr ENoSuchRegistry)
                                        | Some l =>
                                            let '(r', l', y) := step (N.of_nat j) (wfmt rg0) (wst rg0) l o in
                                            ({| wlibs := upd (wlib rg0) l' (wlibs w0);
                                                wregs := upd j {| wlib := wlib rg0; wfmt := wfmt rg0; wst := r' |} (wregs w0) |}, y)
                                        end
                                    end) = (w1, y) /\
                       NoDup (map wlib (wregs w1)) /\ nth_error (wregs w1) i = Some rg /\
                       nth_error (wlibs w1) (wlib rg) = Some l0).
      { destruct (nth_error (wregs w0) j) as [rgj|] eqn:Ej; [|eauto 6].
        destruct (nth_error (wlibs w0) (wlib rgj)) as [lj|] eqn:Elj; [|eauto 6].
        destruct (step (N.of_nat j) (wfmt rgj) (wst rgj) lj o) as [[r1 l1] y].
        eexists _, _. split; [reflexivity|]. simpl. split; [|split].
        - rewrite (map_upd_same wlib _ _ _ _ Ej); [assumption | reflexivity].
        - rewrite nth_error_upd_other by congruence. assumption.
        - rewrite nth_error_upd_other; [assumption|].
          apply (nodup_map_nth_neq wlib _ _ _ _ _ Hnd Ej Hr). congruence. }
      destruct Hstep as (w1 & y & Hw & Hnd1 & Hr1 & Hl1). rewrite Hw.
      specialize (IH w1 i rg l0 Hnd1 Hr1 Hl1).
      destruct (wrun w1 ops) as [w2 ys]. simpl project_outs.
      destruct (Nat.eqb_spec i j); [contradiction|]. exact IH.
Qed.

(* the full statement for a world of registries on private libraries *)
(* the full statement for a world of registries on private libraries *)
Lemma world_refines_dicts_lemma : forall ops w0 i rg l0,
  NoDup (map wlib (wregs w0)) ->
  nth_error (wregs w0) i = Some rg -> wst rg = rempty -> nth_error (wlibs w0) (wlib rg) = Some l0 ->
  let '(w, outs) := wrun w0 ops in
  exists rg' l, nth_error (wregs w) i = Some rg' /\ nth_error (wlibs w) (wlib rg) = Some l /\
                dict_run (wfmt rg) (prot l0, []) (project i ops) = ((prot l, contents (wst rg')), project_outs i ops outs).
Proof.
  intros ops w0 i rg l0 Hnd Hr He Hl.
  pose proof (private_independent_lemma ops w0 i rg l0 Hnd Hr Hl) as H.
  pose proof (refines_dict_lemma (N.of_nat i) (wfmt rg) l0 (project i ops)) as D.
  destruct (wrun w0 ops) as [w outs]. rewrite He in H.
  destruct (run (N.of_nat i) (wfmt rg) rempty l0 (project i ops)) as [[r l] xs].
  destruct H as (H1 & H2 & H3). eexists _, l. split; [exact H1|]. split; [exact H2|]. simpl. rewrite D, H3. reflexivity.
Qed.

Lemma world_library_consistent_lemma : forall ops w0 i rg l0 t,
  NoDup (map wlib (wregs w0)) ->
  nth_error (wregs w0) i = Some rg -> wst rg = rempty -> nth_error (wlibs w0) (wlib rg) = Some l0 ->
  lib_foreign (N.of_nat i) l0 -> disciplined (N.of_nat i) (wfmt rg) rempty l0 (project i ops) = true ->
  let '(w, _) := wrun w0 ops in
  exists rg' l, nth_error (wregs w) i = Some rg' /\ nth_error (wlibs w) (wlib rg) = Some l /\
    tags_consistent (wst rg') /\
    ((exists n, uses (wst rg') n t) <-> slookup t (ltags l) = Some (OComp (N.of_nat i))) /\
    (slookup t (ltags l0) = None -> (smem t (ltags l) = true <-> exists n, uses (wst rg') n t)) /\
    (forall n, uses (wst rg') n t -> nmem t (prot l) = false).
Proof.
  intros ops w0 i rg l0 t Hnd Hr He Hl Hf Hd.
  pose proof (private_independent_lemma ops w0 i rg l0 Hnd Hr Hl) as H.
  pose proof (tags_consistent_lemma (N.of_nat i) (wfmt rg) l0 (project i ops)) as T.
  pose proof (library_tag_iff_used_lemma (N.of_nat i) (wfmt rg) l0 (project i ops) t Hf Hd) as U.
  destruct (wrun w0 ops) as [w outs]. rewrite He in H.
  destruct (run (N.of_nat i) (wfmt rg) rempty l0 (project i ops)) as [[r l] xs].
  destruct H as (H1 & H2 & _). destruct U as (U1 & U2 & U3).
  eexists _, l. split; [exact H1|]. split; [exact H2|]. simpl.
  split; [exact T|]. split; [exact U1|]. split; [exact U2 | exact U3].
Qed.

(* a protected tag of the library of registry i is not touched by any later call on ANY registry of the world, for as
   long as every mark_protected_tags call on that library keeps it in the list *)
Lemma world_protected_lemma : forall ops1 ops2 w0 i rg l0 t,
  NoDup (map wlib (wregs w0)) ->
  nth_error (wregs w0) i = Some rg -> wst rg = rempty -> nth_error (wlibs w0) (wlib rg) = Some l0 ->
  (forall ps, In (OProtect ps) (project i ops2) -> In t ps) ->
  let '(w1, _) := wrun w0 ops1 in
  let '(w2, _) := wrun w0 (ops1 ++ ops2) in
  forall l1, nth_error (wlibs w1) (wlib rg) = Some l1 -> In t (prot l1) ->
  exists l2, nth_error (wlibs w2) (wlib rg) = Some l2 /\ In t (prot l2) /\ slookup t (ltags l2) = slookup t (ltags l1).
Proof.
  intros ops1 ops2 w0 i rg l0 t Hnd Hr He Hl Hk.
  pose proof (private_independent_lemma ops1 w0 i rg l0 Hnd Hr Hl) as H1.
  pose proof (private_independent_lemma (ops1 ++ ops2) w0 i rg l0 Hnd Hr Hl) as H2.
  assert (Hp : project i (ops1 ++ ops2) = project i ops1 ++ project i ops2).
  { clear. induction ops1 as [|[j o] ops1 IH]; simpl; [reflexivity|]. destruct (Nat.eqb i j); simpl; rewrite IH; reflexivity. }
  rewrite Hp in H2. rewrite He in H1, H2.
  pose proof (protected_never_touched_lemma (N.of_nat i) (wfmt rg) l0 (project i ops1) (project i ops2) t) as P.
  assert (Hrun : forall a b, run (N.of_nat i) (wfmt rg) rempty l0 (a ++ b) =
                 let '(ra, la, xa) := run (N.of_nat i) (wfmt rg) rempty l0 a in
                 let '(rb, lb, xb) := run (N.of_nat i) (wfmt rg) ra la b in (rb, lb, xa ++ xb)).
  { clear. generalize rempty l0. intros r l a b. revert r l. induction a as [|o a IH]; intros r l; simpl.
    - destruct (run (N.of_nat i) (wfmt rg) r l b) as [[rb lb] xb]. reflexivity.
    - destruct (step (N.of_nat i) (wfmt rg) r l o) as [[r1 l1] x]. rewrite IH.
      destruct (run (N.of_nat i) (wfmt rg) r1 l1 a) as [[ra la] xa].
      destruct (run (N.of_nat i) (wfmt rg) ra la b) as [[rb lb] xb]. reflexivity. }
  rewrite Hrun in H2.
  destruct (wrun w0 ops1) as [w1 o1]. destruct (wrun w0 (ops1 ++ ops2)) as [w2 o2].
  destruct (run (N.of_nat i) (wfmt rg) rempty l0 (project i ops1)) as [[ra la] xa].
  destruct (run (N.of_nat i) (wfmt rg) ra la (project i ops2)) as [[rb lb] xb].
  destruct H1 as (_ & H1 & _). destruct H2 as (_ & H2 & _).
  intros l1 El1 Ht. assert (l1 = la) by congruence. subst l1.
  destruct (P Ht Hk) as (P1 & P2 & _). exists lb. auto.
Qed.

(* what "plain dictionary" means: the error cases of the specification, spelled out *)
Lemma dictionary_errors_exact_lemma : forall fmt ps d n c,
  (snd (dict_step fmt (ps, d) (ORegister n c)) = RErr EAlreadyRegistered <->
     exists c', slookup n d = Some c' /\ fst c' <> fst c) /\
  (snd (dict_step fmt (ps, d) (ORegister n c)) = RErr ETagProtected <->
     (forall c', slookup n d = Some c' -> fst c' = fst c) /\ exists t, fmt n = Some t /\ In t ps) /\
  (snd (dict_step fmt (ps, d) (OUnregister n)) = RErr ENotRegistered <-> slookup n d = None) /\
  (snd (dict_step fmt (ps, d) (OGet n)) = RErr ENotRegistered <-> slookup n d = None) /\
  (forall c', slookup n d = Some c' -> snd (dict_step fmt (ps, d) (OGet n)) = RCls c').
Proof.
  intros fmt ps d n c. simpl.
  assert (Go : snd match fmt n with
                   | None => ((ps, d), RErr EValueError)
                   | Some t => if nmem t ps then ((ps, d), RErr ETagProtected) else ((ps, sset n c d), RNone)
                   end = RErr ETagProtected <-> exists t, fmt n = Some t /\ In t ps).
  { destruct (fmt n) as [t|]; simpl.
    - destruct (nmem t ps) eqn:E; simpl.
      + split; [intros _; exists t; split; [reflexivity | apply nmem_In; assumption] | reflexivity].
      + split; [discriminate|]. intros (t' & Ht & Hin). inversion Ht; subst. apply nmem_In in Hin. congruence.
    - split; [discriminate | intros (t & Ht & _); discriminate]. }
  split; [|split; [|repeat split]].
  - split.
    + destruct (slookup n d) as [c'|].
      * unfold same_class. destruct (N.eqb_spec (fst c') (fst c)) as [E|E].
        -- destruct (fmt n) as [t|]; [destruct (nmem t ps)|]; simpl; discriminate.
        -- intros _. eauto.
      * destruct (fmt n) as [t|]; [destruct (nmem t ps)|]; simpl; discriminate.
    + intros (c' & H & E). rewrite H. unfold same_class. destruct (N.eqb_spec (fst c') (fst c)); [contradiction | reflexivity].
  - destruct (slookup n d) as [c'|].
    + unfold same_class. destruct (N.eqb_spec (fst c') (fst c)) as [E|E].
      * rewrite Go. split; [intro H; split; [intros c2 Hc; inversion Hc; subst; assumption | assumption] | tauto].
      * simpl. split; [discriminate|]. intros [H _]. destruct E. apply H. reflexivity.
    + rewrite Go. split; [intro H; split; [intros c2 Hc; discriminate | assumption] | tauto].
  - destruct (slookup n d); simpl; [discriminate | reflexivity].
  - intro H. rewrite H. reflexivity.
  - destruct (slookup n d); simpl; [discriminate | reflexivity].
  - intro H. rewrite H. reflexivity.
  - intros c' H. rewrite H. reflexivity.
Qed.

(* libraries as the harness builds them hold no registry-owned tag *)
Lemma builtin_lib_foreign rid ts ps :
  lib_foreign rid {| ltags := map (fun t => (t, OBuiltin)) ts; prot := ps |}.
Proof.
  intros t. simpl. induction ts as [|a ts IH]; simpl; [discriminate|].
  destruct (str_eqb t a); [discriminate | exact IH].
Qed.

(* ---------- the tree form of the correspondence check = the per-history check on every path ---------- *)
Scheme otree_mut := Induction for otree Sort Prop
  with oforest_mut := Induction for oforest Sort Prop.
Combined Scheme otree_oforest_ind from otree_mut, oforest_mut.

Lemma forallb_app_b {A} (f : A -> bool) (a b : list A) : forallb f (a ++ b) = forallb f a && forallb f b.
Proof. induction a as [|x a IH]; simpl; [reflexivity|]. rewrite IH, andb_assoc. reflexivity. Qed.

Lemma check_path_cons w o q p w1 y :
  wstep w o = (w1, y) -> check_path w ((o, q) :: p) = wobs_eqb q (observe w1 y) && check_path w1 p.
Proof. intro H. cbn [check_path]. rewrite H. reflexivity. Qed.

Lemma forallb_check_path_cons w o q w1 y ps :
  wstep w o = (w1, y) ->
  forallb (check_path w) (map (cons (o, q)) ps) =
  match ps with [] => true | _ :: _ => wobs_eqb q (observe w1 y) && forallb (check_path w1) ps end.
Proof.
  intro H. induction ps as [|p ps IH]; [reflexivity|].
  cbn [map forallb]. rewrite IH, (check_path_cons _ _ _ _ _ _ H).
  destruct (wobs_eqb q (observe w1 y)); [|reflexivity]. destruct ps; simpl; rewrite ?andb_true_r; reflexivity.
Qed.

Lemma check_tree_forest_paths :
  (forall t w, check_tree w t = forallb (check_path w) (tree_paths t)) /\
  (forall f w, check_forest w f = forallb (check_path w) (forest_paths f)).
Proof.
  apply otree_oforest_ind.
  - intros o q kids IH w. cbn [check_tree tree_paths forallb].
    destruct (wstep w o) as [w1 y] eqn:E.
    rewrite (forallb_check_path_cons _ _ _ _ _ _ E), (check_path_cons _ _ _ _ _ _ E), IH.
    cbn [check_path]. rewrite andb_true_r.
    destruct (wobs_eqb q (observe w1 y)); [|reflexivity]. destruct (forest_paths kids); reflexivity.
  - intros w. reflexivity.
  - intros t IHt f IHf w. cbn [check_forest forest_paths]. rewrite forallb_app_b, IHt, IHf. reflexivity.
Qed.

(* a forest is accepted iff every history in it (every path from a root to a node) is accepted call by call *)
Lemma check_forest_paths_lemma : forall f w,
  check_forest w f = true <-> forall p, In p (forest_paths f) -> check_path w p = true.
Proof. intros f w. rewrite (proj2 check_tree_forest_paths). apply forallb_forall. Qed.

(* ---------- the registry never looks at the identity of a class object, only at its hash ---------- *)
Section ObjectRenaming.
  Context (rid : N) (fmt : str -> option str) (f : N * N -> N * N) (Hf : forall c, cls_hash (f c) = cls_hash c).

  Definition ren_entry (v : (N * N) * str) : (N * N) * str := (f (fst v), snd v).
  Definition ren_state (r : rstate) : rstate := {| reg := smap ren_entry (reg r); tgs := tgs r |}.
  Definition ren_op (o : op) : op := match o with ORegister n c => ORegister n (f c) | _ => o end.
  Definition ren_out (x : out) : out :=
    match x with RCls c => RCls (f c) | RAll d => RAll (smap f d) | _ => x end.

  Lemma same_class_ren a b : same_class (f a) (f b) = same_class a b.
  Proof. unfold same_class. pose proof (Hf a) as Ha. pose proof (Hf b) as Hb. unfold cls_hash in *. rewrite Ha, Hb. reflexivity. Qed.

  Lemma skeys_smap {V W} (g : V -> W) (l : list (str * V)) : skeys (smap g l) = skeys l.
  Proof. unfold skeys, smap. rewrite map_map. reflexivity. Qed.

  Lemma contents_ren r : contents (ren_state r) = smap f (contents r).
  Proof. unfold contents, ren_state, smap. simpl. rewrite !map_map. reflexivity. Qed.

  Lemma unregister_ren n r l :
    unregister n (ren_state r) l = let '(r', l', x) := unregister n r l in (ren_state r', l', ren_out x).
  Proof.
    unfold unregister. cbn [ren_state reg tgs]. rewrite (slookup_smap ren_entry).
    destruct (slookup n (reg r)) as [[c t]|]; cbn [option_map ren_entry fst snd]; [|reflexivity].
    destruct (slookup t (tgs r)) as [ns|]; [|reflexivity].
    destruct (nmem n ns); cbn [negb]; [|reflexivity].
    unfold ren_state. cbn [reg tgs ren_out]. rewrite (smap_sdel ren_entry). reflexivity.
  Qed.

  Lemma unregister_all_ren ns : forall r l,
    unregister_all ns (ren_state r) l = let '(r', l', e) := unregister_all ns r l in (ren_state r', l', e).
  Proof.
    induction ns as [|n ns IH]; intros r l; cbn [unregister_all]; [reflexivity|].
    rewrite unregister_ren. destruct (unregister n r l) as [[r1 l1] x].
    destruct x; cbn [ren_out]; try apply IH. reflexivity.
  Qed.

  Lemma step_ren o r l :
    step rid fmt (ren_state r) l (ren_op o) = let '(r', l', x) := step rid fmt r l o in (ren_state r', l', ren_out x).
  Proof.
    destruct o as [n c|n| |n| |ps]; cbn [step ren_op].
    - unfold register. cbn [ren_state reg tgs]. rewrite (slookup_smap ren_entry).
      assert (G : match fmt n with
                  | None => (ren_state r, l, RErr EValueError)
                  | Some t =>
                      if nmem t (prot l) then (ren_state r, l, RErr ETagProtected)
                      else ({| reg := sset n (f c, t) (smap ren_entry (reg r));
                               tgs := sset t (nadd n match slookup t (tgs r) with Some ns => ns | None => [] end) (tgs r) |},
                            {| ltags := sset t (OComp rid) (ltags l); prot := prot l |}, RNone)
                  end =
                  let '(r', l', x) := match fmt n with
                                      | None => (r, l, RErr EValueError)
                                      | Some t =>
                                          if nmem t (prot l) then (r, l, RErr ETagProtected)
                                          else ({| reg := sset n (c, t) (reg r);
                                                   tgs := sset t (nadd n match slookup t (tgs r) with Some ns => ns | None => [] end) (tgs r) |},
                                                {| ltags := sset t (OComp rid) (ltags l); prot := prot l |}, RNone)
                                      end in (ren_state r', l', ren_out x)).
      { destruct (fmt n) as [t|]; [|reflexivity]. destruct (nmem t (prot l)); [reflexivity|].
        unfold ren_state. cbn [reg tgs ren_out]. rewrite (smap_sset ren_entry). reflexivity. }
      destruct (slookup n (reg r)) as [[c' t']|]; cbn [option_map ren_entry fst snd]; [|exact G].
      rewrite same_class_ren. destruct (same_class c' c); [exact G | reflexivity].
    - apply unregister_ren.
    - unfold clear. rewrite (skeys_smap ren_entry (reg r)) at 1. cbn [ren_state reg]. fold (ren_state r).
      replace (skeys (smap ren_entry (reg r))) with (skeys (reg r)) by (symmetry; apply skeys_smap).
      rewrite unregister_all_ren. destruct (unregister_all (skeys (reg r)) r l) as [[r1 l1] [e|]]; reflexivity.
    - unfold get. cbn [ren_state reg]. rewrite (slookup_smap ren_entry).
      destruct (slookup n (reg r)) as [[c t]|]; reflexivity.
    - rewrite contents_ren. reflexivity.
    - reflexivity.
  Qed.

  Lemma run_ren ops : forall r l,
    run rid fmt (ren_state r) l (map ren_op ops) =
    let '(r', l', xs) := run rid fmt r l ops in (ren_state r', l', map ren_out xs).
  Proof.
    induction ops as [|o ops IH]; intros r l; cbn [run map]; [reflexivity|].
    rewrite step_ren. destruct (step rid fmt r l o) as [[r1 l1] x]. rewrite IH.
    destruct (run rid fmt r1 l1 ops) as [[r2 l2] xs]. reflexivity.
  Qed.
End ObjectRenaming.

Lemma object_renaming_lemma : forall rid fmt (f : N * N -> N * N) l0 ops,
  (forall c, cls_hash (f c) = cls_hash c) ->
  run rid fmt rempty l0 (map (ren_op f) ops) =
  let '(r, l, xs) := run rid fmt rempty l0 ops in (ren_state f r, l, map (ren_out f) xs).
Proof. intros rid fmt f l0 ops Hf. exact (run_ren rid fmt f Hf ops rempty l0). Qed.
