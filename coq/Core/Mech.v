(* Mechanism-level model (M-model) of the component renderer: a transliteration of what the CODE does with Django's
   Context layer stack (component.py ComponentNode.render / Component._render_impl, slots.py SlotNode.render /
   FillNode / resolve_fills / _extract_fill_content / _nodelist_to_slot_render_func.render_func / SlotRef,
   context.py make_isolated_context_copy / _copy_forloop_context, util/context.py snapshot_context,
   provide.py ProvideNode / get_injected_context_var).

   A Context is (an object identity, its list of layers `Context.dicts`): oldest layer first, the LAST one is the top.
   A layer is a Python dict = association list with unique keys (lset).  The internal keys _DJC_COMPONENT_CTX,
   _DJC_INJECT__<key>, _DJANGO_COMPONENTS_GEN_FILL, forloop, component_vars are ordinary entries of layers.
   component_context_cache, the captured_fills lists and provide_cache are id-keyed tables of a global state;
   ids come from one counter.  Every node render returns the output, the new global state AND the layer list the
   Context is left with (so "every push has its pop" is a theorem, not an assumption).
   Deferred rendering is not modelled: a child renders where its tag stands (C14 PostRender covers the queue).
   Definitions only. *)
From DJC Require Import Lib.Base Core.Syntax Core.Sem.
From DJC Require Core.CtxStack.
From Coq Require Import String.
Local Open Scope string_scope.
Local Open Scope list_scope.

(* ---------- internal keys (django_components/context.py, slots.py) ---------- *)
Definition KEY : str := s2n "_DJC_COMPONENT_CTX".
Definition INJ_PREFIX : str := s2n "_DJC_INJECT__".
Definition GEN_FILL : str := s2n "_DJANGO_COMPONENTS_GEN_FILL".
Definition FORLOOP : str := s2n "forloop".
Definition CVARS : str := s2n "component_vars".
Definition inj_key (k : str) : str := INJ_PREFIX ++ k.

(* ---------- what a Context entry can hold ---------- *)
Inductive cval :=
| CVal (v : value)                 (* a user value *)
| CBool (b : bool)                 (* True / False (builtins layer, component_vars.is_filled.x) *)
| CNone
| CId (i : N)                      (* a render id (_DJC_COMPONENT_CTX) or a provide id (_DJC_INJECT__k) *)
| CCollect (n : N)                 (* the captured_fills list object of one _extract_fill_content call *)
| CForloop (counter : N)           (* the forloop dict (only `counter` is observable in the calculus) *)
| CVars (filled : list str)        (* ComponentVars(is_filled = SlotIsFilled(escaped fill names)) *)
| CSlotRef (body : list tpl)       (* SlotRef(slot node, context): the slot's default content ... *)
           (roid : N)              (*   identity of the Context object it holds *)
           (ruse : N)              (*   identity of the Context object the alias was bound on (used_ctx) *)
           (rdicts : list (list (str * cval)))   (* layers of the held Context when the slot tag was reached *)
           (rvars : list (str * cval)).          (* SlotRef._component_vars *)

Definition layer := list (str * cval).
Record ctxt := { oid : N; dicts : list layer }.

(* dict[k] = v : replace in place, else append (insertion order as in Python) *)
Fixpoint lset (k : str) (v : cval) (l : layer) : layer :=
  match l with
  | [] => [(k, v)]
  | (k', v') :: r => if str_eqb k k' then (k, v) :: r else (k', v') :: lset k v r
  end.

(* Context.__getitem__ / get: the topmost (= last) layer that has the key *)
Fixpoint cget (k : str) (ds : list layer) : option cval :=
  match ds with
  | [] => None
  | d :: r => match cget k r with Some v => Some v | None => slookup k d end
  end.

(* Context.__setitem__: writes the top layer *)
Fixpoint cset (k : str) (v : cval) (ds : list layer) : list layer :=
  match ds with
  | [] => []
  | [d] => [lset k v d]
  | d :: r => d :: cset k v r
  end.

Definition cpush (d : layer) (ds : list layer) : list layer := ds ++ [d].
Definition cpop (ds : list layer) : list layer := removelast ds.

(* Context.flatten(): later layers update earlier ones *)
Definition lupdate (acc d : layer) : layer := fold_left (fun a kv => lset (fst kv) (snd kv) a) d acc.
Definition flatten (ds : list layer) : layer := fold_left lupdate ds [].

Definition has_key (k : str) (d : layer) : bool := smem k d.

Definition builtins : layer := [(s2n "True", CBool true); (s2n "False", CBool false); (s2n "None", CNone)].

Definition is_extracting (ds : list layer) : bool :=
  match cget GEN_FILL ds with Some _ => true | None => false end.

(* ---------- expressions ---------- *)
Definition meval (e : expr) (ds : list layer) : cval :=
  match e with
  | EStr s => CVal (VStr s)
  | EVar x => match cget x ds with Some v => v | None => CVal (VStr []) end
  | EDot x f => match cget x ds with
                | Some (CVal (VRec fs)) => match slookup f fs with Some v => CVal v | None => CVal (VStr []) end
                | Some (CForloop n) => if str_eqb f (s2n "counter") then CVal (VStr (num_str n)) else CVal (VStr [])
                | _ => CVal (VStr [])
                end
  | EFilled s => match cget CVARS ds with
                 | Some (CVars names) => CBool (existsb (fun n => str_eqb n s) names)
                 | _ => CVal (VStr [])
                 end
  | ECounter => match cget FORLOOP ds with
                | Some (CForloop n) => CVal (VStr (num_str n))
                | _ => CVal (VStr [])
                end
  end.

Definition cprint (v : cval) : option str :=
  match v with
  | CVal v => Some (print_x (XV v))
  | CBool b => Some (print_x (XBool b))
  | CNone => Some (s2n "None")
  | _ => None
  end.

Definition ctruthy (v : cval) : bool :=
  match v with
  | CVal v => truthy (XV v)
  | CBool b => b
  | CNone => false
  | _ => true
  end.

(* values that cross a tag boundary as keyword arguments / slot data / provided data are program values;
   anything else (a SlotRef, an internal object) is outside the model: `MUnsup` *)
Definition cvalue (v : cval) : option value :=
  match v with
  | CVal v => Some v
  | CBool b => Some (to_value (XBool b))
  | _ => None
  end.

Fixpoint mkwargs (kw : list (str * expr)) (ds : list layer) : option env :=
  match kw with
  | [] => Some []
  | (k, e) :: r =>
      match cvalue (meval e ds), mkwargs r ds with
      | Some v, Some rest => Some ((k, v) :: rest)
      | _, _ => None
      end
  end.

(* ---------- results ---------- *)
Inductive mres (A : Type) :=
| MOk (a : A)
| MErr (k : errkind)
| MFuel
| MUnsup (why : N).      (* the run left the modelled fragment (see the numbered reasons in notes/design11/C01M.md) *)
Arguments MOk {A} a.
Arguments MErr {A} k.
Arguments MFuel {A}.
Arguments MUnsup {A} why.

Definition mbind {A B} (r : mres A) (f : A -> mres B) : mres B :=
  match r with MOk a => f a | MErr k => MErr k | MFuel => MFuel | MUnsup w => MUnsup w end.

(* ---------- global state ---------- *)
(* what _nodelist_to_slot_render_func closes over *)
Record slotfn := { sf_body : list tpl; sf_dvar : option str; sf_defvar : option str; sf_extra : option layer }.

(* ComponentContext (component_context_cache[id]) *)
Record cinst := { ci_name : str; ci_fills : list (str * slotfn); ci_default : option str; ci_outer : option ctxt }.

Record gstate := {
  g_next : N;                                    (* gen_id counter (also used for object identities) *)
  g_cctx : list (N * cinst);                     (* component_context_cache *)
  g_collect : list (N * list (str * slotfn));    (* the captured_fills lists, by object *)
  g_prov : list (N * list (str * value))         (* provide_cache *)
}.

Definition g0 : gstate := {| g_next := 1%N; g_cctx := []; g_collect := []; g_prov := [] |}.

Definition fresh (g : gstate) : N * gstate :=
  (g_next g, {| g_next := N.succ (g_next g); g_cctx := g_cctx g; g_collect := g_collect g; g_prov := g_prov g |}).

Fixpoint aset {V} (k : N) (v : V) (l : list (N * V)) : list (N * V) :=
  match l with
  | [] => [(k, v)]
  | (k', v') :: r => if N.eqb k k' then (k, v) :: r else (k', v') :: aset k v r
  end.

Definition set_cctx (g : gstate) (t : list (N * cinst)) : gstate :=
  {| g_next := g_next g; g_cctx := t; g_collect := g_collect g; g_prov := g_prov g |}.
Definition set_collect (g : gstate) (t : list (N * list (str * slotfn))) : gstate :=
  {| g_next := g_next g; g_cctx := g_cctx g; g_collect := t; g_prov := g_prov g |}.
Definition set_prov (g : gstate) (t : list (N * list (str * value))) : gstate :=
  {| g_next := g_next g; g_cctx := g_cctx g; g_collect := g_collect g; g_prov := t |}.

Definition R := (str * gstate * ctxt)%type.
Definition with_dicts (c : ctxt) (ds : list layer) : ctxt := {| oid := oid c; dicts := ds |}.

(* ---------- copies of a Context ---------- *)
(* util/context.py snapshot_context: a new Context object with the same layers (the CopiedDict sharing between
   snapshots is not observable: layers are only ever written while they are the freshly pushed top layer) *)
Definition snapshot (g : gstate) (c : ctxt) : ctxt * gstate :=
  let '(o, g1) := fresh g in ({| oid := o; dicts := dicts c |}, g1).

(* context.py make_isolated_context_copy (+ _copy_forloop_context) *)
Definition starts_inj (k : str) : bool := starts_with INJ_PREFIX k.

Definition copy_forloop (from : list layer) (to : list layer) : list layer :=
  match cget FORLOOP from with
  | None => to
  | Some _ =>
      (* forloop_dict_index = get_last_index(dicts, has forloop) or -1 *)
      let d := match CtxStack.get_last_index (has_key FORLOOP) from with
               | Some (S i) => nth (S i) from []
               | _ => last from []
               end in
      cpush d to
  end.

Definition make_isolated_context_copy (g : gstate) (c : ctxt) : ctxt * gstate :=
  let '(o, g1) := fresh g in
  let ds0 := copy_forloop (dicts c) [builtins] in
  let ds1 := match cget KEY (dicts c) with Some v => cset KEY v ds0 | None => ds0 end in
  let ds2 := fold_left (fun ds kv => if starts_inj (fst kv)
                                     then match cget (fst kv) (dicts c) with Some v => cset (fst kv) v ds | None => ds end
                                     else ds) (flatten (dicts c)) ds1 in
  ({| oid := o; dicts := ds2 |}, g1).

(* ---------- get_context_data (the generated components: kwargs.get / constant / self.inject) ---------- *)
Fixpoint m_eval_data (ds : list (str * dexpr)) (kw : env) (g : gstate) (cds : list layer) : mres layer :=
  match ds with
  | [] => MOk []
  | (x, d) :: r =>
      mbind (match d with
             | DKw k => MOk (match slookup k kw with Some v => v | None => VStr [] end)
             | DStr s => MOk (VStr s)
             | DInject key field dflt =>
                 (* get_injected_context_var(self.input.context, key, default) *)
                 match cget (inj_key key) cds with
                 | Some (CId pid) =>
                     match alookup pid (g_prov g) with
                     | Some fs => match slookup field fs with Some v => MOk v | None => MErr EAttribute end
                     | None => MErr EKey
                     end
                 | Some _ => MErr EKey
                 | None => match dflt with Some d => MOk (VStr d) | None => MErr EKey end
                 end
             end) (fun v =>
      mbind (m_eval_data r kw g cds) (fun rest => MOk (rest ++ [(x, CVal v)])))   (* dict: later keys win *)
  end.

(* ---------- FillNode._extract_fill: variables captured for a fill ---------- *)
Definition starts_underscore (k : str) : bool := match k with 95%N :: _ => true | _ => false end.

Definition capture_extra (ds : list layer) : layer :=
  let from := match CtxStack.get_last_index (has_key GEN_FILL) ds with Some i => skipn i ds | None => ds end in
  let e1 := fold_left (fun acc d => fold_left (fun a kv => if starts_underscore (fst kv) then a else lset (fst kv) (snd kv) a) d acc) from [] in
  fold_left (fun acc d => if has_key FORLOOP d then lupdate acc d else acc) ds e1.

Definition opt_ident_ok (o : option str) : bool := match o with Some s => is_ident s | None => true end.

(* the outer_context of a component_context_cache entry is a shared mutable object *)
Definition with_outer (ci : cinst) (o : option ctxt) : cinst :=
  {| ci_name := ci_name ci; ci_fills := ci_fills ci; ci_default := ci_default ci; ci_outer := o |}.
(* entries whose outer Context is the object c see its current layers *)
Definition share_outer (c : ctxt) (t : list (N * cinst)) : list (N * cinst) :=
  map (fun kc => (fst kc, match ci_outer (snd kc) with
                          | Some o => if N.eqb (oid o) (oid c) then with_outer (snd kc) (Some c) else snd kc
                          | None => snd kc
                          end)) t.
(* ... and afterwards again the layers recorded before (every frame restores the layer list: ctx_restored) *)
Definition restore_outer (before after : list (N * cinst)) : list (N * cinst) :=
  map (fun kc => (fst kc, match alookup (fst kc) before with
                          | Some ci0 => with_outer (snd kc) (ci_outer ci0)
                          | None => snd kc
                          end)) after.

(* ---------- rendering ---------- *)
Section MRender.
  Variable md : mode.
  Variable lib : list (str * cdef).

  Definition is_django : bool := match md with Django => true | Isolated => false end.

  (* {% for %}: the iterations, on the layer pushed by ForNode *)
  Fixpoint mfor_items (x : str) (bodyf : gstate -> ctxt -> mres R) (vs : list value) (i : N) (g : gstate) (c : ctxt) : mres R :=
    match vs with
    | [] => MOk ([], g, c)
    | v :: r =>
        let c1 := with_dicts c (cset x (CVal v) (cset FORLOOP (CForloop i) (dicts c))) in
        mbind (bodyf g c1) (fun '(a, g1, c2) =>
        mbind (mfor_items x bodyf r (N.succ i) g1 c2) (fun '(b, g2, c3) => MOk (a ++ b, g2, c3)))
    end.

  (* ForNode: the values iterated over (only lists iterate in the calculus) *)
  Definition for_values (seq : cval) : mres (list value) :=
    match seq with
    | CSlotRef _ _ _ _ _ => MErr EType           (* 'SlotRef' object is not iterable *)
    | CVal v => MOk (loop_items (XV v))
    | _ => MOk []
    end.

  Definition mfor (x : str) (seq : cval) (bodyf : gstate -> ctxt -> mres R) (g : gstate) (c : ctxt) : mres R :=
    mbind (for_values seq) (fun vs =>
      let c1 := with_dicts c (cpush [] (dicts c)) in
      match vs with
      | [] => MOk ([], g, with_dicts c1 (cpop (dicts c1)))
      | _ => mbind (mfor_items x bodyf vs 1%N g c1) (fun '(a, g1, c2) => MOk (a, g1, with_dicts c2 (cpop (dicts c2))))
      end).

  Definition mwith (x : str) (v : cval) (bodyf : gstate -> ctxt -> mres R) (g : gstate) (c : ctxt) : mres R :=
    mbind (bodyf g (with_dicts c (cpush [(x, v)] (dicts c)))) (fun '(a, g1, c2) => MOk (a, g1, with_dicts c2 (cpop (dicts c2)))).

  (* ProvideNode.render *)
  Definition mprovide (key : str) (kw : list (str * expr)) (bodyf : gstate -> ctxt -> mres R) (g : gstate) (c : ctxt) : mres R :=
    match mkwargs kw (dicts c) with
    | None => MUnsup 1
    | Some kwv =>
        if negb (is_ident key) then MErr ETemplateSyntax
        else
          let '(pid, g1) := fresh g in
          let c1 := with_dicts c (cset (inj_key key) (CId pid) (cpush [] (dicts c))) in
          let g2 := set_prov g1 (aset pid kwv (g_prov g1)) in
          mbind (bodyf g2 c1) (fun '(a, g3, c2) => MOk (a, g3, with_dicts c2 (cpop (dicts c2))))
    end.

  (* FillNode.render while fills are being collected *)
  Definition mfill (name : expr) (dv defv : option str) (body : list tpl) (g : gstate) (c : ctxt) : mres R :=
    match meval name (dicts c) with
    | CVal (VStr nm) =>
        if negb (opt_ident_ok dv) || negb (opt_ident_ok defv) then MErr ERuntime
        else if match dv, defv with Some a, Some b => str_eqb a b | _, _ => false end then MErr ERuntime
        else
          match cget GEN_FILL (dicts c) with
          | Some (CCollect n) =>
              let fr := (nm, {| sf_body := body; sf_dvar := dv; sf_defvar := defv; sf_extra := Some (capture_extra (dicts c)) |}) in
              let old := match alookup n (g_collect g) with Some l => l | None => [] end in
              MOk ([], set_collect g (aset n (old ++ [fr]) (g_collect g)), c)
          | _ => MOk ([], g, c)
          end
    | _ => MErr ETemplateSyntax
    end.

  Section Step.
    Variable rec : gstate -> ctxt -> tpl -> mres R.

    Fixpoint mrl (g : gstate) (c : ctxt) (ts : list tpl) : mres R :=
      match ts with
      | [] => MOk ([], g, c)
      | t :: r => mbind (rec g c t) (fun '(a, g1, c1) =>
                  mbind (mrl g1 c1 r) (fun '(b, g2, c2) => MOk (a ++ b, g2, c2)))
      end.

    (* str(SlotRef): `with self._context.update(self._component_vars): nodelist.render(self._context)`.
       The held Context is the current one (django mode / same object): its layers are the current layers.
       Otherwise it must be the object the alias was bound on that is current (then the held Context still has the
       layers it had at the slot tag); any other situation crosses a deferred-render boundary: not modelled. *)
    Definition mslotref (body : list tpl) (roid ruse : N) (rdicts : list layer) (rvars : layer) (g : gstate) (c : ctxt) : mres R :=
      if N.eqb (oid c) roid then
        mbind (mrl g (with_dicts c (cpush rvars (dicts c))) body) (fun '(a, g1, c1) => MOk (a, g1, with_dicts c1 (cpop (dicts c1))))
      else if N.eqb (oid c) ruse then
        (* isolated mode: the current Context c is the outer_context OBJECT of some instance, in the middle of a fill;
           slots of that instance reached from the slot's default content will use this very object again, with the
           layers it has NOW: the cache entries holding it see the current layers while the default content renders *)
        mbind (mrl (set_cctx g (share_outer c (g_cctx g))) {| oid := roid; dicts := cpush rvars rdicts |} body) (fun '(a, g1, _) =>
        MOk (a, set_cctx g1 (restore_outer (g_cctx g) (g_cctx g1)), c))
      else MUnsup 2.

    Definition mout (e : expr) (g : gstate) (c : ctxt) : mres R :=
      match meval e (dicts c) with
      | CSlotRef body roid ruse rdicts rvars => mslotref body roid ruse rdicts rvars g c
      | v => match cprint v with Some s => MOk (s, g, c) | None => MUnsup 3 end
      end.

    (* a node rendered while _is_extracting_fill(context) holds: structural in the template *)
    Fixpoint mex (g : gstate) (c : ctxt) (t : tpl) {struct t} : mres R :=
      let exl := fix exl (ts : list tpl) (g : gstate) (c : ctxt) {struct ts} : mres R :=
        match ts with
        | [] => MOk ([], g, c)
        | t :: r => mbind (mex g c t) (fun '(a, g1, c1) =>
                    mbind (exl r g1 c1) (fun '(b, g2, c2) => MOk (a ++ b, g2, c2)))
        end in
      match t with
      | TText s => MOk (s, g, c)
      | TOut e => mout e g c
      | TIf cnd a b => if ctruthy (meval cnd (dicts c)) then exl a g c else exl b g c
      | TFor x e body => mfor x (meval e (dicts c)) (exl body) g c
      | TWith x e body => mwith x (meval e (dicts c)) (exl body) g c
      | TProvide key kw body => mprovide key kw (exl body) g c
      | TSlot _ _ _ data _ => match mkwargs data (dicts c) with Some _ => MOk ([], g, c) | None => MUnsup 1 end
      | TComp _ kw _ _ => match mkwargs kw (dicts c) with Some _ => MOk ([], g, c) | None => MUnsup 1 end
      | TFill name dv defv body => mfill name dv defv body g c
      end.

    Fixpoint mexl (ts : list tpl) (g : gstate) (c : ctxt) : mres R :=
      match ts with
      | [] => MOk ([], g, c)
      | t :: r => mbind (mex g c t) (fun '(a, g1, c1) =>
                  mbind (mexl r g1 c1) (fun '(b, g2, c2) => MOk (a ++ b, g2, c2)))
      end.

    (* slots.py resolve_fills + _extract_fill_content *)
    Definition m_resolve_fills (g : gstate) (c : ctxt) (body : list tpl) : mres (list (str * slotfn) * gstate * ctxt) :=
      match body with
      | [] => MOk ([], g, c)
      | _ =>
          let '(n, g1) := fresh g in
          let g2 := set_collect g1 (aset n [] (g_collect g1)) in
          let c1 := with_dicts c (cpush [(GEN_FILL, CCollect n)] (dicts c)) in
          mbind (mexl body g2 c1) (fun '(content, g3, c2) =>
          let c3 := with_dicts c2 (cpop (dicts c2)) in
          let captured := match alookup n (g_collect g3) with Some l => l | None => [] end in
          match captured with
          | [] => if body_is_empty body then MOk ([], g3, c3)
                  else MOk ([(default_key, {| sf_body := body; sf_dvar := None; sf_defvar := None; sf_extra := None |})], g3, c3)
          | _ => if negb (all_space content) then MErr ETemplateSyntax
                 else if has_dup (map fst captured) then MErr ETemplateSyntax
                 else MOk (captured, g3, c3)
          end)
      end.

    (* _nodelist_to_slot_render_func.render_func(ctx, slot_data, slot_ref) *)
    Definition m_render_func (f : slotfn) (sdata : value) (sref : cval) (g : gstate) (c : ctxt) : mres R :=
      let ds1 := match sf_dvar f with Some x => cset x (CVal sdata) (dicts c) | None => dicts c end in
      let ds2 := match sf_defvar f with Some x => cset x sref ds1 | None => ds1 end in
      let i := (match CtxStack.get_last_index (has_key KEY) ds2 with Some i => Z.of_nat i | None => 0%Z end - 1)%Z in
      let ds3 := CtxStack.py_insertZ i (match sf_extra f with Some e => e | None => [] end) ds2 in
      mbind (mrl g (with_dicts c ds3) (sf_body f)) (fun '(a, g1, c1) =>
      match CtxStack.py_popZ i (dicts c1) with
      | Some ds4 => MOk (a, g1, with_dicts c1 ds4)
      | None => MUnsup 9        (* IndexError from list.pop: impossible, see MechProofs.ctx_restored *)
      end).

    (* SlotNode.render: the `default` flag bookkeeping on component_ctx.default_slot *)
    Definition slot_default_check (rid : N) (ci : cinst) (name : str) (isd : bool) (g : gstate) : mres gstate :=
      if isd then
        match ci_default ci with
        | Some d => if negb (str_eqb name d) then MErr ETemplateSyntax else MOk g
        | None => MOk (set_cctx g (aset rid {| ci_name := ci_name ci; ci_fills := ci_fills ci; ci_default := Some name; ci_outer := ci_outer ci |} (g_cctx g)))
        end
      else MOk g.

    (* SlotNode.render: extra_context = component-key override (filled slots, django mode) + inject keys pass-through *)
    Definition slot_extra (ci : cinst) (is_filled : bool) (ds : list layer) : mres layer :=
      mbind (if is_filled && is_django then
               match ci_outer ci with
               | Some o => match cget KEY (dicts o) with
                           | Some k => match cget CVARS (dicts o) with
                                       | Some cv => MOk [(KEY, k); (CVARS, cv)]
                                       | None => MErr EKey
                                       end
                           | None => MOk []
                           end
               | None => MOk []
               end
             else MOk []) (fun ex1 =>
      MOk (fold_left (fun a kv => if starts_inj (fst kv) then lset (fst kv) (snd kv) a else a) (flatten ds) ex1)).

    Definition slot_rvars (ds : list layer) : layer :=
      (match cget KEY ds with Some v => [(KEY, v)] | None => [] end)
      ++ (match cget CVARS ds with Some v => [(CVARS, v)] | None => [] end).

    Definition unfilled_fn (body : list tpl) : slotfn :=
      {| sf_body := body; sf_dvar := None; sf_defvar := None; sf_extra := None |}.

    Definition mslot (name : str) (isd isr : bool) (data : list (str * expr)) (body : list tpl) (g : gstate) (c : ctxt) : mres R :=
      match mkwargs data (dicts c) with
      | None => MUnsup 1
      | Some kwv =>
      if is_extracting (dicts c) then MOk ([], g, c)
      else
      match cget KEY (dicts c) with
      | Some (CId rid) =>
        match alookup rid (g_cctx g) with
        | None => MErr EKey                      (* component_context_cache[component_id] *)
        | Some ci =>
          let fills := ci_fills ci in
          mbind (slot_default_check rid ci name isd g) (fun g1 =>
          if isd && negb (str_eqb name default_key) && smem name fills && smem default_key fills then MErr ETemplateSyntax
          else
          let fill_name := if isd && smem default_key fills then default_key else name in
          let filled := slookup fill_name fills in
          match filled, isr with
          | None, true => MErr ETemplateSyntax
          | _, _ =>
            let is_filled := match filled with Some _ => true | None => false end in
            mbind (slot_extra ci is_filled (dicts c)) (fun extra =>
            let f := match filled with Some f => f | None => unfilled_fn body end in
            (* _resolve_slot_context: the current Context (unfilled, or django mode), else the outer one *)
            if negb is_filled || is_django then
              let sref := CSlotRef body (oid c) (oid c) (dicts c) (slot_rvars (dicts c)) in
              mbind (m_render_func f (VRec kwv) sref g1 (with_dicts c (cpush extra (dicts c)))) (fun '(a, g3, c2) =>
              MOk (a, g3, with_dicts c2 (cpop (dicts c2))))
            else
              let '(used, g2) := match ci_outer ci with
                                 | Some o => (o, g1)
                                 | None => let '(o, g') := fresh g1 in ({| oid := o; dicts := [builtins] |}, g')
                                 end in
              let sref := CSlotRef body (oid c) (oid used) (dicts c) (slot_rvars (dicts c)) in
              mbind (m_render_func f (VRec kwv) sref g2 (with_dicts used (cpush extra (dicts used)))) (fun '(a, g3, _) =>
              MOk (a, g3, c)))
          end)
        end
      | _ => MErr ETemplateSyntax          (* slot tag outside of a component *)
      end
      end.

    (* ComponentNode.render + Component._render_impl (the template is rendered in place) *)
    Definition mcomp (cname : str) (kw : list (str * expr)) (only : bool) (body : list tpl) (g : gstate) (c : ctxt) : mres R :=
      match mkwargs kw (dicts c) with
      | None => MUnsup 1
      | Some kwv =>
      if is_extracting (dicts c) then MOk ([], g, c)
      else
      match slookup cname lib with
      | None => MErr ENotRegistered
      | Some cd =>
        mbind (m_resolve_fills g c body) (fun '(fills, g1, c1) =>
        (* outer_context = context; isolated / only: make_isolated_context_copy *)
        let isolated := only || negb is_django in
        let '(cc, g2) := if isolated then make_isolated_context_copy g1 c1 else (c1, g1) in
        let '(rid, g3) := fresh g2 in
        let '(outer_snap, g4) := snapshot g3 c1 in
        mbind (m_eval_data (c_data cd) kwv g4 (dicts cc)) (fun data =>
        (* _prepare_template: context.update(context_data); then the internal-key layer; snapshot; pop; pop *)
        let ds1 := cpush data (dicts cc) in
        let ds2 := cpush [(KEY, CId rid); (CVARS, CVars (map (fun kf => escape_name (fst kf)) fills))] ds1 in
        let '(snap, g5) := snapshot g4 (with_dicts cc ds2) in
        let cc_after := with_dicts cc (cpop (cpop ds2)) in
        let g6 := set_cctx g5 (aset rid {| ci_name := cname; ci_fills := fills; ci_default := None; ci_outer := Some outer_snap |} (g_cctx g5)) in
        (* the deferred renderer, run in place: template.render(context_snapshot); then on_component_rendered *)
        mbind (mrl g6 snap (c_tpl cd)) (fun '(a, g7, _) =>
        let g8 := set_cctx g7 (aremove rid (g_cctx g7)) in
        MOk (a, g8, if isolated then c1 else cc_after))))
      end
      end.

    (* mcomp with the error of the child's TEMPLATE render deferred, as the implementation's render queue does: a nested
       component's template is rendered after its parent's template has finished, so an error in it cannot pre-empt what
       the parent does later.  Used only by the comparison rule for implementation RecursionErrors (no theorem). *)
    Definition mcomp_d (cname : str) (kw : list (str * expr)) (only : bool) (body : list tpl) (g : gstate) (c : ctxt) : mres R :=
      match mkwargs kw (dicts c) with
      | None => MUnsup 1
      | Some kwv =>
      if is_extracting (dicts c) then MOk ([], g, c)
      else
      match slookup cname lib with
      | None => MErr ENotRegistered
      | Some cd =>
        mbind (m_resolve_fills g c body) (fun '(fills, g1, c1) =>
        let isolated := only || negb is_django in
        let '(cc, g2) := if isolated then make_isolated_context_copy g1 c1 else (c1, g1) in
        let '(rid, g3) := fresh g2 in
        let '(outer_snap, g4) := snapshot g3 c1 in
        mbind (m_eval_data (c_data cd) kwv g4 (dicts cc)) (fun data =>
        let ds1 := cpush data (dicts cc) in
        let ds2 := cpush [(KEY, CId rid); (CVARS, CVars (map (fun kf => escape_name (fst kf)) fills))] ds1 in
        let '(snap, g5) := snapshot g4 (with_dicts cc ds2) in
        let cc_after := with_dicts cc (cpop (cpop ds2)) in
        let g6 := set_cctx g5 (aset rid {| ci_name := cname; ci_fills := fills; ci_default := None; ci_outer := Some outer_snap |} (g_cctx g5)) in
        match mrl g6 snap (c_tpl cd) with
        | MOk (a, g7, _) => MOk (a, set_cctx g7 (aremove rid (g_cctx g7)), if isolated then c1 else cc_after)
        | MErr _ => MOk ([], g5, if isolated then c1 else cc_after)       (* raised later, from the queue *)
        | MFuel => MFuel
        | MUnsup w => MUnsup w
        end))
      end
      end.

    Definition mstep (g : gstate) (c : ctxt) (t : tpl) : mres R :=
      match t with
      | TText s => MOk (s, g, c)
      | TOut e => mout e g c
      | TIf cnd a b => if ctruthy (meval cnd (dicts c)) then mrl g c a else mrl g c b
      | TFor x e body => mfor x (meval e (dicts c)) (fun g c => mrl g c body) g c
      | TWith x e body => mwith x (meval e (dicts c)) (fun g c => mrl g c body) g c
      | TProvide key kw body => mprovide key kw (fun g c => mrl g c body) g c
      | TSlot name isd isr data body => mslot name isd isr data body g c
      | TComp cname kw only body => mcomp cname kw only body g c
      | TFill name dv defv body =>
          (* wrapper_render resolves the arguments first *)
          if is_extracting (dicts c) then mfill name dv defv body g c else MErr ETemplateSyntax
      end.
    Definition mstep_d (g : gstate) (c : ctxt) (t : tpl) : mres R :=
      match t with
      | TText s => MOk (s, g, c)
      | TOut e => mout e g c
      | TIf cnd a b => if ctruthy (meval cnd (dicts c)) then mrl g c a else mrl g c b
      | TFor x e body => mfor x (meval e (dicts c)) (fun g c => mrl g c body) g c
      | TWith x e body => mwith x (meval e (dicts c)) (fun g c => mrl g c body) g c
      | TProvide key kw body => mprovide key kw (fun g c => mrl g c body) g c
      | TSlot name isd isr data body => mslot name isd isr data body g c
      | TComp cname kw only body => mcomp_d cname kw only body g c
      | TFill name dv defv body =>
          (* wrapper_render resolves the arguments first *)
          if is_extracting (dicts c) then mfill name dv defv body g c else MErr ETemplateSyntax
      end.
  End Step.

  Fixpoint mrender (fuel : nat) (g : gstate) (c : ctxt) (t : tpl) {struct fuel} : mres R :=
    match fuel with
    | O => MFuel
    | S f => mstep (mrender f) g c t
    end.

  Definition mrender_list (fuel : nat) (g : gstate) (c : ctxt) (ts : list tpl) : mres R := mrl (mrender fuel) g c ts.

  Fixpoint mrender_d (fuel : nat) (g : gstate) (c : ctxt) (t : tpl) {struct fuel} : mres R :=
    match fuel with
    | O => MFuel
    | S f => mstep_d (mrender_d f) g c t
    end.
End MRender.

(* Template(page).render(Context(dict(ctx))) *)
Definition page_ctxt (p : prog) : ctxt :=
  {| oid := 0%N; dicts := [builtins; map (fun kv => (fst kv, CVal (snd kv))) (p_ctx p)] |}.

Definition mrender_prog (fuel : nat) (p : prog) : mres R :=
  mrender_list (p_mode p) (p_lib p) fuel g0 (page_ctxt p) (p_page p).

Definition mout_of (r : mres R) : mres str :=
  match r with MOk (a, _, _) => MOk a | MErr k => MErr k | MFuel => MFuel | MUnsup w => MUnsup w end.

Definition embed (r : res str) : mres str :=
  match r with Ok a => MOk a | Err k => MErr k | OutOfFuel => MFuel end.

Definition mres_str_eqb (a b : mres str) : bool :=
  match a, b with
  | MOk x, MOk y => str_eqb x y
  | MErr k, MErr k' => errkind_eqb k k'
  | MFuel, MFuel => true
  | MUnsup x, MUnsup y => N.eqb x y
  | _, _ => false
  end.

(* ---------- correspondence ---------- *)
(* M's output = the implementation's output *)
Definition check_mech (c : core_case) : bool :=
  match mout_of (mrender_prog 200 (fst c)), snd c with
  | MOk s, OOk s' => str_eqb s s'
  | MErr k, OErr k' => errkind_eqb k k'
  | _, _ => false
  end.
(* several independent error sources: deferred rendering may surface another one first *)
Definition check_mech_lenient (c : core_case) : bool :=
  match mout_of (mrender_prog 200 (fst c)), snd c with
  | MOk s, OOk s' => str_eqb s s'
  | MErr _, OErr _ => true
  | _, _ => false
  end.
(* true iff the run stays inside the modelled fragment *)
Definition mech_supported (c : core_case) : bool :=
  match mrender_prog 200 (fst c) with MUnsup _ => false | _ => true end.

(* M = S *)
Definition check_ms (p : prog) : bool :=
  mres_str_eqb (mout_of (mrender_prog 200 p)) (embed (render_prog 200 p)).
Definition check_ms_lenient (p : prog) : bool :=
  match mout_of (mrender_prog 200 p), render_prog 200 p with
  | MErr _, Err _ => true
  | a, b => mres_str_eqb a (embed b)
  end.
(* the caller's Context is left with the layers it had *)
Definition check_restored (p : prog) : bool :=
  match mrender_prog 200 p with
  | MOk (_, _, c) => N.eqb (oid c) 0 && Nat.eqb (List.length (dicts c)) 2
  | _ => true
  end.
(* the implementation recursed without bound (RecursionError): M must not terminate within the fuel either *)
Definition check_mech_diverges (p : prog) : bool :=
  match mrender_prog 200 p with MFuel => true | _ => false end.
Definition mech_unsup_reason (c : core_case) : N :=
  match mrender_prog 200 (fst c) with MUnsup w => w | _ => 0%N end.

(* ---------- the fragment for which M = S is proved (Core/MechProofs.v) ---------- *)
(* names a template may bind or read: not an internal key (leading underscore), not a name the machinery or Django's
   builtins layer binds *)
Definition uname (x : str) : bool :=
  negb (starts_underscore x) &&
  negb (existsb (str_eqb x) [CVARS; FORLOOP; s2n "True"; s2n "False"; s2n "None"]).
Definition binder_ok (x : str) : bool := is_ident x && uname x.

Fixpoint smemb (x : str) (l : list str) : bool :=
  match l with [] => false | y :: r => str_eqb x y || smemb x r end.

(* inbody: inside the body of a component tag (fill content / implicit default content) *)
Definition expr_ok (inbody : bool) (e : expr) : bool :=
  match e with
  | EStr _ => true
  | EVar x => uname x
  | EDot x _ => uname x
  | EFilled _ => negb inbody
  | ECounter => false
  end.
Definition val_expr_ok (e : expr) : bool :=
  match e with EFilled _ => false | _ => expr_ok true e end.
Definition kw_ok (inbody : bool) (kw : list (str * expr)) : bool := forallb (fun ke => expr_ok inbody (snd ke)) kw.

Fixpoint wf_t (inbody : bool) (G : list str) (t : tpl) {struct t} : bool :=
  let wl := fix wl (inbody : bool) (G : list str) (ts : list tpl) {struct ts} : bool :=
    match ts with [] => true | t :: r => wf_t inbody G t && wl inbody G r end in
  match t with
  | TText _ => true
  | TOut e => expr_ok inbody e
  | TIf c a b => expr_ok inbody c && wl inbody G a && wl inbody G b
  | TFor _ _ _ => false
  | TWith x e body => val_expr_ok e && binder_ok x && negb (smemb x G) && wl inbody (x :: G) body
  | TSlot _ _ _ data body => negb inbody && kw_ok false data && wl false G body
  | TFill name dv defv body =>
      expr_ok true name && match defv with None => true | Some _ => false end &&
      match dv with
      | Some x => binder_ok x && negb (smemb x G) && wl true (x :: G) body
      | None => wl true G body
      end
  | TComp _ kw _ body => kw_ok inbody kw && wl true G body
  | TProvide _ _ _ => false
  end.
Fixpoint wf_l (inbody : bool) (G : list str) (ts : list tpl) : bool :=
  match ts with [] => true | t :: r => wf_t inbody G t && wf_l inbody G r end.

(* names of the slot tags flagged `default` that belong to a template (slot defaults included) *)
Fixpoint slot_defaults_t (t : tpl) : list str :=
  let sl := fix sl (ts : list tpl) : list str :=
    match ts with [] => [] | t :: r => slot_defaults_t t ++ sl r end in
  match t with
  | TIf _ a b => sl a ++ sl b
  | TFor _ _ body => sl body
  | TWith _ _ body => sl body
  | TSlot name isd _ _ body => (if isd then [name] else []) ++ sl body
  | TProvide _ _ body => sl body
  | _ => []
  end.
Fixpoint slot_defaults (ts : list tpl) : list str :=
  match ts with [] => [] | t :: r => slot_defaults_t t ++ slot_defaults r end.
Definition all_same (l : list str) : bool :=
  match l with [] => true | n :: r => forallb (str_eqb n) r end.

Definition dexpr_ok (d : dexpr) : bool := match d with DInject _ _ _ => false | _ => true end.

Definition wf_cdef (cd : cdef) : bool :=
  forallb (fun xd => binder_ok (fst xd) && dexpr_ok (snd xd)) (c_data cd) &&
  wf_l false (map fst (c_data cd)) (c_tpl cd) &&
  all_same (slot_defaults (c_tpl cd)).

(* isolated mode; no for loops, no provide/inject, no `default=` alias on fills; no slot tag and no
   component_vars.is_filled test inside the body of a component tag; no binder shadows a visible name;
   one name for the slots flagged `default` per template *)
Definition wf_prog (p : prog) : bool :=
  match p_mode p with Isolated => true | Django => false end &&
  forallb (fun nc => wf_cdef (snd nc)) (p_lib p) &&
  forallb (fun kv => binder_ok (fst kv)) (p_ctx p) &&
  wf_l false (map fst (p_ctx p)) (p_page p).

(* test of the theorem's statement before/independently of its proof: wf_prog p -> M p = S p *)
Definition check_wf_ms (p : prog) : bool := negb (wf_prog p) || check_ms p.

(* one pass over the cases in the common (all agree) situation *)
Definition check_mech_restored (c : core_case) : bool := check_mech c && check_restored (fst c).
Definition check_all (c : core_case) : bool := check_mech c && check_restored (fst c) && check_ms (fst c).
Definition mech_unsup_p (p : prog) : bool :=
  match mrender_prog 200 p with MUnsup _ => false | _ => true end.

(* ---------- the django-mode fragment for which M = S is proved (Core/MechDjango.v) ---------- *)
(* with-binders of a template, tagged with "written inside the body of a component tag" *)
Fixpoint withs_t (inbody : bool) (t : tpl) {struct t} : list (bool * str) :=
  let wl := fix wl (inbody : bool) (ts : list tpl) {struct ts} : list (bool * str) :=
    match ts with [] => [] | t :: r => withs_t inbody t ++ wl inbody r end in
  match t with
  | TIf _ a b => wl inbody a ++ wl inbody b
  | TFor _ _ body => wl inbody body
  | TWith x _ body => (inbody, x) :: wl inbody body
  | TSlot _ _ _ _ body => wl inbody body
  | TFill _ _ _ body => wl true body
  | TComp _ _ _ body => wl true body
  | TProvide _ _ body => wl inbody body
  | _ => []
  end.
Fixpoint withs_l (inbody : bool) (ts : list tpl) : list (bool * str) :=
  match ts with [] => [] | t :: r => withs_t inbody t ++ withs_l inbody r end.

Definition prog_withs (p : prog) : list (bool * str) :=
  withs_l false (p_page p) ++ flat_map (fun nc => withs_l false (c_tpl (snd nc))) (p_lib p).
(* names bound at template level: page variables, get_context_data names, with-variables outside component-tag bodies *)
Definition tb_of (p : prog) : list str :=
  map fst (p_ctx p) ++ flat_map (fun nc => map fst (c_data (snd nc))) (p_lib p) ++
  map snd (filter (fun bx => negb (fst bx)) (prog_withs p)).
(* with-variables bound inside component-tag bodies (between tag and fill, or inside fill content) *)
Definition xb_of (p : prog) : list str := map snd (filter (fun bx => fst bx) (prog_withs p)).

Fixpoint wf_t_dj (TB XB : list str) (inbody : bool) (t : tpl) {struct t} : bool :=
  let wl := fix wl (inbody : bool) (ts : list tpl) {struct ts} : bool :=
    match ts with [] => true | t :: r => wf_t_dj TB XB inbody t && wl inbody r end in
  match t with
  | TText _ => true
  | TOut e => expr_ok inbody e
  | TIf c a b => expr_ok inbody c && wl inbody a && wl inbody b
  | TFor _ _ _ => false
  | TWith x e body => val_expr_ok e && binder_ok x && smemb x (if inbody then XB else TB) && wl inbody body
  | TSlot _ _ _ data body => negb inbody && kw_ok false data && wl false body
  | TFill name dv defv body =>
      expr_ok true name && match defv with None => true | Some _ => false end &&
      match dv with Some x => binder_ok x | None => true end && wl true body
  | TComp _ kw only body => negb only && kw_ok inbody kw && wl true body
  | TProvide _ _ _ => false
  end.
Definition wf_l_dj (TB XB : list str) : bool -> list tpl -> bool :=
  fix wl (inbody : bool) (ts : list tpl) {struct ts} : bool :=
    match ts with [] => true | t :: r => wf_t_dj TB XB inbody t && wl inbody r end.

Definition wf_cdef_dj (TB XB : list str) (cd : cdef) : bool :=
  forallb (fun xd => binder_ok (fst xd) && dexpr_ok (snd xd) && smemb (fst xd) TB) (c_data cd) &&
  wf_l_dj TB XB false (c_tpl cd) &&
  all_same (slot_defaults (c_tpl cd)).

(* django context behaviour, no `only`; the fragment of wf_prog (no for, no provide/inject, no default= alias, no slot tag
   and no is_filled test inside component-tag bodies; one name for the `default` slots per template); and NO with-variable
   bound inside the body of a component tag has the name of a page variable, of a get_context_data variable or of a
   with-variable bound at template level (pairwise distinct binder names imply this).  Shadowing is otherwise allowed. *)
Definition wf_prog_django (p : prog) : bool :=
  let TB := tb_of p in
  let XB := xb_of p in
  match p_mode p with Django => true | Isolated => false end &&
  forallb (fun x => negb (smemb x TB)) XB &&
  forallb (fun nc => wf_cdef_dj TB XB (snd nc)) (p_lib p) &&
  forallb (fun kv => binder_ok (fst kv)) (p_ctx p) &&
  wf_l_dj TB XB false (p_page p).

Definition check_wf_ms_django (p : prog) : bool := negb (wf_prog_django p) || check_ms p.

(* ---------- isolated fragment widened by provide / inject (Core/MechIsoProv.v) ---------- *)
Fixpoint wf_tp (inbody : bool) (G : list str) (t : tpl) {struct t} : bool :=
  let wl := fix wl (inbody : bool) (G : list str) (ts : list tpl) {struct ts} : bool :=
    match ts with [] => true | t :: r => wf_tp inbody G t && wl inbody G r end in
  match t with
  | TText _ => true
  | TOut e => expr_ok inbody e
  | TIf c a b => expr_ok inbody c && wl inbody G a && wl inbody G b
  | TFor _ _ _ => false
  | TWith x e body => val_expr_ok e && binder_ok x && negb (smemb x G) && wl inbody (x :: G) body
  | TSlot _ _ _ data body => negb inbody && kw_ok false data && wl false G body
  | TFill name dv defv body =>
      expr_ok true name && match defv with None => true | Some _ => false end &&
      match dv with
      | Some x => binder_ok x && negb (smemb x G) && wl true (x :: G) body
      | None => wl true G body
      end
  | TComp _ kw _ body => kw_ok inbody kw && wl true G body
  | TProvide _ kw body => kw_ok inbody kw && wl inbody G body
  end.
Fixpoint wf_lp (inbody : bool) (G : list str) (ts : list tpl) : bool :=
  match ts with [] => true | t :: r => wf_tp inbody G t && wf_lp inbody G r end.

Definition wf_cdef_p (cd : cdef) : bool :=
  forallb (fun xd => binder_ok (fst xd)) (c_data cd) &&
  wf_lp false (map fst (c_data cd)) (c_tpl cd) &&
  all_same (slot_defaults (c_tpl cd)).

(* wf_prog + {% provide %} anywhere (page, templates, slot defaults, component-tag bodies, fill content; any key - a
   non-identifier key raises in both models) + inject() with or without default in get_context_data *)
Definition wf_prog_prov (p : prog) : bool :=
  match p_mode p with Isolated => true | Django => false end &&
  forallb (fun nc => wf_cdef_p (snd nc)) (p_lib p) &&
  forallb (fun kv => binder_ok (fst kv)) (p_ctx p) &&
  wf_lp false (map fst (p_ctx p)) (p_page p).

(* ---------- isolated fragment widened by PASS-THROUGH SLOTS (Core/MechPass.v) ---------- *)
(* slot tags and component_vars.is_filled reads may also stand inside the body of a component tag (fill content, implicit
   default content, also between tag and fill, where they render nothing): they refer to the instance whose template
   contains the component tag *)
Definition expr_okq (e : expr) : bool := expr_ok false e.
Definition kw_okq (kw : list (str * expr)) : bool := kw_ok false kw.

Fixpoint wf_tq (G : list str) (t : tpl) {struct t} : bool :=
  let wl := fix wl (G : list str) (ts : list tpl) {struct ts} : bool :=
    match ts with [] => true | t :: r => wf_tq G t && wl G r end in
  match t with
  | TText _ => true
  | TOut e => expr_okq e
  | TIf c a b => expr_okq c && wl G a && wl G b
  | TFor _ _ _ => false
  | TWith x e body => val_expr_ok e && binder_ok x && negb (smemb x G) && wl (x :: G) body
  | TSlot _ _ _ data body => kw_okq data && wl G body
  | TFill name dv defv body =>
      expr_okq name && match defv with None => true | Some _ => false end &&
      match dv with
      | Some x => binder_ok x && negb (smemb x G) && wl (x :: G) body
      | None => wl G body
      end
  | TComp _ kw _ body => kw_okq kw && wl G body
  | TProvide _ _ _ => false
  end.
Fixpoint wf_lq (G : list str) (ts : list tpl) : bool :=
  match ts with [] => true | t :: r => wf_tq G t && wf_lq G r end.

(* names of ALL slot tags flagged `default` written in a template, component-tag bodies included *)
Fixpoint sdall_t (t : tpl) : list str :=
  let sl := fix sl (ts : list tpl) : list str :=
    match ts with [] => [] | t :: r => sdall_t t ++ sl r end in
  match t with
  | TIf _ a b => sl a ++ sl b
  | TFor _ _ body => sl body
  | TWith _ _ body => sl body
  | TSlot name isd _ _ body => (if isd then [name] else []) ++ sl body
  | TFill _ _ _ body => sl body
  | TComp _ _ _ body => sl body
  | TProvide _ _ body => sl body
  | _ => []
  end.
Fixpoint sdall_l (ts : list tpl) : list str :=
  match ts with [] => [] | t :: r => sdall_t t ++ sdall_l r end.

Definition wf_cdef_q (cd : cdef) : bool :=
  forallb (fun xd => binder_ok (fst xd) && dexpr_ok (snd xd)) (c_data cd) &&
  wf_lq (map fst (c_data cd)) (c_tpl cd) &&
  all_same (sdall_l (c_tpl cd)).

Definition wf_prog_pass (p : prog) : bool :=
  match p_mode p with Isolated => true | Django => false end &&
  forallb (fun nc => wf_cdef_q (snd nc)) (p_lib p) &&
  forallb (fun kv => binder_ok (fst kv)) (p_ctx p) &&
  wf_lq (map fst (p_ctx p)) (p_page p).

(* An implementation RecursionError with several error sources: M renders children in place and stops at the first
   error in document order, the implementation defers the children's templates.  The run agrees when M does not
   terminate once the errors of child templates are deferred too. *)
Definition check_mech_diverges_deferred (p : prog) : bool :=
  match mrender_prog 200 p with
  | MFuel => true
  | MErr _ => match mrl (mrender_d (p_mode p) (p_lib p) 200) g0 (page_ctxt p) (p_page p) with
              | MFuel => true
              | _ => false
              end
  | _ => false
  end.

(* ---------- isolated fragment widened by {% for %} at template level (Core/MechFor.v) ---------- *)
(* expressions at template level: variables other than the reserved loop-counter name, is_filled, forloop.counter *)
Definition expr_okf (e : expr) : bool :=
  match e with
  | EStr _ => true
  | EVar x => uname x && negb (str_eqb x counter_key)
  | EDot x _ => uname x && negb (str_eqb x counter_key)
  | EFilled _ => true
  | ECounter => true
  end.
Definition kw_okf (kw : list (str * expr)) : bool := forallb (fun ke => expr_okf (snd ke)) kw.
Definition val_expr_okf (e : expr) : bool := match e with EFilled _ => false | _ => expr_okf e end.

(* inl: inside the body of a {% for %} of this template.  Loops stand in page / component templates (also in slot
   defaults, if / with / other loops) around text, {{ }}, if, with and slot tags; a loop body contains no component tag;
   the body of a component tag is a wf_t body (no loop in it). *)
Fixpoint wf_tf (inl : bool) (G : list str) (t : tpl) {struct t} : bool :=
  let wl := fix wl (inl : bool) (G : list str) (ts : list tpl) {struct ts} : bool :=
    match ts with [] => true | t :: r => wf_tf inl G t && wl inl G r end in
  match t with
  | TText _ => true
  | TOut e => expr_okf e
  | TIf c a b => expr_okf c && wl inl G a && wl inl G b
  | TFor x e body => expr_okf e && binder_ok x && negb (smemb x G) && wl true (x :: counter_key :: G) body
  | TWith x e body => val_expr_okf e && binder_ok x && negb (smemb x G) && wl inl (x :: G) body
  | TSlot _ _ _ data body => kw_okf data && wl inl G body
  | TFill _ _ _ _ => false
  | TComp _ kw _ body => negb inl && kw_okf kw && wf_l true G body
  | TProvide _ _ _ => false
  end.
Fixpoint wf_lf (inl : bool) (G : list str) (ts : list tpl) : bool :=
  match ts with [] => true | t :: r => wf_tf inl G t && wf_lf inl G r end.

Definition wf_cdef_f (cd : cdef) : bool :=
  forallb (fun xd => binder_ok (fst xd) && dexpr_ok (snd xd)) (c_data cd) &&
  wf_lf false (map fst (c_data cd)) (c_tpl cd) &&
  all_same (slot_defaults (c_tpl cd)).

Definition wf_prog_for (p : prog) : bool :=
  match p_mode p with Isolated => true | Django => false end &&
  forallb (fun nc => wf_cdef_f (snd nc)) (p_lib p) &&
  forallb (fun kv => binder_ok (fst kv)) (p_ctx p) &&
  wf_lf false (map fst (p_ctx p)) (p_page p).
