From DJC Require Import Lib.Base Core.Syntax Core.Sem.

Lemma slookup_app {V} x (a b : list (str * V)) :
  slookup x (a ++ b) = match slookup x a with Some v => Some v | None => slookup x b end.
Proof.
  induction a as [|[k v] a IH]; simpl; [reflexivity|]. destruct (str_eqb x k); [reflexivity | exact IH].
Qed.

Definition first_some {V} (l : list (option V)) : option V :=
  fold_right (fun o acc => match o with Some v => Some v | None => acc end) None l.

(* ---------- what a component template sees ---------- *)
Lemma isolated_sees_only_data_lemma (md : mode) st c fills data x :
  lookup x (comp_state st c fills data true) = slookup x data.
Proof. unfold lookup, comp_state. simpl. destruct (slookup x data); reflexivity. Qed.

Lemma django_sees_data_over_outer_lemma st c fills data x :
  lookup x (comp_state st c fills data false) =
  match slookup x data with Some v => Some v | None => lookup x st end.
Proof.
  unfold lookup, comp_state. simpl. destruct (slookup x data); [reflexivity|].
  rewrite slookup_app. reflexivity.
Qed.

(* two-run non-interference: an isolated component (mode or `only`) depends on the caller's state only through
   the evaluated keyword arguments, the fills of its body and the enclosing providers *)
Lemma isolated_noninterference_lemma md lib f st st' c kw only body :
  is_isolated md only = true ->
  eval_kwargs kw st = eval_kwargs kw st' ->
  resolve_fills st body = resolve_fills st' body ->
  prov st = prov st' ->
  render md lib (S f) st (TComp c kw only body) = render md lib (S f) st' (TComp c kw only body).
Proof.
  intros Hi Hk Hf Hp. simpl. rewrite Hk, Hf, Hp, Hi. destruct (slookup c lib) as [cd|]; [|reflexivity].
  destruct (resolve_fills st' body) as [fills| |]; try reflexivity. simpl.
  destruct (eval_data (c_data cd) (eval_kwargs kw st') (prov st')) as [data| |]; try reflexivity. simpl.
  unfold comp_state. rewrite Hp. reflexivity.
Qed.

(* ---------- what fill content sees ---------- *)
Lemma fill_scope_isolated_lemma st al body btw cloc cout dv defv owner cprov x :
  lookup x (fill_state true st al (Clo body btw cloc cout dv defv owner cprov)) =
  first_some [slookup x al; slookup x btw; slookup x cloc; slookup x cout].
Proof.
  unfold lookup. simpl. rewrite !slookup_app.
  destruct (slookup x al); [reflexivity|]. destruct (slookup x btw); [reflexivity|].
  destruct (slookup x cloc); [reflexivity|]. destruct (slookup x cout); reflexivity.
Qed.

Lemma fill_scope_django_lemma st al body btw cloc cout dv defv owner cprov x :
  lookup x (fill_state false st al (Clo body btw cloc cout dv defv owner cprov)) =
  first_some [slookup x al; slookup x (loc st); slookup x btw; slookup x (out st)].
Proof.
  unfold lookup. simpl. rewrite !slookup_app.
  destruct (slookup x al); [reflexivity|]. destruct (slookup x (loc st)); [reflexivity|].
  destruct (slookup x btw); [reflexivity|]. destruct (slookup x (out st)); reflexivity.
Qed.

(* between-bindings: the innermost enclosing with/for between tag and fill wins (captured newest first) *)
Lemma extract_with_shadows tagprov st btw x e nm dv defv body :
  extract tagprov st btw (TWith x e [TFill (EStr nm) dv defv body]) =
  if match dv, defv with Some a, Some b => str_eqb a b | _, _ => false end then Err ERuntime
  else Ok ([], [(nm, Clo body ((x, to_value (eval e st)) :: btw)
                          ((x, to_value (eval e st)) :: loc st) (out st) dv defv (cur st) tagprov)]).
Proof.
  simpl. destruct (match dv, defv with Some a, Some b => str_eqb a b | _, _ => false end); reflexivity.
Qed.

(* ---------- mechanism: Python's list.insert / list.pop pair used around a fill body ---------- *)
Section PyList.
  Context {A : Type}.
  (* list.insert(i, x) and list.pop(i) for i >= 0 *)
  Fixpoint py_insert (i : nat) (x : A) (l : list A) : list A :=
    match i, l with
    | O, _ => x :: l
    | S i', [] => [x]
    | S i', y :: r => y :: py_insert i' x r
    end.
  Fixpoint py_pop (i : nat) (l : list A) : list A :=
    match i, l with
    | _, [] => []
    | O, _ :: r => r
    | S i', y :: r => y :: py_pop i' r
    end.

  Lemma insert_pop_balanced_lemma i x l : i <= length l -> py_pop i (py_insert i x l) = l.
  Proof.
    revert l. induction i as [|i IH]; intros l Hl; [destruct l; reflexivity|].
    destruct l as [|y r]; simpl in *; [lia|]. rewrite IH by lia. reflexivity.
  Qed.

  (* index -1 (no component layer in the context): insert(-1, x) puts x before the last element and pop(-1)
     removes the LAST element, not x; the enclosing `with ctx.update(...)` then pops once more.
     Together the three steps still restore the caller's list. *)
  Definition insert_m1 (x : A) (l : list A) : list A :=
    match l with [] => [x] | _ => removelast l ++ [x] ++ [last l x] end.
  Definition pop_m1 (l : list A) : list A := removelast l.

  Lemma insert_m1_pop_balanced_lemma x top l :
    pop_m1 (pop_m1 (insert_m1 x (l ++ [top]))) = l.
  Proof.
    unfold pop_m1, insert_m1. destruct (l ++ [top]) eqn:E; [destruct l; discriminate|].
    rewrite <- E. rewrite removelast_last, last_last.
    replace (l ++ [x] ++ [top]) with ((l ++ [x]) ++ [top]) by (rewrite <- app_assoc; reflexivity).
    rewrite removelast_last, removelast_last. reflexivity.
  Qed.
End PyList.
