(* Reference semantics (S-model) of the component calculus: a lexically scoped renderer.
   It says what the property statements of C01/C03/C05 demand; the correspondence check compares the
   implementation's output with it on generated programs.  Definitions only. *)
From DJC Require Import Lib.Base Core.Syntax.
From Coq Require Import String.
Local Open Scope string_scope.
Local Open Scope list_scope.

(* ---------- printing and truthiness of values ---------- *)
Fixpoint num_str_aux (fuel : nat) (n : N) : str :=
  match fuel with
  | O => []
  | S f => if N.ltb n 10 then [(48 + n)%N] else num_str_aux f (n / 10)%N ++ [(48 + n mod 10)%N]
  end.
Definition num_str (n : N) : str := num_str_aux 40 n.

Inductive xvalue :=           (* values as expressions see them: program values + booleans + numbers *)
| XV (v : value)
| XBool (b : bool)
| XNum (n : N).

(* {{ rec }} prints the Python dict, autoescaped: {&#x27;k&#x27;: &#x27;v&#x27;} (string fields only) *)
Definition print_field (kv : str * value) : str :=
  s2n "&#x27;" ++ fst kv ++ s2n "&#x27;: " ++
  match snd kv with VStr s => s2n "&#x27;" ++ s ++ s2n "&#x27;" | _ => s2n "<nested>" end.
Fixpoint join_fields (l : list (str * value)) : str :=
  match l with
  | [] => []
  | [kv] => print_field kv
  | kv :: r => print_field kv ++ s2n ", " ++ join_fields r
  end.

Definition print_x (x : xvalue) : str :=
  match x with
  | XV (VStr s) => s
  | XV (VList _) => s2n "<list>"
  | XV (VRec fs) => s2n "{" ++ join_fields fs ++ s2n "}"
  | XBool true => s2n "True"
  | XBool false => s2n "False"
  | XNum n => num_str n
  end.

Definition truthy (x : xvalue) : bool :=
  match x with
  | XV (VStr []) => false
  | XV (VStr _) => true
  | XV (VList []) => false
  | XV (VList _) => true
  | XV (VRec []) => false
  | XV (VRec _) => true
  | XBool b => b
  | XNum n => negb (N.eqb n 0)
  end.

(* ---------- instances and fill closures ---------- *)
Definition penv := list (str * list (str * value)).       (* provided records, nearest first *)

Inductive inst :=
| Inst (cname : str) (fills : list (str * closure)) (iso : bool)   (* iso: rendered isolated (mode or `only`) *)
with closure :=
| Clo (body : list tpl)
      (between : env)            (* with/for variables bound between the component tag and the fill *)
      (cloc cout : env)          (* scope at the component tag *)
      (dvar defvar : option str) (* slot-data / slot-default aliases *)
      (owner : option inst)      (* instance in whose template the component tag is written *)
      (cprov : penv).            (* providers enclosing the component tag *)

Definition inst_fills (i : inst) : list (str * closure) := match i with Inst _ f _ => f end.

Record state := {
  loc : env;                (* bindings made since entering the current component template (or the page) *)
  out : env;                (* what was visible at the component tag (django mode); [] when isolated *)
  cur : option inst;        (* instance whose template is being rendered *)
  prov : penv
}.

(* reserved variable holding forloop.counter; not a legal template identifier *)
Definition counter_key : str := [0%N].

Definition lookup (x : str) (st : state) : option value :=
  match slookup x (loc st) with Some v => Some v | None => slookup x (out st) end.

(* slot names escaped as template identifiers: every non-word character becomes '_' *)
Definition is_word (c : N) : bool :=
  ((48 <=? c) && (c <=? 57) || (65 <=? c) && (c <=? 90) || (97 <=? c) && (c <=? 122) || (c =? 95))%N.
Definition escape_name (s : str) : str := map (fun c => if is_word c then c else 95%N) s.

Definition is_ident (s : str) : bool :=
  match s with
  | [] => false
  | c :: _ => negb ((48 <=? c) && (c <=? 57))%N && forallb is_word s
  end.

Definition eval (e : expr) (st : state) : xvalue :=
  match e with
  | EStr s => XV (VStr s)
  | EVar x => match lookup x st with Some v => XV v | None => XV (VStr []) end
  | EDot x f => match lookup x st with
                | Some (VRec fs) => match slookup f fs with Some v => XV v | None => XV (VStr []) end
                | _ => XV (VStr [])
                end
  | EFilled s => match cur st with
                 | Some i => XBool (existsb (fun kc => str_eqb (escape_name (fst kc)) s) (inst_fills i))
                 | None => XV (VStr [])
                 end
  | ECounter => match lookup counter_key st with Some (VStr s) => XV (VStr s) | _ => XV (VStr []) end
  end.

(* a value that can be stored in a variable (with / kwargs / slot data) *)
Definition to_value (x : xvalue) : value :=
  match x with
  | XV v => v
  | XBool true => VStr (s2n "True")
  | XBool false => VStr (s2n "False")
  | XNum n => VStr (num_str n)
  end.

Definition eval_kwargs (kw : list (str * expr)) (st : state) : env :=
  map (fun ke => (fst ke, to_value (eval (snd ke) st))) kw.

Definition bind_loc (x : str) (v : value) (st : state) : state :=
  {| loc := (x, v) :: loc st; out := out st; cur := cur st; prov := prov st |}.

Definition is_space (c : N) : bool := ((c =? 32) || (c =? 10) || (c =? 9) || (c =? 13) || (c =? 11) || (c =? 12))%N.
Definition all_space (s : str) : bool := forallb is_space s.

(* ---------- fill discovery: rendering a component body in "extraction" mode ---------- *)
(* returns the text the body renders to and the fills it declares, in order *)
Definition loop_items (x : xvalue) : list value :=
  match x with XV (VList l) => l | _ => [] end.

Fixpoint extract (tagprov : penv) (st : state) (btw : env) (t : tpl) {struct t}
  : res (str * list (str * closure)) :=
  let ex_list := fix ex_list (st : state) (btw : env) (ts : list tpl) : res (str * list (str * closure)) :=
    match ts with
    | [] => Ok ([], [])
    | t :: r => bind (extract tagprov st btw t) (fun a =>
                bind (ex_list st btw r) (fun b => Ok (fst a ++ fst b, snd a ++ snd b)))
    end in
  match t with
  | TText s => Ok (s, [])
  | TOut e => Ok (print_x (eval e st), [])
  | TIf c a b => if truthy (eval c st) then ex_list st btw a else ex_list st btw b
  | TFor x e body =>
      (fix go (vs : list value) (i : N) : res (str * list (str * closure)) :=
         match vs with
         | [] => Ok ([], [])
         | v :: r =>
             let cv := VStr (num_str i) in
             bind (ex_list (bind_loc x v (bind_loc counter_key cv st)) ((x, v) :: (counter_key, cv) :: btw) body) (fun a =>
             bind (go r (N.succ i)) (fun b => Ok (fst a ++ fst b, snd a ++ snd b)))
         end) (loop_items (eval e st)) 1%N
  | TWith x e body =>
      let v := to_value (eval e st) in
      ex_list (bind_loc x v st) ((x, v) :: btw) body
  | TSlot _ _ _ _ _ => Ok ([], [])
  | TComp _ _ _ _ => Ok ([], [])
  | TProvide key kw body =>
      if is_ident key then ex_list st btw body else Err ETemplateSyntax
  | TFill name dv defv body =>
      match eval name st with
      | XV (VStr nm) =>
          if match dv, defv with Some a, Some b => str_eqb a b | _, _ => false end then Err ERuntime
          else Ok ([], [(nm, Clo body btw (loc st) (out st) dv defv (cur st) tagprov)])
      | _ => Err ETemplateSyntax
      end
  end.

Fixpoint extract_list (tagprov : penv) (st : state) (btw : env) (ts : list tpl) : res (str * list (str * closure)) :=
  match ts with
  | [] => Ok ([], [])
  | t :: r => bind (extract tagprov st btw t) (fun a =>
              bind (extract_list tagprov st btw r) (fun b => Ok (fst a ++ fst b, snd a ++ snd b)))
  end.

Fixpoint has_dup (l : list str) : bool :=
  match l with
  | [] => false
  | x :: r => existsb (str_eqb x) r || has_dup r
  end.

Definition body_is_empty (ts : list tpl) : bool :=
  forallb (fun t => match t with TText s => all_space s | _ => false end) ts.

Definition default_key : str := s2n "default".

Definition resolve_fills (st : state) (body : list tpl) : res (list (str * closure)) :=
  match body with
  | [] => Ok []
  | _ =>
    bind (extract_list (prov st) st [] body) (fun r =>
      let '(content, fills) := r in
      match fills with
      | [] => if body_is_empty body then Ok []
              else Ok [(default_key, Clo body [] (loc st) (out st) None None (cur st) (prov st))]
      | _ => if negb (all_space content) then Err ETemplateSyntax
             else if has_dup (map fst fills) then Err ETemplateSyntax
             else Ok fills
      end)
  end.

(* ---------- get_context_data ---------- *)
Fixpoint eval_data (ds : list (str * dexpr)) (kw : env) (pv : penv) : res env :=
  match ds with
  | [] => Ok []
  | (x, d) :: r =>
      bind (match d with
            | DKw k => Ok (match slookup k kw with Some v => v | None => VStr [] end)
            | DStr s => Ok (VStr s)
            | DInject key field dflt =>
                match slookup key pv with
                | Some fs => match slookup field fs with Some v => Ok v | None => Err EAttribute end
                | None => match dflt with Some d => Ok (VStr d) | None => Err EKey end
                end
            end) (fun v =>
      bind (eval_data r kw pv) (fun rest => Ok (rest ++ [(x, v)])))   (* later keys win: dict update order *)
  end.

(* ---------- rendering ---------- *)
(* Open recursion: `rec` renders one node with the remaining fuel. *)
Section Render.
  Variable md : mode.
  Variable lib : list (str * cdef).

  Section Step.
    Variable rec : state -> tpl -> res str.

    Fixpoint rl (st : state) (ts : list tpl) : res str :=
      match ts with
      | [] => Ok []
      | t :: r => bind (rec st t) (fun a => bind (rl st r) (fun b => Ok (a ++ b)))
      end.

    Fixpoint rloop (x : str) (st : state) (body : list tpl) (vs : list value) (i : N) : res str :=
      match vs with
      | [] => Ok []
      | v :: r =>
          bind (rl (bind_loc x v (bind_loc counter_key (VStr (num_str i)) st)) body) (fun a =>
          bind (rloop x st body r (N.succ i)) (fun b => Ok (a ++ b)))
      end.

    (* state in which the body of a fill is rendered for a slot of an instance with flag `iso` *)
    Definition fill_state (iso : bool) (st : state) (aliases : env) (c : closure) : state :=
      match c with
      | Clo _ btw cloc cout _ _ owner cprov =>
          if iso then
            (* lexical: the scope at the component tag + enclosing loops/withs + aliases *)
            {| loc := aliases ++ btw ++ cloc; out := cout; cur := owner; prov := prov st ++ cprov |}
          else
            (* django: inner data over between-bindings over outer variables *)
            {| loc := aliases ++ loc st ++ btw; out := out st; cur := owner; prov := prov st |}
      end.

    Definition clo_body (c : closure) : list tpl := match c with Clo b _ _ _ _ _ _ _ => b end.
    Definition clo_dvar (c : closure) : option str := match c with Clo _ _ _ _ d _ _ _ => d end.
    Definition clo_defvar (c : closure) : option str := match c with Clo _ _ _ _ _ d _ _ => d end.

    (* name of the fill a slot tag looks up *)
    Definition fill_name_of (name : str) (is_default : bool) (fills : list (str * closure)) : str :=
      if is_default && smem default_key fills then default_key else name.

    Definition double_filled (name : str) (is_default : bool) (fills : list (str * closure)) : bool :=
      is_default && negb (str_eqb name default_key) && smem name fills && smem default_key fills.

    Definition comp_state (st : state) (cname : str) (fills : list (str * closure)) (data : env) (isolated : bool) : state :=
      {| loc := data;
         out := if isolated then [] else loc st ++ out st;
         cur := Some (Inst cname fills isolated);
         prov := prov st |}.

    Definition is_isolated (only : bool) : bool :=
      only || match md with Isolated => true | Django => false end.

    Definition render_step (st : state) (t : tpl) : res str :=
      match t with
      | TText s => Ok s
      | TOut e => Ok (print_x (eval e st))
      | TIf c a b => if truthy (eval c st) then rl st a else rl st b
      | TFor x e body => rloop x st body (loop_items (eval e st)) 1%N
      | TWith x e body => rl (bind_loc x (to_value (eval e st)) st) body
      | TProvide key kw body =>
          if is_ident key then
            rl {| loc := loc st; out := out st; cur := cur st;
                  prov := (key, eval_kwargs kw st) :: prov st |} body
          else Err ETemplateSyntax
      | TComp cname kw only body =>
          let kwv := eval_kwargs kw st in
          match slookup cname lib with
          | None => Err ENotRegistered
          | Some cd =>
              bind (resolve_fills st body) (fun fills =>
              bind (eval_data (c_data cd) kwv (prov st)) (fun data =>
                rl (comp_state st cname fills data (is_isolated only)) (c_tpl cd)))
          end
      | TFill _ _ _ _ => Err ETemplateSyntax      (* fill outside of a component body *)
      | TSlot name is_default is_required data body =>
          match cur st with
          | None => Err ETemplateSyntax
          | Some (Inst _ fills iso) =>
              let sdata := VRec (eval_kwargs data st) in
              if double_filled name is_default fills then Err ETemplateSyntax
              else
                match slookup (fill_name_of name is_default fills) fills with
                | None => if is_required then Err ETemplateSyntax else rl st body
                | Some c =>
                    bind (match clo_defvar c with
                          | Some dn => bind (rl st body) (fun d => Ok [(dn, VStr d)])
                          | None => Ok []
                          end) (fun a_def =>
                    let aliases := a_def ++ match clo_dvar c with Some x => [(x, sdata)] | None => [] end in
                    rl (fill_state iso st aliases c) (clo_body c))
                end
          end
      end.
  End Step.

  Fixpoint render (fuel : nat) (st : state) (t : tpl) {struct fuel} : res str :=
    match fuel with
    | O => OutOfFuel
    | S f => render_step (render f) st t
    end.

  Definition render_list (fuel : nat) (st : state) (ts : list tpl) : res str := rl (render fuel) st ts.
End Render.

Definition render_prog (fuel : nat) (p : prog) : res str :=
  render_list (p_mode p) (p_lib p) fuel
    {| loc := p_ctx p; out := []; cur := None; prov := [] |} (p_page p).

(* ---------- correspondence cases ---------- *)
Inductive outcome := OOk (s : str) | OErr (k : errkind).

Definition errkind_eqb (a b : errkind) : bool :=
  match a, b with
  | ETemplateSyntax, ETemplateSyntax | EKey, EKey | EAttribute, EAttribute
  | ENotRegistered, ENotRegistered | ERuntime, ERuntime | EType, EType => true
  | _, _ => false
  end.

Definition core_case := (prog * outcome)%type.
Definition check_core (c : core_case) : bool :=
  match render_prog 200 (fst c), snd c with
  | Ok s, OOk s' => str_eqb s s'
  | Err k, OErr k' => errkind_eqb k k'
  | _, _ => false
  end.
(* programs with several independent error sources: deferred rendering may surface another one first,
   so only "fails" is compared *)
Definition check_core_lenient (c : core_case) : bool :=
  match render_prog 200 (fst c), snd c with
  | Ok s, OOk s' => str_eqb s s'
  | Err _, OErr _ => true
  | _, _ => false
  end.
