(* M-model (mechanism) of the Context layer stack discipline used while a component is rendered:
     - ComponentNode.render / resolve_fills / Component._render_impl   (component.py, slots.py)
     - SlotNode.render + the fill's render_func                         (slots.py)
   A `Context` is its list of layers `Context.dicts`, oldest first, the LAST element being the top layer.
   `push` = Context.update(d) / `with context.update(d)`, `pop` = leaving the with-block, and render_func's
   `ctx.dicts.insert(i, extra)` / `ctx.dicts.pop(i)` with Python's index semantics (negative indices, IndexError).
   Theorems: every frame restores the layer list it found, for ALL layer lists and all nestings (exec_balanced),
   and where the fill's captured variables sit in the stack while the fill body runs (the fill_layers lemmas). *)
From DJC Require Import Lib.Base.
Local Open Scope Z_scope.

(* type abbreviations are notations (they occur as implicit arguments) *)
Notation key := N (only parsing).
Definition COMPONENT_KEY : key := 0%N.     (* _DJC_COMPONENT_CTX *)
Definition GEN_FILL_KEY : key := 1%N.      (* _DJANGO_COMPONENTS_GEN_FILL *)
Notation layer := (list (N * N)) (only parsing).
Notation ctx := (list (list (N * N))) (only parsing).

Definition has_key (k : key) (d : layer) : bool := amem k d.

(* ---------- Python list operations with integer indices ---------- *)
Section PyZ.
  Context {A : Type}.

  (* list.insert(i, x): negative i counts from the end and is clamped at 0, large i appends *)
  Definition ins_pos (i : Z) (n : nat) : nat :=
    if i <? 0 then Z.to_nat (Z.max 0 (i + Z.of_nat n)) else Nat.min (Z.to_nat i) n.

  Definition py_insertZ (i : Z) (x : A) (l : list A) : list A :=
    firstn (ins_pos i (length l)) l ++ x :: skipn (ins_pos i (length l)) l.

  (* list.pop(i): None = IndexError *)
  Definition py_popZ (i : Z) (l : list A) : option (list A) :=
    let n := Z.of_nat (length l) in
    let j := if i <? 0 then i + n else i in
    if (j <? 0) || (n <=? j) then None
    else Some (firstn (Z.to_nat j) l ++ skipn (S (Z.to_nat j)) l).

  Lemma insert_pop_nonneg (i : nat) (x : A) (l : list A) :
    (i <= length l)%nat -> py_popZ (Z.of_nat i) (py_insertZ (Z.of_nat i) x l) = Some l.
  Proof.
    intro Hi. unfold py_insertZ, ins_pos.
    destruct (Z.of_nat i <? 0) eqn:E; [apply Z.ltb_lt in E; lia|].
    rewrite Nat2Z.id. rewrite Nat.min_l by exact Hi.
    unfold py_popZ. rewrite E.
    assert (Hl : length (firstn i l ++ x :: skipn i l) = S (length l)).
    { rewrite app_length. cbn [length]. rewrite firstn_length, skipn_length. lia. }
    rewrite Hl.
    destruct ((Z.of_nat i <? 0) || (Z.of_nat (S (length l)) <=? Z.of_nat i)) eqn:E2.
    - apply orb_true_iff in E2 as [E2|E2]; [apply Z.ltb_lt in E2 | apply Z.leb_le in E2]; lia.
    - rewrite Nat2Z.id. f_equal.
      assert (Hf : length (firstn i l) = i) by (rewrite firstn_length; lia).
      rewrite firstn_app, Hf, Nat.sub_diag. cbn [firstn]. rewrite app_nil_r.
      rewrite <- Hf at 1. rewrite firstn_all.
      rewrite skipn_app, Hf. rewrite (skipn_all2 (n := S i) (firstn i l)) by lia.
      replace (S i - i)%nat with 1%nat by lia. cbn [skipn app]. apply firstn_skipn.
  Qed.

  (* index -1: insert(-1, x) puts x BELOW the last element, pop(-1) removes the LAST element (not x) *)
  Lemma insert_minus1 (x top : A) (c : list A) : py_insertZ (-1) x (c ++ [top]) = c ++ [x; top].
  Proof.
    unfold py_insertZ, ins_pos. cbn [Z.ltb Z.compare]. rewrite app_length. cbn [length].
    replace (Z.to_nat (Z.max 0 (-1 + Z.of_nat (length c + 1)))) with (length c) by lia.
    rewrite firstn_app, Nat.sub_diag, firstn_all. cbn [firstn]. rewrite app_nil_r.
    rewrite skipn_app, Nat.sub_diag, skipn_all. cbn [skipn app]. reflexivity.
  Qed.

  Lemma pop_minus1 (x : A) (c : list A) : py_popZ (-1) (c ++ [x]) = Some c.
  Proof.
    unfold py_popZ. cbn [Z.ltb Z.compare]. rewrite app_length. cbn [length].
    destruct ((-1 + Z.of_nat (length c + 1) <? 0) || (Z.of_nat (length c + 1) <=? -1 + Z.of_nat (length c + 1))) eqn:E.
    - apply orb_true_iff in E as [E|E]; [apply Z.ltb_lt in E | apply Z.leb_le in E]; lia.
    - replace (Z.to_nat (-1 + Z.of_nat (length c + 1))) with (length c) by lia. f_equal.
      rewrite firstn_app, Nat.sub_diag, firstn_all. cbn [firstn]. rewrite app_nil_r.
      rewrite skipn_app. rewrite (skipn_all2 (n := S (length c)) c) by lia.
      replace (S (length c) - length c)%nat with 1%nat by lia. cbn [skipn app]. rewrite app_nil_r. reflexivity.
  Qed.

  Lemma pop2_minus1 (x y : A) (c : list A) : py_popZ (-1) (c ++ [x; y]) = Some (c ++ [x]).
  Proof.
    replace (c ++ [x; y]) with ((c ++ [x]) ++ [y]) by (rewrite <- app_assoc; reflexivity). apply pop_minus1.
  Qed.
End PyZ.

(* util.misc.get_last_index *)
Fixpoint get_last_index {A} (f : A -> bool) (l : list A) : option nat :=
  match l with
  | [] => None
  | x :: r => match get_last_index f r with
              | Some i => Some (S i)
              | None => if f x then Some O else None
              end
  end.

Lemma get_last_index_lt {A} (f : A -> bool) l i : get_last_index f l = Some i -> (i < length l)%nat.
Proof.
  revert i. induction l as [|x r IH]; intros i H; cbn in *; [discriminate|].
  destruct (get_last_index f r) as [j|].
  - inversion H; subst. specialize (IH j eq_refl). lia.
  - destruct (f x); inversion H; subst. lia.
Qed.

(* ---------- the frames ---------- *)
(* `ctx[name] = value` writes into the top layer *)
Definition set_top (al : layer) (c : ctx) : ctx :=
  match c with [] => [] | _ => removelast c ++ [al ++ last c []] end.

Lemma set_top_snoc al c d : set_top al (c ++ [d]) = c ++ [al ++ d].
Proof.
  unfold set_top. destruct (c ++ [d]) eqn:E; [destruct c; discriminate|]. rewrite <- E.
  rewrite removelast_last, last_last. reflexivity.
Qed.

(* render_func: index at which the fill's captured variables are inserted *)
Definition fill_index (c : ctx) : Z :=
  match get_last_index (has_key COMPONENT_KEY) c with Some i => Z.of_nat i | None => 0 end - 1.

(* what is rendered inside a frame; the layer contents are arbitrary *)
Inductive mt :=
| MLeaf                                                   (* text, variables: no stack operation *)
| MScope (d : layer) (body : list mt)                     (* with / one for iteration / provide: push d; body; pop *)
| MComp (data keyl : layer) (tagbody : list mt)           (* ComponentNode.render on the caller's Context:
                                                             resolve_fills = push {GEN_FILL}; render the tag body; pop;
                                                             _render_impl = push data; push {KEY, component_vars}; snapshot; pop; pop
                                                             (the template itself is rendered later, on the snapshot) *)
| MSlot (extra al fe : layer) (body : list mt).           (* SlotNode.render + render_func on the Context the fill uses:
                                                             push extra; aliases into the top layer; insert fe at fill_index;
                                                             body; pop at the same index; pop *)

Definition push (d : layer) (c : ctx) : ctx := c ++ [d].
Definition pop (c : ctx) : ctx := removelast c.

Fixpoint exec (t : mt) (c : ctx) : option ctx :=
  let el := fix el (ts : list mt) (c : ctx) : option ctx :=
    match ts with
    | [] => Some c
    | t :: r => match exec t c with Some c' => el r c' | None => None end
    end in
  match t with
  | MLeaf => Some c
  | MScope d body => match el body (push d c) with Some c' => Some (pop c') | None => None end
  | MComp data keyl tagbody =>
      match el tagbody (push [(GEN_FILL_KEY, 1%N)] c) with
      | Some c1 => Some (pop (pop (push keyl (push data (pop c1)))))
      | None => None
      end
  | MSlot extra al fe body =>
      let c1 := set_top al (push extra c) in
      let i := fill_index c1 in
      match el body (py_insertZ i fe c1) with
      | Some c2 => match py_popZ i c2 with Some c3 => Some (pop c3) | None => None end
      | None => None
      end
  end.

Fixpoint exec_list (ts : list mt) (c : ctx) : option ctx :=
  match ts with
  | [] => Some c
  | t :: r => match exec t c with Some c' => exec_list r c' | None => None end
  end.

Lemma el_eq ts : forall c,
  (fix el (ts : list mt) (c : ctx) : option ctx :=
     match ts with
     | [] => Some c
     | t :: r => match exec t c with Some c' => el r c' | None => None end
     end) ts c = exec_list ts c.
Proof. induction ts as [|t r IH]; intro c; [reflexivity|]. cbn [exec_list]. destruct (exec t c); [apply IH|reflexivity]. Qed.

Section MtInd.
  Variable P : mt -> Prop.
  Variable Q : list mt -> Prop.
  Hypothesis Hnil : Q [].
  Hypothesis Hcons : forall t r, P t -> Q r -> Q (t :: r).
  Hypothesis HLeaf : P MLeaf.
  Hypothesis HScope : forall d body, Q body -> P (MScope d body).
  Hypothesis HComp : forall data keyl body, Q body -> P (MComp data keyl body).
  Hypothesis HSlot : forall extra al fe body, Q body -> P (MSlot extra al fe body).
  Fixpoint mt_ind2 (t : mt) : P t :=
    let li := fix li (ts : list mt) : Q ts :=
      match ts with [] => Hnil | t :: r => Hcons t r (mt_ind2 t) (li r) end in
    match t with
    | MLeaf => HLeaf
    | MScope d body => HScope d body (li body)
    | MComp data keyl body => HComp data keyl body (li body)
    | MSlot extra al fe body => HSlot extra al fe body (li body)
    end.
End MtInd.

Lemma pop_push d c : pop (push d c) = c.
Proof. unfold pop, push. apply removelast_last. Qed.

(* the insert/pop pair of render_func together with the pop of the enclosing with-block restores the list,
   whatever the index found *)
Lemma fill_frame_restores (c : ctx) (extra al fe : layer) :
  let c1 := set_top al (push extra c) in
  match py_popZ (fill_index c1) (py_insertZ (fill_index c1) fe c1) with
  | Some c3 => pop c3 = c
  | None => False
  end.
Proof.
  cbn zeta. unfold push. rewrite set_top_snoc. unfold fill_index.
  destruct (get_last_index (has_key COMPONENT_KEY) (c ++ [al ++ extra])) as [k|] eqn:E.
  - apply get_last_index_lt in E. rewrite app_length in E. cbn [length] in E.
    destruct k as [|k].
    + change (Z.of_nat 0 - 1) with (-1). rewrite insert_minus1.
      rewrite pop2_minus1. apply removelast_last.
    + replace (Z.of_nat (S k) - 1) with (Z.of_nat k) by lia.
      rewrite insert_pop_nonneg by (rewrite app_length; cbn [length]; lia).
      apply removelast_last.
  - change (0 - 1) with (-1). rewrite insert_minus1.
    rewrite pop2_minus1. apply removelast_last.
Qed.

(* every frame restores the layer list it found: for all nestings and all layer lists (the error-free path;
   the failing path belongs to C06) *)
Lemma exec_balanced_lemma : forall t c, exec t c = Some c.
Proof.
  apply (mt_ind2 (fun t => forall c, exec t c = Some c) (fun ts => forall c, exec_list ts c = Some c)).
  - reflexivity.
  - intros t r Ht Hr c. cbn [exec_list]. rewrite Ht. apply Hr.
  - reflexivity.
  - intros d body IH c. cbn [exec]. rewrite el_eq, IH, pop_push. reflexivity.
  - intros data keyl body IH c. cbn [exec]. rewrite el_eq, IH, !pop_push. reflexivity.
  - intros extra al fe body IH c. cbn [exec]. rewrite el_eq, IH.
    pose proof (fill_frame_restores c extra al fe) as H. cbn zeta in H.
    destruct (py_popZ _ _) as [c3|]; [|contradiction]. rewrite H. reflexivity.
Qed.

Lemma exec_list_balanced_lemma : forall ts c, exec_list ts c = Some c.
Proof. induction ts as [|t r IH]; intro c; [reflexivity|]. cbn [exec_list]. rewrite exec_balanced_lemma. apply IH. Qed.

(* ---------- where the fill's captured variables sit while the fill body runs ---------- *)
(* the stack seen by the fill body *)
Definition fill_stack (c : ctx) (extra al fe : layer) : ctx :=
  let c1 := set_top al (push extra c) in py_insertZ (fill_index c1) fe c1.

(* no component layer at all (fill of a page-level tag, isolated mode): directly below the aliases - lexical *)
Lemma fill_layers_no_component_layer_lemma c extra al fe :
  get_last_index (has_key COMPONENT_KEY) (c ++ [al ++ extra]) = None ->
  fill_stack c extra al fe = c ++ [fe; al ++ extra].
Proof.
  intro H. unfold fill_stack, push. rewrite set_top_snoc. unfold fill_index. rewrite H.
  change (0 - 1) with (-1). apply insert_minus1.
Qed.

(* last component layer at index k+1 of the list: the variables go directly below the layer at index k
   (the get_context_data layer of that component), above everything older *)
Lemma fill_layers_below_data_layer_lemma c extra al fe k :
  get_last_index (has_key COMPONENT_KEY) (c ++ [al ++ extra]) = Some (S k) ->
  fill_stack c extra al fe = firstn k (c ++ [al ++ extra]) ++ fe :: skipn k (c ++ [al ++ extra]).
Proof.
  intro H. unfold fill_stack, push. rewrite set_top_snoc. unfold fill_index. rewrite H.
  apply get_last_index_lt in H.
  replace (Z.of_nat (S k) - 1) with (Z.of_nat k) by lia.
  unfold py_insertZ, ins_pos. destruct (Z.of_nat k <? 0) eqn:E; [apply Z.ltb_lt in E; lia|].
  rewrite Nat2Z.id, Nat.min_l by lia. reflexivity.
Qed.

(* the layer pushed by SlotNode.render itself carries the component key (django mode, the key of the outer component
   is overridden for the fill): the last component layer is the top one, so the variables go below the layer that
   was on top before - ABOVE the get_context_data layer of the slot's component whenever that is not the top-most *)
Lemma fill_layers_key_in_pushed_layer_lemma c top extra al fe :
  has_key COMPONENT_KEY (al ++ extra) = true ->
  fill_stack (c ++ [top]) extra al fe = c ++ [fe; top; al ++ extra].
Proof.
  intro H. unfold fill_stack, push. rewrite set_top_snoc. unfold fill_index.
  assert (E : get_last_index (has_key COMPONENT_KEY) ((c ++ [top]) ++ [al ++ extra]) = Some (S (length c))).
  { rewrite <- app_assoc. cbn [app]. induction c as [|x r IH]; cbn [app get_last_index length].
    - rewrite H. reflexivity.
    - rewrite IH. reflexivity. }
  rewrite E. replace (Z.of_nat (S (length c)) - 1) with (Z.of_nat (length c)) by lia.
  unfold py_insertZ, ins_pos. destruct (Z.of_nat (length c) <? 0) eqn:E2; [apply Z.ltb_lt in E2; lia|].
  rewrite Nat2Z.id, !app_length. cbn [length]. rewrite Nat.min_l by lia.
  rewrite <- !app_assoc. rewrite firstn_app, Nat.sub_diag, firstn_all. cbn [firstn]. rewrite app_nil_r.
  rewrite skipn_app, Nat.sub_diag, skipn_all. cbn [skipn app]. reflexivity.
Qed.

(* witness: slot component's layers [data; {KEY}] on an outer context that has a component layer too (nested tag,
   django mode): the captured variables `fe` end up ABOVE the data layer - "inner data over between-bindings" fails
   in the mechanism (the correspondence check finds this on the implementation: class
   c03-django-fill-variables-inserted-above-inner-component-data) *)
Definition w_outer : ctx := [[(9%N, 0%N)]; [(COMPONENT_KEY, 1%N)]].                 (* builtins ; outer component *)
Definition w_inner : ctx := w_outer ++ [[(5%N, 50%N)]; [(COMPONENT_KEY, 2%N)]].     (* + data{5} ; {KEY: 2} *)
Lemma fill_variables_above_inner_data_witness :
  fill_stack w_inner [(COMPONENT_KEY, 1%N)] [] [(5%N, 77%N)] =
  w_outer ++ [[(5%N, 50%N)]; [(5%N, 77%N)]; [(COMPONENT_KEY, 2%N)]; [(COMPONENT_KEY, 1%N)]].
Proof. vm_compute. reflexivity. Qed.
