(* M refines S in DJANGO mode on the fragment wf_prog_django (Core/Mech.v).
   Same simulation as Core/MechProofs.v section 3, with the differences of the django context behaviour:
     - S is dynamically scoped there: lookup = loc, then out (= what was visible at the component tag);
       M: a component template is rendered on the caller's layers + [data; internal-key layer], so the layer list is
       split as Dout ++ Dloc with Dout ~ out and Dloc ~ loc;
     - a fill body is rendered on the SLOT's Context (+ the key-override layer), the variables captured between tag and
       fill are inserted by render_func somewhere inside Dloc (above Dout): S puts them below the inner component's loc,
       so they must not collide with the inner component's own variables - the only name condition of wf_prog_django. *)
From DJC Require Import Lib.Base Core.Syntax Core.Sem Core.Proofs Core.Mech Core.MechProofs.
From DJC Require Core.CtxStack.
From Coq Require Import String.
Local Open Scope string_scope.
Local Open Scope list_scope.

(* ---------- relations ---------- *)
Definition vpart (ds : list layer) (e : env) : Prop :=
  forall x, uname x = true -> cget x ds = option_map CVal (slookup x e).
Definition vrelL (ds : list layer) (st : state) : Prop :=
  forall x, uname x = true -> cget x ds = option_map CVal (lookup x st).
Definition kc_inv (ds : list layer) : Prop := cget KEY ds = None \/ cget CVARS ds <> None.

Lemma vsplit Dout Dloc st : vpart Dloc (loc st) -> vpart Dout (out st) -> vrelL (Dout ++ Dloc) st.
Proof.
  intros Hl Ho x Hx. rewrite cget_app, (Hl x Hx), (Ho x Hx). unfold lookup.
  destruct (slookup x (loc st)); reflexivity.
Qed.

Lemma vpart_app Dout Dloc st : vpart Dloc (loc st) -> vpart Dout (out st) -> vpart (Dout ++ Dloc) (loc st ++ out st).
Proof.
  intros Hl Ho x Hx. rewrite cget_app, (Hl x Hx), (Ho x Hx), slookup_app.
  destruct (slookup x (loc st)); reflexivity.
Qed.

(* ---------- expressions ---------- *)
Lemma meval_relL ds st inbody e :
  vrelL ds st ->
  (inbody = false -> forall s, crel (meval (EFilled s) ds) (eval (EFilled s) st)) ->
  expr_ok inbody e = true -> crel (meval e ds) (eval e st).
Proof.
  intros Hv Hf He. destruct e as [s|x|x f|s|]; cbn [expr_ok] in He.
  - constructor.
  - cbn [meval eval]. rewrite (Hv x He). destruct (lookup x st); constructor.
  - cbn [meval eval]. rewrite (Hv x He). destruct (lookup x st) as [[s|l|fs]|]; cbn; try constructor.
    destruct (slookup f fs); constructor.
  - apply Hf. destruct inbody; [discriminate|reflexivity].
  - discriminate.
Qed.

Lemma mkwargs_relL ds st inbody kw :
  vrelL ds st ->
  (inbody = false -> forall s, crel (meval (EFilled s) ds) (eval (EFilled s) st)) ->
  kw_ok inbody kw = true -> mkwargs kw ds = Some (eval_kwargs kw st).
Proof.
  intros Hv Hf. induction kw as [|[k e] r IH]; intro Hk; [reflexivity|].
  cbn [kw_ok forallb snd] in Hk. apply andb_true_iff in Hk as [He Hr].
  cbn [mkwargs eval_kwargs map fst snd]. rewrite (crel_value _ _ (meval_relL _ _ _ _ Hv Hf He)).
  unfold eval_kwargs in IH. rewrite (IH Hr). reflexivity.
Qed.

Lemma meval_val_relL ds st e : vrelL ds st -> val_expr_ok e = true -> meval e ds = CVal (to_value (eval e st)).
Proof.
  intros Hv He. destruct e as [s|x|x f|s|]; try discriminate He; cbn [meval eval val_expr_ok expr_ok] in *.
  - reflexivity.
  - rewrite (Hv x He). destruct (lookup x st); reflexivity.
  - rewrite (Hv x He). destruct (lookup x st) as [[s|l|fs]|]; cbn; try reflexivity. destruct (slookup f fs); reflexivity.
Qed.

Lemma lookup_bind_loc x v st y : lookup y (bind_loc x v st) = if str_eqb y x then Some v else lookup y st.
Proof. unfold lookup, bind_loc. cbn [loc out slookup]. destruct (str_eqb y x); reflexivity. Qed.

(* ---------- fills ---------- *)
Section Dj.
  Variable TB XB : list str.
  Hypothesis Hdisj : forall x, In x XB -> ~ In x TB.

  Definition frel_dj (a : str * slotfn) (b : str * closure) : Prop :=
    fst a = fst b /\
    match snd b with
    | Clo body btw cloc cout dv defv owner cprov =>
        sf_body (snd a) = body /\ sf_dvar (snd a) = dv /\ sf_defvar (snd a) = None /\ defv = None /\
        (forall x, slookup x (match sf_extra (snd a) with Some e => e | None => [] end) = option_map CVal (slookup x btw)) /\
        wf_l_dj TB XB true body = true /\
        (forall x, dv = Some x -> binder_ok x = true) /\
        (forall x, In x (map fst btw) -> In x XB /\ uname x = true)
    end.

  Lemma Forall2_frel_dj_names fm fs : Forall2 frel_dj fm fs -> map fst fm = map fst fs.
  Proof. induction 1 as [|a b fm fs [Hn _] _ IH]; [reflexivity|]. cbn [map]. rewrite Hn, IH. reflexivity. Qed.

  Lemma slookup_frel_dj fm fs : Forall2 frel_dj fm fs -> forall k,
    match slookup k fm, slookup k fs with
    | Some sf, Some cl => frel_dj (k, sf) (k, cl)
    | None, None => True
    | _, _ => False
    end.
  Proof.
    induction 1 as [|[n sf] [n' cl] fm fs [Hn Hr] _ IH]; intro k; [exact I|].
    cbn [fst] in Hn. subst n'. cbn [slookup]. destruct (str_eqb k n) eqn:E; [|apply IH].
    apply str_eqb_eq in E. subst k. split; [reflexivity|exact Hr].
  Qed.

  Lemma smem_frel_dj fm fs k : Forall2 frel_dj fm fs -> smem k fm = smem k fs.
  Proof.
    intro F. pose proof (slookup_frel_dj _ _ F k) as H. unfold smem.
    destruct (slookup k fm), (slookup k fs); try reflexivity; contradiction.
  Qed.

  (* ---------- fill discovery ---------- *)
  Record xrel_dj (c : ctxt) (st : state) (btw : env) (n : N) : Prop := {
    xd_vars : vrelL (dicts c) st;
    xd_gen : cget GEN_FILL (dicts c) = Some (CCollect n);
    xd_idx : exists i, CtxStack.get_last_index (has_key GEN_FILL) (dicts c) = Some i;
    xd_for : forall d, In d (dicts c) -> has_key FORLOOP d = false;
    xd_cap : forall x, slookup x (capture_extra (dicts c)) = option_map CVal (slookup x btw);
    xd_btw : forall x, In x (map fst btw) -> In x XB /\ uname x = true
  }.

  Lemma xrel_dj_push c st btw n x v :
    xrel_dj c st btw n -> binder_ok x = true -> In x XB ->
    xrel_dj (with_dicts c (cpush [(x, CVal v)] (dicts c))) (bind_loc x v st) ((x, v) :: btw) n.
  Proof.
    intros X Hb Hin. apply andb_true_iff in Hb as [_ Hu]. destruct X as [Xv Xg [i Hi] Xf Xc Xb].
    assert (Hne : forall k, uname k = false -> str_eqb k x = false).
    { intros k Hk. apply str_eqb_neq. intro E. subst. congruence. }
    constructor; cbn [dicts with_dicts].
    - intros y Hy. unfold cpush. rewrite cget_snoc, lookup_bind_loc. cbn [slookup].
      destruct (str_eqb y x); [reflexivity|apply Xv; exact Hy].
    - unfold cpush. rewrite cget_snoc. cbn [slookup]. rewrite (Hne GEN_FILL eq_refl). exact Xg.
    - exists i. unfold cpush. rewrite get_last_index_snoc_false; [exact Hi|].
      unfold has_key, smem. cbn [slookup]. rewrite (Hne GEN_FILL eq_refl). reflexivity.
    - intros d Hd. unfold cpush in Hd. apply in_app_or in Hd as [Hd|[<-|[]]]; [apply Xf; exact Hd|].
      unfold has_key, smem. cbn [slookup]. rewrite (Hne FORLOOP eq_refl). reflexivity.
    - intros y. unfold cpush. pose proof (capture_extra_push (dicts c) i x (CVal v) Hi Xf Hu) as Hcp.
      match goal with |- slookup y (capture_extra ?l) = _ =>
        replace (capture_extra l) with (lset x (CVal v) (capture_extra (dicts c))) by (symmetry; exact Hcp) end.
      rewrite slookup_lset. cbn [slookup]. destruct (str_eqb y x); [reflexivity|apply Xc].
    - intros y [<-|Hy]; [split; assumption|apply Xb; exact Hy].
  Qed.

  Section ExSimDj.
    Variable rec : gstate -> ctxt -> tpl -> mres R.
    Variable n : N.

    Definition exPd (t : tpl) : Prop :=
      forall st btw g c old,
        wf_t_dj TB XB true t = true -> xrel_dj c st btw n -> alookup n (g_collect g) = Some old ->
        match extract [] st btw t with
        | Ok (s, cl) => exists g' fl, mex rec g c t = MOk (s, g', c) /\ xstep n old fl g g' /\ Forall2 frel_dj fl cl
        | Err k => mex rec g c t = MErr k
        | OutOfFuel => False
        end.
    Definition exQd (ts : list tpl) : Prop :=
      forall st btw g c old,
        wf_l_dj TB XB true ts = true -> xrel_dj c st btw n -> alookup n (g_collect g) = Some old ->
        match extract_list [] st btw ts with
        | Ok (s, cl) => exists g' fl, mexl rec ts g c = MOk (s, g', c) /\ xstep n old fl g g' /\ Forall2 frel_dj fl cl
        | Err k => mexl rec ts g c = MErr k
        | OutOfFuel => False
        end.

    Lemma ex_sim_dj_all : (forall t, exPd t) /\ (forall ts, exQd ts).
    Proof.
      assert (Hrefl : forall old g, alookup n (g_collect g) = Some old -> xstep n old [] g g).
      { intros old g H. repeat split; try reflexivity. rewrite app_nil_r. exact H. }
      assert (Hnil : exQd []).
      { intros st btw g c old _ X Ho. cbn. exists g, []. split; [reflexivity|]. split; [apply Hrefl; exact Ho|constructor]. }
      assert (Hcons : forall t r, exPd t -> exQd r -> exQd (t :: r)).
      { intros t r Ht Hr st btw g c old Hw X Ho. change (wf_l_dj TB XB true (t :: r)) with (wf_t_dj TB XB true t && wf_l_dj TB XB true r) in Hw.
        apply andb_true_iff in Hw as [Hw1 Hw2].
        cbn [extract_list mexl]. specialize (Ht st btw g c old Hw1 X Ho).
        destruct (extract [] st btw t) as [[s1 cl1]|k|]; cbn [bind]; [|rewrite Ht; reflexivity|exact Ht].
        destruct Ht as [g1 [fl1 [E1 [[Hn1 [Hc1 [Hp1 Hl1]]] F1]]]]. rewrite E1. cbn [mbind].
        specialize (Hr st btw g1 c (old ++ fl1) Hw2 X Hl1).
        destruct (extract_list [] st btw r) as [[s2 cl2]|k|]; cbn [bind fst snd]; [|rewrite Hr; reflexivity|exact Hr].
        destruct Hr as [g2 [fl2 [E2 [[Hn2 [Hc2 [Hp2 Hl2]]] F2]]]]. rewrite E2. cbn [mbind].
        exists g2, (fl1 ++ fl2). split; [reflexivity|]. split.
        - repeat split; try congruence. rewrite Hl2, app_assoc. reflexivity.
        - apply Forall2_app; assumption. }
      assert (Hb : forall c st btw, xrel_dj c st btw n -> forall e, expr_ok true e = true -> crel (meval e (dicts c)) (eval e st)).
      { intros c st btw X e He. apply (meval_relL _ _ true); [exact (xd_vars _ _ _ _ X)|discriminate|exact He]. }
      assert (HText : forall s, exPd (TText s)).
      { intros s st btw g c old _ X Ho. cbn. exists g, []. split; [reflexivity|]. split; [apply Hrefl; exact Ho|constructor]. }
      assert (HOut : forall e, exPd (TOut e)).
      { intros e st btw g c old Hw X Ho. cbn [wf_t_dj] in Hw. cbn [extract mex].
        pose proof (Hb _ _ _ X e Hw) as Hr. unfold mout.
        remember (meval e (dicts c)) as cv. remember (eval e st) as xv.
        destruct Hr; (exists g, []; split; [reflexivity|split; [apply Hrefl; exact Ho|constructor]]). }
      assert (HIf : forall cnd a b, exQd a -> exQd b -> exPd (TIf cnd a b)).
      { intros cnd a b Ha Hbq st btw g c old Hw X Ho. cbn [wf_t_dj] in Hw.
        apply andb_true_iff in Hw as [Hw Hwb]. apply andb_true_iff in Hw as [Hwc Hwa].
        cbn [extract mex]. rewrite !ex_list_eq. rewrite (crel_truthy _ _ (Hb _ _ _ X cnd Hwc)).
        destruct (truthy (eval cnd st)); [apply (Ha st btw g c old Hwa X Ho)|apply (Hbq st btw g c old Hwb X Ho)]. }
      assert (HFor : forall x e body, exQd body -> exPd (TFor x e body)).
      { intros x e body _ st btw g c old Hw. discriminate Hw. }
      assert (HWith : forall x e body, exQd body -> exPd (TWith x e body)).
      { intros x e body Hq st btw g c old Hw X Ho. cbn [wf_t_dj] in Hw.
        apply andb_true_iff in Hw as [Hw Hwb]. apply andb_true_iff in Hw as [Hw Hin]. apply andb_true_iff in Hw as [Hwe Hbx].
        apply smemb_in in Hin.
        cbn [extract]. rewrite ex_list_eq.
        change (mex rec g c (TWith x e body)) with (mwith x (meval e (dicts c)) (mexl rec body) g c).
        rewrite (meval_val_relL _ _ _ (xd_vars _ _ _ _ X) Hwe). unfold mwith.
        pose proof (xrel_dj_push _ _ _ _ x (to_value (eval e st)) X Hbx Hin) as X'.
        specialize (Hq (bind_loc x (to_value (eval e st)) st) ((x, to_value (eval e st)) :: btw) g
                       (with_dicts c (cpush [(x, CVal (to_value (eval e st)))] (dicts c))) old Hwb X' Ho).
        destruct (extract_list [] (bind_loc x (to_value (eval e st)) st) ((x, to_value (eval e st)) :: btw) body) as [[s cl]|k|];
          [|rewrite Hq; reflexivity|exact Hq].
        destruct Hq as [g' [fl [E [Hx F]]]]. rewrite E. cbn [mbind]. rewrite push_pop_id. exists g', fl. auto. }
      assert (HSlot : forall nm d r data body, exQd body -> exPd (TSlot nm d r data body)).
      { intros nm d r data body _ st btw g c old Hw. discriminate Hw. }
      assert (HFill : forall nm dv df body, exQd body -> exPd (TFill nm dv df body)).
      { intros nm dv df body _ st btw g c old Hw X Ho. cbn [wf_t_dj] in Hw.
        apply andb_true_iff in Hw as [Hw Hwb]. apply andb_true_iff in Hw as [Hw Hdvok]. apply andb_true_iff in Hw as [Hwn Hdf].
        destruct df as [df|]; [discriminate|].
        cbn [extract mex]. unfold mfill.
        pose proof (Hb _ _ _ X nm Hwn) as Hr.
        inversion Hr as [v E1 E2|b E1 E2]; [|reflexivity].
        destruct v as [s|l|fs]; try reflexivity.
        assert (Hid : negb (opt_ident_ok dv) || negb (opt_ident_ok None) = false).
        { destruct dv as [x|]; [|reflexivity]. cbn. apply andb_true_iff in Hdvok as [Hi _]. rewrite Hi. reflexivity. }
        rewrite Hid.
        assert (Hsame : match dv with Some _ | _ => false end = false) by (destruct dv; reflexivity).
        rewrite Hsame. rewrite (xd_gen _ _ _ _ X), Ho.
        eexists. exists [(s, {| sf_body := body; sf_dvar := dv; sf_defvar := None; sf_extra := Some (capture_extra (dicts c)) |})].
        split; [reflexivity|]. split.
        - repeat split; try reflexivity. cbn [g_collect set_collect]. apply alookup_aset_same.
        - constructor; [|constructor]. split; [reflexivity|]. cbn [snd fst sf_body sf_dvar sf_defvar sf_extra].
          repeat split; try reflexivity.
          + exact (xd_cap _ _ _ _ X).
          + exact Hwb.
          + intros x ->. exact Hdvok.
          + apply (xd_btw _ _ _ _ X); assumption.
          + apply (xd_btw _ _ _ _ X); assumption. }
      assert (HComp : forall cn kw o body, exQd body -> exPd (TComp cn kw o body)).
      { intros cn kw o body _ st btw g c old Hw X Ho. cbn [wf_t_dj] in Hw.
        apply andb_true_iff in Hw as [Hw _]. apply andb_true_iff in Hw as [_ Hkw].
        cbn [extract mex]. rewrite (mkwargs_relL _ _ true _ (xd_vars _ _ _ _ X) ltac:(discriminate) Hkw).
        exists g, []. split; [reflexivity|]. split; [apply Hrefl; exact Ho|constructor]. }
      assert (HProvide : forall k kw body, exQd body -> exPd (TProvide k kw body)).
      { intros k kw body _ st btw g c old Hw. discriminate Hw. }
      split.
      - exact (tpl_ind3 exPd exQd Hnil Hcons HText HOut HIf HFor HWith HSlot HFill HComp HProvide).
      - exact (tpls_ind3 exPd exQd Hnil Hcons HText HOut HIf HFor HWith HSlot HFill HComp HProvide).
    Qed.
  End ExSimDj.

  Lemma resolve_sim_dj rec g c st body :
    prov st = [] -> vrelL (dicts c) st -> clean (dicts c) -> wf_l_dj TB XB true body = true ->
    match resolve_fills st body with
    | Ok fills => exists g' fm, m_resolve_fills rec g c body = MOk (fm, g', c) /\ g_cctx g' = g_cctx g /\
                                (g_next g <= g_next g')%N /\ Forall2 frel_dj fm fills
    | Err k => m_resolve_fills rec g c body = MErr k
    | OutOfFuel => False
    end.
  Proof.
    intros Hp Hv [Hcg Hcf] Hw. unfold resolve_fills, m_resolve_fills.
    destruct body as [|t r]; [exists g, []; repeat split; [lia|constructor]|].
    set (body := t :: r) in *. rewrite Hp.
    destruct (fresh g) as [n g1] eqn:Ef. unfold fresh in Ef. inversion Ef; subst n g1. clear Ef.
    set (g1 := {| g_next := N.succ (g_next g); g_cctx := g_cctx g; g_collect := g_collect g; g_prov := g_prov g |}).
    set (g2 := set_collect g1 (aset (g_next g) [] (g_collect g1))).
    set (c1 := with_dicts c (cpush [(GEN_FILL, CCollect (g_next g))] (dicts c))).
    assert (X : xrel_dj c1 st [] (g_next g)).
    { constructor; cbn [dicts with_dicts c1]; unfold cpush.
      - intros x Hx. rewrite cget_snoc. cbn [slookup]. rewrite str_eqb_neq; [apply Hv; exact Hx|].
        intro E. rewrite E in Hx. discriminate.
      - rewrite cget_snoc. cbn [slookup]. rewrite str_eqb_refl. reflexivity.
      - exists (List.length (dicts c)). apply get_last_index_snoc_true. unfold has_key, smem. cbn [slookup]. rewrite str_eqb_refl. reflexivity.
      - intros d Hd. apply in_app_or in Hd as [Hd|[<-|[]]]; [|reflexivity].
        unfold has_key, smem. rewrite (cget_none_layers _ _ Hcf d Hd). reflexivity.
      - intros x. rewrite (capture_extra_eq _ (List.length (dicts c))).
        + rewrite skipn_app, skipn_all, Nat.sub_diag. reflexivity.
        + apply get_last_index_snoc_true. unfold has_key, smem. cbn [slookup]. rewrite str_eqb_refl. reflexivity.
        + intros d Hd. apply in_app_or in Hd as [Hd|[<-|[]]]; [|reflexivity].
          unfold has_key, smem. rewrite (cget_none_layers _ _ Hcf d Hd). reflexivity.
      - intros x []. }
    pose proof (proj2 (ex_sim_dj_all rec (g_next g)) body st [] g2 c1 [] Hw X
                  (alookup_aset_same (g_next g) [] (g_collect g1))) as Hs.
    destruct (extract_list [] st [] body) as [[content cl]|k|]; cbn [bind]; [|rewrite Hs; reflexivity|exact Hs].
    destruct Hs as [g3 [fl [E [[Hn3 [Hc3 [Hp3 Hl3]]] F]]]]. rewrite E. cbn [mbind].
    unfold c1. rewrite push_pop_id. rewrite Hl3. cbn [app].
    assert (Hnext : (g_next g <= g_next g3)%N) by (rewrite Hn3; cbn; lia).
    assert (Hcc : g_cctx g3 = g_cctx g) by (rewrite Hc3; reflexivity).
    destruct F as [|a b fl' cl' Hab F'].
    - destruct (body_is_empty body).
      + exists g3, []. repeat split; auto.
      + eexists g3, _. split; [reflexivity|]. split; [exact Hcc|]. split; [exact Hnext|].
        constructor; [|constructor]. split; [reflexivity|]. cbn [snd fst sf_body sf_dvar sf_defvar sf_extra].
        repeat split; auto; try discriminate; contradiction.
    - pose proof (Forall2_frel_dj_names _ _ (Forall2_cons _ _ Hab F')) as Hnames.
      destruct (negb (all_space content)); [reflexivity|]. rewrite Hnames.
      destruct (has_dup (map fst (b :: cl'))); [reflexivity|].
      exists g3, (a :: fl'). repeat split; auto.
  Qed.
End Dj.

(* ---------- where render_func inserts the captured layer ---------- *)
Lemma get_last_index_app_some {A} (f : A -> bool) (a b : list A) j :
  CtxStack.get_last_index f b = Some j -> CtxStack.get_last_index f (a ++ b) = Some (List.length a + j)%nat.
Proof.
  intro H. induction a as [|x r IH]; [exact H|]. cbn [app CtxStack.get_last_index List.length]. rewrite IH. reflexivity.
Qed.

Lemma cget_some_last_index k (ds : list layer) v :
  cget k ds = Some v -> exists i, CtxStack.get_last_index (has_key k) ds = Some i.
Proof.
  induction ds as [|d r IH]; [discriminate|]. cbn [cget CtxStack.get_last_index]. intro H.
  destruct (cget k r) as [w|] eqn:E.
  - destruct (IH H) as [i Hi]. rewrite Hi. eauto.
  - destruct (CtxStack.get_last_index (has_key k) r); [eauto|]. unfold has_key, smem. rewrite H. eauto.
Qed.

(* the layer list = Dout ++ (d0 :: Dl) ++ [top]; the first layer above Dout has no component key but some layer above
   Dout has: the captured layer lands strictly inside the upper part, below `top` *)
Lemma insert_above_out (Dout : list layer) (d0 : layer) (Dl : list layer) (top e : layer) :
  has_key KEY d0 = false ->
  (exists j, CtxStack.get_last_index (has_key KEY) (d0 :: Dl ++ [top]) = Some j) ->
  let ds2 := Dout ++ d0 :: Dl ++ [top] in
  let i := (match CtxStack.get_last_index (has_key KEY) ds2 with Some i => Z.of_nat i | None => 0%Z end - 1)%Z in
  exists A B0, A ++ B0 = d0 :: Dl /\ CtxStack.py_insertZ i e ds2 = Dout ++ A ++ e :: B0 ++ [top].
Proof.
  intros Hd0 [j Hj]. cbn zeta.
  rewrite (get_last_index_app_some _ Dout _ j Hj).
  pose proof (CtxStack.get_last_index_lt _ _ _ Hj) as Hlt. cbn [List.length] in Hlt. rewrite app_length in Hlt. cbn [List.length] in Hlt.
  destruct j as [|j'].
  { cbn [CtxStack.get_last_index] in Hj. destruct (CtxStack.get_last_index (has_key KEY) (Dl ++ [top])); [discriminate|].
    rewrite Hd0 in Hj. discriminate. }
  exists (firstn j' (d0 :: Dl)), (skipn j' (d0 :: Dl)). split; [apply firstn_skipn|].
  unfold CtxStack.py_insertZ, CtxStack.ins_pos.
  replace (Z.of_nat (List.length Dout + S j') - 1)%Z with (Z.of_nat (List.length Dout + j')) by lia.
  destruct (Z.of_nat (List.length Dout + j') <? 0)%Z eqn:E; [apply Z.ltb_lt in E; lia|].
  rewrite Nat2Z.id. rewrite !app_length. cbn [List.length]. rewrite app_length. cbn [List.length].
  rewrite Nat.min_l by lia.
  change (d0 :: Dl ++ [top]) with ((d0 :: Dl) ++ [top]).
  rewrite firstn_app_2, skipn_app.
  rewrite (skipn_all2 (n := List.length Dout + j') Dout) by lia.
  replace (List.length Dout + j' - List.length Dout)%nat with j' by lia. rewrite app_nil_l.
  rewrite firstn_app, skipn_app. cbn [List.length].
  replace (j' - S (List.length Dl))%nat with 0%nat by lia. cbn [firstn skipn]. rewrite app_nil_r.
  rewrite <- !app_assoc. reflexivity.
Qed.

Lemma cget_two (k : str) (A : list layer) (e : layer) (B0 : list layer) (top : layer) :
  cget k (A ++ e :: B0 ++ [top]) =
  match slookup k top with
  | Some v => Some v
  | None => match cget k B0 with
            | Some v => Some v
            | None => match slookup k e with Some v => Some v | None => cget k A end
            end
  end.
Proof.
  rewrite cget_app. change (e :: B0 ++ [top]) with ((e :: B0) ++ [top]). rewrite cget_snoc.
  destruct (slookup k top); [reflexivity|]. cbn [cget]. destruct (cget k B0); [reflexivity|].
  destruct (slookup k e); reflexivity.
Qed.

Lemma cget_AB (k : str) (A B0 : list layer) : cget k (A ++ B0) = None -> cget k A = None /\ cget k B0 = None.
Proof. rewrite cget_app. destruct (cget k B0); [discriminate|auto]. Qed.

(* ---------- the extra_context of a slot in django mode ---------- *)
Definition extra_ok (extra : layer) : Prop :=
  (forall k, uname k = true \/ k = GEN_FILL \/ k = FORLOOP -> slookup k extra = None) /\
  (slookup KEY extra <> None -> slookup CVARS extra <> None) /\
  (slookup KEY extra = None -> slookup CVARS extra = None).

Lemma not_inj_of k : uname k = true \/ k = GEN_FILL \/ k = FORLOOP -> starts_inj k = false.
Proof. intros [H|[->| ->]]; [apply uname_not_inj; exact H|reflexivity|reflexivity]. Qed.

Lemma slot_extra_dj_filled ci O ds : ci_outer ci = Some O -> kc_inv (dicts O) ->
  exists extra, slot_extra Django ci true ds = MOk extra /\ extra_ok extra.
Proof.
  intros HO Hkc. unfold slot_extra. rewrite HO. cbn [is_django andb].
  destruct (cget KEY (dicts O)) as [k|] eqn:Ek.
  - destruct (cget CVARS (dicts O)) as [cv|] eqn:Ec; [|destruct Hkc as [Hkc|Hkc]; [congruence|contradiction]].
    cbn [mbind]. eexists. split; [reflexivity|]. repeat split.
    + intros x Hx. rewrite inj_fold_keys by (apply not_inj_of; exact Hx). cbn [slookup].
      destruct Hx as [Hx|[->| ->]]; try reflexivity.
      rewrite !str_eqb_neq; [reflexivity| |]; intro E; subst; discriminate.
    + intros _. rewrite inj_fold_keys by reflexivity. cbn. discriminate.
    + intros H. rewrite inj_fold_keys in H by reflexivity. cbn in H. discriminate.
  - cbn [mbind]. eexists. split; [reflexivity|]. repeat split.
    + intros x Hx. rewrite inj_fold_keys by (apply not_inj_of; exact Hx). reflexivity.
    + intros H. rewrite inj_fold_keys in H by reflexivity. cbn in H. contradiction.
    + intros _. rewrite inj_fold_keys by reflexivity. reflexivity.
Qed.

Lemma slot_extra_dj_unfilled ci ds :
  exists extra, slot_extra Django ci false ds = MOk extra /\ extra_ok extra /\ slookup KEY extra = None.
Proof.
  unfold slot_extra. cbn [is_django andb mbind]. eexists. split; [reflexivity|].
  assert (Hk : forall k, starts_inj k = false ->
            slookup k (fold_left (fun a kv => if starts_inj (fst kv) then lset (fst kv) (snd kv) a else a) (flatten ds) []) = None).
  { intros k Hk. rewrite inj_fold_keys by exact Hk. reflexivity. }
  split; [|apply Hk; reflexivity]. repeat split.
  - intros x Hx. apply Hk, not_inj_of, Hx.
  - intros H. rewrite Hk in H by reflexivity. contradiction.
  - intros _. apply Hk. reflexivity.
Qed.

(* lookups in the layers a fill body / default content is rendered on *)
Lemma cget_frame (k : str) (Dout A : list layer) (e : layer) (B0 : list layer) (top : layer) :
  slookup k e = None -> slookup k top = None ->
  cget k (Dout ++ A ++ e :: B0 ++ [top]) = cget k (Dout ++ A ++ B0).
Proof.
  intros He Ht. rewrite !cget_app. rewrite <- (cget_app k A (e :: B0 ++ [top])), cget_two, He, Ht.
  rewrite <- cget_app. destruct (cget k B0); reflexivity.
Qed.

(* ---------- the simulation ---------- *)
Section SimDj.
  Variable TB XB : list str.
  Hypothesis Hdisj : forall x, In x XB -> ~ In x TB.
  Variable lib : list (str * cdef).
  Hypothesis Hlib : forall cn cd, slookup cn lib = Some cd -> wf_cdef_dj TB XB cd = true.

  Definition irel_dj (g : gstate) (Dloc : list layer) (rid : N) (dl : list str) (fills : list (str * closure)) : Prop :=
    cget KEY Dloc = Some (CId rid) /\
    cget CVARS Dloc = Some (CVars (map (fun kc => escape_name (fst kc)) fills)) /\
    (rid < g_next g)%N /\
    exists ci O, alookup rid (g_cctx g) = Some ci /\ ci_outer ci = Some O /\ kc_inv (dicts O) /\
                 Forall2 (frel_dj TB XB) (ci_fills ci) fills /\ dflt_ok dl ci.

  Definition dsrel (g : gstate) (c : ctxt) (st : state) (w : who) : Prop :=
    exists Dout Dloc, dicts c = Dout ++ Dloc /\ vpart Dloc (loc st) /\ vpart Dout (out st) /\
      clean (dicts c) /\ kc_inv (dicts c) /\ prov st = [] /\
      match w with
      | WBody => True
      | WPage => cur st = None /\ cget KEY (dicts c) = None /\ cget CVARS (dicts c) = None
      | WInst rid dl => exists cn fills d0 Dl, cur st = Some (Inst cn fills false) /\ incl (map fst (loc st)) TB /\
            Dloc = d0 :: Dl /\ has_key KEY d0 = false /\ irel_dj g Dloc rid dl fills
      end.

  Lemma irel_dj_gext g g' Dloc rid dl fills : irel_dj g Dloc rid dl fills -> gext (WInst rid dl) g g' -> irel_dj g' Dloc rid dl fills.
  Proof.
    intros [Hk [Hv [Hlt [ci [O [Ha [Ho [Hc [Hf Hd]]]]]]]]] [Hn Hj].
    specialize (Hj rid Hlt). cbn in Hj. rewrite N.eqb_refl, Ha in Hj. cbn in Hj.
    destruct Hj as [ci' [Ha' [Hf' [Ho' Hd']]]].
    split; [exact Hk|]. split; [exact Hv|]. split; [lia|].
    exists ci', O. rewrite Hf', Ho'. repeat split; auto.
  Qed.

  Lemma dsrel_gext g g' c st w : dsrel g c st w -> gext w g g' -> dsrel g' c st w.
  Proof.
    intros [Dout [Dloc [H1 [H2 [H3 [H4 [H5 [H6 H7]]]]]]]] He. exists Dout, Dloc. repeat (split; [assumption|]).
    destruct w as [| |rid dl]; try exact H7.
    destruct H7 as [cn [fills [d0 [Dl [Hc [Hi [Hd [Hk Hir]]]]]]]]. exists cn, fills, d0, Dl. repeat (split; [assumption|]).
    eapply irel_dj_gext; eassumption.
  Qed.

  Lemma dsrel_vrelL g c st w : dsrel g c st w -> vrelL (dicts c) st.
  Proof. intros [Dout [Dloc [H1 [H2 [H3 _]]]]]. rewrite H1. apply vsplit; assumption. Qed.

  Lemma dsrel_efilled g c st w : dsrel g c st w -> is_body w = false ->
    forall s, crel (meval (EFilled s) (dicts c)) (eval (EFilled s) st).
  Proof.
    intros [Dout [Dloc [H1 [H2 [H3 [H4 [H5 [H6 H7]]]]]]]] Hb s. cbn [meval eval].
    destruct w as [| |rid dl]; [discriminate| |].
    - destruct H7 as [Hc [_ Hcv]]. rewrite Hcv, Hc. constructor.
    - destruct H7 as [cn [fills [d0 [Dl [Hc [_ [_ [_ [_ [Hcv _]]]]]]]]]]. rewrite H1, cget_app, Hcv, Hc. cbn [inst_fills].
      rewrite existsb_map_escape. constructor.
  Qed.

  Lemma dsrel_meval g c st w e : dsrel g c st w -> expr_ok (is_body w) e = true -> crel (meval e (dicts c)) (eval e st).
  Proof.
    intros Hs He. apply (meval_relL _ _ (is_body w)); [eapply dsrel_vrelL; exact Hs| |exact He].
    intro Hb. eapply dsrel_efilled; eassumption.
  Qed.

  Lemma dsrel_kwargs g c st w kw : dsrel g c st w -> kw_ok (is_body w) kw = true -> mkwargs kw (dicts c) = Some (eval_kwargs kw st).
  Proof.
    intros Hs He. apply (mkwargs_relL _ _ (is_body w)); [eapply dsrel_vrelL; exact Hs| |exact He].
    intro Hb. eapply dsrel_efilled; eassumption.
  Qed.

  Lemma cget_push_other (k x : str) (v : cval) (ds : list layer) : k <> x -> cget k (cpush [(x, v)] ds) = cget k ds.
  Proof. intro H. unfold cpush. rewrite cget_snoc. cbn [slookup]. rewrite (str_eqb_neq _ _ H). reflexivity. Qed.

  Lemma dsrel_push g c st w x v :
    dsrel g c st w -> binder_ok x = true -> In x (if is_body w then XB else TB) ->
    dsrel g (with_dicts c (cpush [(x, CVal v)] (dicts c))) (bind_loc x v st) w.
  Proof.
    intros [Dout [Dloc [H1 [H2 [H3 [[H4 H4'] [H5 [H6 H7]]]]]]]] Hb Hin. pose proof Hb as Hb'. apply andb_true_iff in Hb' as [_ Hu].
    assert (Hne : forall k, uname k = false -> k <> x) by (intros k Hk E; subst; congruence).
    exists Dout, (Dloc ++ [[(x, CVal v)]]). cbn [dicts with_dicts bind_loc loc out cur prov].
    split; [unfold cpush; rewrite H1, app_assoc; reflexivity|].
    split. { intros y Hy. rewrite cget_snoc. cbn [slookup]. destruct (str_eqb y x); [reflexivity|apply H2; exact Hy]. }
    split; [exact H3|].
    split. { split; rewrite cget_push_other by (apply Hne; reflexivity); assumption. }
    split. { destruct H5 as [H5|H5]; [left|right]; rewrite cget_push_other by (apply Hne; reflexivity); assumption. }
    split; [exact H6|].
    destruct w as [| |rid dl]; [exact I| |].
    - destruct H7 as [Ha [Hb1 Hc]]. rewrite !cget_push_other by (apply Hne; reflexivity). auto.
    - destruct H7 as [cn [fills [d0 [Dl [Hc [Hi [Hd [Hk [Hi1 [Hi2 Hi3]]]]]]]]]]. cbn [is_body] in Hin.
      exists cn, fills, d0, (Dl ++ [[(x, CVal v)]]). split; [exact Hc|].
      split. { cbn [map fst]. intros y [<-|Hy]; [exact Hin|apply Hi; exact Hy]. }
      split; [rewrite Hd; reflexivity|]. split; [exact Hk|].
      split. { rewrite cget_snoc. cbn [slookup]. rewrite (str_eqb_neq _ _ (Hne KEY eq_refl)). exact Hi1. }
      split. { rewrite cget_snoc. cbn [slookup]. rewrite (str_eqb_neq _ _ (Hne CVARS eq_refl)). exact Hi2. }
      exact Hi3.
  Qed.

  Definition simPd (rec : state -> tpl -> res str) (mrec : gstate -> ctxt -> tpl -> mres R) : Prop :=
    forall t w st g c, dsrel g c st w -> wf_t_dj TB XB (is_body w) t = true ->
      (forall rid dl, w = WInst rid dl -> incl (slot_defaults_t t) dl /\ (forall a b, In a dl -> In b dl -> a = b)) ->
      match rec st t with
      | Ok a => exists g', mrec g c t = MOk (a, g', c) /\ gext w g g'
      | Err k => mrec g c t = MErr k
      | OutOfFuel => mrec g c t = MFuel
      end.

  (* the layers of a frame pushed by SlotNode.render + render_func on a Context split as Dout ++ d0 :: Dl *)
  Lemma frame_split (Dout : list layer) d0 Dl (extra : layer) sf sdata sref :
    has_key KEY d0 = false -> cget KEY (d0 :: Dl) <> None -> sf_defvar sf = None ->
    exists A B0, A ++ B0 = d0 :: Dl /\
      rf_dicts sf sdata sref (cpush extra (Dout ++ d0 :: Dl)) =
      Dout ++ A ++ (match sf_extra sf with Some e => e | None => [] end) :: B0 ++
        [match sf_dvar sf with Some x => lset x (CVal sdata) extra | None => extra end].
  Proof.
    intros Hd0 Hk Hdf. unfold rf_dicts. rewrite Hdf. cbn zeta.
    set (top := match sf_dvar sf with Some x => lset x (CVal sdata) extra | None => extra end).
    assert (E2 : match sf_dvar sf with Some x => cset x (CVal sdata) (cpush extra (Dout ++ d0 :: Dl)) | None => cpush extra (Dout ++ d0 :: Dl) end
                 = Dout ++ d0 :: Dl ++ [top]).
    { unfold top, cpush. destruct (sf_dvar sf); [rewrite cset_snoc|]; rewrite <- app_assoc; reflexivity. }
    rewrite E2.
    assert (Hj : exists j, CtxStack.get_last_index (has_key KEY) (d0 :: Dl ++ [top]) = Some j).
    { destruct (cget KEY ((d0 :: Dl) ++ [top])) as [v|] eqn:E.
      - exact (cget_some_last_index _ _ _ E).
      - rewrite cget_snoc in E. destruct (slookup KEY top); [discriminate|contradiction]. }
    destruct (insert_above_out Dout d0 Dl top (match sf_extra sf with Some e => e | None => [] end) Hd0 Hj) as [A [B0 [Hab Hins]]].
    cbn zeta in Hins. exists A, B0. split; [exact Hab|exact Hins].
  Qed.

  Section StepDj.
    Variable rec : state -> tpl -> res str.
    Variable mrec : gstate -> ctxt -> tpl -> mres R.
    Hypothesis IH : simPd rec mrec.

    Lemma sim_list_dj : forall ts w st g c, dsrel g c st w -> wf_l_dj TB XB (is_body w) ts = true ->
      (forall rid dl, w = WInst rid dl -> incl (slot_defaults ts) dl /\ (forall a b, In a dl -> In b dl -> a = b)) ->
      match rl rec st ts with
      | Ok a => exists g', mrl mrec g c ts = MOk (a, g', c) /\ gext w g g'
      | Err k => mrl mrec g c ts = MErr k
      | OutOfFuel => mrl mrec g c ts = MFuel
      end.
    Proof.
      induction ts as [|t r IHr]; intros w st g c Hs Hw Hd; cbn [rl mrl].
      - exists g. split; [reflexivity|apply gext_refl].
      - change (wf_l_dj TB XB (is_body w) (t :: r)) with (wf_t_dj TB XB (is_body w) t && wf_l_dj TB XB (is_body w) r) in Hw.
        apply andb_true_iff in Hw as [Hw1 Hw2].
        assert (Hd1 : forall rid dl, w = WInst rid dl -> incl (slot_defaults_t t) dl /\ (forall a b, In a dl -> In b dl -> a = b)).
        { intros rid dl E. destruct (Hd rid dl E) as [Hi Ha]. split; [|exact Ha]. intros x Hx. apply Hi. cbn [slot_defaults]. apply in_or_app. left. exact Hx. }
        assert (Hd2 : forall rid dl, w = WInst rid dl -> incl (slot_defaults r) dl /\ (forall a b, In a dl -> In b dl -> a = b)).
        { intros rid dl E. destruct (Hd rid dl E) as [Hi Ha]. split; [|exact Ha]. intros x Hx. apply Hi. cbn [slot_defaults]. apply in_or_app. right. exact Hx. }
        pose proof (IH t w st g c Hs Hw1 Hd1) as H1.
        destruct (rec st t) as [a| |]; cbn [bind]; [|rewrite H1; reflexivity|rewrite H1; reflexivity].
        destruct H1 as [g1 [E1 X1]]. rewrite E1. cbn [mbind].
        pose proof (IHr w st g1 c (dsrel_gext _ _ _ _ _ Hs X1) Hw2 Hd2) as H2.
        destruct (rl rec st r) as [b| |]; cbn [bind]; [|rewrite H2; reflexivity|rewrite H2; reflexivity].
        destruct H2 as [g2 [E2 X2]]. rewrite E2. cbn [mbind]. exists g2. split; [reflexivity|eapply gext_trans; eassumption].
    Qed.

    Lemma wf_cdef_data cd : wf_cdef_dj TB XB cd = true ->
      forallb (fun xd => binder_ok (fst xd) && dexpr_ok (snd xd)) (c_data cd) = true /\
      (forall x, In x (map fst (c_data cd)) -> In x TB /\ uname x = true).
    Proof.
      unfold wf_cdef_dj. intro H. apply andb_true_iff in H as [H _]. apply andb_true_iff in H as [H _].
      rewrite forallb_forall in H. split.
      - apply forallb_forall. intros xd Hin. specialize (H xd Hin). apply andb_true_iff in H as [H _]. exact H.
      - intros x Hx. apply in_map_iff in Hx as [[y d] [E Hin]]. cbn in E. subst y. specialize (H _ Hin). cbn [fst snd] in H.
        apply andb_true_iff in H as [H Hm]. apply andb_true_iff in H as [Hb _]. apply andb_true_iff in Hb as [_ Hu].
        split; [apply smemb_in; exact Hm|exact Hu].
    Qed.

    Lemma sim_step_dj : simPd (render_step Django lib rec) (mstep Django lib mrec).
    Proof.
      intros t w st g c Hs Hw Hd.
      destruct t as [s|e|cnd x y|x e body|x e body|name isd isr data body|nm dv defv body|cname kw only body|key kw body];
        cbn [render_step mstep].
      - exists g. split; [reflexivity|apply gext_refl].
      - cbn [wf_t_dj] in Hw. pose proof (dsrel_meval _ _ _ _ _ Hs Hw) as Hr. unfold mout.
        remember (meval e (dicts c)) as cv. remember (eval e st) as xv.
        destruct Hr; (exists g; split; [reflexivity|apply gext_refl]).
      - cbn [wf_t_dj] in Hw. apply andb_true_iff in Hw as [Hw Hwy]. apply andb_true_iff in Hw as [Hwc Hwx].
        rewrite (crel_truthy _ _ (dsrel_meval _ _ _ _ _ Hs Hwc)).
        destruct (truthy (eval cnd st)).
        + apply (sim_list_dj x w st g c Hs Hwx). intros rid dl E. destruct (Hd rid dl E) as [Hi Ha]. split; [|exact Ha].
          intros z Hz. apply Hi. cbn [slot_defaults_t]. apply in_or_app. left. exact Hz.
        + apply (sim_list_dj y w st g c Hs Hwy). intros rid dl E. destruct (Hd rid dl E) as [Hi Ha]. split; [|exact Ha].
          intros z Hz. apply Hi. cbn [slot_defaults_t]. apply in_or_app. right. exact Hz.
      - discriminate Hw.
      - (* with *)
        cbn [wf_t_dj] in Hw.
        apply andb_true_iff in Hw as [Hw Hwb]. apply andb_true_iff in Hw as [Hw Hin]. apply andb_true_iff in Hw as [Hwe Hbx].
        apply smemb_in in Hin.
        rewrite (meval_val_relL _ _ _ (dsrel_vrelL _ _ _ _ Hs) Hwe). unfold mwith.
        pose proof (dsrel_push _ _ _ _ x (to_value (eval e st)) Hs Hbx Hin) as Hs'.
        assert (Hd' : forall rid dl, w = WInst rid dl -> incl (slot_defaults body) dl /\ (forall a b, In a dl -> In b dl -> a = b)).
        { intros rid dl E. exact (Hd rid dl E). }
        pose proof (sim_list_dj body w _ g _ Hs' Hwb Hd') as H.
        destruct (rl rec (bind_loc x (to_value (eval e st)) st) body) as [a| |]; [|rewrite H; reflexivity|rewrite H; reflexivity].
        destruct H as [g' [E X]]. rewrite E. cbn [mbind]. rewrite push_pop_id. exists g'. auto.
      - (* slot *)
        cbn [wf_t_dj] in Hw. apply andb_true_iff in Hw as [Hw Hwb]. apply andb_true_iff in Hw as [Hnb Hkw].
        apply negb_true_iff in Hnb.
        assert (Hkw' : kw_ok (is_body w) data = true) by (rewrite Hnb; exact Hkw).
        pose proof (dsrel_kwargs _ _ _ _ _ Hs Hkw') as Ekw.
        pose proof Hs as [Dout [Dloc [HD [Hvl [Hvo [[Hcg Hcf] [Hkc [Hp Hwho]]]]]]]].
        assert (Hex : is_extracting (dicts c) = false) by (unfold is_extracting; rewrite Hcg; reflexivity).
        destruct w as [| |rid dl]; [discriminate Hnb| |].
        + destruct Hwho as [Hc [Hk _]]. rewrite Hc. unfold mslot. rewrite Ekw, Hex, Hk. reflexivity.
        + destruct Hwho as [cn [fills [d0 [Dl [Hc [Hincl [HDl [Hd0 Hirel]]]]]]]]. rewrite Hc.
          pose proof Hirel as [Hk [Hcv [Hlt [ci [O [Ha [HO [HkcO [HF Hdf]]]]]]]]].
          assert (Hkw0 : cget KEY (dicts c) = Some (CId rid)) by (rewrite HD, cget_app, Hk; reflexivity).
          destruct (Hd rid dl eq_refl) as [Hdin Hsame].
          destruct (slot_default_check_ok rid ci name isd g dl Ha Hlt Hdf Hsame) as [g1 [Eg1 Xg1]].
          { intros ->. apply Hdin. cbn [slot_defaults_t]. left. reflexivity. }
          assert (Hs1 : dsrel g1 c st (WInst rid dl)) by (eapply dsrel_gext; eassumption).
          unfold double_filled. rewrite <- (smem_frel_dj TB XB _ _ name HF), <- (smem_frel_dj TB XB _ _ default_key HF).
          destruct (isd && negb (str_eqb name default_key) && smem name (ci_fills ci) && smem default_key (ci_fills ci)) eqn:Edf.
          { unfold mslot. rewrite Ekw, Hex, Hkw0, Ha, Eg1. cbn [mbind]. rewrite Edf. reflexivity. }
          unfold fill_name_of. rewrite <- (smem_frel_dj TB XB _ _ default_key HF).
          set (fname := if isd && smem default_key (ci_fills ci) then default_key else name).
          pose proof (slookup_frel_dj TB XB _ _ HF fname) as Hf.
          set (sdata := VRec (eval_kwargs data st)).
          assert (HkD : cget KEY (d0 :: Dl) <> None) by (rewrite <- HDl, Hk; discriminate).
          destruct (slookup fname (ci_fills ci)) as [sf|] eqn:Em, (slookup fname fills) as [cl|] eqn:Es; try contradiction.
          * (* filled *)
            rewrite (mslot_filled_lemma Django mrec name isd isr data body g c _ rid ci g1 sf Ekw Hex Hkw0 Ha Eg1 Edf Em).
            destruct cl as [fbody btw cloc cout fdv fdefv owner cprov].
            destruct Hf as [_ [Hb [Hdv [Hdfv [-> [Hfe [Hwfb [Hdvb Hbtw]]]]]]]].
            cbn [clo_defvar clo_dvar clo_body bind fst snd] in *.
            destruct (slot_extra_dj_filled ci O (dicts c) HO HkcO) as [extra [Eex [Hex1 [Hex2 Hex3]]]].
            rewrite Eex. cbn [mbind is_django].
            set (sref := CSlotRef body (oid c) (oid c) (dicts c) (slot_rvars (dicts c))).
            destruct (frame_split Dout d0 Dl extra sf sdata sref Hd0 HkD Hdfv) as [A [B0 [Hab Hrf]]].
            set (fe := match sf_extra sf with Some e => e | None => [] end) in *.
            set (top := match sf_dvar sf with Some x0 => lset x0 (CVal sdata) extra | None => extra end) in *.
            set (c0 := with_dicts c (cpush extra (dicts c))).
            set (cb := with_dicts c0 (rf_dicts sf sdata sref (dicts c0))).
            set (aliases := match fdv with Some x0 => [(x0, sdata)] | None => [] end).
            set (stb := fill_state false st aliases (Clo fbody btw cloc cout fdv None owner cprov)).
            assert (Hdv_u : forall d, fdv = Some d -> uname d = true).
            { intros d E. specialize (Hdvb d E). apply andb_true_iff in Hdvb as [_ Hu]. exact Hu. }
            assert (Htop : forall k, (fdv = Some k -> False) -> slookup k top = slookup k extra).
            { intros k Hne. unfold top. rewrite Hdv. destruct fdv as [d|]; [|reflexivity].
              rewrite slookup_lset. rewrite str_eqb_neq; [reflexivity|]. intro E. apply Hne. subst. reflexivity. }
            assert (Hfe_n : forall k, uname k = false -> slookup k fe = None).
            { intros k Hk0. rewrite Hfe. rewrite (slookup_notin k btw); [reflexivity|]. intro Hin. apply Hbtw in Hin as [_ Hu]. congruence. }
            assert (Hcbd : dicts cb = Dout ++ A ++ fe :: B0 ++ [top]).
            { unfold cb, c0. cbn [dicts with_dicts]. rewrite HD, HDl. exact Hrf. }
            assert (Hsb : dsrel g1 cb stb WBody).
            { exists Dout, (A ++ fe :: B0 ++ [top]). split; [exact Hcbd|].
              unfold stb. cbn [fill_state loc out prov cur]. split.
              { (* the upper part vs aliases ++ inner loc ++ between-bindings *)
                intros x Hx. rewrite cget_two.
                assert (Hex_x : slookup x extra = None) by (apply Hex1; left; exact Hx).
                unfold aliases. rewrite slookup_app.
                destruct fdv as [d|] eqn:Efdv.
                - unfold top. rewrite Hdv, slookup_lset. cbn [slookup]. destruct (str_eqb x d); [reflexivity|]. rewrite Hex_x.
                  rewrite slookup_app. destruct (slookup x btw) as [v|] eqn:Eb.
                  + pose proof (slookup_in _ _ _ Eb) as Hin. apply Hbtw in Hin as [Hxb _].
                    assert (Hnl : slookup x (loc st) = None) by (apply slookup_notin; intro Hi; apply (Hdisj x Hxb), Hincl, Hi).
                    assert (E0 : cget x (A ++ B0) = None) by (rewrite Hab, <- HDl, (Hvl x Hx), Hnl; reflexivity).
                    apply cget_AB in E0 as [EA EB]. rewrite EB, EA, Hfe, Eb, Hnl. reflexivity.
                  + rewrite Hfe, Eb. cbn [option_map]. rewrite <- (cget_app x A B0), Hab, <- HDl, (Hvl x Hx).
                    destruct (cget x B0); destruct (slookup x (loc st)); reflexivity || idtac.
                    all: try reflexivity.
                - unfold top. rewrite Hdv, Hex_x. cbn [slookup].
                  rewrite slookup_app. destruct (slookup x btw) as [v|] eqn:Eb.
                  + pose proof (slookup_in _ _ _ Eb) as Hin. apply Hbtw in Hin as [Hxb _].
                    assert (Hnl : slookup x (loc st) = None) by (apply slookup_notin; intro Hi; apply (Hdisj x Hxb), Hincl, Hi).
                    assert (E0 : cget x (A ++ B0) = None) by (rewrite Hab, <- HDl, (Hvl x Hx), Hnl; reflexivity).
                    apply cget_AB in E0 as [EA EB]. rewrite EB, EA, Hfe, Eb, Hnl. reflexivity.
                  + rewrite Hfe, Eb. cbn [option_map]. rewrite <- (cget_app x A B0), Hab, <- HDl, (Hvl x Hx).
                    destruct (slookup x (loc st)); reflexivity. }
              split; [exact Hvo|].
              assert (Hfr : forall k, uname k = false -> (fdv = Some k -> False) -> slookup k extra = None ->
                        cget k (dicts cb) = cget k (dicts c)).
              { intros k Hk0 Hnd Hke. rewrite Hcbd, cget_frame; [rewrite Hab, <- HDl, HD; reflexivity|apply Hfe_n; exact Hk0|].
                rewrite Htop by exact Hnd. exact Hke. }
              assert (Hnd : forall k, uname k = false -> fdv = Some k -> False).
              { intros k Hk0 E. rewrite (Hdv_u k E) in Hk0. discriminate. }
              split. { split; (rewrite Hfr; [assumption|reflexivity|apply Hnd; reflexivity|apply Hex1; auto]). }
              split.
              { (* key / component_vars stay paired *)
                destruct (slookup KEY extra) as [kv|] eqn:Ek.
                - right. rewrite Hcbd, cget_app, cget_two, (Htop CVARS (Hnd CVARS eq_refl)).
                  destruct (slookup CVARS extra) eqn:Ec; [discriminate|]. exfalso. apply Hex2; [discriminate|reflexivity].
                - destruct Hkc as [Hkc|Hkc]; [left|right].
                  + rewrite Hfr; [exact Hkc|reflexivity|apply Hnd; reflexivity|exact Ek].
                  + rewrite Hfr; [exact Hkc|reflexivity|apply Hnd; reflexivity|apply Hex3; reflexivity]. }
              split; [exact Hp|exact I]. }
            assert (Hwb' : wf_l_dj TB XB (is_body WBody) (sf_body sf) = true) by (rewrite Hb; exact Hwfb).
            pose proof (sim_list_dj (sf_body sf) WBody stb g1 cb Hsb Hwb' ltac:(intros; discriminate)) as Hbody.
            pose proof (m_render_func_run mrec sf sdata sref g1 c extra) as Hrun. cbn zeta in Hrun. fold c0 cb in Hrun.
            rewrite Hb in Hbody. revert Hbody. unfold stb, aliases.
            destruct (rl rec _ fbody) as [a| |]; intro Hbody.
            -- destruct Hbody as [g3 [E3 X3]]. rewrite Hb, E3 in Hrun. destruct (Hrun eq_refl) as [c2 [E2 Hc2]].
               fold c0. fold sdata sref. rewrite E2. cbn [mbind]. rewrite Hc2. exists g3. split; [reflexivity|].
               eapply gext_trans; [exact Xg1|]. apply gexact_gext. exact X3.
            -- rewrite Hb, Hbody in Hrun. fold c0. fold sdata sref. rewrite Hrun. reflexivity.
            -- rewrite Hb, Hbody in Hrun. fold c0. fold sdata sref. rewrite Hrun. reflexivity.
          * (* unfilled *)
            destruct (mslot_unfilled_lemma Django mrec name isd data body g c _ rid ci g1 Ekw Hex Hkw0 Ha Eg1 Edf Em) as [Er Eu].
            destruct isr; [rewrite Er; reflexivity|]. rewrite Eu. clear Er Eu.
            destruct (slot_extra_dj_unfilled ci (dicts c)) as [extra [Eex [[Hex1 [Hex2 Hex3]] HexK]]].
            rewrite Eex. cbn [mbind].
            set (sref := CSlotRef body (oid c) (oid c) (dicts c) (slot_rvars (dicts c))).
            destruct (frame_split Dout d0 Dl extra (unfilled_fn body) sdata sref Hd0 HkD eq_refl) as [A [B0 [Hab Hrf]]].
            cbn [unfilled_fn sf_extra sf_dvar] in Hrf.
            set (c0 := with_dicts c (cpush extra (dicts c))).
            set (cb := with_dicts c0 (rf_dicts (unfilled_fn body) sdata sref (dicts c0))).
            assert (Hcbd : dicts cb = Dout ++ A ++ [] :: B0 ++ [extra]).
            { unfold cb, c0. cbn [dicts with_dicts]. rewrite HD, HDl. exact Hrf. }
            assert (Hfr : forall k, slookup k extra = None -> cget k (dicts cb) = cget k (dicts c)).
            { intros k Hke. rewrite Hcbd, cget_frame; [rewrite Hab, <- HDl, HD; reflexivity|reflexivity|exact Hke]. }
            assert (HfrL : forall k, slookup k extra = None -> cget k (A ++ [] :: B0 ++ [extra]) = cget k Dloc).
            { intros k Hke. rewrite cget_two, Hke. cbn [slookup]. rewrite <- cget_app, Hab, <- HDl. reflexivity. }
            assert (HexC : slookup CVARS extra = None) by (apply Hex3; exact HexK).
            assert (Hsb : dsrel g1 cb st (WInst rid dl)).
            { pose proof (irel_dj_gext _ _ _ _ _ _ Hirel Xg1) as [_ [_ [Hlt1 Hent1]]].
              exists Dout, (A ++ [] :: B0 ++ [extra]). split; [exact Hcbd|].
              split. { intros x Hx. rewrite HfrL by (apply Hex1; auto). apply Hvl. exact Hx. }
              split; [exact Hvo|].
              split. { split; (rewrite Hfr by (apply Hex1; auto)); assumption. }
              split. { destruct Hkc as [Hkc|Hkc]; [left|right]; rewrite Hfr; assumption. }
              split; [exact Hp|].
              assert (Hhead : exists d0' Dl', A ++ [] :: B0 ++ [extra] = d0' :: Dl' /\ has_key KEY d0' = false).
              { destruct A as [|a0 A']; [exists [], (B0 ++ [extra]); split; reflexivity|].
                exists a0, (A' ++ [] :: B0 ++ [extra]). split; [reflexivity|]. cbn [app] in Hab. inversion Hab; subst. exact Hd0. }
              destruct Hhead as [d0' [Dl' [Eh Hh]]].
              exists cn, fills, d0', Dl'. split; [exact Hc|]. split; [exact Hincl|]. split; [exact Eh|]. split; [exact Hh|].
              split; [rewrite HfrL by exact HexK; exact Hk|]. split; [rewrite HfrL by exact HexC; exact Hcv|].
              split; [exact Hlt1|exact Hent1]. }
            assert (Hd' : forall rid0 dl0, WInst rid dl = WInst rid0 dl0 ->
                      incl (slot_defaults body) dl0 /\ (forall a b, In a dl0 -> In b dl0 -> a = b)).
            { intros rid0 dl0 E. inversion E; subst. split; [|exact Hsame]. intros z Hz. apply Hdin. cbn [slot_defaults_t].
              apply in_or_app. right. exact Hz. }
            pose proof (sim_list_dj body (WInst rid dl) st g1 cb Hsb Hwb Hd') as Hbody.
            pose proof (m_render_func_run mrec (unfilled_fn body) sdata sref g1 c extra) as Hrun. cbn zeta in Hrun.
            fold c0 cb in Hrun. cbn [sf_body unfilled_fn] in Hrun.
            destruct (rl rec st body) as [a| |].
            -- destruct Hbody as [g3 [E3 X3]]. rewrite E3 in Hrun. destruct (Hrun eq_refl) as [c2 [E2 Hc2]].
               fold c0. fold sdata sref. rewrite E2. cbn [mbind]. rewrite Hc2. exists g3. split; [reflexivity|].
               eapply gext_trans; eassumption.
            -- rewrite Hbody in Hrun. fold c0. fold sdata sref. rewrite Hrun. reflexivity.
            -- rewrite Hbody in Hrun. fold c0. fold sdata sref. rewrite Hrun. reflexivity.
      - destruct Hs as [Dout [Dloc [_ [_ [_ [[Hcg _] _]]]]]]. unfold is_extracting. rewrite Hcg. reflexivity.
      - (* component *)
        cbn [wf_t_dj] in Hw. apply andb_true_iff in Hw as [Hw Hwb]. apply andb_true_iff in Hw as [Honly Hkw].
        apply negb_true_iff in Honly. subst only. unfold mcomp.
        rewrite (dsrel_kwargs _ _ _ _ _ Hs Hkw).
        pose proof Hs as [Dout [Dloc [HD [Hvl [Hvo [[Hcg Hcf] [Hkc [Hp Hwho]]]]]]]].
        unfold is_extracting. rewrite Hcg.
        destruct (slookup cname lib) as [cd|] eqn:El; [|reflexivity].
        pose proof (Hlib _ _ El) as Hcd. destruct (wf_cdef_data cd Hcd) as [Hdata Hdn].
        unfold wf_cdef_dj in Hcd. apply andb_true_iff in Hcd as [Hcd Hsame]. apply andb_true_iff in Hcd as [_ Hwt].
        pose proof (resolve_sim_dj TB XB mrec g c st body Hp (dsrel_vrelL _ _ _ _ Hs) (conj Hcg Hcf) Hwb) as Hres.
        destruct (resolve_fills st body) as [fills| |]; cbn [bind]; [|rewrite Hres; reflexivity|contradiction].
        destruct Hres as [g1 [fm [Eres [Hcc1 [Hn1 HF]]]]]. rewrite Eres. cbn [mbind].
        cbn [is_django negb orb].
        unfold fresh, snapshot. cbn [g_next g_cctx g_collect g_prov fresh].
        destruct (eval_data_sim (c_data cd) (eval_kwargs kw st) (prov st)
                    {| g_next := N.succ (N.succ (g_next g1)); g_cctx := g_cctx g1; g_collect := g_collect g1; g_prov := g_prov g1 |}
                    (dicts c) Hdata) as [data [Ed [Em Hdincl]]].
        rewrite Ed. cbn [bind]. rewrite Em. cbn [mbind].
        cbn [g_next g_cctx g_collect g_prov set_cctx dicts oid with_dicts].
        set (rid := g_next g1).
        set (dl := slot_defaults (c_tpl cd)).
        set (dataM := map (fun kv => (fst kv, CVal (snd kv))) data).
        set (keyl := [(KEY, CId rid); (CVARS, CVars (map (fun kf => escape_name (fst kf)) fm))]).
        set (snap := {| oid := N.succ (N.succ rid); dicts := cpush keyl (cpush dataM (dicts c)) |}).
        set (osnap := {| oid := N.succ rid; dicts := dicts c |}).
        set (entry := {| ci_name := cname; ci_fills := fm; ci_default := None; ci_outer := Some osnap |}).
        set (g6 := {| g_next := N.succ (N.succ (N.succ rid)); g_cctx := aset rid entry (g_cctx g1);
                      g_collect := g_collect g1; g_prov := g_prov g1 |}).
        set (st' := comp_state st cname fills data (is_isolated Django false)).
        assert (Hdk : forall k, uname k = false -> slookup k dataM = None).
        { intros k Hk. unfold dataM. rewrite slookup_map_cval. rewrite (slookup_notin k data); [reflexivity|].
          intro Hin. apply Hdincl, Hdn in Hin as [_ Hu]. congruence. }
        assert (Hs' : dsrel g6 snap st' (WInst rid dl)).
        { exists (dicts c), [dataM; keyl]. unfold st', comp_state, is_isolated. cbn [orb loc out cur prov dicts snap].
          split; [unfold cpush; rewrite <- app_assoc; reflexivity|].
          split. { intros x Hx. cbn [cget]. unfold keyl. cbn [slookup].
                   rewrite !str_eqb_neq by (intro E; subst; discriminate). unfold dataM. rewrite slookup_map_cval.
                   destruct (slookup x data); reflexivity. }
          split; [rewrite HD; apply vpart_app; assumption|].
          assert (Hlook : forall k, k <> KEY -> k <> CVARS -> uname k = false ->
                    cget k (cpush keyl (cpush dataM (dicts c))) = cget k (dicts c)).
          { intros k H1 H2 Hu. unfold cpush. rewrite !cget_snoc. unfold keyl. cbn [slookup].
            rewrite (str_eqb_neq _ _ H1), (str_eqb_neq _ _ H2), (Hdk k Hu). reflexivity. }
          split. { split; rewrite Hlook; try assumption; try reflexivity; intro E; discriminate E. }
          split. { right. unfold cpush. rewrite cget_snoc. unfold keyl. cbn [slookup].
                   rewrite (str_eqb_neq CVARS KEY) by discriminate. rewrite str_eqb_refl. discriminate. }
          split; [exact Hp|].
          exists cname, fills, dataM, [keyl]. split; [reflexivity|].
          split. { intros x Hx. apply Hdincl, Hdn in Hx as [Hx _]. exact Hx. }
          split; [reflexivity|]. split; [unfold has_key, smem; rewrite (Hdk KEY eq_refl); reflexivity|].
          split; [reflexivity|].
          split. { cbn [cget]. unfold keyl. cbn [slookup]. rewrite (str_eqb_neq CVARS KEY) by discriminate. rewrite str_eqb_refl.
                   rewrite (map_escape_names _ _ (Forall2_frel_dj_names TB XB _ _ HF)). reflexivity. }
          split; [unfold g6, rid; cbn; lia|].
          exists entry, osnap. split; [unfold g6; cbn [g_cctx]; apply alookup_aset_same|].
          split; [reflexivity|]. split; [exact Hkc|]. split; [exact HF|exact I]. }
        assert (Hd' : forall rid0 dl0, WInst rid dl = WInst rid0 dl0 ->
                  incl (slot_defaults (c_tpl cd)) dl0 /\ (forall a b, In a dl0 -> In b dl0 -> a = b)).
        { intros rid0 dl0 E. inversion E; subst. split; [apply incl_refl|apply all_same_prop; exact Hsame]. }
        pose proof (sim_list_dj (c_tpl cd) (WInst rid dl) st' g6 snap Hs' Hwt Hd') as Htpl.
        fold rid keyl dataM.
        match goal with |- context [mrl mrec ?a ?b (c_tpl cd)] => change (mrl mrec a b (c_tpl cd)) with (mrl mrec g6 snap (c_tpl cd)) end.
        destruct (rl rec st' (c_tpl cd)) as [a| |]; [|rewrite Htpl; reflexivity|rewrite Htpl; reflexivity].
        destruct Htpl as [g7 [E7 [Hn7 X7]]]. rewrite E7. cbn [mbind].
        assert (Hc' : with_dicts c (cpop (cpop (cpush keyl (cpush dataM (dicts c))))) = c).
        { rewrite !cpop_cpush. apply with_dicts_eta. }
        rewrite Hc'. eexists. split; [reflexivity|].
        apply gexact_gext. split; [cbn [g_next set_cctx]; unfold g6 in Hn7; cbn [g_next] in Hn7; unfold rid in Hn7; lia|].
        intros j Hj. cbn [g_cctx set_cctx].
        assert (Hjr : j <> rid) by (unfold rid; lia).
        rewrite alookup_aremove_other by exact Hjr.
        specialize (X7 j ltac:(unfold g6, rid; cbn [g_next]; lia)). cbn in X7.
        destruct (N.eqb j rid) eqn:E; [apply N.eqb_eq in E; contradiction|].
        rewrite X7. unfold g6. cbn [g_cctx]. rewrite alookup_aset_other by exact Hjr. rewrite Hcc1. reflexivity.
      - discriminate Hw.
    Qed.
  End StepDj.
End SimDj.

Lemma sim_render_dj TB XB (Hdisj : forall x, In x XB -> ~ In x TB) lib
      (Hlib : forall cn cd, slookup cn lib = Some cd -> wf_cdef_dj TB XB cd = true) fuel :
  simPd TB XB (render Django lib fuel) (mrender Django lib fuel).
Proof.
  induction fuel as [|f IHf].
  - intros t w st g c _ _ _. reflexivity.
  - cbn [render mrender]. apply sim_step_dj; assumption.
Qed.

Theorem mech_refines_sem_django_lemma : forall p fuel,
  wf_prog_django p = true -> mout_of (mrender_prog fuel p) = embed (render_prog fuel p).
Proof.
  intros p fuel Hwf. unfold wf_prog_django in Hwf. cbn zeta in Hwf.
  apply andb_true_iff in Hwf as [Hwf Hpage]. apply andb_true_iff in Hwf as [Hwf Hctx].
  apply andb_true_iff in Hwf as [Hwf Hlibb]. apply andb_true_iff in Hwf as [Hmode Hdj].
  unfold mrender_prog, render_prog, mrender_list, render_list.
  destruct (p_mode p); [discriminate|]. clear Hmode.
  set (TB := tb_of p) in *. set (XB := xb_of p) in *.
  assert (Hdisj : forall x, In x XB -> ~ In x TB).
  { intros x Hx. rewrite forallb_forall in Hdj. specialize (Hdj x Hx). apply negb_true_iff in Hdj. apply smemb_notin. exact Hdj. }
  assert (Hlib : forall cn cd, slookup cn (p_lib p) = Some cd -> wf_cdef_dj TB XB cd = true).
  { intros cn cd H. apply slookup_In_lib in H. rewrite forallb_forall in Hlibb. exact (Hlibb _ H). }
  set (st0 := {| loc := p_ctx p; out := []; cur := None; prov := [] |}).
  assert (Hs : dsrel TB XB g0 (page_ctxt p) st0 WPage).
  { assert (Hint : forall k, uname k = false -> slookup k builtins = None -> cget k (dicts (page_ctxt p)) = None).
    { intros k Hk Hb. unfold page_ctxt. cbn [dicts]. rewrite page_lookup, (not_uname_notin_ctx _ _ Hctx Hk). exact Hb. }
    exists [], (dicts (page_ctxt p)). split; [reflexivity|]. split.
    { intros x Hx. unfold page_ctxt. cbn [dicts st0 loc]. rewrite page_lookup. destruct (slookup x (p_ctx p)); [reflexivity|].
      destruct (uname_l0_ok x Hx) as [_ [_ [H1 [H2 H3]]]]. unfold builtins. cbn [slookup].
      rewrite !str_eqb_neq by assumption. reflexivity. }
    split; [intros x Hx; reflexivity|].
    split; [split; apply Hint; reflexivity|]. split; [left; apply Hint; reflexivity|].
    split; [reflexivity|]. split; [reflexivity|]. split; apply Hint; reflexivity. }
  pose proof (sim_list_dj TB XB _ _ (sim_render_dj TB XB Hdisj (p_lib p) Hlib fuel) (p_page p) WPage st0 g0 (page_ctxt p) Hs Hpage
                ltac:(intros; discriminate)) as H.
  fold st0. destruct (rl (render Django (p_lib p) fuel) st0 (p_page p)) as [a| |].
  - destruct H as [g' [E _]]. rewrite E. reflexivity.
  - rewrite H. reflexivity.
  - rewrite H. reflexivity.
Qed.
