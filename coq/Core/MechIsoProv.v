(* M refines S in ISOLATED mode on the fragment wf_prog_prov = wf_prog + {% provide %} / inject (Core/Mech.v).
   The simulation of Core/MechProofs.v section 3, extended by the relation between S's provider environment
   (prov st : key -> record, nearest first) and M's _DJC_INJECT__<key> Context entries + provide_cache:
     - ProvideNode pushes a layer {_DJC_INJECT__key: fresh id} and stores the record under that id;
     - make_isolated_context_copy copies every visible inject key into the isolated Context;
     - SlotNode.render copies every visible inject key (Context.flatten()) into the layer it pushes, so fill content
       rendered on the OUTER Context sees the providers around the slot first, then those around the component tag
       (S: prov st ++ cprov);
     - inject() = lookup of the key in the component's input Context, then of the id in provide_cache. *)
From DJC Require Import Lib.Base Core.Syntax Core.Sem Core.Proofs Core.Mech Core.MechProofs Core.MechDjango.
From DJC Require Core.CtxStack.
From Coq Require Import String.
Local Open Scope string_scope.
Local Open Scope list_scope.

(* ---------- layers are dicts: an inject key occurs at most once per layer ---------- *)
Fixpoint kcount (k : str) (d : layer) : nat :=
  match d with [] => 0 | (k', _) :: r => (if str_eqb k k' then 1 else 0) + kcount k r end.

Definition uinj_layer (d : layer) : Prop := forall k, starts_inj k = true -> (kcount k d <= 1)%nat.
Definition uinj (ds : list layer) : Prop := forall d, In d ds -> uinj_layer d.

Lemma kcount_zero_slookup k d : kcount k d = 0%nat -> slookup k d = None.
Proof.
  induction d as [|[k' v] r IH]; [reflexivity|]. cbn [kcount slookup]. destruct (str_eqb k k'); [discriminate|exact IH].
Qed.

Lemma slookup_none_kcount k d : slookup k d = None -> kcount k d = 0%nat.
Proof.
  induction d as [|[k' v] r IH]; [reflexivity|]. cbn [kcount slookup]. destruct (str_eqb k k'); [discriminate|exact IH].
Qed.

Lemma kcount_lset_other k k' v d : k <> k' -> kcount k (lset k' v d) = kcount k d.
Proof.
  intro H. induction d as [|[k2 v2] r IH]; cbn [lset kcount].
  - rewrite (str_eqb_neq _ _ H). reflexivity.
  - destruct (str_eqb k' k2) eqn:E; cbn [kcount].
    + apply str_eqb_eq in E. subst k2. reflexivity.
    + rewrite IH. reflexivity.
Qed.

Lemma kcount_lset_same k v d : kcount k (lset k v d) = Nat.max 1 (kcount k d).
Proof.
  induction d as [|[k2 v2] r IH]; cbn [lset kcount].
  - rewrite str_eqb_refl. reflexivity.
  - destruct (str_eqb k k2) eqn:E; cbn [kcount]; rewrite ?str_eqb_refl, ?E; [lia|]. rewrite IH. lia.
Qed.

Lemma uinj_layer_lset k v d : uinj_layer d -> uinj_layer (lset k v d).
Proof.
  intros H k0 Hk0. specialize (H k0 Hk0). destruct (str_eqb k0 k) eqn:E.
  - apply str_eqb_eq in E. subst k0. rewrite kcount_lset_same. lia.
  - rewrite kcount_lset_other; [exact H|]. intro E2. subst. rewrite str_eqb_refl in E. discriminate.
Qed.

Lemma uinj_layer_noinj d : (forall k, starts_inj k = true -> slookup k d = None) -> uinj_layer d.
Proof. intros H k Hk. rewrite (slookup_none_kcount _ _ (H k Hk)). lia. Qed.

Lemma uinj_app a b : uinj a -> uinj b -> uinj (a ++ b).
Proof. intros Ha Hb d Hd. apply in_app_or in Hd as [Hd|Hd]; auto. Qed.

Lemma uinj_snoc ds d : uinj ds -> uinj_layer d -> uinj (ds ++ [d]).
Proof. intros H Hd. apply uinj_app; [exact H|]. intros d' [<-|[]]. exact Hd. Qed.

(* dict.update / Context.flatten() agree with Context lookup on keys that occur at most once per layer *)
Lemma slookup_lupdate k acc d : (kcount k d <= 1)%nat ->
  slookup k (lupdate acc d) = match slookup k d with Some v => Some v | None => slookup k acc end.
Proof.
  unfold lupdate. revert acc. induction d as [|[k' v'] r IH]; intros acc H; [reflexivity|].
  cbn [fold_left fst snd kcount slookup] in *. destruct (str_eqb k k') eqn:E.
  - apply str_eqb_eq in E. subst k'.
    assert (H0 : kcount k r = 0%nat) by lia.
    rewrite IH by lia. rewrite (kcount_zero_slookup _ _ H0), slookup_lset, str_eqb_refl. reflexivity.
  - rewrite IH by exact H. rewrite slookup_lset, E. reflexivity.
Qed.

Lemma slookup_flatten_from k (ds : list layer) : (forall d, In d ds -> (kcount k d <= 1)%nat) ->
  forall acc, slookup k (fold_left lupdate ds acc) = match cget k ds with Some v => Some v | None => slookup k acc end.
Proof.
  induction ds as [|d r IH]; intros H acc; [reflexivity|]. cbn [fold_left cget].
  rewrite IH by (intros d' Hd'; apply H; right; exact Hd').
  destruct (cget k r); [reflexivity|]. apply slookup_lupdate. apply H. left. reflexivity.
Qed.

Lemma slookup_flatten k ds : uinj ds -> starts_inj k = true -> slookup k (flatten ds) = cget k ds.
Proof.
  intros H Hk. unfold flatten. rewrite slookup_flatten_from by (intros d Hd; apply (H d Hd k Hk)).
  destruct (cget k ds); reflexivity.
Qed.

(* ---------- inject keys ---------- *)
Lemma starts_with_app (p s : str) : starts_with p (p ++ s) = true.
Proof. induction p as [|c r IH]; [reflexivity|]. cbn [app starts_with]. rewrite N.eqb_refl, IH. reflexivity. Qed.

Lemma starts_inj_inj_key key : starts_inj (inj_key key) = true.
Proof. unfold starts_inj, inj_key. apply starts_with_app. Qed.

Lemma inj_key_inj a b : inj_key a = inj_key b -> a = b.
Proof. unfold inj_key. apply app_inv_head. Qed.

Lemma inj_key_not_relevant key k : relevant k -> k <> inj_key key.
Proof. intros Hr E. apply relevant_not_inj in Hr. rewrite E, starts_inj_inj_key in Hr. discriminate. Qed.

(* what SlotNode.render pushes in isolated mode: exactly the visible inject keys, with their visible values *)
Lemma inj_fold_in (l : layer) : forall acc k, starts_inj k = true -> (kcount k l <= 1)%nat ->
  slookup k (fold_left (fun a kv => if starts_inj (fst kv) then lset (fst kv) (snd kv) a else a) l acc) =
  match slookup k l with Some v => Some v | None => slookup k acc end.
Proof.
  induction l as [|[k' v'] r IH]; intros acc k Hk Hc; [reflexivity|]. cbn [fold_left fst snd kcount slookup] in *.
  destruct (str_eqb k k') eqn:E.
  - apply str_eqb_eq in E. subst k'. rewrite Hk. assert (H0 : kcount k r = 0%nat) by lia.
    rewrite IH by (try exact Hk; lia). rewrite (kcount_zero_slookup _ _ H0), slookup_lset, str_eqb_refl. reflexivity.
  - rewrite IH by assumption. destruct (starts_inj k'); [rewrite slookup_lset, E|]; reflexivity.
Qed.

Lemma uinj_layer_fold (l : layer) : forall acc, uinj_layer acc ->
  uinj_layer (fold_left (fun a kv => if starts_inj (fst kv) then lset (fst kv) (snd kv) a else a) l acc).
Proof.
  induction l as [|[k' v'] r IH]; intros acc H; [exact H|]. cbn [fold_left fst snd]. apply IH.
  destruct (starts_inj k'); [apply uinj_layer_lset|]; exact H.
Qed.

(* ---------- providers: S's environment vs inject keys + provide_cache ---------- *)
Definition prel (g : gstate) (ds : list layer) (pv : penv) : Prop :=
  forall key, match slookup key pv with
              | Some fs => exists pid, cget (inj_key key) ds = Some (CId pid) /\ (pid < g_next g)%N /\
                                       alookup pid (g_prov g) = Some fs
              | None => cget (inj_key key) ds = None
              end.

Definition pext (g g' : gstate) : Prop :=
  (g_next g <= g_next g')%N /\ forall pid, (pid < g_next g)%N -> alookup pid (g_prov g') = alookup pid (g_prov g).

Lemma pext_refl g : pext g g.
Proof. split; [lia|reflexivity]. Qed.
Lemma pext_trans g1 g2 g3 : pext g1 g2 -> pext g2 g3 -> pext g1 g3.
Proof. intros [H1 H2] [H3 H4]. split; [lia|]. intros pid Hp. rewrite H4 by lia. apply H2. exact Hp. Qed.

Lemma prel_mono g g' ds pv : prel g ds pv -> pext g g' -> prel g' ds pv.
Proof.
  intros H [Hn Hp] key. specialize (H key). destruct (slookup key pv); [|exact H].
  destruct H as [pid [H1 [H2 H3]]]. exists pid. split; [exact H1|]. split; [lia|]. rewrite Hp by exact H2. exact H3.
Qed.

Lemma prel_same g ds ds' pv : (forall key, cget (inj_key key) ds' = cget (inj_key key) ds) -> prel g ds pv -> prel g ds' pv.
Proof. intros He H key. specialize (H key). rewrite He. exact H. Qed.

(* a fill as M stores it vs the closure of S; tp = the providers around the component tag *)
Definition frelQ (ds0 : list layer) (tp : penv) (a : str * slotfn) (b : str * closure) : Prop :=
  fst a = fst b /\
  match snd b with
  | Clo body btw cloc cout dv defv owner cprov =>
      sf_body (snd a) = body /\ sf_dvar (snd a) = dv /\ sf_defvar (snd a) = None /\ defv = None /\ cout = [] /\ cprov = tp /\
      (forall x, slookup x (match sf_extra (snd a) with Some e => e | None => [] end) = option_map CVal (slookup x btw)) /\
      exists loc0 Gb, cloc = btw ++ loc0 /\ vrel ds0 loc0 /\
        wf_lp true (match dv with Some x => x :: Gb | None => Gb end) body = true /\
        incl (map fst (btw ++ loc0)) Gb /\
        (forall x, dv = Some x -> ~ In x Gb /\ binder_ok x = true) /\
        (forall x, In x (map fst btw) -> ~ In x (map fst loc0) /\ uname x = true)
  end.

Lemma Forall2_frelQ_names ds0 tp fm fs : Forall2 (frelQ ds0 tp) fm fs -> map fst fm = map fst fs.
Proof. induction 1 as [|a b fm fs [Hn _] _ IH]; [reflexivity|]. cbn [map]. rewrite Hn, IH. reflexivity. Qed.

Lemma slookup_frelQ ds0 tp fm fs : Forall2 (frelQ ds0 tp) fm fs -> forall k,
  match slookup k fm, slookup k fs with
  | Some sf, Some cl => frelQ ds0 tp (k, sf) (k, cl)
  | None, None => True
  | _, _ => False
  end.
Proof.
  induction 1 as [|[n sf] [n' cl] fm fs [Hn Hr] _ IH]; intro k; [exact I|].
  cbn [fst] in Hn. subst n'. cbn [slookup]. destruct (str_eqb k n) eqn:E; [|apply IH].
  apply str_eqb_eq in E. subst k. split; [reflexivity|exact Hr].
Qed.

Lemma smem_frelQ ds0 tp fm fs k : Forall2 (frelQ ds0 tp) fm fs -> smem k fm = smem k fs.
Proof.
  intro F. pose proof (slookup_frelQ _ _ _ _ F k) as H. unfold smem.
  destruct (slookup k fm), (slookup k fs); try reflexivity; contradiction.
Qed.

(* ---------- fill discovery ---------- *)
Record xrelP (c : ctxt) (st : state) (btw loc0 : env) (n : N) (G : list str) : Prop := {
  xp_out : out st = [];
  xp_loc : loc st = btw ++ loc0;
  xp_vars : vrel (dicts c) (loc st);
  xp_incl : incl (map fst (loc st)) G;
  xp_gen : cget GEN_FILL (dicts c) = Some (CCollect n);
  xp_idx : exists i, CtxStack.get_last_index (has_key GEN_FILL) (dicts c) = Some i;
  xp_for : forall d, In d (dicts c) -> has_key FORLOOP d = false;
  xp_cap : forall x, slookup x (capture_extra (dicts c)) = option_map CVal (slookup x btw);
  xp_disj : forall x, In x (map fst btw) -> ~ In x (map fst loc0) /\ uname x = true
}.

Definition xstepP (n : N) (old fl : list (str * slotfn)) (g g' : gstate) : Prop :=
  pext g g' /\ g_cctx g' = g_cctx g /\ alookup n (g_collect g') = Some (old ++ fl).

Lemma vrelL_of_vrel ds st : out st = [] -> vrel ds (loc st) -> vrelL ds st.
Proof. intros Ho Hv x Hx. rewrite (Hv x Hx), (lookup_loc st x Ho). reflexivity. Qed.

Lemma xrelP_of c st btw loc0 n G : xrel c st btw loc0 n G -> xrelP c st btw loc0 n G.
Proof. intros []. constructor; assumption. Qed.
Lemma xrel_of c st btw loc0 n G : xrelP c st btw loc0 n G -> xrel c st btw loc0 n G.
Proof. intros []. constructor; assumption. Qed.

(* a provide layer pushed while fills are collected changes nothing the collection looks at *)
Lemma capture_extra_push_underscore ds i k v :
  CtxStack.get_last_index (has_key GEN_FILL) ds = Some i ->
  (forall d, In d ds -> has_key FORLOOP d = false) ->
  starts_underscore k = true -> k <> GEN_FILL -> k <> FORLOOP ->
  capture_extra (ds ++ [[(k, v)]]) = capture_extra ds.
Proof.
  intros Hi Hf Hu Hg Hfo.
  assert (Hg' : has_key GEN_FILL [(k, v)] = false).
  { unfold has_key, smem. cbn [slookup]. rewrite str_eqb_neq; [reflexivity|]. intro E. apply Hg. symmetry. exact E. }
  assert (Hfo' : has_key FORLOOP [(k, v)] = false).
  { unfold has_key, smem. cbn [slookup]. rewrite str_eqb_neq; [reflexivity|]. intro E. apply Hfo. symmetry. exact E. }
  rewrite (capture_extra_eq (ds ++ [[(k, v)]]) i).
  - rewrite (capture_extra_eq ds i Hi Hf).
    rewrite skipn_app. pose proof (CtxStack.get_last_index_lt _ _ _ Hi) as Hlt.
    replace (i - List.length ds)%nat with 0%nat by lia. cbn [skipn]. rewrite fold_left_app. cbn [fold_left].
    unfold cap_inner at 1. cbn [fold_left fst snd]. rewrite Hu. reflexivity.
  - rewrite get_last_index_snoc_false by exact Hg'. exact Hi.
  - intros d Hd. apply in_app_or in Hd as [Hd|[<-|[]]]; [apply Hf; exact Hd|exact Hfo'].
Qed.

Lemma provide_layer ds k v : cset k v (cpush [] ds) = ds ++ [[(k, v)]].
Proof. unfold cpush. rewrite cset_snoc. reflexivity. Qed.

Lemma xrelP_push_inj c st btw loc0 n G key v :
  xrelP c st btw loc0 n G ->
  xrelP (with_dicts c (cset (inj_key key) v (cpush [] (dicts c)))) st btw loc0 n G.
Proof.
  intros [X1 X2 X3 X4 X5 [i Hi] X7 X8 X9].
  assert (Hrel : forall k, relevant k -> cget k (dicts c ++ [[(inj_key key, v)]]) = cget k (dicts c)).
  { intros k Hr. rewrite cget_snoc. cbn [slookup]. rewrite (str_eqb_neq _ _ (inj_key_not_relevant key k Hr)). reflexivity. }
  constructor; cbn [dicts with_dicts]; rewrite ?provide_layer; try assumption.
  - intros x Hx. rewrite Hrel by (left; exact Hx). apply X3. exact Hx.
  - rewrite Hrel by (unfold relevant; auto). exact X5.
  - exists i. rewrite get_last_index_snoc_false; [exact Hi|]. unfold has_key, smem. cbn [slookup].
    rewrite str_eqb_neq; [reflexivity|]. apply inj_key_not_relevant. unfold relevant; auto.
  - intros d Hd. apply in_app_or in Hd as [Hd|[<-|[]]]; [apply X7; exact Hd|].
    unfold has_key, smem. cbn [slookup]. rewrite str_eqb_neq; [reflexivity|]. apply inj_key_not_relevant. unfold relevant; auto 6.
  - intros x. rewrite (capture_extra_push_underscore _ i _ _ Hi X7); [apply X8| | |].
    + apply starts_inj_underscore, starts_inj_inj_key.
    + intro E. symmetry in E. revert E. apply inj_key_not_relevant. unfold relevant; auto.
    + intro E. symmetry in E. revert E. apply inj_key_not_relevant. unfold relevant; auto 6.
Qed.

Section ExSimP.
  Variable rec : gstate -> ctxt -> tpl -> mres R.
  Variable ds0 : list layer.
  Variable tp : penv.
  Variable n : N.

  Definition exPp (t : tpl) : Prop :=
    forall G st btw loc0 g c old,
      wf_tp true G t = true -> xrel c st btw loc0 n G -> vrel ds0 loc0 -> alookup n (g_collect g) = Some old ->
      match extract tp st btw t with
      | Ok (s, cl) => exists g' fl, mex rec g c t = MOk (s, g', c) /\ xstepP n old fl g g' /\ Forall2 (frelQ ds0 tp) fl cl
      | Err k => mex rec g c t = MErr k
      | OutOfFuel => False
      end.
  Definition exQp (ts : list tpl) : Prop :=
    forall G st btw loc0 g c old,
      wf_lp true G ts = true -> xrel c st btw loc0 n G -> vrel ds0 loc0 -> alookup n (g_collect g) = Some old ->
      match extract_list tp st btw ts with
      | Ok (s, cl) => exists g' fl, mexl rec ts g c = MOk (s, g', c) /\ xstepP n old fl g g' /\ Forall2 (frelQ ds0 tp) fl cl
      | Err k => mexl rec ts g c = MErr k
      | OutOfFuel => False
      end.

  Lemma ex_simP_all : (forall t, exPp t) /\ (forall ts, exQp ts).
  Proof.
    assert (Hrefl : forall old g, alookup n (g_collect g) = Some old -> xstepP n old [] g g).
    { intros old g H. split; [apply pext_refl|]. split; [reflexivity|]. rewrite app_nil_r. exact H. }
    assert (Hnil : exQp []).
    { intros G st btw loc0 g c old _ X Hv Ho. cbn. exists g, []. split; [reflexivity|]. split; [apply Hrefl; exact Ho|constructor]. }
    assert (Hcons : forall t r, exPp t -> exQp r -> exQp (t :: r)).
    { intros t r Ht Hr G st btw loc0 g c old Hw X Hv Ho. cbn [wf_lp] in Hw. apply andb_true_iff in Hw as [Hw1 Hw2].
      cbn [extract_list mexl]. specialize (Ht G st btw loc0 g c old Hw1 X Hv Ho).
      destruct (extract tp st btw t) as [[s1 cl1]|k|]; cbn [bind]; [|rewrite Ht; reflexivity|exact Ht].
      destruct Ht as [g1 [fl1 [E1 [[Hp1 [Hc1 Hl1]] F1]]]]. rewrite E1. cbn [mbind].
      specialize (Hr G st btw loc0 g1 c (old ++ fl1) Hw2 X Hv Hl1).
      destruct (extract_list tp st btw r) as [[s2 cl2]|k|]; cbn [bind fst snd]; [|rewrite Hr; reflexivity|exact Hr].
      destruct Hr as [g2 [fl2 [E2 [[Hp2 [Hc2 Hl2]] F2]]]]. rewrite E2. cbn [mbind].
      exists g2, (fl1 ++ fl2). split; [reflexivity|]. split.
      - split; [eapply pext_trans; eassumption|]. split; [congruence|]. rewrite Hl2, app_assoc. reflexivity.
      - apply Forall2_app; assumption. }
    assert (HText : forall s, exPp (TText s)).
    { intros s G st btw loc0 g c old _ X Hv Ho. cbn. exists g, []. split; [reflexivity|]. split; [apply Hrefl; exact Ho|constructor]. }
    assert (HOut : forall e, exPp (TOut e)).
    { intros e G st btw loc0 g c old Hw X Hv Ho. cbn [wf_tp] in Hw. cbn [extract mex].
      pose proof (meval_rel_b _ _ _ (xr_out _ _ _ _ _ _ X) (xr_vars _ _ _ _ _ _ X) Hw) as Hr.
      unfold mout. remember (meval e (dicts c)) as cv. remember (eval e st) as xv.
      destruct Hr; (exists g, []; split; [reflexivity|split; [apply Hrefl; exact Ho|constructor]]). }
    assert (HIf : forall cnd a b, exQp a -> exQp b -> exPp (TIf cnd a b)).
    { intros cnd a b Ha Hb G st btw loc0 g c old Hw X Hv Ho. cbn [wf_tp] in Hw.
      apply andb_true_iff in Hw as [Hw Hwb]. apply andb_true_iff in Hw as [Hwc Hwa].
      cbn [extract mex]. rewrite !ex_list_eq.
      rewrite (crel_truthy _ _ (meval_rel_b _ _ _ (xr_out _ _ _ _ _ _ X) (xr_vars _ _ _ _ _ _ X) Hwc)).
      destruct (truthy (eval cnd st)); [apply (Ha G st btw loc0 g c old Hwa X Hv Ho)|apply (Hb G st btw loc0 g c old Hwb X Hv Ho)]. }
    assert (HFor : forall x e body, exQp body -> exPp (TFor x e body)).
    { intros x e body _ G st btw loc0 g c old Hw. discriminate Hw. }
    assert (HWith : forall x e body, exQp body -> exPp (TWith x e body)).
    { intros x e body Hb G st btw loc0 g c old Hw X Hv Ho. cbn [wf_tp] in Hw.
      apply andb_true_iff in Hw as [Hw Hwb]. apply andb_true_iff in Hw as [Hw Hnin]. apply andb_true_iff in Hw as [Hwe Hbx].
      apply negb_true_iff in Hnin. apply smemb_notin in Hnin.
      cbn [extract]. rewrite ex_list_eq.
      change (mex rec g c (TWith x e body)) with (mwith x (meval e (dicts c)) (mexl rec body) g c).
      rewrite (meval_val_rel_b _ _ _ (xr_out _ _ _ _ _ _ X) (xr_vars _ _ _ _ _ _ X) Hwe).
      unfold mwith.
      pose proof (xrel_push _ _ _ _ _ _ x (to_value (eval e st)) X Hbx Hnin) as X'.
      specialize (Hb (x :: G) (bind_loc x (to_value (eval e st)) st) ((x, to_value (eval e st)) :: btw) loc0 g
                     (with_dicts c (cpush [(x, CVal (to_value (eval e st)))] (dicts c))) old Hwb X' Hv Ho).
      destruct (extract_list tp (bind_loc x (to_value (eval e st)) st) ((x, to_value (eval e st)) :: btw) body) as [[s cl]|k|];
        [|rewrite Hb; reflexivity|exact Hb].
      destruct Hb as [g' [fl [E [Hx F]]]]. rewrite E. cbn [mbind]. rewrite push_pop_id. exists g', fl. auto. }
    assert (HSlot : forall nm d r data body, exQp body -> exPp (TSlot nm d r data body)).
    { intros nm d r data body _ G st btw loc0 g c old Hw. discriminate Hw. }
    assert (HFill : forall nm dv df body, exQp body -> exPp (TFill nm dv df body)).
    { intros nm dv df body _ G st btw loc0 g c old Hw X Hv Ho. cbn [wf_tp] in Hw.
      apply andb_true_iff in Hw as [Hw Hwb]. apply andb_true_iff in Hw as [Hwn Hdf].
      destruct df as [df|]; [discriminate|].
      cbn [extract mex]. unfold mfill.
      pose proof (meval_rel_b _ _ _ (xr_out _ _ _ _ _ _ X) (xr_vars _ _ _ _ _ _ X) Hwn) as Hr.
      inversion Hr as [v E1 E2|b E1 E2]; [|reflexivity].
      destruct v as [s|l|fs]; try reflexivity.
      assert (Hid : negb (opt_ident_ok dv) || negb (opt_ident_ok None) = false).
      { destruct dv as [x|]; [|reflexivity]. cbn. apply andb_true_iff in Hwb as [Hwb _]. apply andb_true_iff in Hwb as [Hwb _].
        apply andb_true_iff in Hwb as [Hwb _]. rewrite Hwb. reflexivity. }
      rewrite Hid.
      assert (Hsame : match dv with Some _ | _ => false end = false) by (destruct dv; reflexivity).
      rewrite Hsame. rewrite (xr_gen _ _ _ _ _ _ X), Ho.
      eexists. exists [(s, {| sf_body := body; sf_dvar := dv; sf_defvar := None; sf_extra := Some (capture_extra (dicts c)) |})].
      split; [reflexivity|]. split.
      - split; [split; [cbn; lia|reflexivity]|]. split; [reflexivity|]. cbn [g_collect set_collect]. apply alookup_aset_same.
      - constructor; [|constructor]. split; [reflexivity|]. cbn [snd fst sf_body sf_dvar sf_defvar sf_extra].
        repeat split; try reflexivity; try exact (xr_out _ _ _ _ _ _ X).
        + exact (xr_cap _ _ _ _ _ _ X).
        + exists loc0, G. split; [exact (xr_loc _ _ _ _ _ _ X)|]. split; [exact Hv|].
          split; [destruct dv as [x|]; [apply andb_true_iff in Hwb as [_ Hwb]|]; exact Hwb|].
          split; [rewrite <- (xr_loc _ _ _ _ _ _ X); exact (xr_incl _ _ _ _ _ _ X)|].
          split; [|exact (xr_disj _ _ _ _ _ _ X)].
          intros x ->. apply andb_true_iff in Hwb as [Hwb _]. apply andb_true_iff in Hwb as [Hbx Hnin].
          apply negb_true_iff in Hnin. apply smemb_notin in Hnin. auto. }
    assert (HComp : forall cn kw o body, exQp body -> exPp (TComp cn kw o body)).
    { intros cn kw o body _ G st btw loc0 g c old Hw X Hv Ho. cbn [wf_tp] in Hw. apply andb_true_iff in Hw as [Hkw _].
      cbn [extract mex]. rewrite (mkwargs_rel_b _ _ _ (xr_out _ _ _ _ _ _ X) (xr_vars _ _ _ _ _ _ X) Hkw).
      exists g, []. split; [reflexivity|]. split; [apply Hrefl; exact Ho|constructor]. }
    assert (HProvide : forall k kw body, exQp body -> exPp (TProvide k kw body)).
    { intros key kw body Hb G st btw loc0 g c old Hw X Hv Ho. cbn [wf_tp] in Hw. apply andb_true_iff in Hw as [Hkw Hwb].
      cbn [extract]. rewrite ex_list_eq.
      change (mex rec g c (TProvide key kw body)) with (mprovide key kw (mexl rec body) g c).
      unfold mprovide. rewrite (mkwargs_rel_b _ _ _ (xr_out _ _ _ _ _ _ X) (xr_vars _ _ _ _ _ _ X) Hkw).
      destruct (is_ident key); cbn [negb]; [|reflexivity].
      cbn [fresh].
      set (g1 := {| g_next := N.succ (g_next g); g_cctx := g_cctx g; g_collect := g_collect g; g_prov := g_prov g |}).
      set (g2 := set_prov g1 (aset (g_next g) (eval_kwargs kw st) (g_prov g1))).
      set (c1 := with_dicts c (cset (inj_key key) (CId (g_next g)) (cpush [] (dicts c)))).
      pose proof (xrelP_of _ _ _ _ _ _ X) as XP. apply (xrelP_push_inj _ _ _ _ _ _ key (CId (g_next g))) in XP. apply xrel_of in XP.
      specialize (Hb G st btw loc0 g2 c1 old Hwb XP Hv Ho).
      destruct (extract_list tp st btw body) as [[s cl]|k|]; [|rewrite Hb; reflexivity|exact Hb].
      destruct Hb as [g' [fl [E [[Hp [Hc Hl]] F]]]]. rewrite E. cbn [mbind].
      assert (Hpop : with_dicts c1 (cpop (dicts c1)) = c).
      { unfold c1. destruct c as [o ds]. unfold with_dicts. cbn [oid dicts]. rewrite cpop_cset, cpop_cpush. reflexivity. }
      rewrite Hpop. exists g', fl. split; [reflexivity|]. split; [|exact F].
      split; [|split; [rewrite Hc; reflexivity|exact Hl]].
      eapply pext_trans; [|exact Hp]. split; [cbn; lia|]. intros pid Hpid. cbn [g_prov g2 g1 set_prov].
      apply alookup_aset_other. lia. }
    split.
    - exact (tpl_ind3 exPp exQp Hnil Hcons HText HOut HIf HFor HWith HSlot HFill HComp HProvide).
    - exact (tpls_ind3 exPp exQp Hnil Hcons HText HOut HIf HFor HWith HSlot HFill HComp HProvide).
  Qed.
End ExSimP.

(* ---------- resolve_fills ---------- *)
Lemma resolve_simP rec g c st G body :
  out st = [] -> vrel (dicts c) (loc st) -> incl (map fst (loc st)) G -> clean (dicts c) ->
  wf_lp true G body = true ->
  match resolve_fills st body with
  | Ok fills => exists g' fm, m_resolve_fills rec g c body = MOk (fm, g', c) /\ g_cctx g' = g_cctx g /\
                              pext g g' /\ Forall2 (frelQ (dicts c) (prov st)) fm fills
  | Err k => m_resolve_fills rec g c body = MErr k
  | OutOfFuel => False
  end.
Proof.
  intros Ho Hv Hi [Hcg Hcf] Hw. unfold resolve_fills, m_resolve_fills.
  destruct body as [|t r]; [exists g, []; repeat split; [lia|constructor]|].
  set (body := t :: r) in *.
  destruct (fresh g) as [n g1] eqn:Ef. unfold fresh in Ef. inversion Ef; subst n g1. clear Ef.
  set (g1 := {| g_next := N.succ (g_next g); g_cctx := g_cctx g; g_collect := g_collect g; g_prov := g_prov g |}).
  set (g2 := set_collect g1 (aset (g_next g) [] (g_collect g1))).
  set (c1 := with_dicts c (cpush [(GEN_FILL, CCollect (g_next g))] (dicts c))).
  assert (X : xrel c1 st [] (loc st) (g_next g) G).
  { constructor; cbn [dicts with_dicts c1]; unfold cpush.
    - exact Ho.
    - reflexivity.
    - intros x Hx. rewrite cget_snoc. cbn [slookup]. rewrite str_eqb_neq; [apply Hv; exact Hx|].
      intro E. rewrite E in Hx. discriminate.
    - exact Hi.
    - rewrite cget_snoc. cbn [slookup]. rewrite str_eqb_refl. reflexivity.
    - exists (List.length (dicts c)). apply get_last_index_snoc_true. unfold has_key, smem. cbn [slookup]. rewrite str_eqb_refl. reflexivity.
    - intros d Hd. apply in_app_or in Hd as [Hd|[<-|[]]]; [|reflexivity].
      unfold has_key, smem. rewrite (cget_none_layers _ _ Hcf d Hd). reflexivity.
    - intros x. rewrite (capture_extra_eq _ (List.length (dicts c))).
      + rewrite skipn_app, skipn_all, Nat.sub_diag. reflexivity.
      + apply get_last_index_snoc_true. unfold has_key, smem. cbn [slookup]. rewrite str_eqb_refl. reflexivity.
      + intros d Hd. apply in_app_or in Hd as [Hd|[<-|[]]]; [|reflexivity].
        unfold has_key, smem. rewrite (cget_none_layers _ _ Hcf d Hd). reflexivity.
    - intros x []. }
  pose proof (proj2 (ex_simP_all rec (dicts c) (prov st) (g_next g)) body G st [] (loc st) g2 c1 [] Hw X Hv
                (alookup_aset_same (g_next g) [] (g_collect g1))) as Hs.
  destruct (extract_list (prov st) st [] body) as [[content cl]|k|]; cbn [bind]; [|rewrite Hs; reflexivity|exact Hs].
  destruct Hs as [g3 [fl [E [[Hp3 [Hc3 Hl3]] F]]]]. rewrite E. cbn [mbind].
  unfold c1. rewrite push_pop_id. rewrite Hl3. cbn [app].
  assert (Hpx : pext g g3).
  { eapply pext_trans; [|exact Hp3]. split; [cbn; lia|]. intros pid _. reflexivity. }
  assert (Hcc : g_cctx g3 = g_cctx g) by (rewrite Hc3; reflexivity).
  destruct F as [|a b fl' cl' Hab F'].
  - destruct (body_is_empty body).
    + exists g3, []. repeat split; auto; apply Hpx.
    + eexists g3, _. split; [reflexivity|]. split; [exact Hcc|]. split; [exact Hpx|].
      constructor; [|constructor]. split; [reflexivity|]. cbn [snd fst sf_body sf_dvar sf_defvar sf_extra].
      repeat split; auto. exists (loc st), G. repeat split; auto; try discriminate; contradiction.
  - pose proof (Forall2_frelQ_names _ _ _ _ (Forall2_cons _ _ Hab F')) as Hnames.
    destruct (negb (all_space content)); [reflexivity|]. rewrite Hnames.
    destruct (has_dup (map fst (b :: cl'))); [reflexivity|].
    exists g3, (a :: fl'). repeat split; auto; apply Hpx.
Qed.

(* ---------- get_context_data with inject ---------- *)
Lemma eval_data_simP ds kw pv g cds :
  forallb (fun xd => binder_ok (fst xd)) ds = true -> prel g cds pv ->
  match eval_data ds kw pv with
  | Ok data => m_eval_data ds kw g cds = MOk (map (fun kv => (fst kv, CVal (snd kv))) data) /\ incl (map fst data) (map fst ds)
  | Err k => m_eval_data ds kw g cds = MErr k
  | OutOfFuel => False
  end.
Proof.
  intros H Hp. induction ds as [|[x d] r IH]; [split; [reflexivity|intros y []]|].
  cbn [forallb fst] in H. apply andb_true_iff in H as [_ H2]. specialize (IH H2).
  cbn [eval_data m_eval_data].
  assert (Hv : match (match d with
                      | DKw k => Ok (match slookup k kw with Some v => v | None => VStr [] end)
                      | DStr s => Ok (VStr s)
                      | DInject key field dflt =>
                          match slookup key pv with
                          | Some fs => match slookup field fs with Some v => Ok v | None => Err EAttribute end
                          | None => match dflt with Some d0 => Ok (VStr d0) | None => Err EKey end
                          end
                      end) with
               | Ok v => (match d with
                          | DKw k => MOk (match slookup k kw with Some v => v | None => VStr [] end)
                          | DStr s => MOk (VStr s)
                          | DInject key field dflt =>
                              match cget (inj_key key) cds with
                              | Some (CId pid) =>
                                  match alookup pid (g_prov g) with
                                  | Some fs => match slookup field fs with Some v => MOk v | None => MErr EAttribute end
                                  | None => MErr EKey
                                  end
                              | Some _ => MErr EKey
                              | None => match dflt with Some d0 => MOk (VStr d0) | None => MErr EKey end
                              end
                          end) = MOk v
               | Err k => (match d with
                          | DKw k => MOk (match slookup k kw with Some v => v | None => VStr [] end)
                          | DStr s => MOk (VStr s)
                          | DInject key field dflt =>
                              match cget (inj_key key) cds with
                              | Some (CId pid) =>
                                  match alookup pid (g_prov g) with
                                  | Some fs => match slookup field fs with Some v => MOk v | None => MErr EAttribute end
                                  | None => MErr EKey
                                  end
                              | Some _ => MErr EKey
                              | None => match dflt with Some d0 => MOk (VStr d0) | None => MErr EKey end
                              end
                          end) = MErr k
               | OutOfFuel => False
               end).
  { destruct d as [k|s|key field dflt]; try reflexivity.
    specialize (Hp key). destruct (slookup key pv) as [fs|].
    - destruct Hp as [pid [E1 [_ E2]]]. rewrite E1, E2. destruct (slookup field fs); reflexivity.
    - rewrite Hp. destruct dflt; reflexivity. }
  destruct (match d with DKw k => _ | DStr s => _ | DInject key field dflt => _ end) as [v|k|]; [|rewrite Hv; reflexivity|exact Hv].
  rewrite Hv. cbn [bind mbind].
  destruct (eval_data r kw pv) as [rest|k|]; [|rewrite IH; reflexivity|exact IH].
  destruct IH as [E Hi]. rewrite E. cbn [bind mbind]. split; [rewrite map_app; reflexivity|].
  rewrite map_app. cbn [map fst]. intros y Hy. apply in_app_or in Hy as [Hy|[<-|[]]]; [right; apply Hi; exact Hy|left; reflexivity].
Qed.

(* ---------- make_isolated_context_copy with inject keys ---------- *)
Lemma slookup_of_in {V} k (l : list (str * V)) : In k (map fst l) -> slookup k l <> None.
Proof.
  induction l as [|[k' v] r IH]; [intros []|]. cbn [map fst In slookup]. intros [E|H].
  - subst. rewrite str_eqb_refl. discriminate.
  - destruct (str_eqb k k'); [discriminate|apply IH; exact H].
Qed.

Lemma copy_inj_fold (ds : list layer) (fl : layer) :
  (forall k, In k (map fst fl) -> starts_inj k = true -> cget k ds <> None) ->
  forall L, uinj_layer L ->
  exists L', fold_left (fun ds' kv => if starts_inj (fst kv)
                                      then match cget (fst kv) ds with Some v => cset (fst kv) v ds' | None => ds' end
                                      else ds') fl [L] = [L'] /\
             uinj_layer L' /\
             (forall k, starts_inj k = false -> slookup k L' = slookup k L) /\
             (forall k, starts_inj k = true -> slookup k L' = if smemb k (map fst fl) then cget k ds else slookup k L).
Proof.
  induction fl as [|[k' v'] r IH]; intros H L HL.
  - exists L. cbn. repeat split; auto.
  - cbn [fold_left fst snd]. destruct (starts_inj k') eqn:Ek'.
    + destruct (cget k' ds) as [v|] eqn:Ec; [|exfalso; apply (H k'); [left; reflexivity|exact Ek'|exact Ec]].
      cbn [cset].
      destruct (IH (fun k Hin => H k (or_intror Hin)) (lset k' v L) (uinj_layer_lset _ _ _ HL)) as [L' [E [Hu [Hn Hi]]]].
      exists L'. split; [exact E|]. split; [exact Hu|]. split.
      * intros k Hk. rewrite Hn by exact Hk. rewrite slookup_lset. rewrite str_eqb_neq; [reflexivity|]. intro E2. subst. congruence.
      * intros k Hk. rewrite Hi by exact Hk. cbn [map fst smemb].
        destruct (smemb k (map fst r)); [rewrite orb_true_r; reflexivity|]. rewrite orb_false_r.
        rewrite slookup_lset. destruct (str_eqb k k') eqn:E2; [apply str_eqb_eq in E2; subst; symmetry; exact Ec|reflexivity].
    + destruct (IH (fun k Hin => H k (or_intror Hin)) L HL) as [L' [E [Hu [Hn Hi]]]].
      exists L'. split; [exact E|]. split; [exact Hu|]. split; [exact Hn|].
      intros k Hk. rewrite Hi by exact Hk. cbn [map fst smemb].
      rewrite (str_eqb_neq k k') by (intro E2; subst; congruence). reflexivity.
Qed.

Lemma uinj_layer_flatten ds : uinj_layer (flatten ds).
Proof.
  unfold flatten. assert (H : forall acc, uinj_layer acc -> uinj_layer (fold_left lupdate ds acc)).
  { induction ds as [|d r IH]; intros acc Ha; [exact Ha|]. cbn [fold_left]. apply IH. unfold lupdate.
    revert acc Ha. induction d as [|[k v] d' IHd]; intros acc Ha; [exact Ha|]. cbn [fold_left fst snd]. apply IHd, uinj_layer_lset, Ha. }
  apply H. intros k _. cbn. lia.
Qed.

Lemma isolated_copy_prov g c : cget FORLOOP (dicts c) = None -> uinj (dicts c) ->
  exists L o, make_isolated_context_copy g c =
              ({| oid := o; dicts := [L] |}, {| g_next := N.succ (g_next g); g_cctx := g_cctx g; g_collect := g_collect g; g_prov := g_prov g |})
              /\ (forall k, l0_ok k -> slookup k L = None)
              /\ (forall k, starts_inj k = true -> slookup k L = cget k (dicts c))
              /\ uinj_layer L.
Proof.
  intros Hf Hu. unfold make_isolated_context_copy, fresh, copy_forloop. rewrite Hf.
  assert (Hb : forall k, l0_ok k -> slookup k builtins = None).
  { intros k [_ [_ [H1 [H2 H3]]]]. unfold builtins. cbn [slookup]. rewrite !str_eqb_neq by assumption. reflexivity. }
  assert (Hbi : forall k, starts_inj k = true -> slookup k builtins = None) by (intros k Hk; destruct k as [|c0 r]; [discriminate|];
     unfold builtins; cbn [slookup]; rewrite !str_eqb_neq; [reflexivity| | |]; intro E; rewrite E in Hk; discriminate).
  set (L1 := match cget KEY (dicts c) with Some v => lset KEY v builtins | None => builtins end).
  assert (E1 : match cget KEY (dicts c) with Some v => cset KEY v [builtins] | None => [builtins] end = [L1])
    by (unfold L1; destruct (cget KEY (dicts c)); reflexivity).
  rewrite E1.
  assert (HL1a : forall k, l0_ok k -> slookup k L1 = None).
  { intros k Hk. unfold L1. destruct (cget KEY (dicts c)); [|apply Hb; exact Hk].
    rewrite slookup_lset, str_eqb_neq by apply Hk. apply Hb. exact Hk. }
  assert (HL1b : forall k, starts_inj k = true -> slookup k L1 = None).
  { intros k Hk. unfold L1. destruct (cget KEY (dicts c)); [|apply Hbi; exact Hk].
    rewrite slookup_lset, str_eqb_neq by (intro E; subst; discriminate). apply Hbi. exact Hk. }
  assert (HL1u : uinj_layer L1) by (apply uinj_layer_noinj; exact HL1b).
  destruct (copy_inj_fold (dicts c) (flatten (dicts c))) with (L := L1) as [L' [E [Hu' [Hn Hi]]]]; [|exact HL1u|].
  { intros k Hin Hk. rewrite <- (slookup_flatten k (dicts c) Hu Hk). apply slookup_of_in. exact Hin. }
  rewrite E. exists L', (g_next g). split; [reflexivity|]. split; [|split; [|exact Hu']].
  - intros k Hk. rewrite Hn by apply Hk. apply HL1a. exact Hk.
  - intros k Hk. rewrite Hi by exact Hk. destruct (smemb k (map fst (flatten (dicts c)))) eqn:Em; [reflexivity|].
    rewrite HL1b by exact Hk. rewrite <- (slookup_flatten k (dicts c) Hu Hk). symmetry. apply slookup_notin.
    apply smemb_notin. exact Em.
Qed.

(* ---------- what SlotNode.render pushes (isolated mode) ---------- *)
Lemma slot_extra_prov ci filled ds : uinj ds ->
  exists extra, slot_extra Isolated ci filled ds = MOk extra /\
    (forall k, starts_inj k = false -> slookup k extra = None) /\
    (forall k, starts_inj k = true -> slookup k extra = cget k ds) /\ uinj_layer extra.
Proof.
  intro Hu. unfold slot_extra. cbn [is_django]. rewrite andb_false_r. cbn [mbind]. eexists. split; [reflexivity|].
  split; [|split].
  - intros k Hk. rewrite inj_fold_keys by exact Hk. reflexivity.
  - intros k Hk. rewrite inj_fold_in; [|exact Hk|apply uinj_layer_flatten; exact Hk].
    rewrite (slookup_flatten k ds Hu Hk). destruct (cget k ds); reflexivity.
  - apply uinj_layer_fold. intros k _. cbn. lia.
Qed.

Lemma cget_push_extra (ds : list layer) (extra : layer) :
  (forall k, starts_inj k = false -> slookup k extra = None) ->
  (forall k, starts_inj k = true -> slookup k extra = cget k ds) ->
  forall k, cget k (ds ++ [extra]) = cget k ds.
Proof.
  intros H1 H2 k. rewrite cget_snoc. destruct (starts_inj k) eqn:E.
  - rewrite (H2 k E). destruct (cget k ds); reflexivity.
  - rewrite (H1 k E). reflexivity.
Qed.

Lemma uinj_insert i (e : layer) (ds : list layer) : uinj ds -> uinj_layer e -> uinj (CtxStack.py_insertZ i e ds).
Proof.
  intros H He d Hd. unfold CtxStack.py_insertZ in Hd. set (n := CtxStack.ins_pos i (List.length ds)) in *.
  apply in_app_or in Hd as [Hd|[<-|Hd]]; [|exact He|]; apply H; rewrite <- (firstn_skipn n ds); apply in_or_app; auto.
Qed.

(* ---------- the simulation ---------- *)
Definition irelP (g : gstate) (ds : list layer) (rid : N) (dl : list str) (fills : list (str * closure)) : Prop :=
  cget KEY ds = Some (CId rid) /\
  cget CVARS ds = Some (CVars (map (fun kc => escape_name (fst kc)) fills)) /\
  (rid < g_next g)%N /\
  exists ci O tp, alookup rid (g_cctx g) = Some ci /\ ci_outer ci = Some O /\ clean (dicts O) /\ uinj (dicts O) /\
                  prel g (dicts O) tp /\ Forall2 (frelQ (dicts O) tp) (ci_fills ci) fills /\ dflt_ok dl ci.

Definition srelP (g : gstate) (c : ctxt) (st : state) (G : list str) (w : who) : Prop :=
  out st = [] /\ vrel (dicts c) (loc st) /\ incl (map fst (loc st)) G /\ clean (dicts c) /\
  prel g (dicts c) (prov st) /\ uinj (dicts c) /\
  match w with
  | WBody => True
  | WPage => cur st = None /\ cget KEY (dicts c) = None /\ cget CVARS (dicts c) = None
  | WInst rid dl => exists cn fills, cur st = Some (Inst cn fills true) /\ irelP g (dicts c) rid dl fills
  end.

Definition gextP (w : who) (g g' : gstate) : Prop := gext w g g' /\ pext g g'.

Lemma gextP_refl w g : gextP w g g.
Proof. split; [apply gext_refl|apply pext_refl]. Qed.
Lemma gextP_trans w g1 g2 g3 : gextP w g1 g2 -> gextP w g2 g3 -> gextP w g1 g3.
Proof. intros [A B] [C D]. split; [eapply gext_trans|eapply pext_trans]; eassumption. Qed.

Lemma irelP_gext g g' ds rid dl fills : irelP g ds rid dl fills -> gextP (WInst rid dl) g g' -> irelP g' ds rid dl fills.
Proof.
  intros [Hk [Hv [Hlt [ci [O [tp [Ha [Ho [Hc [Hu [Hp [Hf Hd]]]]]]]]]]]] [[Hn Hj] Hpx].
  specialize (Hj rid Hlt). cbn in Hj. rewrite N.eqb_refl, Ha in Hj. cbn in Hj.
  destruct Hj as [ci' [Ha' [Hf' [Ho' Hd']]]].
  split; [exact Hk|]. split; [exact Hv|]. split; [lia|].
  exists ci', O, tp. rewrite Hf', Ho'. repeat split; auto; try apply Hc. eapply prel_mono; eassumption.
Qed.

Lemma srelP_gext g g' c st G w : srelP g c st G w -> gextP w g g' -> srelP g' c st G w.
Proof.
  intros [H1 [H2 [H3 [H4 [H5 [H6 H7]]]]]] He. split; [exact H1|]. split; [exact H2|]. split; [exact H3|]. split; [exact H4|].
  split; [eapply prel_mono; [exact H5|apply He]|]. split; [exact H6|].
  destruct w as [| |rid dl]; try exact H7.
  destruct H7 as [cn [fills [Hc Hi]]]. exists cn, fills. split; [exact Hc|]. eapply irelP_gext; eassumption.
Qed.

Lemma srelP_vrelL g c st G w : srelP g c st G w -> vrelL (dicts c) st.
Proof. intros [Ho [Hv _]]. apply vrelL_of_vrel; assumption. Qed.

Lemma srelP_efilled g c st G w : srelP g c st G w -> is_body w = false ->
  forall s, crel (meval (EFilled s) (dicts c)) (eval (EFilled s) st).
Proof.
  intros [_ [_ [_ [_ [_ [_ Hw]]]]]] Hb s. cbn [meval eval]. destruct w as [| |rid dl]; [discriminate| |].
  - destruct Hw as [Hc [_ Hcv]]. rewrite Hcv, Hc. constructor.
  - destruct Hw as [cn [fills [Hc [_ [Hcv _]]]]]. rewrite Hcv, Hc. cbn [inst_fills]. rewrite existsb_map_escape. constructor.
Qed.

Lemma srelP_meval g c st G w e : srelP g c st G w -> expr_ok (is_body w) e = true -> crel (meval e (dicts c)) (eval e st).
Proof.
  intros Hs He. apply (meval_relL _ _ (is_body w)); [eapply srelP_vrelL; exact Hs| |exact He].
  intro Hb. eapply srelP_efilled; eassumption.
Qed.

Lemma srelP_kwargs g c st G w kw : srelP g c st G w -> kw_ok (is_body w) kw = true -> mkwargs kw (dicts c) = Some (eval_kwargs kw st).
Proof.
  intros Hs He. apply (mkwargs_relL _ _ (is_body w)); [eapply srelP_vrelL; exact Hs| |exact He].
  intro Hb. eapply srelP_efilled; eassumption.
Qed.

(* a Context with the same lookups (all keys) is as good *)
Lemma srelP_same g c c' st G w :
  (forall k, cget k (dicts c') = cget k (dicts c)) -> uinj (dicts c') -> srelP g c st G w -> srelP g c' st G w.
Proof.
  intros Hk Hu [H1 [H2 [H3 [[H4 H4'] [H5 [_ H7]]]]]].
  split; [exact H1|]. split; [intros x Hx; rewrite Hk; apply H2; exact Hx|]. split; [exact H3|].
  split; [split; rewrite Hk; assumption|]. split; [intro key; rewrite Hk; apply H5|]. split; [exact Hu|].
  destruct w as [| |rid dl]; [exact I| |].
  - rewrite !Hk. exact H7.
  - destruct H7 as [cn [fills [Hc [Hi1 [Hi2 Hi3]]]]]. exists cn, fills. split; [exact Hc|]. rewrite <- (Hk KEY), <- (Hk CVARS) in *.
    split; [exact Hi1|]. split; [exact Hi2|exact Hi3].
Qed.

(* pushing one entry under a key that is not relevant-or-inject... : the two kinds of scopes *)
Lemma srelP_push g c st G w x v :
  srelP g c st G w -> binder_ok x = true -> ~ In x G ->
  srelP g (with_dicts c (cpush [(x, CVal v)] (dicts c))) (bind_loc x v st) (x :: G) w.
Proof.
  intros [H1 [H2 [H3 [[H4 H4'] [H5 [H6 H7]]]]]] Hb Hn. pose proof Hb as Hb'. apply andb_true_iff in Hb' as [_ Hu].
  assert (Hother : forall k, k <> x -> cget k (cpush [(x, CVal v)] (dicts c)) = cget k (dicts c)).
  { intros k Hk. unfold cpush. rewrite cget_snoc. cbn [slookup]. rewrite (str_eqb_neq _ _ Hk). reflexivity. }
  assert (Hne : forall k, uname k = false -> k <> x) by (intros k Hk E; subst; congruence).
  split; [exact H1|]. cbn [dicts with_dicts bind_loc loc cur prov]. split.
  { intros y Hy. unfold cpush. rewrite cget_snoc. cbn [slookup]. destruct (str_eqb y x); [reflexivity|apply H2; exact Hy]. }
  split. { cbn [map fst]. intros y [<-|Hy]; [left; reflexivity|right; apply H3; exact Hy]. }
  split. { split; rewrite Hother by (apply Hne; reflexivity); assumption. }
  split. { intro key. rewrite Hother; [apply H5|]. apply Hne. destruct (uname (inj_key key)) eqn:E; [|reflexivity].
           apply uname_not_inj in E. rewrite starts_inj_inj_key in E. discriminate. }
  split. { unfold cpush. apply uinj_snoc; [exact H6|]. apply uinj_layer_noinj. intros k Hk. cbn [slookup].
           rewrite str_eqb_neq; [reflexivity|]. intro E. subst. rewrite (uname_not_inj _ Hu) in Hk. discriminate. }
  destruct w as [| |rid dl]; [exact I| |].
  - destruct H7 as [Ha [Hb1 Hc]]. rewrite !Hother by (apply Hne; reflexivity). auto.
  - destruct H7 as [cn [fills [Hc [Hi1 [Hi2 Hi3]]]]]. exists cn, fills. split; [exact Hc|].
    split; [rewrite Hother by (apply Hne; reflexivity); exact Hi1|]. split; [rewrite Hother by (apply Hne; reflexivity); exact Hi2|exact Hi3].
Qed.

Lemma srelP_provide g c st G w key kwv :
  srelP g c st G w ->
  let g2 := set_prov {| g_next := N.succ (g_next g); g_cctx := g_cctx g; g_collect := g_collect g; g_prov := g_prov g |}
                     (aset (g_next g) kwv (g_prov g)) in
  let c1 := with_dicts c (cset (inj_key key) (CId (g_next g)) (cpush [] (dicts c))) in
  srelP g2 c1 {| loc := loc st; out := out st; cur := cur st; prov := (key, kwv) :: prov st |} G w /\ gextP w g g2.
Proof.
  intros Hs. cbn zeta.
  set (g2 := set_prov _ _). set (c1 := with_dicts c _).
  assert (Hx : gextP w g g2).
  { split.
    - apply gexact_gext. split; [cbn; lia|]. intros j _. reflexivity.
    - split; [cbn; lia|]. intros pid Hp. cbn [g2 g_prov set_prov]. apply alookup_aset_other. lia. }
  split; [|exact Hx].
  pose proof (srelP_gext _ _ _ _ _ _ Hs Hx) as [H1 [H2 [H3 [[H4 H4'] [H5 [H6 H7]]]]]].
  assert (Hd : dicts c1 = dicts c ++ [[(inj_key key, CId (g_next g))]]) by (unfold c1; cbn [dicts with_dicts]; apply provide_layer).
  assert (Hrel : forall k, relevant k -> cget k (dicts c1) = cget k (dicts c)).
  { intros k Hr. rewrite Hd, cget_snoc. cbn [slookup]. rewrite (str_eqb_neq _ _ (inj_key_not_relevant key k Hr)). reflexivity. }
  split; [exact H1|]. cbn [loc out cur prov]. split; [intros x Hx0; rewrite Hrel by (left; exact Hx0); apply H2; exact Hx0|].
  split; [exact H3|]. split; [split; rewrite Hrel; unfold relevant; auto 6|].
  split.
  { intro key'. rewrite Hd, cget_snoc. cbn [slookup]. destruct (str_eqb key' key) eqn:E.
    - apply str_eqb_eq in E. subst key'. rewrite str_eqb_refl. exists (g_next g). split; [reflexivity|]. split; [cbn; lia|].
      cbn [g2 g_prov set_prov]. apply alookup_aset_same.
    - rewrite str_eqb_neq; [apply H5|]. intro E2. apply inj_key_inj in E2. subst. rewrite str_eqb_refl in E. discriminate. }
  split. { rewrite Hd. apply uinj_snoc; [exact H6|]. intros k _. cbn [kcount]. destruct (str_eqb k (inj_key key)); lia. }
  destruct w as [| |rid dl]; [exact I| |].
  - destruct H7 as [Ha [Hb Hc]]. rewrite !Hrel by (unfold relevant; auto). auto.
  - destruct H7 as [cn [fills [Hc [Hi1 [Hi2 Hi3]]]]]. exists cn, fills. split; [exact Hc|]. unfold irelP.
    rewrite !Hrel by (unfold relevant; auto). auto.
Qed.

(* the Context a fill body sees (isolated mode): providers = those around the slot, then those around the tag *)
Lemma fill_ctx_prov g (dsO dsS : list layer) sf btw dv sdata sref (extra : layer) pvS tp :
  sf_dvar sf = dv -> sf_defvar sf = None ->
  (forall x, slookup x (match sf_extra sf with Some e => e | None => [] end) = option_map CVal (slookup x btw)) ->
  (forall x, In x (map fst btw) -> uname x = true) ->
  (forall x, dv = Some x -> binder_ok x = true) ->
  (forall k, starts_inj k = false -> slookup k extra = None) ->
  (forall k, starts_inj k = true -> slookup k extra = cget k dsS) -> uinj_layer extra ->
  prel g dsS pvS -> prel g dsO tp -> uinj dsO ->
  prel g (rf_dicts sf sdata sref (cpush extra dsO)) (pvS ++ tp) /\ uinj (rf_dicts sf sdata sref (cpush extra dsO)).
Proof.
  intros Hdv Hdf Hfe Hbu Hdvb Hex1 Hex2 Hexu HpS HpO HuO.
  unfold rf_dicts. cbn zeta. rewrite Hdv, Hdf.
  set (fe := match sf_extra sf with Some e => e | None => [] end) in *.
  set (ds2 := match dv with Some x => cset x (CVal sdata) (cpush extra dsO) | None => cpush extra dsO end).
  set (i := (match CtxStack.get_last_index (has_key KEY) ds2 with Some i => Z.of_nat i | None => 0%Z end - 1)%Z).
  assert (Hfe_inj : forall k, starts_inj k = true -> slookup k fe = None).
  { intros k Hk. rewrite Hfe. rewrite (slookup_notin k btw); [reflexivity|]. intro Hin. apply Hbu in Hin.
    rewrite (uname_not_inj _ Hin) in Hk. discriminate. }
  assert (Hds2 : forall k, starts_inj k = true -> cget k ds2 = match cget k dsS with Some v => Some v | None => cget k dsO end).
  { intros k Hk. unfold ds2, cpush. destruct dv as [d|].
    - rewrite cget_cset. rewrite str_eqb_neq.
      + rewrite cget_snoc, (Hex2 k Hk). reflexivity.
      + intro E. subst d. specialize (Hdvb k eq_refl). apply andb_true_iff in Hdvb as [_ Hu]. rewrite (uname_not_inj _ Hu) in Hk. discriminate.
    - rewrite cget_snoc, (Hex2 k Hk). reflexivity. }
  split.
  - intro key. rewrite cget_insert by (apply Hfe_inj, starts_inj_inj_key). rewrite Hds2 by apply starts_inj_inj_key.
    rewrite slookup_app. specialize (HpS key). specialize (HpO key).
    destruct (slookup key pvS) as [fs|].
    + destruct HpS as [pid [E [Hlt Ha]]]. rewrite E. exists pid. auto.
    + rewrite HpS. exact HpO.
  - apply uinj_insert; [|apply uinj_layer_noinj; exact Hfe_inj].
    unfold ds2, cpush. destruct dv as [d|]; [rewrite cset_snoc|]; apply uinj_snoc; try exact HuO; [apply uinj_layer_lset|]; exact Hexu.
Qed.

Section SimP.
  Variable lib : list (str * cdef).
  Hypothesis Hlib : forall cn cd, slookup cn lib = Some cd -> wf_cdef_p cd = true.

  Definition simPp (rec : state -> tpl -> res str) (mrec : gstate -> ctxt -> tpl -> mres R) : Prop :=
    forall t w G st g c, srelP g c st G w -> wf_tp (is_body w) G t = true ->
      (forall rid dl, w = WInst rid dl -> incl (slot_defaults_t t) dl /\ (forall a b, In a dl -> In b dl -> a = b)) ->
      match rec st t with
      | Ok a => exists g', mrec g c t = MOk (a, g', c) /\ gextP w g g'
      | Err k => mrec g c t = MErr k
      | OutOfFuel => mrec g c t = MFuel
      end.

  Section StepP.
    Variable rec : state -> tpl -> res str.
    Variable mrec : gstate -> ctxt -> tpl -> mres R.
    Hypothesis IH : simPp rec mrec.

    Lemma sim_listP : forall ts w G st g c, srelP g c st G w -> wf_lp (is_body w) G ts = true ->
      (forall rid dl, w = WInst rid dl -> incl (slot_defaults ts) dl /\ (forall a b, In a dl -> In b dl -> a = b)) ->
      match rl rec st ts with
      | Ok a => exists g', mrl mrec g c ts = MOk (a, g', c) /\ gextP w g g'
      | Err k => mrl mrec g c ts = MErr k
      | OutOfFuel => mrl mrec g c ts = MFuel
      end.
    Proof.
      induction ts as [|t r IHr]; intros w G st g c Hs Hw Hd; cbn [rl mrl].
      - exists g. split; [reflexivity|apply gextP_refl].
      - cbn [wf_lp] in Hw. apply andb_true_iff in Hw as [Hw1 Hw2].
        assert (Hd1 : forall rid dl, w = WInst rid dl -> incl (slot_defaults_t t) dl /\ (forall a b, In a dl -> In b dl -> a = b)).
        { intros rid dl E. destruct (Hd rid dl E) as [Hi Ha]. split; [|exact Ha]. intros x Hx. apply Hi. cbn [slot_defaults]. apply in_or_app. left. exact Hx. }
        assert (Hd2 : forall rid dl, w = WInst rid dl -> incl (slot_defaults r) dl /\ (forall a b, In a dl -> In b dl -> a = b)).
        { intros rid dl E. destruct (Hd rid dl E) as [Hi Ha]. split; [|exact Ha]. intros x Hx. apply Hi. cbn [slot_defaults]. apply in_or_app. right. exact Hx. }
        pose proof (IH t w G st g c Hs Hw1 Hd1) as H1.
        destruct (rec st t) as [a| |]; cbn [bind]; [|rewrite H1; reflexivity|rewrite H1; reflexivity].
        destruct H1 as [g1 [E1 X1]]. rewrite E1. cbn [mbind].
        pose proof (IHr w G st g1 c (srelP_gext _ _ _ _ _ _ Hs X1) Hw2 Hd2) as H2.
        destruct (rl rec st r) as [b| |]; cbn [bind]; [|rewrite H2; reflexivity|rewrite H2; reflexivity].
        destruct H2 as [g2 [E2 X2]]. rewrite E2. cbn [mbind]. exists g2. split; [reflexivity|eapply gextP_trans; eassumption].
    Qed.

    Lemma sim_stepP : simPp (render_step Isolated lib rec) (mstep Isolated lib mrec).
    Proof.
      intros t w G st g c Hs Hw Hd.
      destruct t as [s|e|cnd x y|x e body|x e body|name isd isr data body|nm dv defv body|cname kw only body|key kw body];
        cbn [render_step mstep].
      - exists g. split; [reflexivity|apply gextP_refl].
      - cbn [wf_tp] in Hw. pose proof (srelP_meval _ _ _ _ _ _ Hs Hw) as Hr. unfold mout.
        remember (meval e (dicts c)) as cv. remember (eval e st) as xv.
        destruct Hr; (exists g; split; [reflexivity|apply gextP_refl]).
      - cbn [wf_tp] in Hw. apply andb_true_iff in Hw as [Hw Hwy]. apply andb_true_iff in Hw as [Hwc Hwx].
        rewrite (crel_truthy _ _ (srelP_meval _ _ _ _ _ _ Hs Hwc)).
        destruct (truthy (eval cnd st)).
        + apply (sim_listP x w G st g c Hs Hwx). intros rid dl E. destruct (Hd rid dl E) as [Hi Ha]. split; [|exact Ha].
          intros z Hz. apply Hi. cbn [slot_defaults_t]. apply in_or_app. left. exact Hz.
        + apply (sim_listP y w G st g c Hs Hwy). intros rid dl E. destruct (Hd rid dl E) as [Hi Ha]. split; [|exact Ha].
          intros z Hz. apply Hi. cbn [slot_defaults_t]. apply in_or_app. right. exact Hz.
      - discriminate Hw.
      - (* with *)
        cbn [wf_tp] in Hw.
        apply andb_true_iff in Hw as [Hw Hwb]. apply andb_true_iff in Hw as [Hw Hnin]. apply andb_true_iff in Hw as [Hwe Hbx].
        apply negb_true_iff in Hnin. apply smemb_notin in Hnin.
        rewrite (meval_val_relL _ _ _ (srelP_vrelL _ _ _ _ _ Hs) Hwe). unfold mwith.
        pose proof (srelP_push _ _ _ _ _ x (to_value (eval e st)) Hs Hbx Hnin) as Hs'.
        assert (Hd' : forall rid dl, w = WInst rid dl -> incl (slot_defaults body) dl /\ (forall a b, In a dl -> In b dl -> a = b)).
        { intros rid dl E. exact (Hd rid dl E). }
        pose proof (sim_listP body w (x :: G) _ g _ Hs' Hwb Hd') as H.
        destruct (rl rec (bind_loc x (to_value (eval e st)) st) body) as [a| |]; [|rewrite H; reflexivity|rewrite H; reflexivity].
        destruct H as [g' [E X]]. rewrite E. cbn [mbind]. rewrite push_pop_id. exists g'. auto.
      - (* slot *)
        cbn [wf_tp] in Hw. apply andb_true_iff in Hw as [Hw Hwb]. apply andb_true_iff in Hw as [Hnb Hkw].
        apply negb_true_iff in Hnb.
        assert (Hkw' : kw_ok (is_body w) data = true) by (rewrite Hnb; exact Hkw).
        pose proof (srelP_kwargs _ _ _ _ _ _ Hs Hkw') as Ekw.
        pose proof Hs as [Ho [Hv [Hincl [[Hcg Hcf] [Hpr [Hui Hwho]]]]]].
        assert (Hex : is_extracting (dicts c) = false) by (unfold is_extracting; rewrite Hcg; reflexivity).
        destruct w as [| |rid dl]; [discriminate Hnb| |].
        + destruct Hwho as [Hc [Hk _]]. rewrite Hc. unfold mslot. rewrite Ekw, Hex, Hk. reflexivity.
        + destruct Hwho as [cn [fills [Hc Hirel]]]. rewrite Hc.
          pose proof Hirel as [Hk [Hcv [Hlt [ci [O [tp [Ha [HO [[HOg HOf] [HOu [HpO [HF Hdf]]]]]]]]]]]].
          destruct (Hd rid dl eq_refl) as [Hdin Hsame].
          destruct (slot_default_check_ok rid ci name isd g dl Ha Hlt Hdf Hsame) as [g1 [Eg1 Xg1]].
          { intros ->. apply Hdin. cbn [slot_defaults_t]. left. reflexivity. }
          assert (Xg1P : gextP (WInst rid dl) g g1).
          { split; [exact Xg1|]. unfold slot_default_check in Eg1. split.
            - destruct Xg1 as [Hn _]. exact Hn.
            - intros pid _. destruct isd; [|inversion Eg1; reflexivity].
              destruct (ci_default ci); [destruct (negb (str_eqb name s))|]; inversion Eg1; reflexivity. }
          assert (Hs1 : srelP g1 c st G (WInst rid dl)) by (eapply srelP_gext; eassumption).
          unfold double_filled. rewrite <- (smem_frelQ _ _ _ _ name HF), <- (smem_frelQ _ _ _ _ default_key HF).
          destruct (isd && negb (str_eqb name default_key) && smem name (ci_fills ci) && smem default_key (ci_fills ci)) eqn:Edf.
          { unfold mslot. rewrite Ekw, Hex, Hk, Ha, Eg1. cbn [mbind]. rewrite Edf. reflexivity. }
          unfold fill_name_of. rewrite <- (smem_frelQ _ _ _ _ default_key HF).
          set (fname := if isd && smem default_key (ci_fills ci) then default_key else name).
          pose proof (slookup_frelQ _ _ _ _ HF fname) as Hf.
          set (sdata := VRec (eval_kwargs data st)).
          destruct Hs1 as [_ [_ [_ [_ [Hpr1 [_ Hwho1]]]]]].
          destruct Hwho1 as [cn1 [fills1 [Hc1 Hirel1]]].
          assert (Efills : fills1 = fills) by congruence. subst fills1.
          destruct (slookup fname (ci_fills ci)) as [sf|] eqn:Em, (slookup fname fills) as [cl|] eqn:Es; try contradiction.
          * (* filled: the fill body on the instance's outer Context *)
            rewrite (mslot_filled_lemma Isolated mrec name isd isr data body g c _ rid ci g1 sf Ekw Hex Hk Ha Eg1 Edf Em).
            destruct cl as [fbody btw cloc cout fdv fdefv owner cprov].
            destruct Hf as [_ [Hb [Hdv [Hdfv [-> [-> [-> [Hfe [loc0 [Gb [-> [Hv0 [Hwfb [Hinb [Hdvb Hdisj]]]]]]]]]]]]]]].
            cbn [clo_defvar clo_dvar clo_body bind fst snd] in *.
            destruct (slot_extra_prov ci true (dicts c) Hui) as [extra [Eex [Hex1 [Hex2 Hexu]]]].
            rewrite Eex, HO. cbn [mbind is_django app].
            set (sref := CSlotRef body (oid c) (oid O) (dicts c) (slot_rvars (dicts c))).
            assert (Hexk : forall k, relevant k -> slookup k extra = None) by (intros k Hr; apply Hex1, relevant_not_inj, Hr).
            destruct (fill_ctx_vrel (dicts O) sf btw loc0 Gb fdv sdata sref extra Hdv Hdfv Hfe Hv0 (conj HOg HOf) Hinb Hdvb Hdisj Hexk)
              as [Hvb Hcb].
            pose proof (irelP_gext _ _ _ _ _ _ Hirel Xg1P) as [_ [_ [_ [ci1 [O1 [tp1 [Ha1 [HO1 [_ [_ [HpO1 [HF1 _]]]]]]]]]]]].
            assert (HpO' : prel g1 (dicts O) tp).
            { eapply prel_mono; [exact HpO|apply Xg1P]. }
            destruct (fill_ctx_prov g1 (dicts O) (dicts c) sf btw fdv sdata sref extra (prov st) tp Hdv Hdfv Hfe
                        (fun x Hx => proj2 (Hdisj x Hx)) (fun x Hx => proj2 (Hdvb x Hx)) Hex1 Hex2 Hexu Hpr1 HpO' HOu) as [Hpb Hub].
            set (c0 := with_dicts O (cpush extra (dicts O))).
            set (cb := with_dicts c0 (rf_dicts sf sdata sref (dicts c0))).
            set (stb := fill_state true st (match fdv with Some x0 => [(x0, sdata)] | None => [] end)
                          (Clo fbody btw (btw ++ loc0) [] fdv None owner tp)).
            assert (Hsb : srelP g1 cb stb (match fdv with Some x0 => x0 :: Gb | None => Gb end) WBody).
            { unfold stb. cbn [fill_state]. split; [reflexivity|]. cbn [loc prov]. split; [exact Hvb|]. split.
              - rewrite !map_app. intros z Hz. apply in_app_or in Hz as [Hz|Hz].
                + destruct fdv as [d|]; [|destruct Hz]. destruct Hz as [<-|[]]. left. reflexivity.
                + assert (Hz' : In z Gb).
                  { apply Hinb. rewrite map_app. apply in_app_or in Hz as [Hz|Hz]; [apply in_or_app; left; exact Hz|].
                    rewrite <- map_app in Hz. rewrite <- map_app. exact Hz. }
                  destruct fdv; [right|]; exact Hz'.
              - split; [exact Hcb|]. split; [exact Hpb|]. split; [exact Hub|exact I]. }
            assert (Hwb' : wf_lp (is_body WBody) (match fdv with Some x0 => x0 :: Gb | None => Gb end) (sf_body sf) = true)
              by (rewrite Hb; exact Hwfb).
            pose proof (sim_listP (sf_body sf) WBody _ stb g1 cb Hsb Hwb' ltac:(intros; discriminate)) as Hbody.
            pose proof (m_render_func_run mrec sf sdata sref g1 O extra) as Hrun. cbn zeta in Hrun. fold c0 cb in Hrun.
            rewrite Hb in Hbody. revert Hbody. unfold stb.
            destruct (rl rec _ fbody) as [a| |]; intro Hbody.
            -- destruct Hbody as [g3 [E3 X3]]. rewrite Hb, E3 in Hrun. destruct (Hrun eq_refl) as [c2 [E2 _]].
               fold c0. fold sdata sref. rewrite E2. cbn [mbind]. exists g3. split; [reflexivity|].
               eapply gextP_trans; [exact Xg1P|]. destruct X3 as [X3 X3p]. split; [apply gexact_gext; exact X3|exact X3p].
            -- rewrite Hb, Hbody in Hrun. fold c0. fold sdata sref. rewrite Hrun. reflexivity.
            -- rewrite Hb, Hbody in Hrun. fold c0. fold sdata sref. rewrite Hrun. reflexivity.
          * (* unfilled *)
            destruct (mslot_unfilled_lemma Isolated mrec name isd data body g c _ rid ci g1 Ekw Hex Hk Ha Eg1 Edf Em) as [Er Eu].
            destruct isr; [rewrite Er; reflexivity|]. rewrite Eu. clear Er Eu.
            destruct (slot_extra_prov ci false (dicts c) Hui) as [extra [Eex [Hex1 [Hex2 Hexu]]]].
            rewrite Eex. cbn [mbind].
            set (sref := CSlotRef body (oid c) (oid c) (dicts c) (slot_rvars (dicts c))).
            set (c0 := with_dicts c (cpush extra (dicts c))).
            set (cb := with_dicts c0 (rf_dicts (unfilled_fn body) sdata sref (dicts c0))).
            assert (Hsame_k : forall k, cget k (dicts cb) = cget k (dicts c)).
            { intros k. unfold cb, c0. cbn [dicts with_dicts]. unfold rf_dicts, unfilled_fn. cbn [sf_dvar sf_defvar sf_extra].
              rewrite cget_insert by reflexivity. unfold cpush. apply cget_push_extra; assumption. }
            assert (Hucb : uinj (dicts cb)).
            { unfold cb, c0. cbn [dicts with_dicts]. unfold rf_dicts, unfilled_fn. cbn [sf_dvar sf_defvar sf_extra].
              apply uinj_insert; [unfold cpush; apply uinj_snoc; assumption|]. intros k _. cbn. lia. }
            assert (Hsb : srelP g1 cb st G (WInst rid dl)).
            { apply (srelP_same g1 c cb); [exact Hsame_k|exact Hucb|]. eapply srelP_gext; eassumption. }
            assert (Hd' : forall rid0 dl0, WInst rid dl = WInst rid0 dl0 ->
                      incl (slot_defaults body) dl0 /\ (forall a b, In a dl0 -> In b dl0 -> a = b)).
            { intros rid0 dl0 E. inversion E; subst. split; [|exact Hsame]. intros z Hz. apply Hdin. cbn [slot_defaults_t].
              apply in_or_app. right. exact Hz. }
            pose proof (sim_listP body (WInst rid dl) G st g1 cb Hsb Hwb Hd') as Hbody.
            pose proof (m_render_func_run mrec (unfilled_fn body) sdata sref g1 c extra) as Hrun. cbn zeta in Hrun.
            fold c0 cb in Hrun. cbn [sf_body unfilled_fn] in Hrun.
            destruct (rl rec st body) as [a| |].
            -- destruct Hbody as [g3 [E3 X3]]. rewrite E3 in Hrun. destruct (Hrun eq_refl) as [c2 [E2 Hc2]].
               fold c0. fold sdata sref. rewrite E2. cbn [mbind]. rewrite Hc2. exists g3. split; [reflexivity|].
               eapply gextP_trans; eassumption.
            -- rewrite Hbody in Hrun. fold c0. fold sdata sref. rewrite Hrun. reflexivity.
            -- rewrite Hbody in Hrun. fold c0. fold sdata sref. rewrite Hrun. reflexivity.
      - destruct Hs as [_ [_ [_ [[Hcg _] _]]]]. unfold is_extracting. rewrite Hcg. reflexivity.
      - (* component *)
        cbn [wf_tp] in Hw. apply andb_true_iff in Hw as [Hkw Hwb]. unfold mcomp.
        rewrite (srelP_kwargs _ _ _ _ _ _ Hs Hkw).
        pose proof Hs as [Ho [Hv [Hincl [[Hcg Hcf] [Hpr [Hui Hwho]]]]]].
        unfold is_extracting. rewrite Hcg.
        destruct (slookup cname lib) as [cd|] eqn:El; [|reflexivity].
        pose proof (Hlib _ _ El) as Hcd. unfold wf_cdef_p in Hcd.
        apply andb_true_iff in Hcd as [Hcd Hsame]. apply andb_true_iff in Hcd as [Hdata Hwt].
        pose proof (resolve_simP mrec g c st G body Ho Hv Hincl (conj Hcg Hcf) Hwb) as Hres.
        destruct (resolve_fills st body) as [fills| |]; cbn [bind]; [|rewrite Hres; reflexivity|contradiction].
        destruct Hres as [g1 [fm [Eres [Hcc1 [Hpx1 HF]]]]]. rewrite Eres. cbn [mbind].
        cbn [is_django negb]. rewrite orb_true_r.
        destruct (isolated_copy_prov g1 c Hcf Hui) as [L [o [Ecopy [HL [HLi HLu]]]]]. rewrite Ecopy.
        unfold fresh, snapshot. cbn [g_next g_cctx g_collect g_prov fresh].
        set (g4 := {| g_next := N.succ (N.succ (N.succ (g_next g1))); g_cctx := g_cctx g1; g_collect := g_collect g1; g_prov := g_prov g1 |}).
        assert (Hpx4 : pext g g4).
        { eapply pext_trans; [exact Hpx1|]. split; [cbn; lia|]. intros pid _. reflexivity. }
        assert (HpL : prel g4 [L] (prov st)).
        { apply (prel_same g4 (dicts c)); [|eapply prel_mono; eassumption].
          intro key. cbn [cget]. rewrite (HLi _ (starts_inj_inj_key key)). destruct (cget (inj_key key) (dicts c)); reflexivity. }
        pose proof (eval_data_simP (c_data cd) (eval_kwargs kw st) (prov st) g4 [L] Hdata HpL) as Hed.
        cbn [dicts oid with_dicts].
        destruct (eval_data (c_data cd) (eval_kwargs kw st) (prov st)) as [data|k|]; cbn [bind]; [|rewrite Hed; reflexivity|contradiction].
        destruct Hed as [Em Hdincl]. rewrite Em. cbn [mbind].
        cbn [g_next g_cctx g_collect g_prov set_cctx].
        set (rid := N.succ (g_next g1)).
        set (dl := slot_defaults (c_tpl cd)).
        set (dataM := map (fun kv => (fst kv, CVal (snd kv))) data).
        set (keyl := [(KEY, CId rid); (CVARS, CVars (map (fun kf => escape_name (fst kf)) fm))]).
        set (snap := {| oid := N.succ (N.succ (N.succ (g_next g1))); dicts := cpush keyl (cpush dataM [L]) |}).
        set (osnap := {| oid := N.succ (N.succ (g_next g1)); dicts := dicts c |}).
        set (entry := {| ci_name := cname; ci_fills := fm; ci_default := None; ci_outer := Some osnap |}).
        set (g6 := {| g_next := N.succ (N.succ (N.succ (N.succ (g_next g1)))); g_cctx := aset rid entry (g_cctx g1);
                      g_collect := g_collect g1; g_prov := g_prov g1 |}).
        set (st' := comp_state st cname fills data (is_isolated Isolated only)).
        assert (Hiso : is_isolated Isolated only = true) by (unfold is_isolated; apply orb_true_r).
        assert (Hpx6 : pext g g6).
        { eapply pext_trans; [exact Hpx1|]. split; [cbn; lia|]. intros pid _. reflexivity. }
        assert (Hdu : forall x, In x (map fst (c_data cd)) -> uname x = true).
        { intros x Hx. apply in_map_iff in Hx as [[y d] [E Hin]]. cbn in E. subst y. rewrite forallb_forall in Hdata.
          specialize (Hdata _ Hin). cbn in Hdata. apply andb_true_iff in Hdata as [_ Hu]. exact Hu. }
        assert (Hdk : forall k, uname k = false -> slookup k dataM = None).
        { intros k Hk. unfold dataM. rewrite slookup_map_cval. rewrite (slookup_notin k data); [reflexivity|].
          intro Hin. apply Hdincl, Hdu in Hin. congruence. }
        assert (Hs' : srelP g6 snap st' (map fst (c_data cd)) (WInst rid dl)).
        { unfold st', comp_state. rewrite Hiso. split; [reflexivity|]. cbn [loc cur prov dicts snap].
          assert (Hlook : forall k, k <> KEY -> k <> CVARS -> uname k = false ->
                    cget k (cpush keyl (cpush dataM [L])) = slookup k L).
          { intros k H1 H2 Hu. unfold cpush. rewrite !cget_snoc. unfold keyl. cbn [slookup cget].
            rewrite (str_eqb_neq _ _ H1), (str_eqb_neq _ _ H2), (Hdk k Hu). reflexivity. }
          split.
          { intros x Hx. unfold cpush. rewrite !cget_snoc. unfold keyl. cbn [slookup cget].
            rewrite !str_eqb_neq by (intro E; subst; discriminate). unfold dataM. rewrite slookup_map_cval.
            rewrite (HL x (uname_l0_ok x Hx)). destruct (slookup x data); reflexivity. }
          split; [exact Hdincl|]. split.
          { split; (rewrite Hlook; [apply HL; repeat split; try reflexivity; intro E; discriminate E|intro E; discriminate E|intro E; discriminate E|reflexivity]). }
          split.
          { intro key. rewrite Hlook.
            - rewrite (HLi _ (starts_inj_inj_key key)). apply (prel_mono g); [exact Hpr|exact Hpx6].
            - intro E. symmetry in E. revert E. apply inj_key_not_relevant. unfold relevant; auto.
            - intro E. symmetry in E. revert E. apply inj_key_not_relevant. unfold relevant; auto.
            - destruct (uname (inj_key key)) eqn:E; [|reflexivity]. apply uname_not_inj in E. rewrite starts_inj_inj_key in E. discriminate. }
          split.
          { unfold cpush. apply uinj_snoc; [apply uinj_snoc|].
            - intros d [<-|[]]. exact HLu.
            - apply uinj_layer_noinj. intros k Hk. apply Hdk. destruct (uname k) eqn:E; [|reflexivity].
              rewrite (uname_not_inj _ E) in Hk. discriminate.
            - apply uinj_layer_noinj. intros k Hk. unfold keyl. cbn [slookup].
              rewrite !str_eqb_neq; [reflexivity| |]; intro E; subst; discriminate. }
          exists cname, fills. split; [reflexivity|].
          split; [unfold cpush; rewrite cget_snoc; reflexivity|].
          split. { unfold cpush. rewrite cget_snoc. unfold keyl. cbn [slookup].
                   rewrite (str_eqb_neq CVARS KEY) by discriminate. rewrite str_eqb_refl.
                   rewrite (map_escape_names _ _ (Forall2_frelQ_names _ _ _ _ HF)). reflexivity. }
          split; [unfold g6, rid; cbn; lia|].
          exists entry, osnap, (prov st). split; [unfold g6; cbn [g_cctx]; apply alookup_aset_same|].
          split; [reflexivity|]. split; [split; assumption|]. split; [exact Hui|].
          split; [eapply prel_mono; eassumption|]. split; [exact HF|exact I]. }
        assert (Hd' : forall rid0 dl0, WInst rid dl = WInst rid0 dl0 ->
                  incl (slot_defaults (c_tpl cd)) dl0 /\ (forall a b, In a dl0 -> In b dl0 -> a = b)).
        { intros rid0 dl0 E. inversion E; subst. split; [apply incl_refl|apply all_same_prop; exact Hsame]. }
        pose proof (sim_listP (c_tpl cd) (WInst rid dl) _ st' g6 snap Hs' Hwt Hd') as Htpl.
        fold rid keyl dataM.
        match goal with |- context [mrl mrec ?a ?b (c_tpl cd)] => change (mrl mrec a b (c_tpl cd)) with (mrl mrec g6 snap (c_tpl cd)) end.
        destruct (rl rec st' (c_tpl cd)) as [a| |]; [|rewrite Htpl; reflexivity|rewrite Htpl; reflexivity].
        destruct Htpl as [g7 [E7 [[Hn7 X7] Hp7]]]. rewrite E7. cbn [mbind]. eexists. split; [reflexivity|].
        split.
        + apply gexact_gext. split; [cbn [g_next set_cctx]; unfold g6 in Hn7; cbn [g_next] in Hn7; destruct Hpx1 as [Hn1 _]; lia|].
          intros j Hj. cbn [g_cctx set_cctx]. destruct Hpx1 as [Hn1 _].
          assert (Hjr : j <> rid) by (unfold rid; lia).
          rewrite alookup_aremove_other by exact Hjr.
          specialize (X7 j ltac:(unfold g6; cbn [g_next]; lia)). cbn in X7.
          destruct (N.eqb j rid) eqn:E; [apply N.eqb_eq in E; contradiction|].
          rewrite X7. unfold g6. cbn [g_cctx]. rewrite alookup_aset_other by exact Hjr. rewrite Hcc1. reflexivity.
        + eapply pext_trans; [exact Hpx6|]. destruct Hp7 as [Hp7a Hp7b]. split; [cbn [g_next set_cctx]; exact Hp7a|].
          intros pid Hpid. cbn [g_prov set_cctx]. apply Hp7b. exact Hpid.
      - (* provide *)
        cbn [wf_tp] in Hw. apply andb_true_iff in Hw as [Hkw Hwb]. unfold mprovide.
        rewrite (srelP_kwargs _ _ _ _ _ _ Hs Hkw).
        destruct (is_ident key); cbn [negb]; [|reflexivity].
        cbn [fresh g_prov].
        destruct (srelP_provide g c st G w key (eval_kwargs kw st) Hs) as [Hs' Hx]. cbn zeta in Hs', Hx.
        assert (Hd' : forall rid dl, w = WInst rid dl -> incl (slot_defaults body) dl /\ (forall a b, In a dl -> In b dl -> a = b)).
        { intros rid dl E. exact (Hd rid dl E). }
        pose proof (sim_listP body w G _ _ _ Hs' Hwb Hd') as H.
        set (sp := {| loc := loc st; out := out st; cur := cur st; prov := (key, eval_kwargs kw st) :: prov st |}) in *.
        match type of H with match rl rec ?s body with _ => _ end => change (rl rec s body) with (rl rec sp body) in H end.
        match type of H with match _ with Ok _ => _ | Err _ => _ | OutOfFuel => ?l = _ end =>
          match goal with |- context [mbind ?m _] => change m with l end end.
        destruct (rl rec sp body) as [a| |]; [|rewrite H; reflexivity|rewrite H; reflexivity].
        destruct H as [g' [E X]]. rewrite E. cbn [mbind]. eexists. split; [|eapply gextP_trans; eassumption].
        f_equal. f_equal. destruct c as [o ds]. unfold with_dicts. cbn [oid dicts]. rewrite cpop_cset, cpop_cpush. reflexivity.
    Qed.
  End StepP.
End SimP.

Lemma sim_renderP lib (Hlib : forall cn cd, slookup cn lib = Some cd -> wf_cdef_p cd = true) fuel :
  simPp (render Isolated lib fuel) (mrender Isolated lib fuel).
Proof.
  induction fuel as [|f IHf].
  - intros t w G st g c _ _ _. reflexivity.
  - cbn [render mrender]. apply sim_stepP; assumption.
Qed.

Theorem mech_refines_sem_isolated_provide_lemma : forall p fuel,
  wf_prog_prov p = true -> mout_of (mrender_prog fuel p) = embed (render_prog fuel p).
Proof.
  intros p fuel Hwf. unfold wf_prog_prov in Hwf.
  apply andb_true_iff in Hwf as [Hwf Hpage]. apply andb_true_iff in Hwf as [Hwf Hctx].
  apply andb_true_iff in Hwf as [Hmode Hlibb].
  unfold mrender_prog, render_prog, mrender_list, render_list.
  destruct (p_mode p); [|discriminate]. clear Hmode.
  assert (Hlib : forall cn cd, slookup cn (p_lib p) = Some cd -> wf_cdef_p cd = true).
  { intros cn cd H. apply slookup_In_lib in H. rewrite forallb_forall in Hlibb. exact (Hlibb _ H). }
  set (st0 := {| loc := p_ctx p; out := []; cur := None; prov := [] |}).
  assert (Hs : srelP g0 (page_ctxt p) st0 (map fst (p_ctx p)) WPage).
  { assert (Hint : forall k, uname k = false -> slookup k builtins = None -> cget k (dicts (page_ctxt p)) = None).
    { intros k Hk Hb. unfold page_ctxt. cbn [dicts]. rewrite page_lookup, (not_uname_notin_ctx _ _ Hctx Hk). exact Hb. }
    assert (Hinj : forall k, starts_inj k = true -> cget k (dicts (page_ctxt p)) = None).
    { intros k Hk. apply Hint.
      - destruct (uname k) eqn:E; [|reflexivity]. rewrite (uname_not_inj _ E) in Hk. discriminate.
      - unfold builtins. cbn [slookup]. rewrite !str_eqb_neq; [reflexivity| | |]; intro E; subst; discriminate. }
    split; [reflexivity|]. split.
    { intros x Hx. unfold page_ctxt. cbn [dicts st0 loc]. rewrite page_lookup. destruct (slookup x (p_ctx p)); [reflexivity|].
      destruct (uname_l0_ok x Hx) as [_ [_ [H1 [H2 H3]]]]. unfold builtins. cbn [slookup].
      rewrite !str_eqb_neq by assumption. reflexivity. }
    split; [apply incl_refl|]. split; [split; apply Hint; reflexivity|].
    split; [intro key; cbn; apply Hinj, starts_inj_inj_key|].
    split.
    { intros d Hd k Hk. rewrite (slookup_none_kcount k d); [lia|]. exact (cget_none_layers _ _ (Hinj k Hk) d Hd). }
    split; [reflexivity|]. split; apply Hint; reflexivity. }
  pose proof (sim_listP _ _ (sim_renderP (p_lib p) Hlib fuel) (p_page p) WPage _ st0 g0 (page_ctxt p) Hs Hpage
                ltac:(intros; discriminate)) as H.
  fold st0. destruct (rl (render Isolated (p_lib p) fuel) st0 (p_page p)) as [a| |].
  - destruct H as [g' [E _]]. rewrite E. reflexivity.
  - rewrite H. reflexivity.
  - rewrite H. reflexivity.
Qed.
