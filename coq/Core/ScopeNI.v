(* Two-run non-interference for whole programs of the reference semantics Core/Sem.v, by induction over the fuel
   (component instantiation depth) and, for fill discovery, over the template.

   One relational lemma (render_rel) covers
     - outer -> inner: two caller scopes that agree on the names the rendered template itself mentions,
     - inner -> outer: two component libraries whose get_context_data results agree on the names the component's
       own template mentions (e.g. one more, unread, data variable with different values),
     - `only` = isolated: two context behaviours under which every component tag of the program is rendered isolated.
   Definitions here are used by the proofs only (the executable model is Core/Sem.v). *)
From DJC Require Import Lib.Base Core.Syntax Core.Sem Core.ScopeProofs.

(* ---------- induction principle for templates (nested lists) ---------- *)
Section TplInd.
  Variable P : tpl -> Prop.
  Variable Q : list tpl -> Prop.
  Hypothesis Hnil : Q [].
  Hypothesis Hcons : forall t r, P t -> Q r -> Q (t :: r).
  Hypothesis HText : forall s, P (TText s).
  Hypothesis HOut : forall e, P (TOut e).
  Hypothesis HIf : forall c a b, Q a -> Q b -> P (TIf c a b).
  Hypothesis HFor : forall x e body, Q body -> P (TFor x e body).
  Hypothesis HWith : forall x e body, Q body -> P (TWith x e body).
  Hypothesis HSlot : forall n d r data body, Q body -> P (TSlot n d r data body).
  Hypothesis HFill : forall n dv df body, Q body -> P (TFill n dv df body).
  Hypothesis HComp : forall c kw o body, Q body -> P (TComp c kw o body).
  Hypothesis HProvide : forall k kw body, Q body -> P (TProvide k kw body).

  Fixpoint tpl_ind2 (t : tpl) : P t :=
    let li := fix li (ts : list tpl) : Q ts :=
      match ts with [] => Hnil | t :: r => Hcons t r (tpl_ind2 t) (li r) end in
    match t with
    | TText s => HText s
    | TOut e => HOut e
    | TIf c a b => HIf c a b (li a) (li b)
    | TFor x e body => HFor x e body (li body)
    | TWith x e body => HWith x e body (li body)
    | TSlot n d r data body => HSlot n d r data body (li body)
    | TFill n dv df body => HFill n dv df body (li body)
    | TComp c kw o body => HComp c kw o body (li body)
    | TProvide k kw body => HProvide k kw body (li body)
    end.

  Fixpoint tpls_ind2 (ts : list tpl) : Q ts :=
    match ts with [] => Hnil | t :: r => Hcons t r (tpl_ind2 t) (tpls_ind2 r) end.
End TplInd.

(* ---------- the names a template mentions ---------- *)
Definition expr_names (e : expr) : list str :=
  match e with
  | EStr _ => []
  | EVar x => [x]
  | EDot x _ => [x]
  | EFilled _ => []
  | ECounter => [counter_key]
  end.

Definition kw_names (kw : list (str * expr)) : list str := flat_map (fun ke => expr_names (snd ke)) kw.

Fixpoint tpl_names (t : tpl) : list str :=
  let tn := fix tn (ts : list tpl) : list str :=
    match ts with [] => [] | t :: r => tpl_names t ++ tn r end in
  match t with
  | TText _ => []
  | TOut e => expr_names e
  | TIf c a b => expr_names c ++ tn a ++ tn b
  | TFor _ e body => expr_names e ++ tn body
  | TWith _ e body => expr_names e ++ tn body
  | TSlot _ _ _ data body => kw_names data ++ tn body
  | TFill name _ _ body => expr_names name ++ tn body
  | TComp _ kw _ body => kw_names kw ++ tn body
  | TProvide _ kw body => kw_names kw ++ tn body
  end.

Fixpoint tpls_names (ts : list tpl) : list str :=
  match ts with [] => [] | t :: r => tpl_names t ++ tpls_names r end.

Lemma tn_eq ts :
  (fix tn (ts : list tpl) : list str := match ts with [] => [] | t :: r => tpl_names t ++ tn r end) ts = tpls_names ts.
Proof. induction ts as [|t r IH]; [reflexivity|]. cbn [tpls_names]. rewrite <- IH. reflexivity. Qed.

Lemma tpl_names_If c a b : tpl_names (TIf c a b) = expr_names c ++ tpls_names a ++ tpls_names b.
Proof. cbn [tpl_names]. rewrite !tn_eq. reflexivity. Qed.
Lemma tpl_names_For x e body : tpl_names (TFor x e body) = expr_names e ++ tpls_names body.
Proof. cbn [tpl_names]. rewrite !tn_eq. reflexivity. Qed.
Lemma tpl_names_With x e body : tpl_names (TWith x e body) = expr_names e ++ tpls_names body.
Proof. cbn [tpl_names]. rewrite !tn_eq. reflexivity. Qed.
Lemma tpl_names_Slot n d r data body : tpl_names (TSlot n d r data body) = kw_names data ++ tpls_names body.
Proof. cbn [tpl_names]. rewrite !tn_eq. reflexivity. Qed.
Lemma tpl_names_Fill n dv df body : tpl_names (TFill n dv df body) = expr_names n ++ tpls_names body.
Proof. cbn [tpl_names]. rewrite !tn_eq. reflexivity. Qed.
Lemma tpl_names_Comp c kw o body : tpl_names (TComp c kw o body) = kw_names kw ++ tpls_names body.
Proof. cbn [tpl_names]. rewrite !tn_eq. reflexivity. Qed.
Lemma tpl_names_Provide k kw body : tpl_names (TProvide k kw body) = kw_names kw ++ tpls_names body.
Proof. cbn [tpl_names]. rewrite !tn_eq. reflexivity. Qed.

(* ---------- "every component tag of the template is rendered isolated" ---------- *)
Section Iso.
  Variable isof : bool -> bool.     (* is a tag with this `only` flag rendered isolated? *)

  Fixpoint iso_tpl (t : tpl) : bool :=
    let il := fix il (ts : list tpl) : bool :=
      match ts with [] => true | t :: r => iso_tpl t && il r end in
    match t with
    | TText _ => true
    | TOut _ => true
    | TIf _ a b => il a && il b
    | TFor _ _ body => il body
    | TWith _ _ body => il body
    | TSlot _ _ _ _ body => il body
    | TFill _ _ _ body => il body
    | TComp _ _ only body => isof only && il body
    | TProvide _ _ body => il body
    end.

  Fixpoint iso_tpls (ts : list tpl) : bool :=
    match ts with [] => true | t :: r => iso_tpl t && iso_tpls r end.

  Lemma il_eq ts :
    (fix il (ts : list tpl) : bool := match ts with [] => true | t :: r => iso_tpl t && il r end) ts = iso_tpls ts.
  Proof. induction ts as [|t r IH]; [reflexivity|]. cbn [iso_tpls]. rewrite <- IH. reflexivity. Qed.

  Lemma iso_If c a b : iso_tpl (TIf c a b) = iso_tpls a && iso_tpls b.
  Proof. cbn [iso_tpl]. rewrite !il_eq. reflexivity. Qed.
  Lemma iso_For x e body : iso_tpl (TFor x e body) = iso_tpls body.
  Proof. cbn [iso_tpl]. rewrite !il_eq. reflexivity. Qed.
  Lemma iso_With x e body : iso_tpl (TWith x e body) = iso_tpls body.
  Proof. cbn [iso_tpl]. rewrite !il_eq. reflexivity. Qed.
  Lemma iso_Slot n d r data body : iso_tpl (TSlot n d r data body) = iso_tpls body.
  Proof. cbn [iso_tpl]. rewrite !il_eq. reflexivity. Qed.
  Lemma iso_Fill n dv df body : iso_tpl (TFill n dv df body) = iso_tpls body.
  Proof. cbn [iso_tpl]. rewrite !il_eq. reflexivity. Qed.
  Lemma iso_Comp c kw o body : iso_tpl (TComp c kw o body) = isof o && iso_tpls body.
  Proof. cbn [iso_tpl]. rewrite !il_eq. reflexivity. Qed.
  Lemma iso_Provide k kw body : iso_tpl (TProvide k kw body) = iso_tpls body.
  Proof. cbn [iso_tpl]. rewrite !il_eq. reflexivity. Qed.
End Iso.

Lemma iso_all_true isof (H : forall o, isof o = true) : forall t, iso_tpl isof t = true.
Proof.
  apply (tpl_ind2 (fun t => iso_tpl isof t = true) (fun ts => iso_tpls isof ts = true)); intros;
    try reflexivity.
  - cbn [iso_tpls]. rewrite H0, H1. reflexivity.
  - rewrite iso_If, H0, H1. reflexivity.
  - rewrite iso_For. assumption.
  - rewrite iso_With. assumption.
  - rewrite iso_Slot. assumption.
  - rewrite iso_Fill. assumption.
  - rewrite iso_Comp, H, H0. reflexivity.
  - rewrite iso_Provide. assumption.
Qed.

Lemma iso_all_true_list isof (H : forall o, isof o = true) : forall ts, iso_tpls isof ts = true.
Proof. induction ts as [|t r IH]; [reflexivity|]. cbn [iso_tpls]. rewrite iso_all_true, IH by assumption. reflexivity. Qed.

(* ---------- extract: the local list traversal is extract_list ---------- *)
Lemma ex_list_eq tagprov ts : forall st btw,
  (fix ex_list (st : state) (btw : env) (ts : list tpl) : res (str * list (str * closure)) :=
     match ts with
     | [] => Ok ([], [])
     | t :: r => bind (extract tagprov st btw t) (fun a =>
                 bind (ex_list st btw r) (fun b => Ok (fst a ++ fst b, snd a ++ snd b)))
     end) st btw ts = extract_list tagprov st btw ts.
Proof.
  induction ts as [|t r IH]; intros st btw; [reflexivity|].
  cbn [extract_list]. rewrite <- IH. reflexivity.
Qed.

(* ---------- the relation between the two runs ---------- *)
Definition lk (x : str) (l o : env) : option value :=
  match slookup x l with Some v => Some v | None => slookup x o end.

Lemma lookup_lk x st : lookup x st = lk x (loc st) (out st).
Proof. reflexivity. Qed.

Lemma lk_app x a l o : lk x (a ++ l) o = match slookup x a with Some v => Some v | None => lk x l o end.
Proof. unfold lk. rewrite slookup_app. destruct (slookup x a); reflexivity. Qed.

Section Rel.
  Variable isof : bool -> bool.

  Inductive rinst : inst -> inst -> Prop :=
  | RInst c fills fills' : rfills fills fills' -> rinst (Inst c fills true) (Inst c fills' true)
  with rfills : list (str * closure) -> list (str * closure) -> Prop :=
  | RNil : rfills [] []
  | RCons n c c' r r' : rclo c c' -> rfills r r' -> rfills ((n, c) :: r) ((n, c') :: r')
  with rclo : closure -> closure -> Prop :=
  | RClo body btw cloc cout btw' cloc' cout' dv defv o o' cprov :
      iso_tpls isof body = true ->
      (forall x, In x (tpls_names body) -> lk x (btw ++ cloc) cout = lk x (btw' ++ cloc') cout') ->
      ropt o o' ->
      rclo (Clo body btw cloc cout dv defv o cprov) (Clo body btw' cloc' cout' dv defv o' cprov)
  with ropt : option inst -> option inst -> Prop :=
  | RNone : ropt None None
  | RSome i i' : rinst i i' -> ropt (Some i) (Some i').

  Definition rstate (V : list str) (st st' : state) : Prop :=
    (forall x, In x V -> lookup x st = lookup x st') /\ prov st = prov st' /\ ropt (cur st) (cur st').

  Lemma rstate_incl V W st st' : incl W V -> rstate V st st' -> rstate W st st'.
  Proof. intros Hi [H1 [H2 H3]]. split; [|split]; auto. Qed.

  Lemma rstate_bind V st st' x v : rstate V st st' -> rstate V (bind_loc x v st) (bind_loc x v st').
  Proof.
    intros [H1 [H2 H3]]. split; [|split]; auto.
    intros y Hy. unfold lookup, bind_loc. cbn [loc out slookup].
    destruct (str_eqb y x); [reflexivity|]. apply (H1 y Hy).
  Qed.

  Lemma rfills_app a a' b b' : rfills a a' -> rfills b b' -> rfills (a ++ b) (a' ++ b').
  Proof. intros Ha Hb. induction Ha; [exact Hb|]. cbn [app]. constructor; assumption. Qed.

  Lemma rfills_lookup n fs fs' : rfills fs fs' ->
    match slookup n fs, slookup n fs' with
    | Some c, Some c' => rclo c c'
    | None, None => True
    | _, _ => False
    end.
  Proof.
    intro H. induction H as [|m c c' r r' Hc Hr IH]; cbn [slookup]; [exact I|].
    destruct (str_eqb n m); [exact Hc | exact IH].
  Qed.

  Lemma rfills_names fs fs' : rfills fs fs' -> map fst fs = map fst fs'.
  Proof. intro H. induction H; cbn [map fst]; [reflexivity|]. f_equal. assumption. Qed.

  Lemma rfills_smem n fs fs' : rfills fs fs' -> smem n fs = smem n fs'.
  Proof.
    intro H. unfold smem. pose proof (rfills_lookup n _ _ H) as L.
    destruct (slookup n fs), (slookup n fs'); try reflexivity; contradiction.
  Qed.

  Lemma rfills_filled s fs fs' : rfills fs fs' ->
    existsb (fun kc : str * closure => str_eqb (escape_name (fst kc)) s) fs =
    existsb (fun kc : str * closure => str_eqb (escape_name (fst kc)) s) fs'.
  Proof. intro H. induction H; cbn [existsb fst]; [reflexivity|]. rewrite IHrfills. reflexivity. Qed.

  (* ---------- expressions ---------- *)
  Lemma eval_rel V st st' e : incl (expr_names e) V -> rstate V st st' -> eval e st = eval e st'.
  Proof.
    intros Hi [H1 [H2 H3]]. destruct e as [s|x|x f|s|]; cbn [eval expr_names] in *.
    - reflexivity.
    - rewrite (H1 x); [reflexivity|]. apply Hi. left. reflexivity.
    - rewrite (H1 x); [reflexivity|]. apply Hi. left. reflexivity.
    - inversion H3 as [E1 E2|i i' Hr E1 E2]; [reflexivity|].
      inversion Hr as [c fs fs' Hf]; subst. cbn [inst_fills]. rewrite (rfills_filled s _ _ Hf). reflexivity.
    - rewrite (H1 counter_key); [reflexivity|]. apply Hi. left. reflexivity.
  Qed.

  Lemma eval_kwargs_rel V st st' kw : incl (kw_names kw) V -> rstate V st st' -> eval_kwargs kw st = eval_kwargs kw st'.
  Proof.
    intros Hi Hr. unfold eval_kwargs. induction kw as [|[k e] r IH]; [reflexivity|].
    cbn [map fst snd]. unfold kw_names in Hi. cbn [flat_map snd] in Hi. apply incl_app_inv in Hi as [Ha Hb].
    rewrite (eval_rel V st st' e Ha Hr). f_equal. apply IH. exact Hb.
  Qed.

  (* ---------- fill discovery ---------- *)
  Definition rext (r r' : res (str * list (str * closure))) : Prop :=
    match r, r' with
    | Ok a, Ok a' => fst a = fst a' /\ rfills (snd a) (snd a')
    | Err k, Err k' => k = k'
    | OutOfFuel, OutOfFuel => True
    | _, _ => False
    end.

  Definition benv_agree (V : list str) (b b' : env) : Prop := forall x, In x V -> slookup x b = slookup x b'.

  Lemma benv_cons V b b' x v : benv_agree V b b' -> benv_agree V ((x, v) :: b) ((x, v) :: b').
  Proof. intros H y Hy. cbn [slookup]. destruct (str_eqb y x); [reflexivity|]. apply H. exact Hy. Qed.

  Lemma rext_bind2 r1 r1' r2 r2' :
    rext r1 r1' -> rext r2 r2' ->
    rext (bind r1 (fun a => bind r2 (fun b => Ok (fst a ++ fst b, snd a ++ snd b))))
         (bind r1' (fun a => bind r2' (fun b => Ok (fst a ++ fst b, snd a ++ snd b)))).
  Proof.
    intros H1 H2. destruct r1 as [a|k|], r1' as [a'|k'|]; cbn [rext bind] in *; try contradiction; try assumption.
    destruct H1 as [E1 F1].
    destruct r2 as [b|k|], r2' as [b'|k'|]; cbn [rext bind] in *; try contradiction; try assumption.
    destruct H2 as [E2 F2]. cbn [fst snd]. split; [congruence|]. apply rfills_app; assumption.
  Qed.

  Lemma extract_rel tagprov : forall t V st st' btw btw',
    iso_tpl isof t = true -> incl (tpl_names t) V -> rstate V st st' -> benv_agree V btw btw' ->
    rext (extract tagprov st btw t) (extract tagprov st' btw' t).
  Proof.
    apply (tpl_ind2
      (fun t => forall V st st' btw btw',
         iso_tpl isof t = true -> incl (tpl_names t) V -> rstate V st st' -> benv_agree V btw btw' ->
         rext (extract tagprov st btw t) (extract tagprov st' btw' t))
      (fun ts => forall V st st' btw btw',
         iso_tpls isof ts = true -> incl (tpls_names ts) V -> rstate V st st' -> benv_agree V btw btw' ->
         rext (extract_list tagprov st btw ts) (extract_list tagprov st' btw' ts))).
    - (* nil *) intros. cbn. split; [reflexivity|constructor].
    - (* cons *) intros t r IHt IHr V st st' btw btw' Hiso Hin Hst Hb.
      cbn [iso_tpls] in Hiso. apply andb_true_iff in Hiso as [I1 I2].
      cbn [tpls_names] in Hin. apply incl_app_inv in Hin as [N1 N2].
      cbn [extract_list]. apply rext_bind2; [apply (IHt V) | apply (IHr V)]; assumption.
    - (* text *) intros. cbn. split; [reflexivity|constructor].
    - (* out *) intros e V st st' btw btw' _ Hin Hst _. cbn [extract].
      rewrite (eval_rel V st st' e Hin Hst). cbn. split; [reflexivity|constructor].
    - (* if *) intros c a b IHa IHb V st st' btw btw' Hiso Hin Hst Hb.
      rewrite iso_If in Hiso. apply andb_true_iff in Hiso as [I1 I2].
      rewrite tpl_names_If in Hin. apply incl_app_inv in Hin as [N0 N12]. apply incl_app_inv in N12 as [N1 N2].
      cbn [extract]. rewrite !ex_list_eq. rewrite (eval_rel V st st' c N0 Hst).
      destruct (truthy (eval c st')); [apply (IHa V) | apply (IHb V)]; assumption.
    - (* for *) intros x e body IH V st st' btw btw' Hiso Hin Hst Hb.
      rewrite iso_For in Hiso. rewrite tpl_names_For in Hin. apply incl_app_inv in Hin as [N0 N1].
      cbn [extract]. rewrite (eval_rel V st st' e N0 Hst).
      generalize 1%N. induction (loop_items (eval e st')) as [|v r IHl]; intro i.
      + cbn. split; [reflexivity|constructor].
      + rewrite !ex_list_eq. apply rext_bind2.
        * apply (IH V); try assumption.
          -- apply rstate_bind. apply rstate_bind. exact Hst.
          -- apply benv_cons. apply benv_cons. exact Hb.
        * exact (IHl (N.succ i)).
    - (* with *) intros x e body IH V st st' btw btw' Hiso Hin Hst Hb.
      rewrite iso_With in Hiso. rewrite tpl_names_With in Hin. apply incl_app_inv in Hin as [N0 N1].
      cbn [extract]. rewrite !ex_list_eq. rewrite (eval_rel V st st' e N0 Hst).
      apply (IH V); try assumption.
      + apply rstate_bind. exact Hst.
      + apply benv_cons. exact Hb.
    - (* slot *) intros. cbn. split; [reflexivity|constructor].
    - (* fill *) intros n dv df body IH V st st' btw btw' Hiso Hin Hst Hb.
      rewrite iso_Fill in Hiso. rewrite tpl_names_Fill in Hin. apply incl_app_inv in Hin as [N0 N1].
      cbn [extract]. rewrite (eval_rel V st st' n N0 Hst).
      destruct (eval n st') as [[nm|l|fs]|b|k]; try (cbn; reflexivity).
      destruct (match dv, df with Some a, Some b => str_eqb a b | _, _ => false end); [cbn; reflexivity|].
      cbn. split; [reflexivity|]. constructor; [|constructor].
      destruct Hst as [H1 [H2 H3]]. constructor; [exact Hiso| |exact H3].
      intros x Hx. rewrite !lk_app. rewrite (Hb x (N1 x Hx)).
      destruct (slookup x btw'); [reflexivity|]. rewrite <- !lookup_lk. apply H1. apply N1. exact Hx.
    - (* comp *) intros. cbn. split; [reflexivity|constructor].
    - (* provide *) intros k kw body IH V st st' btw btw' Hiso Hin Hst Hb.
      rewrite iso_Provide in Hiso. rewrite tpl_names_Provide in Hin. apply incl_app_inv in Hin as [N0 N1].
      cbn [extract]. rewrite !ex_list_eq. destruct (is_ident k); [|cbn; reflexivity].
      apply (IH V); assumption.
  Qed.

  Lemma extract_list_rel tagprov : forall ts V st st' btw btw',
    iso_tpls isof ts = true -> incl (tpls_names ts) V -> rstate V st st' -> benv_agree V btw btw' ->
    rext (extract_list tagprov st btw ts) (extract_list tagprov st' btw' ts).
  Proof.
    induction ts as [|t r IH]; intros V st st' btw btw' Hiso Hin Hst Hb.
    - cbn. split; [reflexivity|constructor].
    - cbn [iso_tpls] in Hiso. apply andb_true_iff in Hiso as [I1 I2].
      cbn [tpls_names] in Hin. apply incl_app_inv in Hin as [N1 N2].
      cbn [extract_list]. apply rext_bind2; [apply (extract_rel tagprov t V) | apply (IH V)]; assumption.
  Qed.

  Definition rfres (r r' : res (list (str * closure))) : Prop :=
    match r, r' with
    | Ok a, Ok a' => rfills a a'
    | Err k, Err k' => k = k'
    | OutOfFuel, OutOfFuel => True
    | _, _ => False
    end.

  Lemma resolve_fills_rel V st st' body :
    iso_tpls isof body = true -> incl (tpls_names body) V -> rstate V st st' ->
    rfres (resolve_fills st body) (resolve_fills st' body).
  Proof.
    intros Hiso Hin Hst. unfold resolve_fills. destruct body as [|t r]; [constructor|].
    pose proof Hst as [H1 [H2 H3]]. rewrite <- H2.
    pose proof (extract_list_rel (prov st) (t :: r) V st st' [] [] Hiso Hin Hst (fun x _ => eq_refl)) as He.
    destruct (extract_list (prov st) st [] (t :: r)) as [[content fills]|k|],
             (extract_list (prov st) st' [] (t :: r)) as [[content' fills']|k'|]; cbn [rext bind fst snd] in *;
      try contradiction; try assumption.
    destruct He as [Ec Ef]. subst content'.
    destruct Ef as [|n c c' fr fr' Hc Hr].
    - destruct (body_is_empty (t :: r)); [constructor|].
      cbn. constructor; [|constructor]. constructor; [exact Hiso| |exact H3].
      intros x Hx. cbn [app]. rewrite <- !lookup_lk. apply H1. apply Hin. exact Hx.
    - destruct (negb (all_space content)); [reflexivity|].
      assert (Hn : map fst ((n, c) :: fr) = map fst ((n, c') :: fr')).
      { cbn [map fst]. f_equal. apply rfills_names. exact Hr. }
      rewrite Hn. destruct (has_dup (map fst ((n, c') :: fr'))); [reflexivity|].
      cbn. constructor; assumption.
  Qed.
End Rel.

(* ---------- libraries ---------- *)
Definition data_agree (V : list str) (r r' : res env) : Prop :=
  match r, r' with
  | Ok e, Ok e' => forall x, In x V -> slookup x e = slookup x e'
  | Err k, Err k' => k = k'
  | OutOfFuel, OutOfFuel => True
  | _, _ => False
  end.

Definition rcdef (isof : bool -> bool) (cd cd' : cdef) : Prop :=
  c_tpl cd = c_tpl cd' /\ iso_tpls isof (c_tpl cd) = true /\
  forall kw pv, data_agree (tpls_names (c_tpl cd)) (eval_data (c_data cd) kw pv) (eval_data (c_data cd') kw pv).

Definition rlib (isof : bool -> bool) (lib lib' : list (str * cdef)) : Prop :=
  forall c, match slookup c lib, slookup c lib' with
            | Some cd, Some cd' => rcdef isof cd cd'
            | None, None => True
            | _, _ => False
            end.

(* ---------- the relational rendering lemma ---------- *)
Section Main.
  Variables md md' : mode.
  Variables lib lib' : list (str * cdef).
  Let isof (only : bool) : bool := is_isolated md only && is_isolated md' only.
  Hypothesis Hlib : rlib isof lib lib'.

  Section Step.
    Variables rec rec' : state -> tpl -> res str.
    Hypothesis Hrec : forall V st st' t,
      iso_tpl isof t = true -> incl (tpl_names t) V -> rstate isof V st st' -> rec st t = rec' st' t.

    Lemma rl_rel : forall ts V st st',
      iso_tpls isof ts = true -> incl (tpls_names ts) V -> rstate isof V st st' -> rl rec st ts = rl rec' st' ts.
    Proof.
      induction ts as [|t r IH]; intros V st st' Hiso Hin Hst; [reflexivity|].
      cbn [iso_tpls] in Hiso. apply andb_true_iff in Hiso as [I1 I2].
      cbn [tpls_names] in Hin. apply incl_app_inv in Hin as [N1 N2].
      cbn [rl]. rewrite (Hrec V st st' t I1 N1 Hst). rewrite (IH V st st' I2 N2 Hst). reflexivity.
    Qed.

    Lemma rloop_rel x body vs : forall V st st' i,
      iso_tpls isof body = true -> incl (tpls_names body) V -> rstate isof V st st' ->
      rloop rec x st body vs i = rloop rec' x st' body vs i.
    Proof.
      induction vs as [|v r IH]; intros V st st' i Hiso Hin Hst; [reflexivity|].
      cbn [rloop]. rewrite (rl_rel body V _ (bind_loc x v (bind_loc counter_key (VStr (num_str i)) st')) Hiso Hin).
      - rewrite (IH V st st' (N.succ i) Hiso Hin Hst). reflexivity.
      - apply rstate_bind. apply rstate_bind. exact Hst.
    Qed.

    Lemma render_step_rel V st st' t :
      iso_tpl isof t = true -> incl (tpl_names t) V -> rstate isof V st st' ->
      render_step md lib rec st t = render_step md' lib' rec' st' t.
    Proof.
      intros Hiso Hin Hst.
      destruct t as [s|e|c a b|x e body|x e body|name isd isr data body|nm dv defv body|cname kw only body|key kw body];
        cbn [render_step].
      - reflexivity.
      - rewrite (eval_rel isof V st st' e Hin Hst). reflexivity.
      - rewrite iso_If in Hiso. apply andb_true_iff in Hiso as [I1 I2].
        rewrite tpl_names_If in Hin. apply incl_app_inv in Hin as [N0 N12]. apply incl_app_inv in N12 as [N1 N2].
        rewrite (eval_rel isof V st st' c N0 Hst).
        destruct (truthy (eval c st')); apply (rl_rel _ V); assumption.
      - rewrite iso_For in Hiso. rewrite tpl_names_For in Hin. apply incl_app_inv in Hin as [N0 N1].
        rewrite (eval_rel isof V st st' e N0 Hst). apply (rloop_rel _ _ _ V); assumption.
      - rewrite iso_With in Hiso. rewrite tpl_names_With in Hin. apply incl_app_inv in Hin as [N0 N1].
        rewrite (eval_rel isof V st st' e N0 Hst). apply (rl_rel _ V); try assumption.
        apply rstate_bind. exact Hst.
      - (* slot *)
        rewrite iso_Slot in Hiso. rewrite tpl_names_Slot in Hin. apply incl_app_inv in Hin as [N0 N1].
        pose proof Hst as [H1 [H2 H3]].
        inversion H3 as [E1 E2|i i' Hr E1 E2]; [reflexivity|].
        inversion Hr as [cn fills fills' Hf]; subst i i'.
        unfold double_filled, fill_name_of.
        rewrite (rfills_smem isof name _ _ Hf), (rfills_smem isof default_key _ _ Hf).
        destruct (isd && negb (str_eqb name default_key) && smem name fills' && smem default_key fills'); [reflexivity|].
        pose proof (rfills_lookup isof (if isd && smem default_key fills' then default_key else name) _ _ Hf) as L.
        destruct (slookup (if isd && smem default_key fills' then default_key else name) fills) as [c|],
                 (slookup (if isd && smem default_key fills' then default_key else name) fills') as [c'|];
          try contradiction.
        + inversion L as [cb btw cloc cout btw' cloc' cout' cdv cdefv o o' cprov Ib Hl Ho]; subst c c'.
          cbn [clo_defvar clo_dvar clo_body].
          rewrite (eval_kwargs_rel isof V st st' data N0 Hst).
          assert (Hfs : forall al,
            rl rec (fill_state true st al (Clo cb btw cloc cout cdv cdefv o cprov)) cb =
            rl rec' (fill_state true st' al (Clo cb btw' cloc' cout' cdv cdefv o' cprov)) cb).
          { intro al. apply (rl_rel cb (tpls_names cb)); [exact Ib | apply incl_refl |].
            split; [|split]; cbn [fill_state loc out cur prov].
            - intros x Hx. rewrite !lookup_lk. cbn [loc out]. rewrite !lk_app.
              destruct (slookup x al); [reflexivity|]. rewrite <- !lk_app. apply Hl. exact Hx.
            - rewrite H2. reflexivity.
            - exact Ho. }
          destruct cdefv as [dn|].
          * rewrite (rl_rel body V st st' Hiso N1 Hst). destruct (rl rec' st' body) as [d|k|]; cbn [bind]; try reflexivity.
            apply Hfs.
          * cbn [bind]. apply Hfs.
        + destruct isr; [reflexivity|]. apply (rl_rel _ V); assumption.
      - reflexivity.
      - (* comp *)
        rewrite iso_Comp in Hiso. apply andb_true_iff in Hiso as [I0 I1].
        unfold isof in I0. apply andb_true_iff in I0 as [Ia Ib].
        rewrite tpl_names_Comp in Hin. apply incl_app_inv in Hin as [N0 N1].
        pose proof Hst as [H1 [H2 H3]].
        rewrite (eval_kwargs_rel isof V st st' kw N0 Hst).
        pose proof (Hlib cname) as Hc.
        destruct (slookup cname lib) as [cd|], (slookup cname lib') as [cd'|]; try contradiction; [|reflexivity].
        destruct Hc as [Et [It Hd]].
        pose proof (resolve_fills_rel isof V st st' body I1 N1 Hst) as Hf.
        destruct (resolve_fills st body) as [fills|k|], (resolve_fills st' body) as [fills'|k'|];
          cbn [rfres bind] in *; try contradiction; try (subst; reflexivity).
        specialize (Hd (eval_kwargs kw st') (prov st)). rewrite H2 in Hd at 2.
        destruct (eval_data (c_data cd) (eval_kwargs kw st') (prov st)) as [data|k|],
                 (eval_data (c_data cd') (eval_kwargs kw st') (prov st')) as [data'|k'|];
          cbn [data_agree bind] in *; try contradiction; try (subst; reflexivity).
        rewrite Ia, Ib, <- Et.
        apply (rl_rel (c_tpl cd) (tpls_names (c_tpl cd))); [exact It | apply incl_refl |].
        unfold comp_state. split; [|split]; cbn [loc out cur prov].
        + intros x Hx. unfold lookup. cbn [loc out]. rewrite (Hd x Hx). reflexivity.
        + exact H2.
        + constructor. constructor. exact Hf.
      - (* provide *)
        rewrite iso_Provide in Hiso. rewrite tpl_names_Provide in Hin. apply incl_app_inv in Hin as [N0 N1].
        destruct (is_ident key); [|reflexivity].
        rewrite (eval_kwargs_rel isof V st st' kw N0 Hst).
        apply (rl_rel _ V); try assumption.
        destruct Hst as [H1 [H2 H3]]. split; [|split]; cbn [loc out cur prov]; [exact H1 | rewrite H2; reflexivity | exact H3].
    Qed.
  End Step.

  Lemma render_rel : forall f V st st' t,
    iso_tpl isof t = true -> incl (tpl_names t) V -> rstate isof V st st' ->
    render md lib f st t = render md' lib' f st' t.
  Proof.
    induction f as [|f IH]; intros V st st' t Hiso Hin Hst; [reflexivity|].
    cbn [render]. apply (render_step_rel _ _ IH V); assumption.
  Qed.

  Lemma render_list_rel f V st st' ts :
    iso_tpls isof ts = true -> incl (tpls_names ts) V -> rstate isof V st st' ->
    render_list md lib f st ts = render_list md' lib' f st' ts.
  Proof. intros. unfold render_list. apply (rl_rel _ _ (render_rel f) ts V); assumption. Qed.
End Main.

(* ---------- whole programs ---------- *)
Definition mkprog (lib : list (str * cdef)) (page : list tpl) (ctx : env) (md : mode) : prog :=
  {| p_lib := lib; p_page := page; p_ctx := ctx; p_mode := md |}.

Definition both_isolated (md md' : mode) (only : bool) : bool := is_isolated md only && is_isolated md' only.

(* The general statement: two runs of the same page under two context behaviours, two libraries and two page contexts.
   If every component tag is rendered isolated in both runs, the libraries have the same templates and their
   get_context_data results agree on the names each component's own template mentions, and the page contexts agree
   on the names the PAGE template mentions, then the two runs give the same result (output or error). *)
Lemma program_noninterference_lemma md md' lib lib' page ctx ctx' fuel :
  rlib (both_isolated md md') lib lib' ->
  iso_tpls (both_isolated md md') page = true ->
  (forall x, In x (tpls_names page) -> slookup x ctx = slookup x ctx') ->
  render_prog fuel (mkprog lib page ctx md) = render_prog fuel (mkprog lib' page ctx' md').
Proof.
  intros Hlib Hiso Hctx. unfold render_prog, mkprog. cbn [p_lib p_page p_ctx p_mode].
  apply (render_list_rel md md' lib lib' Hlib fuel (tpls_names page)); [exact Hiso | apply incl_refl |].
  split; [|split]; cbn [loc out cur prov]; [|reflexivity|constructor].
  intros x Hx. unfold lookup. cbn [loc out]. rewrite (Hctx x Hx). reflexivity.
Qed.

Lemma data_agree_refl V r : data_agree V r r.
Proof. destruct r; cbn; auto. Qed.

Lemma both_isolated_Isolated o : both_isolated Isolated Isolated o = true.
Proof. unfold both_isolated, is_isolated. rewrite orb_true_r. reflexivity. Qed.

(* one more data variable at the end of get_context_data's result *)
Definition with_secret (z s : str) (cd : cdef) : cdef :=
  {| c_tpl := c_tpl cd; c_data := c_data cd ++ [(z, DStr s)] |}.

Definition lib_with_secrets (zn sv : str -> str) (lib : list (str * cdef)) : list (str * cdef) :=
  map (fun nc => (fst nc, with_secret (zn (fst nc)) (sv (fst nc)) (snd nc))) lib.

Lemma eval_data_secret ds z s kw pv :
  eval_data (ds ++ [(z, DStr s)]) kw pv = bind (eval_data ds kw pv) (fun e => Ok ((z, VStr s) :: e)).
Proof.
  induction ds as [|[x d] r IH]; [reflexivity|].
  cbn [app eval_data]. rewrite IH.
  destruct (match d with
            | DKw k => Ok match slookup k kw with Some v => v | None => VStr [] end
            | DStr s0 => Ok (VStr s0)
            | DInject key field dflt =>
                match slookup key pv with
                | Some fs => match slookup field fs with Some v => Ok v | None => Err EAttribute end
                | None => match dflt with Some d0 => Ok (VStr d0) | None => Err EKey end
                end
            end) as [v|k|]; cbn [bind]; try reflexivity.
  destruct (eval_data r kw pv) as [e|k|]; cbn [bind]; reflexivity.
Qed.

Lemma slookup_lib_with_secrets zn sv lib c :
  slookup c (lib_with_secrets zn sv lib) =
  match slookup c lib with Some cd => Some (with_secret (zn c) (sv c) cd) | None => None end.
Proof.
  induction lib as [|[n cd] r IH]; [reflexivity|].
  cbn [lib_with_secrets map fst snd slookup]. destruct (str_eqb c n) eqn:E.
  - apply str_eqb_eq in E. subst. reflexivity.
  - exact IH.
Qed.

Lemma str_eqb_neq a b : a <> b -> str_eqb a b = false.
Proof. intro H. destruct (str_eqb a b) eqn:E; [|reflexivity]. apply str_eqb_eq in E. contradiction. Qed.

Lemma rlib_secrets isof zn sv sv' lib :
  (forall c cd, slookup c lib = Some cd -> iso_tpls isof (c_tpl cd) = true /\ ~ In (zn c) (tpls_names (c_tpl cd))) ->
  rlib isof (lib_with_secrets zn sv lib) (lib_with_secrets zn sv' lib).
Proof.
  intros H c. rewrite !slookup_lib_with_secrets. destruct (slookup c lib) as [cd|] eqn:E; [|exact I].
  destruct (H c cd E) as [Hi Hz]. split; [reflexivity|]. split; [exact Hi|].
  intros kw pv. cbn [with_secret c_tpl c_data]. rewrite !eval_data_secret.
  destruct (eval_data (c_data cd) kw pv) as [e|k|]; cbn [bind data_agree]; auto.
  intros x Hx. cbn [slookup]. rewrite str_eqb_neq; [reflexivity|]. intro Eq. subst. contradiction.
Qed.

(* isolated mode, both directions at once: the page contexts may differ in every variable the page template does not
   mention (e.g. variables only component templates read), and every component may have one more data variable, with
   different values in the two runs, that its own template does not mention (but the caller's fill content may) *)
Lemma isolated_noninterference_both_lemma lib page ctx ctx' zn sv sv' fuel :
  (forall c cd, slookup c lib = Some cd -> ~ In (zn c) (tpls_names (c_tpl cd))) ->
  (forall x, In x (tpls_names page) -> slookup x ctx = slookup x ctx') ->
  render_prog fuel (mkprog (lib_with_secrets zn sv lib) page ctx Isolated) =
  render_prog fuel (mkprog (lib_with_secrets zn sv' lib) page ctx' Isolated).
Proof.
  intros Hz Hctx. apply program_noninterference_lemma.
  - apply rlib_secrets. intros c cd E. split; [|exact (Hz c cd E)].
    apply iso_all_true_list. exact both_isolated_Isolated.
  - apply iso_all_true_list. exact both_isolated_Isolated.
  - exact Hctx.
Qed.

Lemma rlib_refl isof lib :
  (forall c cd, slookup c lib = Some cd -> iso_tpls isof (c_tpl cd) = true) -> rlib isof lib lib.
Proof.
  intros H c. destruct (slookup c lib) as [cd|] eqn:E; [|exact I].
  split; [reflexivity|]. split; [exact (H c cd E)|]. intros. apply data_agree_refl.
Qed.

(* outer -> inner only: same library *)
Lemma isolated_noninterference_outer_lemma lib page ctx ctx' fuel :
  (forall x, In x (tpls_names page) -> slookup x ctx = slookup x ctx') ->
  render_prog fuel (mkprog lib page ctx Isolated) = render_prog fuel (mkprog lib page ctx' Isolated).
Proof.
  intro Hctx. apply program_noninterference_lemma; [| |exact Hctx].
  - apply rlib_refl. intros. apply iso_all_true_list. exact both_isolated_Isolated.
  - apply iso_all_true_list. exact both_isolated_Isolated.
Qed.

(* `only` on every tag: the context behaviour does not matter *)
Lemma iso_ext f g (H : forall o, f o = g o) : forall t, iso_tpl f t = iso_tpl g t.
Proof.
  apply (tpl_ind2 (fun t => iso_tpl f t = iso_tpl g t) (fun ts => iso_tpls f ts = iso_tpls g ts)); intros;
    try reflexivity.
  - cbn [iso_tpls]. rewrite H0, H1. reflexivity.
  - rewrite !iso_If, H0, H1. reflexivity.
  - rewrite !iso_For. assumption.
  - rewrite !iso_With. assumption.
  - rewrite !iso_Slot. assumption.
  - rewrite !iso_Fill. assumption.
  - rewrite !iso_Comp, H, H0. reflexivity.
  - rewrite !iso_Provide. assumption.
Qed.

Lemma iso_ext_list f g (H : forall o, f o = g o) : forall ts, iso_tpls f ts = iso_tpls g ts.
Proof. induction ts as [|t r IH]; [reflexivity|]. cbn [iso_tpls]. rewrite (iso_ext f g H t), IH. reflexivity. Qed.

Definition all_only (ts : list tpl) : bool := iso_tpls (fun only => only) ts.

Lemma only_everywhere_mode_irrelevant_lemma lib page ctx fuel :
  all_only page = true ->
  (forall c cd, slookup c lib = Some cd -> all_only (c_tpl cd) = true) ->
  render_prog fuel (mkprog lib page ctx Django) = render_prog fuel (mkprog lib page ctx Isolated).
Proof.
  intros Hp Hl.
  assert (E : forall o, both_isolated Django Isolated o = (fun only : bool => only) o).
  { intro o. unfold both_isolated, is_isolated. destruct o; reflexivity. }
  apply program_noninterference_lemma.
  - apply rlib_refl. intros c cd Hc. rewrite (iso_ext_list _ _ E). exact (Hl c cd Hc).
  - rewrite (iso_ext_list _ _ E). exact Hp.
  - reflexivity.
Qed.

(* in django mode too, as long as every tag carries `only` *)
Lemma only_everywhere_noninterference_lemma md lib page ctx ctx' zn sv sv' fuel :
  all_only page = true ->
  (forall c cd, slookup c lib = Some cd -> all_only (c_tpl cd) = true /\ ~ In (zn c) (tpls_names (c_tpl cd))) ->
  (forall x, In x (tpls_names page) -> slookup x ctx = slookup x ctx') ->
  render_prog fuel (mkprog (lib_with_secrets zn sv lib) page ctx md) =
  render_prog fuel (mkprog (lib_with_secrets zn sv' lib) page ctx' md).
Proof.
  intros Hp Hl Hctx.
  assert (M : forall ts, all_only ts = true -> iso_tpls (both_isolated md md) ts = true).
  { intros ts Hts. destruct md.
    - apply iso_all_true_list. exact both_isolated_Isolated.
    - rewrite (iso_ext_list (both_isolated Django Django) (fun only => only)); [exact Hts|].
      intro o. destruct o; reflexivity. }
  apply program_noninterference_lemma.
  - apply rlib_secrets. intros c cd Hc. destruct (Hl c cd Hc) as [A B]. split; [apply M; exact A | exact B].
  - apply M. exact Hp.
  - exact Hctx.
Qed.
