(* The component calculus (DESIGN 5.2): syntax of generated programs and the value domain. *)
From DJC Require Import Lib.Base.

Inductive value :=
| VStr (s : str)
| VList (l : list value)
| VRec (fs : list (str * value)).

Definition env := list (str * value).   (* newest binding first *)

Inductive expr :=
| EStr (s : str)                 (* "literal" *)
| EVar (x : str)                 (* {{ x }} *)
| EDot (x f : str)               (* {{ x.f }} : field of a record (slot data) *)
| EFilled (slot : str)           (* component_vars.is_filled.<slot> *)
| ECounter.                      (* forloop.counter *)

Inductive tpl :=
| TText (s : str)
| TOut (e : expr)
| TIf (c : expr) (a b : list tpl)
| TFor (x : str) (e : expr) (body : list tpl)
| TWith (x : str) (e : expr) (body : list tpl)
| TSlot (name : str) (is_default is_required : bool) (data : list (str * expr)) (body : list tpl)
| TFill (name : expr) (dvar defvar : option str) (body : list tpl)
| TComp (cname : str) (kwargs : list (str * expr)) (only : bool) (body : list tpl)
| TProvide (key : str) (kwargs : list (str * expr)) (body : list tpl).

(* get_context_data: the template variables of a component, each computed from the keyword
   arguments, a constant, or inject(). *)
Inductive dexpr :=
| DKw (k : str)                                   (* kwargs.get(k, "") *)
| DStr (s : str)
| DInject (key field : str) (dflt : option str).  (* self.inject(key, dflt).field  /  dflt *)

Record cdef := { c_tpl : list tpl; c_data : list (str * dexpr) }.

Inductive mode := Isolated | Django.

Record prog := {
  p_lib : list (str * cdef);
  p_page : list tpl;
  p_ctx : env;
  p_mode : mode
}.

Inductive errkind := ETemplateSyntax | EKey | EAttribute | ENotRegistered | ERuntime | EType.

Inductive res (A : Type) := Ok (a : A) | Err (k : errkind) | OutOfFuel.
Arguments Ok {A} a.
Arguments Err {A} k.
Arguments OutOfFuel {A}.

Definition bind {A B} (r : res A) (f : A -> res B) : res B :=
  match r with Ok a => f a | Err k => Err k | OutOfFuel => OutOfFuel end.

(* string-keyed association lists *)
Fixpoint slookup {V} (k : str) (l : list (str * V)) : option V :=
  match l with
  | [] => None
  | (k', v) :: r => if str_eqb k k' then Some v else slookup k r
  end.

Definition smem {V} (k : str) (l : list (str * V)) : bool :=
  match slookup k l with Some _ => true | None => false end.
