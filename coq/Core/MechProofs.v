(* Proofs about the mechanism-level model Core/Mech.v:
   1. ctx_restored            every push has its pop: ANY node, any state, any fuel, both modes leaves the Context it was
                              rendered on with the object identity and the layer list it found (success path)
   2. cctx_stable             component_context_cache entries are private to their instance: rendering anything never
                              changes (name, fills, outer context) of an entry that exists already, ids only grow
   3. mech_refines_sem_...    M = S for the fragment described at wf_prog *)
From DJC Require Import Lib.Base Core.Syntax Core.Sem Core.Proofs Core.Mech.
From DJC Require Core.CtxStack.
From Coq Require Import String.
Local Open Scope string_scope.
Local Open Scope list_scope.

(* ---------- induction principle for templates (nested lists) ---------- *)
Section TplInd.
  Variable P : tpl -> Prop.
  Variable Q : list tpl -> Prop.
  Hypothesis Hnil : Q [].
  Hypothesis Hcons : forall t r, P t -> Q r -> Q (t :: r).
  Hypothesis HText : forall s, P (TText s).
  Hypothesis HOut : forall e, P (TOut e).
  Hypothesis HIf : forall c a b, Q a -> Q b -> P (TIf c a b).
  Hypothesis HFor : forall x e body, Q body -> P (TFor x e body).
  Hypothesis HWith : forall x e body, Q body -> P (TWith x e body).
  Hypothesis HSlot : forall n d r data body, Q body -> P (TSlot n d r data body).
  Hypothesis HFill : forall n dv df body, Q body -> P (TFill n dv df body).
  Hypothesis HComp : forall c kw o body, Q body -> P (TComp c kw o body).
  Hypothesis HProvide : forall k kw body, Q body -> P (TProvide k kw body).

  Fixpoint tpl_ind3 (t : tpl) : P t :=
    let li := fix li (ts : list tpl) : Q ts :=
      match ts with [] => Hnil | t :: r => Hcons t r (tpl_ind3 t) (li r) end in
    match t with
    | TText s => HText s
    | TOut e => HOut e
    | TIf c a b => HIf c a b (li a) (li b)
    | TFor x e body => HFor x e body (li body)
    | TWith x e body => HWith x e body (li body)
    | TSlot n d r data body => HSlot n d r data body (li body)
    | TFill n dv df body => HFill n dv df body (li body)
    | TComp c kw o body => HComp c kw o body (li body)
    | TProvide k kw body => HProvide k kw body (li body)
    end.

  Fixpoint tpls_ind3 (ts : list tpl) : Q ts :=
    match ts with [] => Hnil | t :: r => Hcons t r (tpl_ind3 t) (tpls_ind3 r) end.
End TplInd.

(* ---------- mbind ---------- *)
Lemma mbind_ok_inv {A B} (r : mres A) (f : A -> mres B) b :
  mbind r f = MOk b -> exists a, r = MOk a /\ f a = MOk b.
Proof. destruct r; simpl; intro H; try discriminate. eauto. Qed.

(* ---------- layer lists ---------- *)
Lemma with_dicts_eta c : with_dicts c (dicts c) = c.
Proof. destruct c; reflexivity. Qed.

Lemma with_dicts_twice c a b : with_dicts (with_dicts c a) b = with_dicts c b.
Proof. reflexivity. Qed.

Lemma cpop_cpush d ds : cpop (cpush d ds) = ds.
Proof. apply removelast_last. Qed.

Lemma cset_snoc k v ds d : cset k v (ds ++ [d]) = ds ++ [lset k v d].
Proof.
  induction ds as [|x r IH]; [reflexivity|].
  change ((x :: r) ++ [d]) with (x :: (r ++ [d])).
  destruct (r ++ [d]) as [|y l] eqn:E; [destruct r; discriminate|].
  change (cset k v (x :: y :: l)) with (x :: cset k v (y :: l)). rewrite IH. reflexivity.
Qed.

Lemma snoc_cases {A} (l : list A) : l = [] \/ exists r x, l = r ++ [x].
Proof.
  destruct l as [|a l]; [left; reflexivity|right].
  exists (removelast (a :: l)), (last (a :: l) a). apply app_removelast_last. discriminate.
Qed.

Lemma cpop_cset k v ds : cpop (cset k v ds) = cpop ds.
Proof.
  destruct (snoc_cases ds) as [->|[r [x ->]]]; [reflexivity|].
  rewrite cset_snoc. unfold cpop. rewrite !removelast_last. reflexivity.
Qed.

(* ---------- Python insert / pop at the index computed by render_func ---------- *)
(* the insert(i)/pop(i) pair of render_func followed by the pop of the enclosing with-block restores the list,
   whatever index is found - also i = -1, where pop(-1) removes the top layer instead of the inserted one *)
Lemma fill_frame_restores_gen {A} (f : A -> bool) (c : list A) (top e : A) :
  let ds := c ++ [top] in
  let i := ((match CtxStack.get_last_index f ds with Some i => Z.of_nat i | None => 0%Z end) - 1)%Z in
  exists ds', CtxStack.py_popZ i (CtxStack.py_insertZ i e ds) = Some ds' /\ removelast ds' = c.
Proof.
  cbn zeta.
  destruct (CtxStack.get_last_index f (c ++ [top])) as [k|] eqn:E.
  - apply CtxStack.get_last_index_lt in E. rewrite app_length in E. cbn [List.length] in E.
    destruct k as [|k].
    + change (Z.of_nat 0 - 1)%Z with (-1)%Z. rewrite CtxStack.insert_minus1, CtxStack.pop2_minus1.
      eexists. split; [reflexivity|]. apply removelast_last.
    + replace (Z.of_nat (S k) - 1)%Z with (Z.of_nat k) by lia.
      rewrite CtxStack.insert_pop_nonneg by (rewrite app_length; cbn [List.length]; lia).
      eexists. split; [reflexivity|]. apply removelast_last.
  - change (0 - 1)%Z with (-1)%Z. rewrite CtxStack.insert_minus1, CtxStack.pop2_minus1.
    eexists. split; [reflexivity|]. apply removelast_last.
Qed.

(* ======================================================================================================== *)
(* 1. every push has its pop                                                                                  *)
(* ======================================================================================================== *)
Definition restores (f : gstate -> ctxt -> mres R) : Prop :=
  forall g c a g' c', f g c = MOk (a, g', c') -> c' = c.

Definition rec_restores (rec : gstate -> ctxt -> tpl -> mres R) : Prop :=
  forall g c t a g' c', rec g c t = MOk (a, g', c') -> c' = c.

Lemma mfor_items_below x bodyf vs : restores bodyf ->
  forall i g c a g' c', mfor_items x bodyf vs i g c = MOk (a, g', c') ->
  oid c' = oid c /\ cpop (dicts c') = cpop (dicts c).
Proof.
  intro Hb. induction vs as [|v r IH]; intros i g c a g' c' H; cbn [mfor_items] in H.
  - inversion H; subst. split; reflexivity.
  - apply mbind_ok_inv in H as [[[a1 g1] c1] [H1 H2]].
    apply mbind_ok_inv in H2 as [[[a2 g2] c2] [H2 H3]]. inversion H3; subst.
    apply Hb in H1. subst c1. apply IH in H2 as [Ho Hp]. cbn [oid dicts with_dicts] in *.
    split; [exact Ho|]. rewrite Hp, !cpop_cset. reflexivity.
Qed.

Lemma push_pop_id c d : with_dicts (with_dicts c (cpush d (dicts c))) (cpop (dicts (with_dicts c (cpush d (dicts c))))) = c.
Proof. destruct c as [o ds]. unfold with_dicts. cbn [oid dicts]. rewrite cpop_cpush. reflexivity. Qed.

Lemma mfor_restores x seq bodyf : restores bodyf -> restores (mfor x seq bodyf).
Proof.
  intros Hb g c a g' c' H. unfold mfor in H.
  apply mbind_ok_inv in H as [vs [_ H]]. cbn zeta in H.
  destruct vs as [|v r].
  - inversion H; subst. apply push_pop_id.
  - apply mbind_ok_inv in H as [[[a1 g1] c1] [H1 H2]]. inversion H2; subst.
    apply (mfor_items_below _ _ _ Hb) in H1 as [Ho Hp]. cbn [oid dicts with_dicts] in *.
    rewrite cpop_cpush in Hp. destruct c1 as [o1 d1], c as [o d]. cbn in *. subst. reflexivity.
Qed.

Lemma mwith_restores x v bodyf : restores bodyf -> restores (mwith x v bodyf).
Proof.
  intros Hb g c a g' c' H. unfold mwith in H.
  apply mbind_ok_inv in H as [[[a1 g1] c1] [H1 H2]]. inversion H2; subst.
  apply Hb in H1. subst c1. apply push_pop_id.
Qed.

Lemma mprovide_restores key kw bodyf : restores bodyf -> restores (mprovide key kw bodyf).
Proof.
  intros Hb g c a g' c' H. unfold mprovide in H.
  destruct (mkwargs kw (dicts c)); [|discriminate].
  destruct (negb (is_ident key)); [discriminate|].
  destruct (fresh g) as [pid g1].
  apply mbind_ok_inv in H as [[[a1 g2] c1] [H1 H2]]. inversion H2; subst.
  apply Hb in H1. subst c1. destruct c as [o ds]. unfold with_dicts. cbn [oid dicts]. rewrite cpop_cset, cpop_cpush. reflexivity.
Qed.

Lemma mfill_restores name dv defv body : restores (mfill name dv defv body).
Proof.
  intros g c a g' c' H. unfold mfill in H.
  destruct (meval name (dicts c)) as [[s|l|fs]| | | | | | |]; try discriminate.
  destruct (negb (opt_ident_ok dv) || negb (opt_ident_ok defv)); [discriminate|].
  destruct (match dv, defv with Some a, Some b => str_eqb a b | _, _ => false end); [discriminate|].
  destruct (cget GEN_FILL (dicts c)) as [[]|]; inversion H; reflexivity.
Qed.

Section Restore.
  Variable md : mode.
  Variable lib : list (str * cdef).
  Variable rec : gstate -> ctxt -> tpl -> mres R.
  Hypothesis Hrec : rec_restores rec.

  Lemma mrl_restores ts : forall g c a g' c', mrl rec g c ts = MOk (a, g', c') -> c' = c.
  Proof.
    induction ts as [|t r IH]; intros g c a g' c' H; cbn [mrl] in H.
    - inversion H; reflexivity.
    - apply mbind_ok_inv in H as [[[a1 g1] c1] [H1 H2]].
      apply mbind_ok_inv in H2 as [[[a2 g2] c2] [H2 H3]]. inversion H3; subst.
      apply Hrec in H1. subst. eapply IH; eassumption.
  Qed.

  Lemma mslotref_restores body ro ru rd rv : restores (mslotref rec body ro ru rd rv).
  Proof.
    intros g c a g' c' H. unfold mslotref in H.
    destruct (N.eqb (oid c) ro).
    - apply mbind_ok_inv in H as [[[a1 g1] c1] [H1 H2]]. inversion H2; subst.
      apply mrl_restores in H1. subst c1. apply push_pop_id.
    - destruct (N.eqb (oid c) ru); [|discriminate].
      apply mbind_ok_inv in H as [[[a1 g1] c1] [H1 H2]]. inversion H2; reflexivity.
  Qed.

  Lemma mout_restores e : restores (mout rec e).
  Proof.
    intros g c a g' c' H. unfold mout in H.
    destruct (meval e (dicts c)) eqn:E; try (cbn in H; inversion H; reflexivity);
      try (destruct (cprint _); inversion H; reflexivity).
    eapply mslotref_restores; exact H.
  Qed.

  Lemma mex_restores_all :
    (forall t g c a g' c', mex rec g c t = MOk (a, g', c') -> c' = c) /\
    (forall ts g c a g' c', mexl rec ts g c = MOk (a, g', c') -> c' = c).
  Proof.
    assert (Hexl : forall ts,
      (forall g c a g' c', mexl rec ts g c = MOk (a, g', c') -> c' = c) ->
      restores ((fix exl (ts : list tpl) (g : gstate) (c : ctxt) {struct ts} : mres R :=
                   match ts with
                   | [] => MOk ([], g, c)
                   | t :: r => mbind (mex rec g c t) (fun '(a, g1, c1) =>
                               mbind (exl r g1 c1) (fun '(b, g2, c2) => MOk (a ++ b, g2, c2)))
                   end) ts)).
    { intros ts Hq g c a g' c' H. eapply Hq. exact H. }
    split.
    - apply (tpl_ind3
        (fun t => forall g c a g' c', mex rec g c t = MOk (a, g', c') -> c' = c)
        (fun ts => forall g c a g' c', mexl rec ts g c = MOk (a, g', c') -> c' = c)).
      + intros g c a g' c' H. inversion H; reflexivity.
      + intros t r Ht Hr g c a g' c' H. cbn [mexl] in H.
        apply mbind_ok_inv in H as [[[a1 g1] c1] [H1 H2]].
        apply mbind_ok_inv in H2 as [[[a2 g2] c2] [H2 H3]]. inversion H3; subst.
        apply Ht in H1. subst. eapply Hr; eassumption.
      + intros s g c a g' c' H. inversion H; reflexivity.
      + intros e g c a g' c' H. eapply mout_restores; exact H.
      + intros cnd a b Ha Hb g c a0 g' c' H. cbn [mex] in H.
        destruct (ctruthy _); [eapply (Hexl a Ha)|eapply (Hexl b Hb)]; exact H.
      + intros x e body Hq g c a g' c' H. cbn [mex] in H. eapply (mfor_restores _ _ _ (Hexl body Hq)); exact H.
      + intros x e body Hq g c a g' c' H. cbn [mex] in H. eapply (mwith_restores _ _ _ (Hexl body Hq)); exact H.
      + intros n d r data body _ g c a g' c' H. cbn [mex] in H. destruct (mkwargs data (dicts c)); inversion H; reflexivity.
      + intros n dv df body _ g c a g' c' H. eapply mfill_restores; exact H.
      + intros cn kw o body _ g c a g' c' H. cbn [mex] in H. destruct (mkwargs kw (dicts c)); inversion H; reflexivity.
      + intros k kw body Hq g c a g' c' H. cbn [mex] in H. eapply (mprovide_restores _ _ _ (Hexl body Hq)); exact H.
    - apply (tpls_ind3
        (fun t => forall g c a g' c', mex rec g c t = MOk (a, g', c') -> c' = c)
        (fun ts => forall g c a g' c', mexl rec ts g c = MOk (a, g', c') -> c' = c)).
      + intros g c a g' c' H. inversion H; reflexivity.
      + intros t r Ht Hr g c a g' c' H. cbn [mexl] in H.
        apply mbind_ok_inv in H as [[[a1 g1] c1] [H1 H2]].
        apply mbind_ok_inv in H2 as [[[a2 g2] c2] [H2 H3]]. inversion H3; subst.
        apply Ht in H1. subst. eapply Hr; eassumption.
      + intros s g c a g' c' H. inversion H; reflexivity.
      + intros e g c a g' c' H. eapply mout_restores; exact H.
      + intros cnd a b Ha Hb g c a0 g' c' H. cbn [mex] in H.
        destruct (ctruthy _); [eapply (Hexl a Ha)|eapply (Hexl b Hb)]; exact H.
      + intros x e body Hq g c a g' c' H. cbn [mex] in H. eapply (mfor_restores _ _ _ (Hexl body Hq)); exact H.
      + intros x e body Hq g c a g' c' H. cbn [mex] in H. eapply (mwith_restores _ _ _ (Hexl body Hq)); exact H.
      + intros n d r data body _ g c a g' c' H. cbn [mex] in H. destruct (mkwargs data (dicts c)); inversion H; reflexivity.
      + intros n dv df body _ g c a g' c' H. eapply mfill_restores; exact H.
      + intros cn kw o body _ g c a g' c' H. cbn [mex] in H. destruct (mkwargs kw (dicts c)); inversion H; reflexivity.
      + intros k kw body Hq g c a g' c' H. cbn [mex] in H. eapply (mprovide_restores _ _ _ (Hexl body Hq)); exact H.
  Qed.

  Lemma mex_restores t g c a g' c' : mex rec g c t = MOk (a, g', c') -> c' = c.
  Proof. apply (proj1 mex_restores_all). Qed.
  Lemma mexl_restores ts g c a g' c' : mexl rec ts g c = MOk (a, g', c') -> c' = c.
  Proof. apply (proj2 mex_restores_all). Qed.

  Lemma m_resolve_fills_restores body g c fills g' c' :
    m_resolve_fills rec g c body = MOk (fills, g', c') -> c' = c.
  Proof.
    unfold m_resolve_fills. destruct body as [|t r]; [intro H; inversion H; reflexivity|].
    destruct (fresh g) as [n g1]. intro H.
    apply mbind_ok_inv in H as [[[content g3] c2] [H1 H2]].
    apply mexl_restores in H1. subst c2.
    assert (Hc : with_dicts (with_dicts c (cpush [(GEN_FILL, CCollect n)] (dicts c)))
                   (cpop (dicts (with_dicts c (cpush [(GEN_FILL, CCollect n)] (dicts c))))) = c) by apply push_pop_id.
    rewrite Hc in H2.
    destruct (match alookup n (g_collect g3) with Some l => l | None => [] end).
    - destruct (body_is_empty (t :: r)); inversion H2; reflexivity.
    - destruct (negb (all_space content)); [discriminate|].
      destruct (has_dup _); [discriminate|]. inversion H2; reflexivity.
  Qed.

  (* render_func on a Context whose top layer was pushed by SlotNode.render, followed by the pop of that layer *)
  Lemma m_render_func_restores f sdata sref g c extra a g' c2 :
    m_render_func rec f sdata sref g (with_dicts c (cpush extra (dicts c))) = MOk (a, g', c2) ->
    with_dicts c2 (cpop (dicts c2)) = c.
  Proof.
    unfold m_render_func. cbn [dicts with_dicts oid]. intro H.
    apply mbind_ok_inv in H as [[[a1 g1] c1] [H1 H2]].
    apply mrl_restores in H1. subst c1. cbn [dicts with_dicts] in H2.
    (* the layer list the index is computed on ends with the pushed layer *)
    set (ds1 := match sf_dvar f with Some x => cset x (CVal sdata) (cpush extra (dicts c)) | None => cpush extra (dicts c) end) in *.
    set (ds2 := match sf_defvar f with Some x => cset x sref ds1 | None => ds1 end) in *.
    assert (E1 : exists top, ds1 = dicts c ++ [top]).
    { unfold ds1, cpush. destruct (sf_dvar f); [rewrite cset_snoc|]; eauto. }
    destruct E1 as [top1 E1].
    assert (E2 : exists top, ds2 = dicts c ++ [top]).
    { unfold ds2. rewrite E1. destruct (sf_defvar f); [rewrite cset_snoc|]; eauto. }
    destruct E2 as [top E2]. rewrite E2 in H2.
    destruct (fill_frame_restores_gen (has_key KEY) (dicts c) top (match sf_extra f with Some e => e | None => [] end))
      as [ds' [Hp Hr]]. cbn zeta in Hp.
    rewrite Hp in H2. inversion H2; subst. cbn [dicts with_dicts oid]. unfold cpop. rewrite Hr.
    destruct c; reflexivity.
  Qed.

  Lemma mslot_restores name isd isr data body : restores (mslot md rec name isd isr data body).
  Proof.
    intros g c a g' c' H. unfold mslot in H.
    destruct (mkwargs data (dicts c)) as [kwv|]; [|discriminate].
    destruct (is_extracting (dicts c)); [inversion H; reflexivity|].
    destruct (cget KEY (dicts c)) as [[| | |rid| | | |]|]; try discriminate.
    destruct (alookup rid (g_cctx g)) as [ci|]; [|discriminate].
    apply mbind_ok_inv in H as [g1 [_ H]].
    destruct (isd && negb (str_eqb name default_key) && smem name (ci_fills ci) && smem default_key (ci_fills ci)); [discriminate|].
    set (filled := slookup _ _) in H.
    assert (Hmain :
      mbind (slot_extra md ci (match filled with Some _ => true | None => false end) (dicts c)) (fun extra =>
        let f := match filled with Some f => f | None => unfilled_fn body end in
        if negb (match filled with Some _ => true | None => false end) || is_django md then
          let sref := CSlotRef body (oid c) (oid c) (dicts c) (slot_rvars (dicts c)) in
          mbind (m_render_func rec f (VRec kwv) sref g1 (with_dicts c (cpush extra (dicts c)))) (fun '(a, g3, c2) =>
          MOk (a, g3, with_dicts c2 (cpop (dicts c2))))
        else
          let '(used, g2) := match ci_outer ci with
                             | Some o => (o, g1)
                             | None => let '(o, g') := fresh g1 in ({| oid := o; dicts := [builtins] |}, g')
                             end in
          let sref := CSlotRef body (oid c) (oid used) (dicts c) (slot_rvars (dicts c)) in
          mbind (m_render_func rec f (VRec kwv) sref g2 (with_dicts used (cpush extra (dicts used)))) (fun '(a, g3, _) =>
          MOk (a, g3, c))) = MOk (a, g', c') -> c' = c).
    { clear H. intro H. apply mbind_ok_inv in H as [extra [_ H]]. cbn zeta in H.
      destruct (negb _ || is_django md).
      - apply mbind_ok_inv in H as [[[a1 g3] c2] [H1 H2]]. inversion H2; subst.
        eapply m_render_func_restores; exact H1.
      - destruct (match ci_outer ci with Some o => (o, g1) | None => _ end) as [used g2].
        apply mbind_ok_inv in H as [[[a1 g3] c2] [H1 H2]]. inversion H2; reflexivity. }
    destruct filled, isr; try discriminate; apply Hmain; exact H.
  Qed.

  Lemma mcomp_restores cname kw only body : restores (mcomp md lib rec cname kw only body).
  Proof.
    intros g c a g' c' H. unfold mcomp in H.
    destruct (mkwargs kw (dicts c)) as [kwv|]; [|discriminate].
    destruct (is_extracting (dicts c)); [inversion H; reflexivity|].
    destruct (slookup cname lib) as [cd|]; [|discriminate].
    apply mbind_ok_inv in H as [[[fills g1] c1] [H1 H2]].
    apply m_resolve_fills_restores in H1. subst c1.
    destruct (only || negb (is_django md)) eqn:Eiso.
    - destruct (make_isolated_context_copy g1 c) as [cc g2].
      destruct (fresh g2) as [rid g3]. destruct (snapshot g3 c) as [osnap g4].
      apply mbind_ok_inv in H2 as [data [_ H2]].
      destruct (snapshot g4 _) as [snap g5].
      apply mbind_ok_inv in H2 as [[[a1 g7] c7] [_ H2]]. inversion H2; reflexivity.
    - destruct (fresh g1) as [rid g3]. destruct (snapshot g3 c) as [osnap g4].
      apply mbind_ok_inv in H2 as [data [_ H2]].
      destruct (snapshot g4 _) as [snap g5].
      apply mbind_ok_inv in H2 as [[[a1 g7] c7] [_ H2]]. inversion H2; subst.
      unfold with_dicts. cbn [oid dicts]. rewrite !cpop_cpush. destruct c; reflexivity.
  Qed.

  Lemma mstep_restores t : restores (fun g c => mstep md lib rec g c t).
  Proof.
    intros g c a g' c' H. destruct t as [s|e|cnd x y|x e body|x e body|name isd isr data body|nm dv defv body|cname kw only body|key kw body];
      cbn [mstep] in H.
    - inversion H; reflexivity.
    - eapply mout_restores; exact H.
    - destruct (ctruthy _); eapply mrl_restores; exact H.
    - eapply (mfor_restores x _ (fun g c => mrl rec g c body)); [|exact H]. intros g0 c0 a0 g0' c0' H0. eapply mrl_restores; exact H0.
    - eapply (mwith_restores x _ (fun g c => mrl rec g c body)); [|exact H]. intros g0 c0 a0 g0' c0' H0. eapply mrl_restores; exact H0.
    - eapply mslot_restores; exact H.
    - destruct (is_extracting (dicts c)); [|discriminate]. eapply mfill_restores; exact H.
    - eapply mcomp_restores; exact H.
    - eapply (mprovide_restores key kw (fun g c => mrl rec g c body)); [|exact H]. intros g0 c0 a0 g0' c0' H0. eapply mrl_restores; exact H0.
  Qed.
End Restore.

(* every push has its pop: whatever node is rendered, in whatever state, on whatever Context (any layers, any internal
   keys), in either mode, with any library: on success the Context is the object it was, with the layers it had *)
Lemma ctx_restored_lemma md lib fuel : forall g c t a g' c',
  mrender md lib fuel g c t = MOk (a, g', c') -> c' = c.
Proof.
  induction fuel as [|f IH]; intros g c t a g' c' H; [discriminate|].
  cbn [mrender] in H. eapply (mstep_restores md lib (mrender md lib f)); [|exact H].
  intros g0 c0 t0 a0 g0' c0' H0. eapply IH; exact H0.
Qed.

Lemma ctx_restored_list_lemma md lib fuel ts g c a g' c' :
  mrender_list md lib fuel g c ts = MOk (a, g', c') -> c' = c.
Proof.
  unfold mrender_list. apply mrl_restores. intros g0 c0 t0 a0 g0' c0' H0. eapply ctx_restored_lemma; exact H0.
Qed.
