(* Proofs about the mechanism-level model Core/Mech.v:
   1. ctx_restored            every push has its pop: ANY node, any state, any fuel, both modes leaves the Context it was
                              rendered on with the object identity and the layer list it found (success path)
   2. cctx_stable             component_context_cache entries are private to their instance: rendering anything never
                              changes (name, fills, outer context) of an entry that exists already, ids only grow
   3. mech_refines_sem_...    M = S for the fragment described at wf_prog *)
From DJC Require Import Lib.Base Core.Syntax Core.Sem Core.Proofs Core.Mech.
From DJC Require Core.CtxStack.
From Coq Require Import String.
Local Open Scope string_scope.
Local Open Scope list_scope.

(* ---------- induction principle for templates (nested lists) ---------- *)
Section TplInd.
  Variable P : tpl -> Prop.
  Variable Q : list tpl -> Prop.
  Hypothesis Hnil : Q [].
  Hypothesis Hcons : forall t r, P t -> Q r -> Q (t :: r).
  Hypothesis HText : forall s, P (TText s).
  Hypothesis HOut : forall e, P (TOut e).
  Hypothesis HIf : forall c a b, Q a -> Q b -> P (TIf c a b).
  Hypothesis HFor : forall x e body, Q body -> P (TFor x e body).
  Hypothesis HWith : forall x e body, Q body -> P (TWith x e body).
  Hypothesis HSlot : forall n d r data body, Q body -> P (TSlot n d r data body).
  Hypothesis HFill : forall n dv df body, Q body -> P (TFill n dv df body).
  Hypothesis HComp : forall c kw o body, Q body -> P (TComp c kw o body).
  Hypothesis HProvide : forall k kw body, Q body -> P (TProvide k kw body).

  Fixpoint tpl_ind3 (t : tpl) : P t :=
    let li := fix li (ts : list tpl) : Q ts :=
      match ts with [] => Hnil | t :: r => Hcons t r (tpl_ind3 t) (li r) end in
    match t with
    | TText s => HText s
    | TOut e => HOut e
    | TIf c a b => HIf c a b (li a) (li b)
    | TFor x e body => HFor x e body (li body)
    | TWith x e body => HWith x e body (li body)
    | TSlot n d r data body => HSlot n d r data body (li body)
    | TFill n dv df body => HFill n dv df body (li body)
    | TComp c kw o body => HComp c kw o body (li body)
    | TProvide k kw body => HProvide k kw body (li body)
    end.

  Fixpoint tpls_ind3 (ts : list tpl) : Q ts :=
    match ts with [] => Hnil | t :: r => Hcons t r (tpl_ind3 t) (tpls_ind3 r) end.
End TplInd.

(* ---------- mbind ---------- *)
Lemma mbind_ok_inv {A B} (r : mres A) (f : A -> mres B) b :
  mbind r f = MOk b -> exists a, r = MOk a /\ f a = MOk b.
Proof. destruct r; simpl; intro H; try discriminate. eauto. Qed.

(* ---------- layer lists ---------- *)
Lemma with_dicts_eta c : with_dicts c (dicts c) = c.
Proof. destruct c; reflexivity. Qed.

Lemma with_dicts_twice c a b : with_dicts (with_dicts c a) b = with_dicts c b.
Proof. reflexivity. Qed.

Lemma cpop_cpush d ds : cpop (cpush d ds) = ds.
Proof. apply removelast_last. Qed.

Lemma cset_snoc k v (ds : list layer) (d : layer) : cset k v (ds ++ [d]) = ds ++ [lset k v d].
Proof.
  induction ds as [|x r IH]; [reflexivity|].
  change ((x :: r) ++ [d]) with (x :: (r ++ [d])).
  destruct (r ++ [d]) as [|y l] eqn:E; [destruct r; discriminate|].
  change (cset k v (x :: y :: l)) with (x :: cset k v (y :: l)). rewrite IH. reflexivity.
Qed.

Lemma snoc_cases {A} (l : list A) : l = [] \/ exists r x, l = r ++ [x].
Proof.
  destruct l as [|a l]; [left; reflexivity|right].
  exists (removelast (a :: l)), (last (a :: l) a). apply app_removelast_last. discriminate.
Qed.

Lemma cpop_cset k v ds : cpop (cset k v ds) = cpop ds.
Proof.
  destruct (snoc_cases ds) as [->|[r [x ->]]]; [reflexivity|].
  rewrite cset_snoc. unfold cpop. rewrite !removelast_last. reflexivity.
Qed.

(* ---------- Python insert / pop at the index computed by render_func ---------- *)
(* the insert(i)/pop(i) pair of render_func followed by the pop of the enclosing with-block restores the list,
   whatever index is found - also i = -1, where pop(-1) removes the top layer instead of the inserted one *)
Lemma fill_frame_restores_gen {A} (f : A -> bool) (c : list A) (top e : A) :
  let ds := c ++ [top] in
  let i := ((match CtxStack.get_last_index f ds with Some i => Z.of_nat i | None => 0%Z end) - 1)%Z in
  exists ds', CtxStack.py_popZ i (CtxStack.py_insertZ i e ds) = Some ds' /\ removelast ds' = c.
Proof.
  cbn zeta.
  destruct (CtxStack.get_last_index f (c ++ [top])) as [k|] eqn:E.
  - apply CtxStack.get_last_index_lt in E. rewrite app_length in E. cbn [List.length] in E.
    destruct k as [|k].
    + change (Z.of_nat 0 - 1)%Z with (-1)%Z. rewrite CtxStack.insert_minus1, CtxStack.pop2_minus1.
      eexists. split; [reflexivity|]. apply removelast_last.
    + replace (Z.of_nat (S k) - 1)%Z with (Z.of_nat k) by lia.
      rewrite CtxStack.insert_pop_nonneg by (rewrite app_length; cbn [List.length]; lia).
      eexists. split; [reflexivity|]. apply removelast_last.
  - change (0 - 1)%Z with (-1)%Z. rewrite CtxStack.insert_minus1, CtxStack.pop2_minus1.
    eexists. split; [reflexivity|]. apply removelast_last.
Qed.

(* ======================================================================================================== *)
(* 1. every push has its pop                                                                                  *)
(* ======================================================================================================== *)
Definition restores (f : gstate -> ctxt -> mres R) : Prop :=
  forall g c a g' c', f g c = MOk (a, g', c') -> c' = c.

Definition rec_restores (rec : gstate -> ctxt -> tpl -> mres R) : Prop :=
  forall g c t a g' c', rec g c t = MOk (a, g', c') -> c' = c.

Lemma mfor_items_below x bodyf vs : restores bodyf ->
  forall i g c a g' c', mfor_items x bodyf vs i g c = MOk (a, g', c') ->
  oid c' = oid c /\ cpop (dicts c') = cpop (dicts c).
Proof.
  intro Hb. induction vs as [|v r IH]; intros i g c a g' c' H; cbn [mfor_items] in H.
  - inversion H; subst. split; reflexivity.
  - apply mbind_ok_inv in H as [[[a1 g1] c1] [H1 H2]].
    apply mbind_ok_inv in H2 as [[[a2 g2] c2] [H2 H3]]. inversion H3; subst.
    apply Hb in H1. subst c1. apply IH in H2 as [Ho Hp]. cbn [oid dicts with_dicts] in *.
    split; [exact Ho|]. rewrite Hp, !cpop_cset. reflexivity.
Qed.

Lemma push_pop_id c d : with_dicts (with_dicts c (cpush d (dicts c))) (cpop (dicts (with_dicts c (cpush d (dicts c))))) = c.
Proof. destruct c as [o ds]. unfold with_dicts. cbn [oid dicts]. rewrite cpop_cpush. reflexivity. Qed.

Lemma mfor_restores x seq bodyf : restores bodyf -> restores (mfor x seq bodyf).
Proof.
  intros Hb g c a g' c' H. unfold mfor in H.
  apply mbind_ok_inv in H as [vs [_ H]]. cbn zeta in H.
  destruct vs as [|v r].
  - inversion H; subst. apply push_pop_id.
  - apply mbind_ok_inv in H as [[[a1 g1] c1] [H1 H2]]. inversion H2; subst.
    apply (mfor_items_below _ _ _ Hb) in H1 as [Ho Hp]. cbn [oid dicts with_dicts] in *.
    rewrite cpop_cpush in Hp. destruct c1 as [o1 d1], c as [o d]. cbn in *. subst. reflexivity.
Qed.

Lemma mwith_restores x v bodyf : restores bodyf -> restores (mwith x v bodyf).
Proof.
  intros Hb g c a g' c' H. unfold mwith in H.
  apply mbind_ok_inv in H as [[[a1 g1] c1] [H1 H2]]. inversion H2; subst.
  apply Hb in H1. subst c1. apply push_pop_id.
Qed.

Lemma mprovide_restores key kw bodyf : restores bodyf -> restores (mprovide key kw bodyf).
Proof.
  intros Hb g c a g' c' H. unfold mprovide in H.
  destruct (mkwargs kw (dicts c)); [|discriminate].
  destruct (negb (is_ident key)); [discriminate|].
  destruct (fresh g) as [pid g1].
  apply mbind_ok_inv in H as [[[a1 g2] c1] [H1 H2]]. inversion H2; subst.
  apply Hb in H1. subst c1. destruct c as [o ds]. unfold with_dicts. cbn [oid dicts]. rewrite cpop_cset, cpop_cpush. reflexivity.
Qed.

Lemma mfill_restores name dv defv body : restores (mfill name dv defv body).
Proof.
  intros g c a g' c' H. unfold mfill in H.
  destruct (meval name (dicts c)) as [[s|l|fs]| | | | | | |]; try discriminate.
  destruct (negb (opt_ident_ok dv) || negb (opt_ident_ok defv)); [discriminate|].
  destruct (match dv, defv with Some a, Some b => str_eqb a b | _, _ => false end); [discriminate|].
  destruct (cget GEN_FILL (dicts c)) as [[]|]; inversion H; reflexivity.
Qed.

Section Restore.
  Variable md : mode.
  Variable lib : list (str * cdef).
  Variable rec : gstate -> ctxt -> tpl -> mres R.
  Hypothesis Hrec : rec_restores rec.

  Lemma mrl_restores ts : forall g c a g' c', mrl rec g c ts = MOk (a, g', c') -> c' = c.
  Proof.
    induction ts as [|t r IH]; intros g c a g' c' H; cbn [mrl] in H.
    - inversion H; reflexivity.
    - apply mbind_ok_inv in H as [[[a1 g1] c1] [H1 H2]].
      apply mbind_ok_inv in H2 as [[[a2 g2] c2] [H2 H3]]. inversion H3; subst.
      apply Hrec in H1. subst. eapply IH; eassumption.
  Qed.

  Lemma mslotref_restores body ro ru rd rv : restores (mslotref rec body ro ru rd rv).
  Proof.
    intros g c a g' c' H. unfold mslotref in H.
    destruct (N.eqb (oid c) ro).
    - apply mbind_ok_inv in H as [[[a1 g1] c1] [H1 H2]]. inversion H2; subst.
      apply mrl_restores in H1. subst c1. apply push_pop_id.
    - destruct (N.eqb (oid c) ru); [|discriminate].
      apply mbind_ok_inv in H as [[[a1 g1] c1] [H1 H2]]. inversion H2; reflexivity.
  Qed.

  Lemma mout_restores e : restores (mout rec e).
  Proof.
    intros g c a g' c' H. unfold mout in H.
    destruct (meval e (dicts c)) eqn:E; try (cbn in H; inversion H; reflexivity);
      try (destruct (cprint _); inversion H; reflexivity).
    eapply mslotref_restores; exact H.
  Qed.

  Lemma mex_restores_all :
    (forall t g c a g' c', mex rec g c t = MOk (a, g', c') -> c' = c) /\
    (forall ts g c a g' c', mexl rec ts g c = MOk (a, g', c') -> c' = c).
  Proof.
    assert (Hexl : forall ts,
      (forall g c a g' c', mexl rec ts g c = MOk (a, g', c') -> c' = c) ->
      restores ((fix exl (ts : list tpl) (g : gstate) (c : ctxt) {struct ts} : mres R :=
                   match ts with
                   | [] => MOk ([], g, c)
                   | t :: r => mbind (mex rec g c t) (fun '(a, g1, c1) =>
                               mbind (exl r g1 c1) (fun '(b, g2, c2) => MOk (a ++ b, g2, c2)))
                   end) ts)).
    { intros ts Hq g c a g' c' H. eapply Hq. exact H. }
    split.
    - apply (tpl_ind3
        (fun t => forall g c a g' c', mex rec g c t = MOk (a, g', c') -> c' = c)
        (fun ts => forall g c a g' c', mexl rec ts g c = MOk (a, g', c') -> c' = c)).
      + intros g c a g' c' H. inversion H; reflexivity.
      + intros t r Ht Hr g c a g' c' H. cbn [mexl] in H.
        apply mbind_ok_inv in H as [[[a1 g1] c1] [H1 H2]].
        apply mbind_ok_inv in H2 as [[[a2 g2] c2] [H2 H3]]. inversion H3; subst.
        apply Ht in H1. subst. eapply Hr; eassumption.
      + intros s g c a g' c' H. inversion H; reflexivity.
      + intros e g c a g' c' H. eapply mout_restores; exact H.
      + intros cnd a b Ha Hb g c a0 g' c' H. cbn [mex] in H.
        destruct (ctruthy _); [eapply (Hexl a Ha)|eapply (Hexl b Hb)]; exact H.
      + intros x e body Hq g c a g' c' H. cbn [mex] in H. eapply (mfor_restores _ _ _ (Hexl body Hq)); exact H.
      + intros x e body Hq g c a g' c' H. cbn [mex] in H. eapply (mwith_restores _ _ _ (Hexl body Hq)); exact H.
      + intros n d r data body _ g c a g' c' H. cbn [mex] in H. destruct (mkwargs data (dicts c)); inversion H; reflexivity.
      + intros n dv df body _ g c a g' c' H. eapply mfill_restores; exact H.
      + intros cn kw o body _ g c a g' c' H. cbn [mex] in H. destruct (mkwargs kw (dicts c)); inversion H; reflexivity.
      + intros k kw body Hq g c a g' c' H. cbn [mex] in H. eapply (mprovide_restores _ _ _ (Hexl body Hq)); exact H.
    - apply (tpls_ind3
        (fun t => forall g c a g' c', mex rec g c t = MOk (a, g', c') -> c' = c)
        (fun ts => forall g c a g' c', mexl rec ts g c = MOk (a, g', c') -> c' = c)).
      + intros g c a g' c' H. inversion H; reflexivity.
      + intros t r Ht Hr g c a g' c' H. cbn [mexl] in H.
        apply mbind_ok_inv in H as [[[a1 g1] c1] [H1 H2]].
        apply mbind_ok_inv in H2 as [[[a2 g2] c2] [H2 H3]]. inversion H3; subst.
        apply Ht in H1. subst. eapply Hr; eassumption.
      + intros s g c a g' c' H. inversion H; reflexivity.
      + intros e g c a g' c' H. eapply mout_restores; exact H.
      + intros cnd a b Ha Hb g c a0 g' c' H. cbn [mex] in H.
        destruct (ctruthy _); [eapply (Hexl a Ha)|eapply (Hexl b Hb)]; exact H.
      + intros x e body Hq g c a g' c' H. cbn [mex] in H. eapply (mfor_restores _ _ _ (Hexl body Hq)); exact H.
      + intros x e body Hq g c a g' c' H. cbn [mex] in H. eapply (mwith_restores _ _ _ (Hexl body Hq)); exact H.
      + intros n d r data body _ g c a g' c' H. cbn [mex] in H. destruct (mkwargs data (dicts c)); inversion H; reflexivity.
      + intros n dv df body _ g c a g' c' H. eapply mfill_restores; exact H.
      + intros cn kw o body _ g c a g' c' H. cbn [mex] in H. destruct (mkwargs kw (dicts c)); inversion H; reflexivity.
      + intros k kw body Hq g c a g' c' H. cbn [mex] in H. eapply (mprovide_restores _ _ _ (Hexl body Hq)); exact H.
  Qed.

  Lemma mex_restores t g c a g' c' : mex rec g c t = MOk (a, g', c') -> c' = c.
  Proof. apply (proj1 mex_restores_all). Qed.
  Lemma mexl_restores ts g c a g' c' : mexl rec ts g c = MOk (a, g', c') -> c' = c.
  Proof. apply (proj2 mex_restores_all). Qed.

  Lemma m_resolve_fills_restores body g c fills g' c' :
    m_resolve_fills rec g c body = MOk (fills, g', c') -> c' = c.
  Proof.
    unfold m_resolve_fills. destruct body as [|t r]; [intro H; inversion H; reflexivity|].
    destruct (fresh g) as [n g1]. intro H.
    apply mbind_ok_inv in H as [[[content g3] c2] [H1 H2]].
    apply mexl_restores in H1. subst c2.
    assert (Hc : with_dicts (with_dicts c (cpush [(GEN_FILL, CCollect n)] (dicts c)))
                   (cpop (dicts (with_dicts c (cpush [(GEN_FILL, CCollect n)] (dicts c))))) = c) by apply push_pop_id.
    rewrite Hc in H2.
    destruct (match alookup n (g_collect g3) with Some l => l | None => [] end).
    - destruct (body_is_empty (t :: r)); inversion H2; reflexivity.
    - destruct (negb (all_space content)); [discriminate|].
      destruct (has_dup _); [discriminate|]. inversion H2; reflexivity.
  Qed.

  (* render_func on a Context whose top layer was pushed by SlotNode.render, followed by the pop of that layer *)
  Lemma m_render_func_restores f sdata sref g c extra a g' c2 :
    m_render_func rec f sdata sref g (with_dicts c (cpush extra (dicts c))) = MOk (a, g', c2) ->
    with_dicts c2 (cpop (dicts c2)) = c.
  Proof.
    unfold m_render_func. cbn [dicts with_dicts oid]. intro H.
    apply mbind_ok_inv in H as [[[a1 g1] c1] [H1 H2]].
    apply mrl_restores in H1. subst c1. cbn [dicts with_dicts] in H2.
    (* the layer list the index is computed on ends with the pushed layer *)
    set (ds1 := match sf_dvar f with Some x => cset x (CVal sdata) (cpush extra (dicts c)) | None => cpush extra (dicts c) end) in *.
    set (ds2 := match sf_defvar f with Some x => cset x sref ds1 | None => ds1 end) in *.
    assert (E1 : exists top, ds1 = dicts c ++ [top]).
    { unfold ds1, cpush. destruct (sf_dvar f); [rewrite cset_snoc|]; eauto. }
    destruct E1 as [top1 E1].
    assert (E2 : exists top, ds2 = dicts c ++ [top]).
    { unfold ds2. rewrite E1. destruct (sf_defvar f); [rewrite cset_snoc|]; eauto. }
    destruct E2 as [top E2]. rewrite E2 in H2.
    destruct (fill_frame_restores_gen (has_key KEY) (dicts c) top (match sf_extra f with Some e => e | None => [] end))
      as [ds' [Hp Hr]]. cbn zeta in Hp.
    rewrite Hp in H2. inversion H2; subst. cbn [dicts with_dicts oid]. unfold cpop. rewrite Hr.
    destruct c; reflexivity.
  Qed.

  Lemma mslot_restores name isd isr data body : restores (mslot md rec name isd isr data body).
  Proof.
    intros g c a g' c' H. unfold mslot in H.
    destruct (mkwargs data (dicts c)) as [kwv|]; [|discriminate].
    destruct (is_extracting (dicts c)); [inversion H; reflexivity|].
    destruct (cget KEY (dicts c)) as [[| | |rid| | | |]|]; try discriminate.
    destruct (alookup rid (g_cctx g)) as [ci|]; [|discriminate].
    apply mbind_ok_inv in H as [g1 [_ H]].
    destruct (isd && negb (str_eqb name default_key) && smem name (ci_fills ci) && smem default_key (ci_fills ci)); [discriminate|].
    set (filled := slookup _ _) in H.
    assert (Hmain :
      mbind (slot_extra md ci (match filled with Some _ => true | None => false end) (dicts c)) (fun extra =>
        let f := match filled with Some f => f | None => unfilled_fn body end in
        if negb (match filled with Some _ => true | None => false end) || is_django md then
          let sref := CSlotRef body (oid c) (oid c) (dicts c) (slot_rvars (dicts c)) in
          mbind (m_render_func rec f (VRec kwv) sref g1 (with_dicts c (cpush extra (dicts c)))) (fun '(a, g3, c2) =>
          MOk (a, g3, with_dicts c2 (cpop (dicts c2))))
        else
          let '(used, g2) := match ci_outer ci with
                             | Some o => (o, g1)
                             | None => let '(o, g') := fresh g1 in ({| oid := o; dicts := [builtins] |}, g')
                             end in
          let sref := CSlotRef body (oid c) (oid used) (dicts c) (slot_rvars (dicts c)) in
          mbind (m_render_func rec f (VRec kwv) sref g2 (with_dicts used (cpush extra (dicts used)))) (fun '(a, g3, _) =>
          MOk (a, g3, c))) = MOk (a, g', c') -> c' = c).
    { clear H. intro H. apply mbind_ok_inv in H as [extra [_ H]]. cbn zeta in H.
      destruct (negb _ || is_django md).
      - apply mbind_ok_inv in H as [[[a1 g3] c2] [H1 H2]]. inversion H2; subst.
        eapply m_render_func_restores; exact H1.
      - destruct (match ci_outer ci with Some o => (o, g1) | None => _ end) as [used g2].
        apply mbind_ok_inv in H as [[[a1 g3] c2] [H1 H2]]. inversion H2; reflexivity. }
    destruct filled, isr; try discriminate; apply Hmain; exact H.
  Qed.

  Lemma mcomp_restores cname kw only body : restores (mcomp md lib rec cname kw only body).
  Proof.
    intros g c a g' c' H. unfold mcomp in H.
    destruct (mkwargs kw (dicts c)) as [kwv|]; [|discriminate].
    destruct (is_extracting (dicts c)); [inversion H; reflexivity|].
    destruct (slookup cname lib) as [cd|]; [|discriminate].
    apply mbind_ok_inv in H as [[[fills g1] c1] [H1 H2]].
    apply m_resolve_fills_restores in H1. subst c1.
    destruct (only || negb (is_django md)) eqn:Eiso.
    - destruct (make_isolated_context_copy g1 c) as [cc g2].
      destruct (fresh g2) as [rid g3]. destruct (snapshot g3 c) as [osnap g4].
      apply mbind_ok_inv in H2 as [data [_ H2]].
      destruct (snapshot g4 _) as [snap g5].
      apply mbind_ok_inv in H2 as [[[a1 g7] c7] [_ H2]]. inversion H2; reflexivity.
    - destruct (fresh g1) as [rid g3]. destruct (snapshot g3 c) as [osnap g4].
      apply mbind_ok_inv in H2 as [data [_ H2]].
      destruct (snapshot g4 _) as [snap g5].
      apply mbind_ok_inv in H2 as [[[a1 g7] c7] [_ H2]]. inversion H2; subst.
      unfold with_dicts. cbn [oid dicts]. rewrite !cpop_cpush. destruct c; reflexivity.
  Qed.

  Lemma mstep_restores t : restores (fun g c => mstep md lib rec g c t).
  Proof.
    intros g c a g' c' H. destruct t as [s|e|cnd x y|x e body|x e body|name isd isr data body|nm dv defv body|cname kw only body|key kw body];
      cbn [mstep] in H.
    - inversion H; reflexivity.
    - eapply mout_restores; exact H.
    - destruct (ctruthy _); eapply mrl_restores; exact H.
    - eapply (mfor_restores x _ (fun g c => mrl rec g c body)); [|exact H]. intros g0 c0 a0 g0' c0' H0. eapply mrl_restores; exact H0.
    - eapply (mwith_restores x _ (fun g c => mrl rec g c body)); [|exact H]. intros g0 c0 a0 g0' c0' H0. eapply mrl_restores; exact H0.
    - eapply mslot_restores; exact H.
    - destruct (is_extracting (dicts c)); [|discriminate]. eapply mfill_restores; exact H.
    - eapply mcomp_restores; exact H.
    - eapply (mprovide_restores key kw (fun g c => mrl rec g c body)); [|exact H]. intros g0 c0 a0 g0' c0' H0. eapply mrl_restores; exact H0.
  Qed.
End Restore.

(* every push has its pop: whatever node is rendered, in whatever state, on whatever Context (any layers, any internal
   keys), in either mode, with any library: on success the Context is the object it was, with the layers it had *)
Lemma ctx_restored_lemma md lib fuel : forall g c t a g' c',
  mrender md lib fuel g c t = MOk (a, g', c') -> c' = c.
Proof.
  induction fuel as [|f IH]; intros g c t a g' c' H; [discriminate|].
  cbn [mrender] in H. eapply (mstep_restores md lib (mrender md lib f)); [|exact H].
  intros g0 c0 t0 a0 g0' c0' H0. eapply IH; exact H0.
Qed.

Lemma ctx_restored_list_lemma md lib fuel ts g c a g' c' :
  mrender_list md lib fuel g c ts = MOk (a, g', c') -> c' = c.
Proof.
  unfold mrender_list. apply mrl_restores. intros g0 c0 t0 a0 g0' c0' H0. eapply ctx_restored_lemma; exact H0.
Qed.

(* ======================================================================================================== *)
(* 3. M refines S on the fragment wf_prog                                                                    *)
(* ======================================================================================================== *)

(* ---------- lookups ---------- *)
Lemma str_eqb_sym a b : str_eqb a b = str_eqb b a.
Proof.
  destruct (str_eqb a b) eqn:E1, (str_eqb b a) eqn:E2; try reflexivity.
  - apply str_eqb_eq in E1. subst. rewrite str_eqb_refl in E2. discriminate.
  - apply str_eqb_eq in E2. subst. rewrite str_eqb_refl in E1. discriminate.
Qed.

Lemma str_eqb_neq a b : a <> b -> str_eqb a b = false.
Proof. intro H. destruct (str_eqb a b) eqn:E; [apply str_eqb_eq in E; contradiction|reflexivity]. Qed.

Lemma slookup_lset {k : str} {v : cval} l x : slookup x (lset k v l) = if str_eqb x k then Some v else slookup x l.
Proof.
  induction l as [|[k' v'] r IH]; cbn [lset slookup].
  - destruct (str_eqb x k); reflexivity.
  - destruct (str_eqb k k') eqn:E.
    + apply str_eqb_eq in E. subst k'. cbn [slookup]. destruct (str_eqb x k); reflexivity.
    + cbn [slookup]. destruct (str_eqb x k') eqn:E2.
      * apply str_eqb_eq in E2. subst k'. rewrite str_eqb_sym, E. reflexivity.
      * exact IH.
Qed.

Lemma cget_app k (a b : list layer) : cget k (a ++ b) = match cget k b with Some v => Some v | None => cget k a end.
Proof.
  induction a as [|d r IH]; cbn [app cget].
  - destruct (cget k b); reflexivity.
  - rewrite IH. destruct (cget k b); reflexivity.
Qed.

Lemma cget_snoc k (ds : list layer) (d : layer) : cget k (ds ++ [d]) = match slookup k d with Some v => Some v | None => cget k ds end.
Proof. rewrite cget_app. cbn [cget]. destruct (slookup k d); reflexivity. Qed.

Lemma cget_split k n ds : cget k ds = match cget k (skipn n ds) with Some v => Some v | None => cget k (firstn n ds) end.
Proof. rewrite <- (firstn_skipn n ds) at 1. apply cget_app. Qed.

Lemma cget_mid k (a : list layer) (e : layer) (b : list layer) : slookup k e = None -> cget k (a ++ e :: b) = cget k (a ++ b).
Proof. intro H. rewrite !cget_app. cbn [cget]. rewrite H. destruct (cget k b); reflexivity. Qed.

Lemma cget_mid_in k (a : list layer) (e : layer) (b : list layer) v : slookup k e = Some v -> cget k (a ++ b) = None -> cget k (a ++ e :: b) = Some v.
Proof.
  intros H Hn. rewrite cget_app in *. cbn [cget]. destruct (cget k b); [discriminate|]. rewrite H. reflexivity.
Qed.

Lemma cget_insert k i (e : layer) (ds : list layer) : slookup k e = None -> cget k (CtxStack.py_insertZ i e ds) = cget k ds.
Proof. intro H. unfold CtxStack.py_insertZ. rewrite cget_mid by exact H. rewrite firstn_skipn. reflexivity. Qed.

Lemma cget_insert_in k i (e : layer) (ds : list layer) v : slookup k e = Some v -> cget k ds = None -> cget k (CtxStack.py_insertZ i e ds) = Some v.
Proof.
  intros H Hn. unfold CtxStack.py_insertZ. apply cget_mid_in; [exact H|]. rewrite firstn_skipn. exact Hn.
Qed.

Lemma cget_cset k v (ds : list layer) (d : layer) x : cget x (cset k v (ds ++ [d])) = if str_eqb x k then Some v else cget x (ds ++ [d]).
Proof.
  rewrite cset_snoc, !cget_snoc, slookup_lset. destruct (str_eqb x k); reflexivity.
Qed.

Lemma slookup_app {V} x (a b : list (str * V)) :
  slookup x (a ++ b) = match slookup x a with Some v => Some v | None => slookup x b end.
Proof.
  induction a as [|[k v] r IH]; [reflexivity|]. cbn [app slookup]. destruct (str_eqb x k); [reflexivity|exact IH].
Qed.

Lemma slookup_notin {V} x (l : list (str * V)) : ~ In x (map fst l) -> slookup x l = None.
Proof.
  induction l as [|[k v] r IH]; intro H; [reflexivity|]. cbn [slookup]. cbn in H.
  destruct (str_eqb x k) eqn:E; [apply str_eqb_eq in E; subst; exfalso; apply H; left; reflexivity|].
  apply IH. intro Hi. apply H. right. exact Hi.
Qed.

Lemma slookup_in {V} x (l : list (str * V)) v : slookup x l = Some v -> In x (map fst l).
Proof.
  induction l as [|[k w] r IH]; intro H; [discriminate|]. cbn [slookup] in H. cbn.
  destruct (str_eqb x k) eqn:E; [apply str_eqb_eq in E; left; congruence|right; apply IH; exact H].
Qed.

Lemma slookup_map_cval x (l : env) :
  slookup x (map (fun kv => (fst kv, CVal (snd kv))) l) = option_map CVal (slookup x l).
Proof.
  induction l as [|[k v] r IH]; [reflexivity|]. cbn [map slookup fst snd]. destruct (str_eqb x k); [reflexivity|exact IH].
Qed.

Lemma smemb_in x l : smemb x l = true <-> In x l.
Proof.
  induction l as [|y r IH]; cbn [smemb In]; [split; [discriminate|contradiction]|].
  rewrite orb_true_iff, IH, str_eqb_eq. split; intros [H|H]; auto.
Qed.

Lemma smemb_notin x l : smemb x l = false -> ~ In x l.
Proof. intros H Hi. apply smemb_in in Hi. congruence. Qed.

(* ---------- names ---------- *)
Lemma uname_not_underscore x : uname x = true -> starts_underscore x = false.
Proof. unfold uname. intro H. apply andb_true_iff in H as [H _]. apply negb_true_iff in H. exact H. Qed.

Lemma starts_inj_underscore k : starts_inj k = true -> starts_underscore k = true.
Proof.
  unfold starts_inj. replace INJ_PREFIX with (95%N :: List.tl INJ_PREFIX) by reflexivity.
  destruct k as [|c r]; cbn [starts_with starts_underscore]; [discriminate|].
  intro H. apply andb_true_iff in H as [H _]. apply N.eqb_eq in H. subst c. reflexivity.
Qed.

Lemma uname_not_inj x : uname x = true -> starts_inj x = false.
Proof.
  intro H. destruct (starts_inj x) eqn:E; [|reflexivity].
  apply starts_inj_underscore in E. rewrite (uname_not_underscore _ H) in E. discriminate.
Qed.

Lemma uname_neq x k : uname x = true -> uname k = false -> x <> k.
Proof. intros H1 H2 E. subst. congruence. Qed.

Lemma uname_KEY : uname KEY = false. Proof. reflexivity. Qed.
Lemma uname_GEN : uname GEN_FILL = false. Proof. reflexivity. Qed.
Lemma uname_CVARS : uname CVARS = false. Proof. reflexivity. Qed.
Lemma uname_FORLOOP : uname FORLOOP = false. Proof. reflexivity. Qed.

(* keys that matter to the relation: user names and the four internal keys; none of them is an inject key *)
Definition relevant (k : str) : Prop := uname k = true \/ k = KEY \/ k = CVARS \/ k = GEN_FILL \/ k = FORLOOP.

Lemma relevant_not_inj k : relevant k -> starts_inj k = false.
Proof. intros [H|[H|[H|[H|H]]]]; [apply uname_not_inj; exact H|subst; reflexivity..]. Qed.

(* ---------- the extra_context of a slot in isolated mode holds inject keys only ---------- *)
Lemma inj_fold_keys (l : layer) : forall acc k,
  starts_inj k = false ->
  slookup k (fold_left (fun a kv => if starts_inj (fst kv) then lset (fst kv) (snd kv) a else a) l acc) = slookup k acc.
Proof.
  induction l as [|[k' v'] r IH]; intros acc k Hk; [reflexivity|]. cbn [fold_left fst snd].
  rewrite IH by exact Hk. destruct (starts_inj k') eqn:E; [|reflexivity].
  rewrite slookup_lset. destruct (str_eqb k k') eqn:E2; [apply str_eqb_eq in E2; subst; congruence|reflexivity].
Qed.

Lemma slot_extra_isolated ci filled ds extra k :
  slot_extra Isolated ci filled ds = MOk extra -> starts_inj k = false -> slookup k extra = None.
Proof.
  unfold slot_extra. cbn [is_django]. rewrite andb_false_r. cbn [mbind]. intros H Hk. inversion H; subst.
  rewrite inj_fold_keys by exact Hk. reflexivity.
Qed.

Lemma slot_extra_isolated_ok ci filled ds : exists extra, slot_extra Isolated ci filled ds = MOk extra.
Proof. unfold slot_extra. cbn [is_django]. rewrite andb_false_r. cbn [mbind]. eauto. Qed.

(* ---------- relation between a layer list and a lexical environment ---------- *)
Definition vrel (ds : list layer) (loc : env) : Prop :=
  forall x, uname x = true -> cget x ds = option_map CVal (slookup x loc).

Definition clean (ds : list layer) : Prop := cget GEN_FILL ds = None /\ cget FORLOOP ds = None.

(* values: what M computes for an expression vs what S computes *)
Inductive crel : cval -> xvalue -> Prop :=
| crel_val v : crel (CVal v) (XV v)
| crel_bool b : crel (CBool b) (XBool b).

Lemma crel_print cv xv : crel cv xv -> cprint cv = Some (print_x xv).
Proof. intros []; reflexivity. Qed.
Lemma crel_truthy cv xv : crel cv xv -> ctruthy cv = truthy xv.
Proof. intros []; reflexivity. Qed.
Lemma crel_value cv xv : crel cv xv -> cvalue cv = Some (to_value xv).
Proof. intros []; reflexivity. Qed.
Lemma crel_not_ref cv xv : crel cv xv -> forall b ro ru rd rv, cv <> CSlotRef b ro ru rd rv.
Proof. intros [] *; discriminate. Qed.

(* ---------- the simulation relation ---------- *)
Inductive who := WBody | WPage | WInst (rid : N) (dl : list str).
Definition is_body (w : who) : bool := match w with WBody => true | _ => false end.

Definition dflt_ok (dl : list str) (ci : cinst) : Prop :=
  match ci_default ci with None => True | Some d => forall n, In n dl -> n = d end.

(* a fill as M stores it (slot function + the outer Context snapshot ds0 of its instance) vs the closure of S *)
Definition frel (ds0 : list layer) (a : str * slotfn) (b : str * closure) : Prop :=
  fst a = fst b /\
  match snd b with
  | Clo body btw cloc cout dv defv owner cprov =>
      sf_body (snd a) = body /\ sf_dvar (snd a) = dv /\ sf_defvar (snd a) = None /\ defv = None /\ cout = [] /\ cprov = [] /\
      (forall x, slookup x (match sf_extra (snd a) with Some e => e | None => [] end) = option_map CVal (slookup x btw)) /\
      exists loc0 Gb, cloc = btw ++ loc0 /\ vrel ds0 loc0 /\
        wf_l true (match dv with Some x => x :: Gb | None => Gb end) body = true /\
        incl (map fst (btw ++ loc0)) Gb /\
        (forall x, dv = Some x -> ~ In x Gb /\ binder_ok x = true) /\
        (forall x, In x (map fst btw) -> ~ In x (map fst loc0) /\ uname x = true)
  end.

Definition irel (g : gstate) (ds : list layer) (rid : N) (dl : list str) (fills : list (str * closure)) : Prop :=
  cget KEY ds = Some (CId rid) /\
  cget CVARS ds = Some (CVars (map (fun kc => escape_name (fst kc)) fills)) /\
  (rid < g_next g)%N /\
  exists ci O, alookup rid (g_cctx g) = Some ci /\ ci_outer ci = Some O /\ clean (dicts O) /\
               Forall2 (frel (dicts O)) (ci_fills ci) fills /\ dflt_ok dl ci.

Definition srel (g : gstate) (c : ctxt) (st : state) (G : list str) (w : who) : Prop :=
  out st = [] /\ prov st = [] /\ vrel (dicts c) (loc st) /\ incl (map fst (loc st)) G /\ clean (dicts c) /\
  match w with
  | WBody => True
  | WPage => cur st = None /\ cget KEY (dicts c) = None /\ cget CVARS (dicts c) = None
  | WInst rid dl => exists cn fills, cur st = Some (Inst cn fills true) /\ irel g (dicts c) rid dl fills
  end.

Definition epres (dl : list str) (a b : option cinst) : Prop :=
  match a with
  | Some ci => exists ci', b = Some ci' /\ ci_fills ci' = ci_fills ci /\ ci_outer ci' = ci_outer ci /\ (dflt_ok dl ci -> dflt_ok dl ci')
  | None => True
  end.

Definition gext (w : who) (g g' : gstate) : Prop :=
  (g_next g <= g_next g')%N /\
  forall j, (j < g_next g)%N ->
    match w with
    | WInst rid dl => if N.eqb j rid then epres dl (alookup j (g_cctx g)) (alookup j (g_cctx g'))
                      else alookup j (g_cctx g') = alookup j (g_cctx g)
    | _ => alookup j (g_cctx g') = alookup j (g_cctx g)
    end.

Definition gexact (g g' : gstate) : Prop :=
  (g_next g <= g_next g')%N /\ forall j, (j < g_next g)%N -> alookup j (g_cctx g') = alookup j (g_cctx g).

Lemma epres_eq dl a b : b = a -> epres dl a b.
Proof. intros ->. destruct a as [ci|]; cbn; [|exact I]. exists ci. auto. Qed.

Lemma epres_trans dl a b c : epres dl a b -> epres dl b c -> epres dl a c.
Proof.
  destruct a as [ci|]; cbn; [|auto]. intros [ci' [-> [Hf [Ho Hd]]]] H2. cbn in H2.
  destruct H2 as [ci'' [-> [Hf' [Ho' Hd']]]]. exists ci''. repeat split; try congruence. auto.
Qed.

Lemma gexact_gext w g g' : gexact g g' -> gext w g g'.
Proof.
  intros [Hn H]. split; [exact Hn|]. intros j Hj. specialize (H j Hj).
  destruct w as [| |rid dl]; try exact H. destruct (N.eqb j rid); [apply epres_eq|]; exact H.
Qed.

Lemma gexact_refl g : gexact g g.
Proof. split; [lia|reflexivity]. Qed.

Lemma gexact_trans g1 g2 g3 : gexact g1 g2 -> gexact g2 g3 -> gexact g1 g3.
Proof.
  intros [H1 H2] [H3 H4]. split; [lia|]. intros j Hj. rewrite H4 by lia. apply H2. exact Hj.
Qed.

Lemma gext_refl w g : gext w g g.
Proof. apply gexact_gext, gexact_refl. Qed.

Lemma gext_trans w g1 g2 g3 : gext w g1 g2 -> gext w g2 g3 -> gext w g1 g3.
Proof.
  intros [H1 H2] [H3 H4]. split; [lia|]. intros j Hj.
  specialize (H2 j Hj). specialize (H4 j ltac:(lia)).
  destruct w as [| |rid dl]; try (rewrite H4; exact H2).
  destruct (N.eqb j rid); [eapply epres_trans; eassumption|rewrite H4; exact H2].
Qed.

Lemma irel_gext g g' ds rid dl fills : irel g ds rid dl fills -> gext (WInst rid dl) g g' -> irel g' ds rid dl fills.
Proof.
  intros [Hk [Hv [Hlt [ci [O [Ha [Ho [Hc [Hf Hd]]]]]]]]] [Hn Hj].
  specialize (Hj rid Hlt). cbn in Hj. rewrite N.eqb_refl, Ha in Hj. cbn in Hj.
  destruct Hj as [ci' [Ha' [Hf' [Ho' Hd']]]].
  split; [exact Hk|]. split; [exact Hv|]. split; [lia|].
  exists ci', O. rewrite Hf', Ho'. repeat split; auto; apply Hc.
Qed.

Lemma srel_gext g g' c st G w : srel g c st G w -> gext w g g' -> srel g' c st G w.
Proof.
  intros [H1 [H2 [H3 [H4 [H5 H6]]]]] He. repeat (split; [assumption|]).
  destruct w as [| |rid dl]; try exact H6.
  destruct H6 as [cn [fills [Hc Hi]]]. exists cn, fills. split; [exact Hc|]. eapply irel_gext; eassumption.
Qed.

(* ---------- expressions ---------- *)
Lemma lookup_loc st x : out st = [] -> lookup x st = slookup x (loc st).
Proof. intro H. unfold lookup. rewrite H. destruct (slookup x (loc st)); reflexivity. Qed.

Lemma existsb_map_escape s (fills : list (str * closure)) :
  existsb (fun n => str_eqb n s) (map (fun kc => escape_name (fst kc)) fills) =
  existsb (fun kc => str_eqb (escape_name (fst kc)) s) fills.
Proof. induction fills as [|kc r IH]; [reflexivity|]. cbn [map existsb]. rewrite IH. reflexivity. Qed.

Lemma meval_rel g c st G w e :
  srel g c st G w -> expr_ok (is_body w) e = true -> crel (meval e (dicts c)) (eval e st).
Proof.
  intros [Ho [_ [Hv [_ [_ Hw]]]]] He. destruct e as [s|x|x f|s|]; cbn [meval eval expr_ok] in *.
  - constructor.
  - rewrite (Hv x He), (lookup_loc st x Ho). destruct (slookup x (loc st)); constructor.
  - rewrite (Hv x He), (lookup_loc st x Ho). destruct (slookup x (loc st)) as [[s|l|fs]|]; cbn; try constructor.
    destruct (slookup f fs); constructor.
  - destruct w as [| |rid dl]; [discriminate| |].
    + destruct Hw as [Hc [_ Hcv]]. rewrite Hcv, Hc. constructor.
    + destruct Hw as [cn [fills [Hc [_ [Hcv _]]]]]. rewrite Hcv, Hc. cbn [inst_fills].
      rewrite existsb_map_escape. constructor.
  - discriminate.
Qed.

Lemma mkwargs_rel g c st G w kw :
  srel g c st G w -> kw_ok (is_body w) kw = true -> mkwargs kw (dicts c) = Some (eval_kwargs kw st).
Proof.
  intros Hs. induction kw as [|[k e] r IH]; intro Hk; [reflexivity|].
  cbn [kw_ok forallb snd] in Hk. apply andb_true_iff in Hk as [He Hr].
  cbn [mkwargs eval_kwargs map fst snd]. rewrite (crel_value _ _ (meval_rel _ _ _ _ _ _ Hs He)).
  unfold eval_kwargs in IH. rewrite (IH Hr). reflexivity.
Qed.

Lemma val_expr_ok_expr w e : val_expr_ok e = true -> expr_ok (is_body w) e = true.
Proof. destruct e; cbn; intro H; try exact H; try reflexivity; discriminate. Qed.

Lemma meval_val_rel g c st G w e :
  srel g c st G w -> val_expr_ok e = true -> meval e (dicts c) = CVal (to_value (eval e st)).
Proof.
  intros [Ho [_ [Hv _]]] He. destruct e as [s|x|x f|s|]; try discriminate He; cbn [meval eval val_expr_ok expr_ok] in *.
  - reflexivity.
  - rewrite (Hv x He), (lookup_loc st x Ho). destruct (slookup x (loc st)); reflexivity.
  - rewrite (Hv x He), (lookup_loc st x Ho). destruct (slookup x (loc st)) as [[s|l|fs]|]; cbn; try reflexivity.
    destruct (slookup f fs); reflexivity.
Qed.

(* body-mode versions (no is_filled test), usable while fills are being collected *)
Lemma meval_rel_b ds st e :
  out st = [] -> vrel ds (loc st) -> expr_ok true e = true -> crel (meval e ds) (eval e st).
Proof.
  intros Ho Hv He. destruct e as [s|x|x f|s|]; cbn [meval eval expr_ok] in *; try discriminate.
  - constructor.
  - rewrite (Hv x He), (lookup_loc st x Ho). destruct (slookup x (loc st)); constructor.
  - rewrite (Hv x He), (lookup_loc st x Ho). destruct (slookup x (loc st)) as [[s|l|fs]|]; cbn; try constructor.
    destruct (slookup f fs); constructor.
Qed.

Lemma mkwargs_rel_b ds st kw :
  out st = [] -> vrel ds (loc st) -> kw_ok true kw = true -> mkwargs kw ds = Some (eval_kwargs kw st).
Proof.
  intros Ho Hv. induction kw as [|[k e] r IH]; intro Hk; [reflexivity|].
  cbn [kw_ok forallb snd] in Hk. apply andb_true_iff in Hk as [He Hr].
  cbn [mkwargs eval_kwargs map fst snd]. rewrite (crel_value _ _ (meval_rel_b _ _ _ Ho Hv He)).
  unfold eval_kwargs in IH. rewrite (IH Hr). reflexivity.
Qed.

Lemma meval_val_rel_b ds st e :
  out st = [] -> vrel ds (loc st) -> val_expr_ok e = true -> meval e ds = CVal (to_value (eval e st)).
Proof.
  intros Ho Hv He. destruct e as [s|x|x f|s|]; try discriminate He; cbn [meval eval val_expr_ok expr_ok] in *.
  - reflexivity.
  - rewrite (Hv x He), (lookup_loc st x Ho). destruct (slookup x (loc st)); reflexivity.
  - rewrite (Hv x He), (lookup_loc st x Ho). destruct (slookup x (loc st)) as [[s|l|fs]|]; cbn; try reflexivity.
    destruct (slookup f fs); reflexivity.
Qed.

(* ---------- S: the local list traversal of extract is extract_list ---------- *)
Lemma ex_list_eq tagprov ts : forall st btw,
  (fix ex_list (st : state) (btw : env) (ts : list tpl) : res (str * list (str * closure)) :=
     match ts with
     | [] => Ok ([], [])
     | t :: r => bind (extract tagprov st btw t) (fun a =>
                 bind (ex_list st btw r) (fun b => Ok (fst a ++ fst b, snd a ++ snd b)))
     end) st btw ts = extract_list tagprov st btw ts.
Proof.
  induction ts as [|t r IH]; intros st btw; [reflexivity|].
  cbn [extract_list]. rewrite <- IH. reflexivity.
Qed.

(* ---------- capture_extra ---------- *)
Lemma get_last_index_snoc_false {A} (f : A -> bool) l x :
  f x = false -> CtxStack.get_last_index f (l ++ [x]) = CtxStack.get_last_index f l.
Proof.
  intro H. induction l as [|y r IH]; cbn [app CtxStack.get_last_index]; [rewrite H; reflexivity|].
  rewrite IH. reflexivity.
Qed.

Lemma get_last_index_snoc_true {A} (f : A -> bool) l x :
  f x = true -> CtxStack.get_last_index f (l ++ [x]) = Some (List.length l).
Proof.
  intro H. induction l as [|y r IH]; cbn [app CtxStack.get_last_index List.length]; [rewrite H; reflexivity|].
  rewrite IH. reflexivity.
Qed.

Definition cap_inner (a : layer) (d : layer) : layer :=
  fold_left (fun a kv => if starts_underscore (fst kv) then a else lset (fst kv) (snd kv) a) d a.

Lemma cap_pass2_id (ds : list layer) : (forall d, In d ds -> has_key FORLOOP d = false) ->
  forall e, fold_left (fun acc d => if has_key FORLOOP d then lupdate acc d else acc) ds e = e.
Proof.
  induction ds as [|d r IH]; intros H e; [reflexivity|]. cbn [fold_left].
  rewrite (H d (or_introl eq_refl)). apply IH. intros d' Hd. apply H. right. exact Hd.
Qed.

Lemma capture_extra_eq ds i : CtxStack.get_last_index (has_key GEN_FILL) ds = Some i ->
  (forall d, In d ds -> has_key FORLOOP d = false) ->
  capture_extra ds = fold_left cap_inner (skipn i ds) [].
Proof. intros Hi Hf. unfold capture_extra. rewrite Hi. rewrite cap_pass2_id by exact Hf. reflexivity. Qed.

Lemma capture_extra_push ds i x v :
  CtxStack.get_last_index (has_key GEN_FILL) ds = Some i ->
  (forall d, In d ds -> has_key FORLOOP d = false) ->
  uname x = true ->
  capture_extra (ds ++ [[(x, v)]]) = lset x v (capture_extra ds).
Proof.
  intros Hi Hf Hx.
  assert (Hg : has_key GEN_FILL [(x, v)] = false).
  { unfold has_key, smem. cbn [slookup]. rewrite str_eqb_neq; [reflexivity|]. intro E. rewrite <- E in Hx. discriminate. }
  assert (Hfo : has_key FORLOOP [(x, v)] = false).
  { unfold has_key, smem. cbn [slookup]. rewrite str_eqb_neq; [reflexivity|]. intro E. rewrite <- E in Hx. discriminate. }
  rewrite (capture_extra_eq (ds ++ [[(x, v)]]) i).
  - rewrite (capture_extra_eq ds i Hi Hf).
    rewrite skipn_app. pose proof (CtxStack.get_last_index_lt _ _ _ Hi) as Hlt.
    replace (i - List.length ds)%nat with 0%nat by lia. cbn [skipn]. rewrite fold_left_app. cbn [fold_left].
    unfold cap_inner at 1. cbn [fold_left fst snd]. rewrite (uname_not_underscore _ Hx). reflexivity.
  - rewrite get_last_index_snoc_false by exact Hg. exact Hi.
  - intros d Hd. apply in_app_or in Hd as [Hd|[<-|[]]]; [apply Hf; exact Hd|exact Hfo].
Qed.

Lemma cget_none_layers k ds : cget k ds = None -> forall d, In d ds -> slookup k d = None.
Proof.
  induction ds as [|d r IH]; intros H d' Hd; [contradiction|]. cbn [cget] in H.
  destruct (cget k r) eqn:E; [discriminate|]. destruct Hd as [<-|Hd]; [exact H|apply IH; [reflexivity|exact Hd]].
Qed.

Lemma alookup_aset_same {V} k (v : V) l : alookup k (aset k v l) = Some v.
Proof.
  induction l as [|[k' v'] r IH]; cbn [aset alookup]; [rewrite N.eqb_refl; reflexivity|].
  destruct (N.eqb k k') eqn:E; cbn [alookup]; rewrite ?N.eqb_refl; [reflexivity|]. rewrite E. exact IH.
Qed.

Lemma alookup_aset_other {V} k j (v : V) l : j <> k -> alookup j (aset k v l) = alookup j l.
Proof.
  intro H. induction l as [|[k' v'] r IH]; cbn [aset alookup].
  - destruct (N.eqb j k) eqn:E; [apply N.eqb_eq in E; contradiction|reflexivity].
  - destruct (N.eqb k k') eqn:E; cbn [alookup].
    + apply N.eqb_eq in E. subst k'. destruct (N.eqb j k) eqn:E2; [apply N.eqb_eq in E2; contradiction|reflexivity].
    + destruct (N.eqb j k'); [reflexivity|exact IH].
Qed.

Lemma alookup_aremove_other {V} k j (l : list (N * V)) : j <> k -> alookup j (aremove k l) = alookup j l.
Proof.
  intro H. induction l as [|[k' v'] r IH]; [reflexivity|]. cbn [aremove alookup].
  destruct (N.eqb k k') eqn:E.
  - apply N.eqb_eq in E. subst k'. destruct (N.eqb j k) eqn:E2; [apply N.eqb_eq in E2; contradiction|exact IH].
  - cbn [alookup]. destruct (N.eqb j k'); [reflexivity|exact IH].
Qed.

(* ---------- fill discovery: M's extraction-mode render vs S's extract ---------- *)
Record xrel (c : ctxt) (st : state) (btw loc0 : env) (n : N) (G : list str) : Prop := {
  xr_out : out st = [];
  xr_loc : loc st = btw ++ loc0;
  xr_vars : vrel (dicts c) (loc st);
  xr_incl : incl (map fst (loc st)) G;
  xr_gen : cget GEN_FILL (dicts c) = Some (CCollect n);
  xr_idx : exists i, CtxStack.get_last_index (has_key GEN_FILL) (dicts c) = Some i;
  xr_for : forall d, In d (dicts c) -> has_key FORLOOP d = false;
  xr_cap : forall x, slookup x (capture_extra (dicts c)) = option_map CVal (slookup x btw);
  xr_disj : forall x, In x (map fst btw) -> ~ In x (map fst loc0) /\ uname x = true
}.

Definition xstep (n : N) (old fl : list (str * slotfn)) (g g' : gstate) : Prop :=
  g_next g' = g_next g /\ g_cctx g' = g_cctx g /\ g_prov g' = g_prov g /\ alookup n (g_collect g') = Some (old ++ fl).

Lemma xrel_push c st btw loc0 n G x v :
  xrel c st btw loc0 n G -> binder_ok x = true -> ~ In x G ->
  xrel (with_dicts c (cpush [(x, CVal v)] (dicts c))) (bind_loc x v st) ((x, v) :: btw) loc0 n (x :: G).
Proof.
  intros X Hb Hn. apply andb_true_iff in Hb as [_ Hu]. destruct X. destruct xr_idx0 as [i Hi].
  constructor; cbn [dicts with_dicts bind_loc loc out].
  - exact xr_out0.
  - rewrite xr_loc0. reflexivity.
  - intros y Hy. unfold cpush. rewrite cget_snoc. cbn [slookup].
    destruct (str_eqb y x); [reflexivity|]. apply xr_vars0. exact Hy.
  - cbn [map fst]. intros y [<-|Hy]; [left; reflexivity|right; apply xr_incl0; exact Hy].
  - unfold cpush. rewrite cget_snoc. cbn [slookup]. rewrite str_eqb_neq; [exact xr_gen0|].
    intro E. rewrite <- E in Hu. discriminate.
  - exists i. unfold cpush. rewrite get_last_index_snoc_false; [exact Hi|].
    unfold has_key, smem. cbn [slookup]. rewrite str_eqb_neq; [reflexivity|]. intro E. rewrite <- E in Hu. discriminate.
  - intros d Hd. unfold cpush in Hd. apply in_app_or in Hd as [Hd|[<-|[]]]; [apply xr_for0; exact Hd|].
    unfold has_key, smem. cbn [slookup]. rewrite str_eqb_neq; [reflexivity|]. intro E. rewrite <- E in Hu. discriminate.
  - intros y. unfold cpush. pose proof (capture_extra_push (dicts c) i x (CVal v) Hi xr_for0 Hu) as Hcp.
    match goal with |- slookup y (capture_extra ?l) = _ =>
      replace (capture_extra l) with (lset x (CVal v) (capture_extra (dicts c))) by (symmetry; exact Hcp) end.
    rewrite slookup_lset. cbn [slookup].
    destruct (str_eqb y x); [reflexivity|apply xr_cap0].
  - intros y [<-|Hy]; [|apply xr_disj0; exact Hy]. split; [|exact Hu].
    intro Hi0. apply Hn. apply xr_incl0. rewrite xr_loc0, map_app. apply in_or_app. right. exact Hi0.
Qed.

Section ExSim.
  Variable rec : gstate -> ctxt -> tpl -> mres R.
  Variable ds0 : list layer.
  Variable n : N.

  Definition exP (t : tpl) : Prop :=
    forall G st btw loc0 g c old,
      wf_t true G t = true -> xrel c st btw loc0 n G -> vrel ds0 loc0 -> cur st = cur st ->
      alookup n (g_collect g) = Some old ->
      match extract [] st btw t with
      | Ok (s, cl) => exists g' fl, mex rec g c t = MOk (s, g', c) /\ xstep n old fl g g' /\ Forall2 (frel ds0) fl cl
      | Err k => mex rec g c t = MErr k
      | OutOfFuel => False
      end.

  Definition exQ (ts : list tpl) : Prop :=
    forall G st btw loc0 g c old,
      wf_l true G ts = true -> xrel c st btw loc0 n G -> vrel ds0 loc0 -> cur st = cur st ->
      alookup n (g_collect g) = Some old ->
      match extract_list [] st btw ts with
      | Ok (s, cl) => exists g' fl, mexl rec ts g c = MOk (s, g', c) /\ xstep n old fl g g' /\ Forall2 (frel ds0) fl cl
      | Err k => mexl rec ts g c = MErr k
      | OutOfFuel => False
      end.

  Lemma xstep_refl old g : alookup n (g_collect g) = Some old -> xstep n old [] g g.
  Proof. intro H. repeat split; try reflexivity. rewrite app_nil_r. exact H. Qed.

  Lemma ex_sim_all : (forall t, exP t) /\ (forall ts, exQ ts).
  Proof.
    assert (Hnil : exQ []).
    { intros G st btw loc0 g c old _ X Hv _ Ho. cbn. exists g, []. split; [reflexivity|]. split; [apply xstep_refl; exact Ho|constructor]. }
    assert (Hcons : forall t r, exP t -> exQ r -> exQ (t :: r)).
    { intros t r Ht Hr G st btw loc0 g c old Hw X Hv Hc Ho. cbn [wf_l] in Hw. apply andb_true_iff in Hw as [Hw1 Hw2].
      cbn [extract_list mexl]. specialize (Ht G st btw loc0 g c old Hw1 X Hv Hc Ho).
      destruct (extract [] st btw t) as [[s1 cl1]|k|]; cbn [bind]; [|rewrite Ht; reflexivity|exact Ht].
      destruct Ht as [g1 [fl1 [E1 [[Hn1 [Hc1 [Hp1 Hl1]]] F1]]]]. rewrite E1. cbn [mbind].
      specialize (Hr G st btw loc0 g1 c (old ++ fl1) Hw2 X Hv Hc Hl1).
      destruct (extract_list [] st btw r) as [[s2 cl2]|k|]; cbn [bind fst snd]; [|rewrite Hr; reflexivity|exact Hr].
      destruct Hr as [g2 [fl2 [E2 [[Hn2 [Hc2 [Hp2 Hl2]]] F2]]]]. rewrite E2. cbn [mbind].
      exists g2, (fl1 ++ fl2). split; [reflexivity|]. split.
      - repeat split; try congruence. rewrite Hl2, app_assoc. reflexivity.
      - apply Forall2_app; assumption. }
    assert (HText : forall s, exP (TText s)).
    { intros s G st btw loc0 g c old _ X Hv _ Ho. cbn. exists g, []. split; [reflexivity|]. split; [apply xstep_refl; exact Ho|constructor]. }
    assert (HOut : forall e, exP (TOut e)).
    { intros e G st btw loc0 g c old Hw X Hv _ Ho. cbn [wf_t] in Hw. cbn [extract mex].
      pose proof (meval_rel_b _ _ _ (xr_out _ _ _ _ _ _ X) (xr_vars _ _ _ _ _ _ X) Hw) as Hr.
      unfold mout. remember (meval e (dicts c)) as cv. remember (eval e st) as xv.
      destruct Hr; (exists g, []; split; [reflexivity|split; [apply xstep_refl; exact Ho|constructor]]). }
    assert (HIf : forall cnd a b, exQ a -> exQ b -> exP (TIf cnd a b)).
    { intros cnd a b Ha Hb G st btw loc0 g c old Hw X Hv Hc Ho. cbn [wf_t] in Hw.
      apply andb_true_iff in Hw as [Hw Hwb]. apply andb_true_iff in Hw as [Hwc Hwa].
      cbn [extract mex]. rewrite !ex_list_eq.
      rewrite (crel_truthy _ _ (meval_rel_b _ _ _ (xr_out _ _ _ _ _ _ X) (xr_vars _ _ _ _ _ _ X) Hwc)).
      destruct (truthy (eval cnd st)); [apply (Ha G st btw loc0 g c old Hwa X Hv Hc Ho)|apply (Hb G st btw loc0 g c old Hwb X Hv Hc Ho)]. }
    assert (HFor : forall x e body, exQ body -> exP (TFor x e body)).
    { intros x e body _ G st btw loc0 g c old Hw. discriminate Hw. }
    assert (HWith : forall x e body, exQ body -> exP (TWith x e body)).
    { intros x e body Hb G st btw loc0 g c old Hw X Hv Hc Ho. cbn [wf_t] in Hw.
      apply andb_true_iff in Hw as [Hw Hwb]. apply andb_true_iff in Hw as [Hw Hnin]. apply andb_true_iff in Hw as [Hwe Hbx].
      apply negb_true_iff in Hnin. apply smemb_notin in Hnin.
      cbn [extract]. rewrite ex_list_eq.
      change (mex rec g c (TWith x e body)) with (mwith x (meval e (dicts c)) (mexl rec body) g c).
      rewrite (meval_val_rel_b _ _ _ (xr_out _ _ _ _ _ _ X) (xr_vars _ _ _ _ _ _ X) Hwe).
      unfold mwith.
      pose proof (xrel_push _ _ _ _ _ _ x (to_value (eval e st)) X Hbx Hnin) as X'.
      specialize (Hb (x :: G) (bind_loc x (to_value (eval e st)) st) ((x, to_value (eval e st)) :: btw) loc0 g
                     (with_dicts c (cpush [(x, CVal (to_value (eval e st)))] (dicts c))) old Hwb X' Hv eq_refl Ho).
      change (mexl rec body) with (mexl rec body) in Hb.
      destruct (extract_list [] (bind_loc x (to_value (eval e st)) st) ((x, to_value (eval e st)) :: btw) body) as [[s cl]|k|];
        [|rewrite Hb; reflexivity|exact Hb].
      destruct Hb as [g' [fl [E [Hx F]]]]. rewrite E. cbn [mbind]. rewrite push_pop_id. exists g', fl. auto. }
    assert (HSlot : forall nm d r data body, exQ body -> exP (TSlot nm d r data body)).
    { intros nm d r data body _ G st btw loc0 g c old Hw. discriminate Hw. }
    assert (HFill : forall nm dv df body, exQ body -> exP (TFill nm dv df body)).
    { intros nm dv df body _ G st btw loc0 g c old Hw X Hv _ Ho. cbn [wf_t] in Hw.
      apply andb_true_iff in Hw as [Hw Hwb]. apply andb_true_iff in Hw as [Hwn Hdf].
      destruct df as [df|]; [discriminate|].
      cbn [extract mex]. unfold mfill.
      pose proof (meval_rel_b _ _ _ (xr_out _ _ _ _ _ _ X) (xr_vars _ _ _ _ _ _ X) Hwn) as Hr.
      inversion Hr as [v E1 E2|b E1 E2]; [|reflexivity].
      destruct v as [s|l|fs]; try reflexivity.
      assert (Hid : negb (opt_ident_ok dv) || negb (opt_ident_ok None) = false).
      { destruct dv as [x|]; [|reflexivity]. cbn. apply andb_true_iff in Hwb as [Hwb _]. apply andb_true_iff in Hwb as [Hwb _].
        apply andb_true_iff in Hwb as [Hwb _]. rewrite Hwb. reflexivity. }
      rewrite Hid.
      assert (Hsame : match dv with Some _ | _ => false end = false) by (destruct dv; reflexivity).
      rewrite Hsame. rewrite (xr_gen _ _ _ _ _ _ X), Ho.
      eexists. exists [(s, {| sf_body := body; sf_dvar := dv; sf_defvar := None; sf_extra := Some (capture_extra (dicts c)) |})].
      split; [reflexivity|]. split.
      - repeat split; try reflexivity. cbn [g_collect set_collect]. apply alookup_aset_same.
      - constructor; [|constructor]. split; [reflexivity|]. cbn [snd fst sf_body sf_dvar sf_defvar sf_extra].
        repeat split; try reflexivity; try exact (xr_out _ _ _ _ _ _ X).
        + exact (xr_cap _ _ _ _ _ _ X).
        + exists loc0, G. split; [exact (xr_loc _ _ _ _ _ _ X)|]. split; [exact Hv|].
          split; [destruct dv as [x|]; [apply andb_true_iff in Hwb as [_ Hwb]|]; exact Hwb|].
          split; [rewrite <- (xr_loc _ _ _ _ _ _ X); exact (xr_incl _ _ _ _ _ _ X)|].
          split; [|exact (xr_disj _ _ _ _ _ _ X)].
          intros x ->. apply andb_true_iff in Hwb as [Hwb _]. apply andb_true_iff in Hwb as [Hbx Hnin].
          apply negb_true_iff in Hnin. apply smemb_notin in Hnin. auto. }
    assert (HComp : forall cn kw o body, exQ body -> exP (TComp cn kw o body)).
    { intros cn kw o body _ G st btw loc0 g c old Hw X Hv _ Ho. cbn [wf_t] in Hw. apply andb_true_iff in Hw as [Hkw _].
      cbn [extract mex]. rewrite (mkwargs_rel_b _ _ _ (xr_out _ _ _ _ _ _ X) (xr_vars _ _ _ _ _ _ X) Hkw).
      exists g, []. split; [reflexivity|]. split; [apply xstep_refl; exact Ho|constructor]. }
    assert (HProvide : forall k kw body, exQ body -> exP (TProvide k kw body)).
    { intros k kw body _ G st btw loc0 g c old Hw. discriminate Hw. }
    split.
    - exact (tpl_ind3 exP exQ Hnil Hcons HText HOut HIf HFor HWith HSlot HFill HComp HProvide).
    - exact (tpls_ind3 exP exQ Hnil Hcons HText HOut HIf HFor HWith HSlot HFill HComp HProvide).
  Qed.
End ExSim.

(* ---------- resolve_fills ---------- *)
Lemma Forall2_frel_names ds0 fm fs : Forall2 (frel ds0) fm fs -> map fst fm = map fst fs.
Proof. induction 1 as [|a b fm fs [Hn _] _ IH]; [reflexivity|]. cbn [map]. rewrite Hn, IH. reflexivity. Qed.

Lemma resolve_sim rec g c st G body :
  out st = [] -> prov st = [] -> vrel (dicts c) (loc st) -> incl (map fst (loc st)) G -> clean (dicts c) ->
  wf_l true G body = true ->
  match resolve_fills st body with
  | Ok fills => exists g' fm, m_resolve_fills rec g c body = MOk (fm, g', c) /\ g_cctx g' = g_cctx g /\
                              (g_next g <= g_next g')%N /\ Forall2 (frel (dicts c)) fm fills
  | Err k => m_resolve_fills rec g c body = MErr k
  | OutOfFuel => False
  end.
Proof.
  intros Ho Hp Hv Hi [Hcg Hcf] Hw. unfold resolve_fills, m_resolve_fills.
  destruct body as [|t r]; [exists g, []; repeat split; [lia|constructor]|].
  set (body := t :: r) in *. rewrite Hp.
  destruct (fresh g) as [n g1] eqn:Ef. unfold fresh in Ef. inversion Ef; subst n g1. clear Ef.
  set (g1 := {| g_next := N.succ (g_next g); g_cctx := g_cctx g; g_collect := g_collect g; g_prov := g_prov g |}).
  set (g2 := set_collect g1 (aset (g_next g) [] (g_collect g1))).
  set (c1 := with_dicts c (cpush [(GEN_FILL, CCollect (g_next g))] (dicts c))).
  assert (X : xrel c1 st [] (loc st) (g_next g) G).
  { constructor; cbn [dicts with_dicts c1]; unfold cpush.
    - exact Ho.
    - reflexivity.
    - intros x Hx. rewrite cget_snoc. cbn [slookup]. rewrite str_eqb_neq; [apply Hv; exact Hx|].
      intro E. rewrite E in Hx. discriminate.
    - exact Hi.
    - rewrite cget_snoc. cbn [slookup]. rewrite str_eqb_refl. reflexivity.
    - exists (List.length (dicts c)). apply get_last_index_snoc_true. unfold has_key, smem. cbn [slookup]. rewrite str_eqb_refl. reflexivity.
    - intros d Hd. apply in_app_or in Hd as [Hd|[<-|[]]]; [|reflexivity].
      unfold has_key, smem. rewrite (cget_none_layers _ _ Hcf d Hd). reflexivity.
    - intros x. rewrite (capture_extra_eq _ (List.length (dicts c))).
      + rewrite skipn_app, skipn_all, Nat.sub_diag. reflexivity.
      + apply get_last_index_snoc_true. unfold has_key, smem. cbn [slookup]. rewrite str_eqb_refl. reflexivity.
      + intros d Hd. apply in_app_or in Hd as [Hd|[<-|[]]]; [|reflexivity].
        unfold has_key, smem. rewrite (cget_none_layers _ _ Hcf d Hd). reflexivity.
    - intros x []. }
  pose proof (proj2 (ex_sim_all rec (dicts c) (g_next g)) body G st [] (loc st) g2 c1 [] Hw X Hv eq_refl
                (alookup_aset_same (g_next g) [] (g_collect g1))) as Hs.
  destruct (extract_list [] st [] body) as [[content cl]|k|]; cbn [bind]; [|rewrite Hs; reflexivity|exact Hs].
  destruct Hs as [g3 [fl [E [[Hn3 [Hc3 [Hp3 Hl3]]] F]]]]. rewrite E. cbn [mbind].
  unfold c1. rewrite push_pop_id. rewrite Hl3. cbn [app].
  assert (Hnext : (g_next g <= g_next g3)%N) by (rewrite Hn3; cbn; lia).
  assert (Hcc : g_cctx g3 = g_cctx g) by (rewrite Hc3; reflexivity).
  destruct F as [|a b fl' cl' Hab F'].
  - destruct (body_is_empty body).
    + exists g3, []. repeat split; auto.
    + eexists g3, _. split; [reflexivity|]. split; [exact Hcc|]. split; [exact Hnext|].
      constructor; [|constructor]. split; [reflexivity|]. cbn [snd fst sf_body sf_dvar sf_defvar sf_extra].
      repeat split; auto. exists (loc st), G. repeat split; auto; try discriminate; contradiction.
  - pose proof (Forall2_frel_names _ _ _ (Forall2_cons _ _ Hab F')) as Hnames.
    destruct (negb (all_space content)); [reflexivity|]. rewrite Hnames.
    destruct (has_dup (map fst (b :: cl'))); [reflexivity|].
    exists g3, (a :: fl'). repeat split; auto.
Qed.

(* ---------- get_context_data without inject ---------- *)
Lemma eval_data_sim ds kw pv g cds :
  forallb (fun xd => binder_ok (fst xd) && dexpr_ok (snd xd)) ds = true ->
  exists data, eval_data ds kw pv = Ok data /\
               m_eval_data ds kw g cds = MOk (map (fun kv => (fst kv, CVal (snd kv))) data) /\
               incl (map fst data) (map fst ds).
Proof.
  induction ds as [|[x d] r IH]; intro H; [exists []; repeat split; intros y []|].
  cbn [forallb fst snd] in H. apply andb_true_iff in H as [H1 H2]. apply andb_true_iff in H1 as [_ Hd].
  destruct (IH H2) as [rest [E1 [E2 Hi]]].
  destruct d as [k|s|key field dflt]; [| |discriminate]; cbn [eval_data m_eval_data bind mbind]; rewrite E1, E2; cbn [bind mbind].
  - eexists. split; [reflexivity|]. split; [rewrite map_app; reflexivity|].
    rewrite map_app. cbn [map fst]. intros y Hy. apply in_app_or in Hy as [Hy|[<-|[]]]; [right; apply Hi; exact Hy|left; reflexivity].
  - eexists. split; [reflexivity|]. split; [rewrite map_app; reflexivity|].
    rewrite map_app. cbn [map fst]. intros y Hy. apply in_app_or in Hy as [Hy|[<-|[]]]; [right; apply Hi; exact Hy|left; reflexivity].
Qed.

(* ---------- make_isolated_context_copy on a Context without forloop ---------- *)
Definition l0_ok (k : str) : Prop :=
  k <> KEY /\ starts_inj k = false /\ k <> s2n "True" /\ k <> s2n "False" /\ k <> s2n "None".

Lemma uname_l0_ok x : uname x = true -> l0_ok x.
Proof.
  intro H. split; [intro E; subst; discriminate|]. split; [apply uname_not_inj; exact H|].
  repeat split; intro E; subst; discriminate.
Qed.

Lemma isolated_copy_shape g c : cget FORLOOP (dicts c) = None ->
  exists L o, make_isolated_context_copy g c =
              ({| oid := o; dicts := [L] |}, {| g_next := N.succ (g_next g); g_cctx := g_cctx g; g_collect := g_collect g; g_prov := g_prov g |})
              /\ forall k, l0_ok k -> slookup k L = None.
Proof.
  intro Hf. unfold make_isolated_context_copy, fresh, copy_forloop. rewrite Hf.
  set (ds1 := match cget KEY (dicts c) with Some v => cset KEY v [builtins] | None => [builtins] end).
  assert (H1 : exists L, ds1 = [L] /\ forall k, l0_ok k -> slookup k L = None).
  { assert (Hb : forall k, l0_ok k -> slookup k builtins = None).
    { intros k [_ [_ [H1 [H2 H3]]]]. unfold builtins. cbn [slookup]. rewrite !str_eqb_neq by assumption. reflexivity. }
    unfold ds1. destruct (cget KEY (dicts c)) as [v|]; [|exists builtins; split; [reflexivity|exact Hb]].
    exists (lset KEY v builtins). split; [reflexivity|]. intros k Hk. rewrite slookup_lset.
    rewrite str_eqb_neq by apply Hk. apply Hb. exact Hk. }
  clearbody ds1. revert ds1 H1. generalize (flatten (dicts c)) as fl.
  induction fl as [|[k' v'] r IH]; intros ds1 [L [-> HL]]; cbn [fold_left fst snd].
  - exists L, (g_next g). split; [reflexivity|exact HL].
  - apply IH. destruct (starts_inj k') eqn:E; [|exists L; auto].
    destruct (cget k' (dicts c)) as [v|]; [|exists L; auto].
    exists (lset k' v L). split; [reflexivity|]. intros k Hk. rewrite slookup_lset.
    rewrite str_eqb_neq; [apply HL; exact Hk|]. intro E2. subst k'. destruct Hk as [_ [Hk _]]. congruence.
Qed.

(* ---------- helpers for the main simulation ---------- *)
Lemma slookup_frel ds0 fm fs : Forall2 (frel ds0) fm fs -> forall k,
  match slookup k fm, slookup k fs with
  | Some sf, Some cl => frel ds0 (k, sf) (k, cl)
  | None, None => True
  | _, _ => False
  end.
Proof.
  induction 1 as [|[n sf] [n' cl] fm fs [Hn Hr] _ IH]; intro k; [exact I|].
  cbn [fst] in Hn. subst n'. cbn [slookup]. destruct (str_eqb k n) eqn:E; [|apply IH].
  apply str_eqb_eq in E. subst k. split; [reflexivity|exact Hr].
Qed.

Lemma smem_frel ds0 fm fs k : Forall2 (frel ds0) fm fs -> smem k fm = smem k fs.
Proof.
  intro F. pose proof (slookup_frel _ _ _ F k) as H. unfold smem.
  destruct (slookup k fm), (slookup k fs); try reflexivity; contradiction.
Qed.

Lemma srel_same_lookups g c st G w c' :
  (forall k, relevant k -> cget k (dicts c') = cget k (dicts c)) -> srel g c st G w -> srel g c' st G w.
Proof.
  intros Hk [H1 [H2 [H3 [H4 [[H5 H5'] H6]]]]].
  split; [exact H1|]. split; [exact H2|]. split.
  { intros x Hx. rewrite Hk by (left; exact Hx). apply H3. exact Hx. }
  split; [exact H4|]. split.
  { split; rewrite Hk; try assumption; unfold relevant; auto. }
  destruct w as [| |rid dl]; [exact I| |].
  - destruct H6 as [Ha [Hb Hc]]. rewrite !Hk by (unfold relevant; auto). auto.
  - destruct H6 as [cn [fills [Hc [Hi1 [Hi2 Hi3]]]]]. exists cn, fills. split; [exact Hc|].
    split; [rewrite Hk by (unfold relevant; auto); exact Hi1|]. split; [rewrite Hk by (unfold relevant; auto); exact Hi2|exact Hi3].
Qed.

Lemma relevant_neq_uname k x : relevant k -> binder_ok x = true -> ~ (uname k = true) -> k <> x.
Proof. intros _ Hb Hn E. subst. apply andb_true_iff in Hb as [_ Hb]. contradiction. Qed.

Lemma srel_push g c st G w x v :
  srel g c st G w -> binder_ok x = true -> ~ In x G ->
  srel g (with_dicts c (cpush [(x, CVal v)] (dicts c))) (bind_loc x v st) (x :: G) w.
Proof.
  intros [H1 [H2 [H3 [H4 [[H5 H5'] H6]]]]] Hb Hn. pose proof Hb as Hb'. apply andb_true_iff in Hb' as [_ Hu].
  assert (Hother : forall k, uname k = false -> cget k (cpush [(x, CVal v)] (dicts c)) = cget k (dicts c)).
  { intros k Hk. unfold cpush. rewrite cget_snoc. cbn [slookup]. rewrite str_eqb_neq; [reflexivity|].
    intro E. subst. congruence. }
  split; [exact H1|]. split; [exact H2|]. cbn [dicts with_dicts bind_loc loc cur]. split.
  { intros y Hy. unfold cpush. rewrite cget_snoc. cbn [slookup]. destruct (str_eqb y x); [reflexivity|apply H3; exact Hy]. }
  split. { cbn [map fst]. intros y [<-|Hy]; [left; reflexivity|right; apply H4; exact Hy]. }
  split. { split; rewrite Hother; auto. }
  destruct w as [| |rid dl]; [exact I| |].
  - destruct H6 as [Ha [Hb1 Hc]]. rewrite !Hother by reflexivity. auto.
  - destruct H6 as [cn [fills [Hc [Hi1 [Hi2 Hi3]]]]]. exists cn, fills. split; [exact Hc|].
    split; [rewrite Hother by reflexivity; exact Hi1|]. split; [rewrite Hother by reflexivity; exact Hi2|exact Hi3].
Qed.

Lemma slot_default_check_ok rid ci name isd g dl :
  alookup rid (g_cctx g) = Some ci -> (rid < g_next g)%N -> dflt_ok dl ci ->
  (forall a b, In a dl -> In b dl -> a = b) -> (isd = true -> In name dl) ->
  exists g1, slot_default_check rid ci name isd g = MOk g1 /\ gext (WInst rid dl) g g1.
Proof.
  intros Ha Hlt Hd Hs Hin. unfold slot_default_check. destruct isd; [|exists g; split; [reflexivity|apply gext_refl]].
  specialize (Hin eq_refl). unfold dflt_ok in Hd. destruct (ci_default ci) as [d|] eqn:Ed.
  - rewrite (Hd name Hin), str_eqb_refl. cbn [negb]. exists g. split; [reflexivity|apply gext_refl].
  - eexists. split; [reflexivity|]. split; [cbn; lia|]. intros j Hj. cbn [g_cctx set_cctx].
    destruct (N.eqb j rid) eqn:E.
    + apply N.eqb_eq in E. subst j. rewrite Ha, alookup_aset_same. cbn. eexists. split; [reflexivity|].
      cbn [ci_fills ci_outer]. repeat split. intros _. unfold dflt_ok. cbn [ci_default]. intros n Hn. apply Hs; assumption.
    + apply alookup_aset_other. intro E2. subst. rewrite N.eqb_refl in E. discriminate.
Qed.

(* the layers a fill body is rendered on (render_func) *)
Definition rf_dicts (f : slotfn) (sdata : value) (sref : cval) (ds : list layer) : list layer :=
  let ds1 := match sf_dvar f with Some x => cset x (CVal sdata) ds | None => ds end in
  let ds2 := match sf_defvar f with Some x => cset x sref ds1 | None => ds1 end in
  let i := (match CtxStack.get_last_index (has_key KEY) ds2 with Some i => Z.of_nat i | None => 0%Z end - 1)%Z in
  CtxStack.py_insertZ i (match sf_extra f with Some e => e | None => [] end) ds2.

(* running render_func on Context c0 = (c with `extra` pushed), given what the body does on its layers *)
Lemma m_render_func_run mrec f sdata sref g c extra :
  let c0 := with_dicts c (cpush extra (dicts c)) in
  let cb := with_dicts c0 (rf_dicts f sdata sref (dicts c0)) in
  match mrl mrec g cb (sf_body f) with
  | MOk (a, g', c') => c' = cb ->
      exists c2, m_render_func mrec f sdata sref g c0 = MOk (a, g', c2) /\ with_dicts c2 (cpop (dicts c2)) = c
  | MErr k => m_render_func mrec f sdata sref g c0 = MErr k
  | MFuel => m_render_func mrec f sdata sref g c0 = MFuel
  | MUnsup u => m_render_func mrec f sdata sref g c0 = MUnsup u
  end.
Proof.
  cbn zeta. unfold m_render_func, rf_dicts. cbn [dicts with_dicts oid].
  set (ds1 := match sf_dvar f with Some x => cset x (CVal sdata) (cpush extra (dicts c)) | None => cpush extra (dicts c) end).
  set (ds2 := match sf_defvar f with Some x => cset x sref ds1 | None => ds1 end).
  assert (E1 : exists top, ds1 = dicts c ++ [top]).
  { unfold ds1, cpush. destruct (sf_dvar f); [rewrite cset_snoc|]; eauto. }
  destruct E1 as [top1 E1].
  assert (E2 : exists top, ds2 = dicts c ++ [top]).
  { unfold ds2. rewrite E1. destruct (sf_defvar f); [rewrite cset_snoc|]; eauto. }
  destruct E2 as [top E2].
  destruct (mrl mrec g _ (sf_body f)) as [[[a g'] c']| | |]; cbn [mbind]; try reflexivity.
  intros ->. cbn [dicts with_dicts]. rewrite E2.
  destruct (fill_frame_restores_gen (has_key KEY) (dicts c) top (match sf_extra f with Some e => e | None => [] end))
    as [ds' [Hp Hr]]. cbn zeta in Hp. rewrite Hp. eexists. split; [reflexivity|].
  cbn [dicts with_dicts oid]. unfold cpop. rewrite Hr. destruct c; reflexivity.
Qed.

Lemma rf_dicts_unfilled body sdata sref ds extra k :
  slookup k extra = None ->
  cget k (rf_dicts (unfilled_fn body) sdata sref (cpush extra ds)) = cget k ds.
Proof.
  intro H. unfold rf_dicts, unfilled_fn. cbn [sf_dvar sf_defvar sf_extra].
  rewrite cget_insert by reflexivity. unfold cpush. rewrite cget_snoc, H. reflexivity.
Qed.

Lemma slookup_none_btw (btw : env) k :
  (forall x, In x (map fst btw) -> uname x = true) -> uname k = false -> slookup k btw = None.
Proof. intros H Hk. apply slookup_notin. intro Hi. apply H in Hi. congruence. Qed.

(* the Context a fill body sees in isolated mode vs the lexical scope of S *)
Lemma fill_ctx_vrel ds0 sf btw loc0 Gb dv sdata sref extra :
  sf_dvar sf = dv -> sf_defvar sf = None ->
  (forall x, slookup x (match sf_extra sf with Some e => e | None => [] end) = option_map CVal (slookup x btw)) ->
  vrel ds0 loc0 -> clean ds0 ->
  incl (map fst (btw ++ loc0)) Gb ->
  (forall x, dv = Some x -> ~ In x Gb /\ binder_ok x = true) ->
  (forall x, In x (map fst btw) -> ~ In x (map fst loc0) /\ uname x = true) ->
  (forall k, relevant k -> slookup k extra = None) ->
  vrel (rf_dicts sf sdata sref (cpush extra ds0)) ((match dv with Some x => [(x, sdata)] | None => [] end) ++ btw ++ btw ++ loc0) /\
  clean (rf_dicts sf sdata sref (cpush extra ds0)).
Proof.
  intros Hdv Hdf Hfe Hv [Hcg Hcf] Hincl Hd Hdisj Hex.
  unfold rf_dicts. cbn zeta. rewrite Hdv, Hdf.
  set (fe := match sf_extra sf with Some e => e | None => [] end) in *.
  set (ds2 := match dv with Some x => cset x (CVal sdata) (cpush extra ds0) | None => cpush extra ds0 end).
  set (i := (match CtxStack.get_last_index (has_key KEY) ds2 with Some i => Z.of_nat i | None => 0%Z end - 1)%Z).
  assert (Hds2 : forall k, relevant k ->
            cget k ds2 = match dv with Some d => if str_eqb k d then Some (CVal sdata) else cget k ds0 | None => cget k ds0 end).
  { intros k Hk. unfold ds2, cpush. destruct dv as [d|].
    - rewrite cget_cset. destruct (str_eqb k d); [reflexivity|]. rewrite cget_snoc, (Hex k Hk). reflexivity.
    - rewrite cget_snoc, (Hex k Hk). reflexivity. }
  assert (Hbu : forall x, In x (map fst btw) -> uname x = true) by (intros x Hx; apply Hdisj; exact Hx).
  split.
  - intros x Hx. destruct (slookup x btw) as [v|] eqn:Eb.
    + (* bound between the tag and the fill: found in the inserted layer, nowhere else *)
      pose proof (slookup_in _ _ _ Eb) as Hin.
      assert (Hn2 : cget x ds2 = None).
      { rewrite Hds2 by (left; exact Hx). destruct (Hdisj x Hin) as [Hnl _].
        assert (E0 : cget x ds0 = None) by (rewrite (Hv x Hx), (slookup_notin _ _ Hnl); reflexivity).
        destruct dv as [d|]; [|exact E0]. rewrite str_eqb_neq; [exact E0|].
        intro E. subst d. destruct (Hd x eq_refl) as [Hng _]. apply Hng, Hincl. rewrite map_app. apply in_or_app. left. exact Hin. }
      rewrite (cget_insert_in x i fe ds2 (CVal v)); [|rewrite Hfe, Eb; reflexivity|exact Hn2].
      rewrite slookup_app.
      assert (Ea : slookup x (match dv with Some x0 => [(x0, sdata)] | None => [] end) = None).
      { destruct dv as [d|]; [|reflexivity]. cbn [slookup]. rewrite str_eqb_neq; [reflexivity|].
        intro E. subst d. destruct (Hd x eq_refl) as [Hng _]. apply Hng, Hincl. rewrite map_app. apply in_or_app. left. exact Hin. }
      rewrite Ea, slookup_app, Eb. reflexivity.
    + rewrite cget_insert by (rewrite Hfe, Eb; reflexivity).
      rewrite Hds2 by (left; exact Hx). rewrite !slookup_app, Eb.
      destruct dv as [d|]; cbn [slookup]; [destruct (str_eqb x d); [reflexivity|]|]; apply Hv; exact Hx.
  - assert (Hk : forall k, relevant k -> uname k = false -> cget k ds0 = None -> cget k (CtxStack.py_insertZ i fe ds2) = None).
    { intros k Hr Hu H0. rewrite cget_insert by (rewrite Hfe, (slookup_none_btw btw k Hbu Hu); reflexivity).
      rewrite Hds2 by exact Hr. destruct dv as [d|]; [|exact H0]. rewrite str_eqb_neq; [exact H0|].
      intro E. subst d. destruct (Hd k eq_refl) as [_ Hb]. apply andb_true_iff in Hb as [_ Hb]. congruence. }
    split; apply Hk; unfold relevant; auto.
Qed.

(* ---------- the simulation ---------- *)
Lemma all_same_prop l : all_same l = true -> forall a b, In a l -> In b l -> a = b.
Proof.
  destruct l as [|n r]; [intros _ a b []|]. cbn [all_same]. intro H.
  assert (Hn : forall a, In a (n :: r) -> a = n).
  { intros a [<-|Ha]; [reflexivity|]. rewrite forallb_forall in H. specialize (H a Ha). apply str_eqb_eq in H. congruence. }
  intros a b Ha Hb. rewrite (Hn a Ha), (Hn b Hb). reflexivity.
Qed.

Lemma map_escape_names (fm : list (str * slotfn)) (fs : list (str * closure)) :
  map fst fm = map fst fs -> map (fun kf => escape_name (fst kf)) fm = map (fun kc => escape_name (fst kc)) fs.
Proof.
  revert fs. induction fm as [|a r IH]; intros [|b fs] H; try discriminate.
  - reflexivity.
  - cbn [map] in *. inversion H as [[H1 H2]]. rewrite H1, (IH _ H2). reflexivity.
Qed.

Section Sim.
  Variable lib : list (str * cdef).
  Hypothesis Hlib : forall cn cd, slookup cn lib = Some cd -> wf_cdef cd = true.

  Definition simP (rec : state -> tpl -> res str) (mrec : gstate -> ctxt -> tpl -> mres R) : Prop :=
    forall t w G st g c, srel g c st G w -> wf_t (is_body w) G t = true ->
      (forall rid dl, w = WInst rid dl -> incl (slot_defaults_t t) dl /\ (forall a b, In a dl -> In b dl -> a = b)) ->
      match rec st t with
      | Ok a => exists g', mrec g c t = MOk (a, g', c) /\ gext w g g'
      | Err k => mrec g c t = MErr k
      | OutOfFuel => mrec g c t = MFuel
      end.

  Section Step.
    Variable rec : state -> tpl -> res str.
    Variable mrec : gstate -> ctxt -> tpl -> mres R.
    Hypothesis IH : simP rec mrec.

    Lemma sim_list : forall ts w G st g c, srel g c st G w -> wf_l (is_body w) G ts = true ->
      (forall rid dl, w = WInst rid dl -> incl (slot_defaults ts) dl /\ (forall a b, In a dl -> In b dl -> a = b)) ->
      match rl rec st ts with
      | Ok a => exists g', mrl mrec g c ts = MOk (a, g', c) /\ gext w g g'
      | Err k => mrl mrec g c ts = MErr k
      | OutOfFuel => mrl mrec g c ts = MFuel
      end.
    Proof.
      induction ts as [|t r IHr]; intros w G st g c Hs Hw Hd; cbn [rl mrl].
      - exists g. split; [reflexivity|apply gext_refl].
      - cbn [wf_l] in Hw. apply andb_true_iff in Hw as [Hw1 Hw2].
        assert (Hd1 : forall rid dl, w = WInst rid dl -> incl (slot_defaults_t t) dl /\ (forall a b, In a dl -> In b dl -> a = b)).
        { intros rid dl E. destruct (Hd rid dl E) as [Hi Ha]. split; [|exact Ha]. intros x Hx. apply Hi. cbn [slot_defaults]. apply in_or_app. left. exact Hx. }
        assert (Hd2 : forall rid dl, w = WInst rid dl -> incl (slot_defaults r) dl /\ (forall a b, In a dl -> In b dl -> a = b)).
        { intros rid dl E. destruct (Hd rid dl E) as [Hi Ha]. split; [|exact Ha]. intros x Hx. apply Hi. cbn [slot_defaults]. apply in_or_app. right. exact Hx. }
        pose proof (IH t w G st g c Hs Hw1 Hd1) as H1.
        destruct (rec st t) as [a| |]; cbn [bind]; [|rewrite H1; reflexivity|rewrite H1; reflexivity].
        destruct H1 as [g1 [E1 X1]]. rewrite E1. cbn [mbind].
        pose proof (IHr w G st g1 c (srel_gext _ _ _ _ _ _ Hs X1) Hw2 Hd2) as H2.
        destruct (rl rec st r) as [b| |]; cbn [bind]; [|rewrite H2; reflexivity|rewrite H2; reflexivity].
        destruct H2 as [g2 [E2 X2]]. rewrite E2. cbn [mbind]. exists g2. split; [reflexivity|eapply gext_trans; eassumption].
    Qed.

    Lemma sim_step : simP (render_step Isolated lib rec) (mstep Isolated lib mrec).
    Proof.
      intros t w G st g c Hs Hw Hd.
      destruct t as [s|e|cnd x y|x e body|x e body|name isd isr data body|nm dv defv body|cname kw only body|key kw body];
        cbn [render_step mstep].
      - (* text *) exists g. split; [reflexivity|apply gext_refl].
      - (* {{ e }} *)
        cbn [wf_t] in Hw. pose proof (meval_rel _ _ _ _ _ _ Hs Hw) as Hr. unfold mout.
        remember (meval e (dicts c)) as cv. remember (eval e st) as xv.
        destruct Hr; (exists g; split; [reflexivity|apply gext_refl]).
      - (* if *)
        cbn [wf_t] in Hw. apply andb_true_iff in Hw as [Hw Hwy]. apply andb_true_iff in Hw as [Hwc Hwx].
        rewrite (crel_truthy _ _ (meval_rel _ _ _ _ _ _ Hs Hwc)).
        destruct (truthy (eval cnd st)).
        + apply (sim_list x w G st g c Hs Hwx). intros rid dl E. destruct (Hd rid dl E) as [Hi Ha]. split; [|exact Ha].
          intros z Hz. apply Hi. cbn [slot_defaults_t]. apply in_or_app. left. exact Hz.
        + apply (sim_list y w G st g c Hs Hwy). intros rid dl E. destruct (Hd rid dl E) as [Hi Ha]. split; [|exact Ha].
          intros z Hz. apply Hi. cbn [slot_defaults_t]. apply in_or_app. right. exact Hz.
      - discriminate Hw.
      - (* with *)
        cbn [wf_t] in Hw.
        apply andb_true_iff in Hw as [Hw Hwb]. apply andb_true_iff in Hw as [Hw Hnin]. apply andb_true_iff in Hw as [Hwe Hbx].
        apply negb_true_iff in Hnin. apply smemb_notin in Hnin.
        rewrite (meval_val_rel _ _ _ _ _ _ Hs Hwe). unfold mwith.
        pose proof (srel_push _ _ _ _ _ x (to_value (eval e st)) Hs Hbx Hnin) as Hs'.
        assert (Hd' : forall rid dl, w = WInst rid dl -> incl (slot_defaults body) dl /\ (forall a b, In a dl -> In b dl -> a = b)).
        { intros rid dl E. exact (Hd rid dl E). }
        pose proof (sim_list body w (x :: G) _ g _ Hs' Hwb Hd') as H.
        destruct (rl rec (bind_loc x (to_value (eval e st)) st) body) as [a| |]; [|rewrite H; reflexivity|rewrite H; reflexivity].
        destruct H as [g' [E X]]. rewrite E. cbn [mbind]. rewrite push_pop_id. exists g'. auto.
      - (* slot *)
        cbn [wf_t] in Hw. apply andb_true_iff in Hw as [Hw Hwb]. apply andb_true_iff in Hw as [Hnb Hkw].
        apply negb_true_iff in Hnb. unfold mslot.
        assert (Hkw' : kw_ok (is_body w) data = true) by (rewrite Hnb; exact Hkw).
        rewrite (mkwargs_rel _ _ _ _ _ _ Hs Hkw').
        destruct Hs as [Ho [Hp [Hv [Hincl [[Hcg Hcf] Hwho]]]]].
        unfold is_extracting. rewrite Hcg.
        destruct w as [| |rid dl]; [discriminate Hnb| |].
        + destruct Hwho as [Hc [Hk _]]. rewrite Hc, Hk. reflexivity.
        + destruct Hwho as [cn [fills [Hc Hirel]]]. rewrite Hc.
          pose proof Hirel as [Hk [Hcv [Hlt [ci [O [Ha [HO [[HOg HOf] [HF Hdf]]]]]]]]].
          rewrite Hk, Ha.
          destruct (Hd rid dl eq_refl) as [Hdin Hsame].
          destruct (slot_default_check_ok rid ci name isd g dl Ha Hlt Hdf Hsame) as [g1 [Eg1 Xg1]].
          { intros ->. apply Hdin. cbn [slot_defaults_t]. left. reflexivity. }
          rewrite Eg1. cbn [mbind].
          unfold double_filled. rewrite (smem_frel _ _ _ name HF), (smem_frel _ _ _ default_key HF).
          destruct (isd && negb (str_eqb name default_key) && smem name fills && smem default_key fills); [reflexivity|].
          unfold fill_name_of.
          set (fname := if isd && smem default_key fills then default_key else name).
          pose proof (slookup_frel _ _ _ HF fname) as Hf.
          assert (Hs1 : srel g1 c st G (WInst rid dl)).
          { apply (srel_gext g g1); [|exact Xg1]. split; [exact Ho|]. split; [exact Hp|]. split; [exact Hv|]. split; [exact Hincl|].
            split; [split; assumption|]. exists cn, fills. split; [exact Hc|exact Hirel]. }
          destruct (slot_extra_isolated_ok ci (match slookup fname (ci_fills ci) with Some _ => true | None => false end) (dicts c)) as [extra Eex].
          assert (Hexk : forall k, relevant k -> slookup k extra = None).
          { intros k Hr. eapply slot_extra_isolated; [exact Eex|apply relevant_not_inj; exact Hr]. }
          destruct (slookup fname (ci_fills ci)) as [sf|] eqn:Em, (slookup fname fills) as [cl|] eqn:Es; try contradiction.
          * (* filled: the fill body on the instance's outer Context *)
            destruct cl as [fbody btw cloc cout fdv fdefv owner cprov].
            destruct Hf as [_ [Hb [Hdv [Hdfv [-> [-> [-> [Hfe [loc0 [Gb [-> [Hv0 [Hwfb [Hinb [Hdvb Hdisj]]]]]]]]]]]]]]].
            cbn [clo_defvar clo_dvar clo_body bind fst snd sf_body] in *.
            assert (Hm : match Some sf, isr with None, true => @MErr R ETemplateSyntax | _, _ =>
                     mbind (slot_extra Isolated ci true (dicts c)) (fun extra0 =>
                       if negb true || is_django Isolated then
                         let sref := CSlotRef body (oid c) (oid c) (dicts c) (slot_rvars (dicts c)) in
                         mbind (m_render_func mrec sf (VRec (eval_kwargs data st)) sref g1 (with_dicts c (cpush extra0 (dicts c))))
                           (fun '(a, g3, c2) => MOk (a, g3, with_dicts c2 (cpop (dicts c2))))
                       else
                         let '(used, g2) := match ci_outer ci with
                                            | Some o => (o, g1)
                                            | None => let '(o, g') := fresh g1 in ({| oid := o; dicts := [builtins] |}, g')
                                            end in
                         let sref := CSlotRef body (oid c) (oid used) (dicts c) (slot_rvars (dicts c)) in
                         mbind (m_render_func mrec sf (VRec (eval_kwargs data st)) sref g2 (with_dicts used (cpush extra0 (dicts used))))
                           (fun '(a, g3, _) => MOk (a, g3, c))) end =
                   mbind (m_render_func mrec sf (VRec (eval_kwargs data st)) (CSlotRef body (oid c) (oid O) (dicts c) (slot_rvars (dicts c)))
                            g1 (with_dicts O (cpush extra (dicts O)))) (fun '(a, g3, _) => MOk (a, g3, c))).
            { rewrite Eex, HO. destruct isr; reflexivity. }
            cbn [is_django] in Hm. cbn [is_django]. rewrite Hm. clear Hm. cbn [app].
            set (sdata := VRec (eval_kwargs data st)).
            set (sref := CSlotRef body (oid c) (oid O) (dicts c) (slot_rvars (dicts c))).
            destruct (fill_ctx_vrel (dicts O) sf btw loc0 Gb fdv sdata sref extra Hdv Hdfv Hfe Hv0 (conj HOg HOf) Hinb Hdvb Hdisj Hexk)
              as [Hvb Hcb].
            set (c0 := with_dicts O (cpush extra (dicts O))).
            set (cb := with_dicts c0 (rf_dicts sf sdata sref (dicts c0))).
            set (stb := fill_state true st (match fdv with Some x0 => [(x0, sdata)] | None => [] end)
                          (Clo fbody btw (btw ++ loc0) [] fdv None owner [])).
            assert (Hsb : srel g1 cb stb (match fdv with Some x0 => x0 :: Gb | None => Gb end) WBody).
            { unfold stb. cbn [fill_state]. split; [reflexivity|]. split; [cbn; rewrite Hp; reflexivity|].
              cbn [loc]. split; [exact Hvb|]. split.
              - rewrite !map_app. intros z Hz. apply in_app_or in Hz as [Hz|Hz].
                + destruct fdv as [d|]; [|destruct Hz]. destruct Hz as [<-|[]]. left. reflexivity.
                + assert (Hz' : In z Gb).
                  { apply Hinb. rewrite map_app. apply in_app_or in Hz as [Hz|Hz]; [apply in_or_app; left; exact Hz|].
                    rewrite <- map_app in Hz. rewrite <- map_app. exact Hz. }
                  destruct fdv; [right|]; exact Hz'.
              - split; [exact Hcb|exact I]. }
            assert (Hwb' : wf_l (is_body WBody) (match fdv with Some x0 => x0 :: Gb | None => Gb end) (sf_body sf) = true)
              by (rewrite Hb; exact Hwfb).
            pose proof (sim_list (sf_body sf) WBody _ stb g1 cb Hsb Hwb' ltac:(intros; discriminate)) as Hbody.
            pose proof (m_render_func_run mrec sf sdata sref g1 O extra) as Hrun. cbn zeta in Hrun. fold c0 cb in Hrun.
            rewrite Hb in Hbody. revert Hbody. unfold stb.
            destruct (rl rec _ fbody) as [a| |]; intro Hbody.
            -- destruct Hbody as [g3 [E3 X3]]. rewrite Hb, E3 in Hrun. destruct (Hrun eq_refl) as [c2 [E2 _]].
               fold c0. rewrite E2. cbn [mbind]. exists g3. split; [reflexivity|].
               eapply gext_trans; [exact Xg1|]. apply gexact_gext. exact X3.
            -- rewrite Hb, Hbody in Hrun. fold c0. rewrite Hrun. reflexivity.
            -- rewrite Hb, Hbody in Hrun. fold c0. rewrite Hrun. reflexivity.
          * (* unfilled: its own default content, same instance, same scope *)
            cbn [is_django] in *. destruct isr; [reflexivity|].
            rewrite Eex. cbn [mbind negb orb].
            set (sdata := VRec (eval_kwargs data st)).
            set (sref := CSlotRef body (oid c) (oid c) (dicts c) (slot_rvars (dicts c))).
            set (c0 := with_dicts c (cpush extra (dicts c))).
            set (cb := with_dicts c0 (rf_dicts (unfilled_fn body) sdata sref (dicts c0))).
            assert (Hsb : srel g1 cb st G (WInst rid dl)).
            { apply (srel_same_lookups g1 c); [|exact Hs1]. intros k Hr. unfold cb, c0. cbn [dicts with_dicts].
              apply rf_dicts_unfilled. apply Hexk. exact Hr. }
            assert (Hd' : forall rid0 dl0, WInst rid dl = WInst rid0 dl0 ->
                      incl (slot_defaults body) dl0 /\ (forall a b, In a dl0 -> In b dl0 -> a = b)).
            { intros rid0 dl0 E. inversion E; subst. split; [|exact Hsame]. intros z Hz. apply Hdin. cbn [slot_defaults_t].
              apply in_or_app. right. exact Hz. }
            pose proof (sim_list body (WInst rid dl) G st g1 cb Hsb Hwb Hd') as Hbody.
            pose proof (m_render_func_run mrec (unfilled_fn body) sdata sref g1 c extra) as Hrun. cbn zeta in Hrun.
            fold c0 cb in Hrun. cbn [sf_body unfilled_fn] in Hrun.
            destruct (rl rec st body) as [a| |].
            -- destruct Hbody as [g3 [E3 X3]]. rewrite E3 in Hrun. destruct (Hrun eq_refl) as [c2 [E2 Hc2]].
               fold c0. rewrite E2. cbn [mbind]. rewrite Hc2. exists g3. split; [reflexivity|].
               eapply gext_trans; eassumption.
            -- rewrite Hbody in Hrun. fold c0. rewrite Hrun. reflexivity.
            -- rewrite Hbody in Hrun. fold c0. rewrite Hrun. reflexivity.
      - (* fill outside a component body *)
        destruct Hs as [_ [_ [_ [_ [[Hcg _] _]]]]]. unfold is_extracting. rewrite Hcg. reflexivity.
      - (* component *)
        cbn [wf_t] in Hw. apply andb_true_iff in Hw as [Hkw Hwb]. unfold mcomp.
        rewrite (mkwargs_rel _ _ _ _ _ _ Hs Hkw).
        pose proof Hs as [Ho [Hp [Hv [Hincl [[Hcg Hcf] Hwho]]]]].
        unfold is_extracting. rewrite Hcg.
        destruct (slookup cname lib) as [cd|] eqn:El; [|reflexivity].
        pose proof (Hlib _ _ El) as Hcd. unfold wf_cdef in Hcd.
        apply andb_true_iff in Hcd as [Hcd Hsame]. apply andb_true_iff in Hcd as [Hdata Hwt].
        pose proof (resolve_sim mrec g c st G body Ho Hp Hv Hincl (conj Hcg Hcf) Hwb) as Hres.
        destruct (resolve_fills st body) as [fills| |]; cbn [bind]; [|rewrite Hres; reflexivity|contradiction].
        destruct Hres as [g1 [fm [Eres [Hcc1 [Hn1 HF]]]]]. rewrite Eres. cbn [mbind].
        cbn [is_django negb]. rewrite orb_true_r.
        destruct (isolated_copy_shape g1 c Hcf) as [L [o [Ecopy HL]]]. rewrite Ecopy.
        unfold fresh, snapshot. cbn [g_next g_cctx g_collect g_prov fresh].
        destruct (eval_data_sim (c_data cd) (eval_kwargs kw st) (prov st)
                    {| g_next := N.succ (N.succ (N.succ (g_next g1))); g_cctx := g_cctx g1; g_collect := g_collect g1; g_prov := g_prov g1 |}
                    [L] Hdata) as [data [Ed [Em Hdincl]]].
        rewrite Ed. cbn [bind]. cbn [dicts oid with_dicts]. rewrite Em. cbn [mbind].
        cbn [g_next g_cctx g_collect g_prov set_cctx].
        set (rid := N.succ (g_next g1)).
        set (dl := slot_defaults (c_tpl cd)).
        set (dataM := map (fun kv => (fst kv, CVal (snd kv))) data).
        set (keyl := [(KEY, CId rid); (CVARS, CVars (map (fun kf => escape_name (fst kf)) fm))]).
        set (snap := {| oid := N.succ (N.succ (N.succ (g_next g1))); dicts := cpush keyl (cpush dataM [L]) |}).
        set (osnap := {| oid := N.succ (N.succ (g_next g1)); dicts := dicts c |}).
        set (entry := {| ci_name := cname; ci_fills := fm; ci_default := None; ci_outer := Some osnap |}).
        set (g6 := {| g_next := N.succ (N.succ (N.succ (N.succ (g_next g1)))); g_cctx := aset rid entry (g_cctx g1);
                      g_collect := g_collect g1; g_prov := g_prov g1 |}).
        set (st' := comp_state st cname fills data (is_isolated Isolated only)).
        assert (Hiso : is_isolated Isolated only = true) by (unfold is_isolated; apply orb_true_r).
        assert (Hs' : srel g6 snap st' (map fst (c_data cd)) (WInst rid dl)).
        { unfold st', comp_state. rewrite Hiso. split; [reflexivity|]. split; [exact Hp|]. cbn [loc cur dicts snap].
          assert (Hlook : forall k, l0_ok k -> k <> KEY -> k <> CVARS ->
                    cget k (cpush keyl (cpush dataM [L])) = slookup k dataM).
          { intros k Hk H1 H2. unfold cpush. rewrite cget_snoc. unfold keyl. cbn [slookup].
            rewrite (str_eqb_neq _ _ H1), (str_eqb_neq _ _ H2). rewrite cget_snoc. cbn [cget]. rewrite (HL k Hk).
            destruct (slookup k dataM); reflexivity. }
          assert (Hdk : forall k, uname k = false -> slookup k dataM = None).
          { intros k Hk. unfold dataM. rewrite slookup_map_cval.
            rewrite (slookup_notin k data); [reflexivity|]. intro Hin. apply Hdincl in Hin.
            rewrite forallb_forall in Hdata. apply in_map_iff in Hin as [[x d] [E Hin]]. cbn in E. subst x.
            specialize (Hdata _ Hin). cbn in Hdata. apply andb_true_iff in Hdata as [Hb _]. apply andb_true_iff in Hb as [_ Hb]. congruence. }
          split.
          { intros x Hx. rewrite Hlook; [apply slookup_map_cval|apply uname_l0_ok; exact Hx| |]; intro E; subst; discriminate. }
          split; [exact Hdincl|]. split.
          { split; (rewrite Hlook; [apply Hdk; reflexivity|repeat split; try reflexivity; intro E; discriminate E|intro E; discriminate E|intro E; discriminate E]). }
          exists cname, fills. split; [reflexivity|].
          split; [unfold cpush; rewrite cget_snoc; reflexivity|].
          split. { unfold cpush. rewrite cget_snoc. unfold keyl. cbn [slookup].
                   rewrite (str_eqb_neq CVARS KEY) by discriminate. rewrite str_eqb_refl.
                   rewrite (map_escape_names _ _ (Forall2_frel_names _ _ _ HF)). reflexivity. }
          split; [unfold g6, rid; cbn; lia|].
          exists entry, osnap. split; [unfold g6; cbn [g_cctx]; apply alookup_aset_same|].
          split; [reflexivity|]. split; [split; assumption|]. split; [exact HF|exact I]. }
        assert (Hd' : forall rid0 dl0, WInst rid dl = WInst rid0 dl0 ->
                  incl (slot_defaults (c_tpl cd)) dl0 /\ (forall a b, In a dl0 -> In b dl0 -> a = b)).
        { intros rid0 dl0 E. inversion E; subst. split; [apply incl_refl|apply all_same_prop; exact Hsame]. }
        pose proof (sim_list (c_tpl cd) (WInst rid dl) _ st' g6 snap Hs' Hwt Hd') as Htpl.
        fold rid keyl dataM.
        match goal with |- context [mrl mrec ?a ?b (c_tpl cd)] => change (mrl mrec a b (c_tpl cd)) with (mrl mrec g6 snap (c_tpl cd)) end.
        destruct (rl rec st' (c_tpl cd)) as [a| |]; [|rewrite Htpl; reflexivity|rewrite Htpl; reflexivity].
        destruct Htpl as [g7 [E7 [Hn7 X7]]]. rewrite E7. cbn [mbind]. eexists. split; [reflexivity|].
        apply gexact_gext. split; [cbn [g_next set_cctx]; unfold g6 in Hn7; cbn [g_next] in Hn7; lia|].
        intros j Hj. cbn [g_cctx set_cctx].
        assert (Hjr : j <> rid) by (unfold rid; lia).
        rewrite alookup_aremove_other by exact Hjr.
        specialize (X7 j ltac:(unfold g6; cbn [g_next]; lia)). cbn in X7.
        destruct (N.eqb j rid) eqn:E; [apply N.eqb_eq in E; contradiction|].
        rewrite X7. unfold g6. cbn [g_cctx]. rewrite alookup_aset_other by exact Hjr. rewrite Hcc1. reflexivity.
      - discriminate Hw.
    Qed.
  End Step.

  Lemma sim_render fuel : simP (render Isolated lib fuel) (mrender Isolated lib fuel).
  Proof.
    induction fuel as [|f IHf].
    - intros t w G st g c _ _ _. reflexivity.
    - cbn [render mrender]. apply sim_step. exact IHf.
  Qed.
End Sim.

(* ---------- whole programs ---------- *)
Lemma slookup_In_lib (lib : list (str * cdef)) cn cd : slookup cn lib = Some cd -> In (cn, cd) lib.
Proof.
  induction lib as [|[k v] r IH]; [discriminate|]. cbn [slookup]. destruct (str_eqb cn k) eqn:E.
  - apply str_eqb_eq in E. subst. intro H. inversion H. left. reflexivity.
  - intro H. right. apply IH. exact H.
Qed.

Lemma page_lookup (ctx : env) k :
  cget k [builtins; map (fun kv => (fst kv, CVal (snd kv))) ctx] =
  match slookup k ctx with Some v => Some (CVal v) | None => slookup k builtins end.
Proof. cbn [cget]. rewrite slookup_map_cval. destruct (slookup k ctx); reflexivity. Qed.

Lemma not_uname_notin_ctx (ctx : env) k :
  forallb (fun kv => binder_ok (fst kv)) ctx = true -> uname k = false -> slookup k ctx = None.
Proof.
  intros H Hk. apply slookup_notin. intro Hin. apply in_map_iff in Hin as [[x v] [E Hin]]. cbn in E. subst x.
  rewrite forallb_forall in H. specialize (H _ Hin). cbn in H. apply andb_true_iff in H as [_ H]. congruence.
Qed.

Theorem mech_refines_sem_isolated_lemma : forall p fuel,
  wf_prog p = true -> mout_of (mrender_prog fuel p) = embed (render_prog fuel p).
Proof.
  intros p fuel Hwf. unfold wf_prog in Hwf.
  apply andb_true_iff in Hwf as [Hwf Hpage].
  apply andb_true_iff in Hwf as [Hwf Hctx]. apply andb_true_iff in Hwf as [Hmode Hlibb].
  unfold mrender_prog, render_prog, mrender_list, render_list.
  destruct (p_mode p); [|discriminate]. clear Hmode.
  assert (Hlib : forall cn cd, slookup cn (p_lib p) = Some cd -> wf_cdef cd = true).
  { intros cn cd H. apply slookup_In_lib in H. rewrite forallb_forall in Hlibb. exact (Hlibb _ H). }
  set (st0 := {| loc := p_ctx p; out := []; cur := None; prov := [] |}).
  assert (Hs : srel g0 (page_ctxt p) st0 (map fst (p_ctx p)) WPage).
  { assert (Hint : forall k, uname k = false -> slookup k builtins = None -> cget k (dicts (page_ctxt p)) = None).
    { intros k Hk Hb. unfold page_ctxt. cbn [dicts]. rewrite page_lookup, (not_uname_notin_ctx _ _ Hctx Hk). exact Hb. }
    split; [reflexivity|]. split; [reflexivity|]. split.
    { intros x Hx. unfold page_ctxt. cbn [dicts st0 loc]. rewrite page_lookup. destruct (slookup x (p_ctx p)); [reflexivity|].
      destruct (uname_l0_ok x Hx) as [_ [_ [H1 [H2 H3]]]]. unfold builtins. cbn [slookup].
      rewrite !str_eqb_neq by assumption. reflexivity. }
    split; [apply incl_refl|]. split; [split; apply Hint; reflexivity|].
    split; [reflexivity|]. split; apply Hint; reflexivity. }
  pose proof (sim_list _ _ (sim_render (p_lib p) Hlib fuel) (p_page p) WPage _ st0 g0 (page_ctxt p) Hs Hpage
                ltac:(intros; discriminate)) as H.
  fold st0. destruct (rl (render Isolated (p_lib p) fuel) st0 (p_page p)) as [a| |].
  - destruct H as [g' [E _]]. rewrite E. reflexivity.
  - rewrite H. reflexivity.
  - rewrite H. reflexivity.
Qed.

(* ======================================================================================================== *)
(* 2. component_context_cache entries are private to their instance                                          *)
(* ======================================================================================================== *)
(* whatever is rendered: ids only grow, and an entry that exists keeps its component name, its fills and its outer
   Context (only its own default-slot bookkeeping may change); an id below the counter that has no entry gets none *)
Definition stable (g g' : gstate) : Prop :=
  (g_next g <= g_next g')%N /\
  forall j, (j < g_next g)%N ->
    match alookup j (g_cctx g) with
    | Some ci => exists ci', alookup j (g_cctx g') = Some ci' /\ ci_name ci' = ci_name ci /\
                             ci_fills ci' = ci_fills ci /\ ci_outer ci' = ci_outer ci
    | None => alookup j (g_cctx g') = None
    end.

Lemma stable_refl g : stable g g.
Proof. split; [lia|]. intros j _. destruct (alookup j (g_cctx g)) as [ci|]; [exists ci; auto|reflexivity]. Qed.

Lemma stable_trans g1 g2 g3 : stable g1 g2 -> stable g2 g3 -> stable g1 g3.
Proof.
  intros [H1 H2] [H3 H4]. split; [lia|]. intros j Hj. specialize (H2 j Hj). specialize (H4 j ltac:(lia)).
  destruct (alookup j (g_cctx g1)) as [ci|].
  - destruct H2 as [ci' [E [Ha [Hb Hc]]]]. rewrite E in H4. destruct H4 as [ci'' [E' [Ha' [Hb' Hc']]]].
    exists ci''. repeat split; congruence.
  - rewrite H2 in H4. exact H4.
Qed.

Lemma stable_same_cctx g g' : (g_next g <= g_next g')%N -> g_cctx g' = g_cctx g -> stable g g'.
Proof. intros Hn Hc. split; [exact Hn|]. intros j _. rewrite Hc. destruct (alookup j (g_cctx g)) as [ci|]; [exists ci; auto|reflexivity]. Qed.

Definition keeps (f : gstate -> ctxt -> mres R) : Prop := forall g c a g' c', f g c = MOk (a, g', c') -> stable g g'.
Definition rec_keeps (rec : gstate -> ctxt -> tpl -> mres R) : Prop :=
  forall g c t a g' c', rec g c t = MOk (a, g', c') -> stable g g'.

Lemma mfor_items_keeps x bodyf vs : keeps bodyf -> forall i, keeps (mfor_items x bodyf vs i).
Proof.
  intro Hb. induction vs as [|v r IH]; intros i g c a g' c' H; cbn [mfor_items] in H.
  - inversion H; subst. apply stable_refl.
  - apply mbind_ok_inv in H as [[[a1 g1] c1] [H1 H2]].
    apply mbind_ok_inv in H2 as [[[a2 g2] c2] [H2 H3]]. inversion H3; subst.
    eapply stable_trans; [eapply Hb; exact H1|eapply IH; exact H2].
Qed.

Lemma mfor_keeps x seq bodyf : keeps bodyf -> keeps (mfor x seq bodyf).
Proof.
  intros Hb g c a g' c' H. unfold mfor in H. apply mbind_ok_inv in H as [vs [_ H]]. cbn zeta in H.
  destruct vs as [|v r]; [inversion H; subst; apply stable_refl|].
  apply mbind_ok_inv in H as [[[a1 g1] c1] [H1 H2]]. inversion H2; subst. eapply mfor_items_keeps; eassumption.
Qed.

Lemma mwith_keeps x v bodyf : keeps bodyf -> keeps (mwith x v bodyf).
Proof.
  intros Hb g c a g' c' H. unfold mwith in H. apply mbind_ok_inv in H as [[[a1 g1] c1] [H1 H2]]. inversion H2; subst.
  eapply Hb; exact H1.
Qed.

Lemma mprovide_keeps key kw bodyf : keeps bodyf -> keeps (mprovide key kw bodyf).
Proof.
  intros Hb g c a g' c' H. unfold mprovide in H.
  destruct (mkwargs kw (dicts c)); [|discriminate]. destruct (negb (is_ident key)); [discriminate|].
  cbn [fresh] in H. apply mbind_ok_inv in H as [[[a1 g2] c1] [H1 H2]]. inversion H2; subst.
  eapply stable_trans; [|eapply Hb; exact H1]. apply stable_same_cctx; [cbn; lia|reflexivity].
Qed.

Lemma mfill_keeps name dv defv body : keeps (mfill name dv defv body).
Proof.
  intros g c a g' c' H. unfold mfill in H.
  destruct (meval name (dicts c)) as [[s|l|fs]| | | | | | |]; try discriminate.
  destruct (negb (opt_ident_ok dv) || negb (opt_ident_ok defv)); [discriminate|].
  destruct (match dv, defv with Some a, Some b => str_eqb a b | _, _ => false end); [discriminate|].
  destruct (cget GEN_FILL (dicts c)) as [[]|]; inversion H; subst; try apply stable_refl.
  apply stable_same_cctx; [cbn; lia|reflexivity].
Qed.

Lemma alookup_share c t j :
  alookup j (share_outer c t) =
  option_map (fun ci => match ci_outer ci with
                        | Some o => if N.eqb (oid o) (oid c) then with_outer ci (Some c) else ci
                        | None => ci
                        end) (alookup j t).
Proof.
  induction t as [|[k v] r IH]; [reflexivity|]. cbn [share_outer map alookup fst snd].
  destruct (N.eqb j k) eqn:E; [reflexivity|exact IH].
Qed.

Lemma alookup_restore before after j :
  alookup j (restore_outer before after) =
  option_map (fun ci1 => match alookup j before with Some ci0 => with_outer ci1 (ci_outer ci0) | None => ci1 end) (alookup j after).
Proof.
  induction after as [|[k v] r IH]; [reflexivity|]. cbn [restore_outer map alookup fst snd].
  destruct (N.eqb j k) eqn:E; [apply N.eqb_eq in E; subst; reflexivity|exact IH].
Qed.

Section Keep.
  Variable md : mode.
  Variable lib : list (str * cdef).
  Variable rec : gstate -> ctxt -> tpl -> mres R.
  Hypothesis Hrec : rec_keeps rec.

  Lemma mrl_keeps ts : keeps (fun g c => mrl rec g c ts).
  Proof.
    induction ts as [|t r IH]; intros g c a g' c' H; cbn [mrl] in H.
    - inversion H; subst. apply stable_refl.
    - apply mbind_ok_inv in H as [[[a1 g1] c1] [H1 H2]].
      apply mbind_ok_inv in H2 as [[[a2 g2] c2] [H2 H3]]. inversion H3; subst.
      eapply stable_trans; [eapply Hrec; exact H1|eapply IH; exact H2].
  Qed.

  Lemma mslotref_keeps body ro ru rd rv : keeps (mslotref rec body ro ru rd rv).
  Proof.
    intros g c a g' c' H. unfold mslotref in H. destruct (N.eqb (oid c) ro).
    - apply mbind_ok_inv in H as [[[a1 g1] c1] [H1 H2]]. inversion H2; subst. eapply mrl_keeps; exact H1.
    - destruct (N.eqb (oid c) ru); [|discriminate].
      apply mbind_ok_inv in H as [[[a1 g1] c1] [H1 H2]]. inversion H2; subst. apply mrl_keeps in H1.
      destruct H1 as [Hn Hj]. cbn [g_next g_cctx set_cctx] in *. unfold stable. cbn [g_next g_cctx set_cctx].
      split; [exact Hn|]. intros j Hlt. specialize (Hj j Hlt).
      rewrite alookup_share in Hj. rewrite alookup_restore.
      destruct (alookup j (g_cctx g)) as [ci|] eqn:E; cbn [option_map] in *.
      + destruct (ci_outer ci) as [o|] eqn:Eo.
        * destruct (N.eqb (oid o) (oid c')); destruct Hj as [ci1 [E1 [Ha [Hb Hc]]]]; rewrite E1; cbn [option_map];
            eexists; (split; [reflexivity|]); cbn [with_outer ci_name ci_fills ci_outer] in *; auto.
        * destruct Hj as [ci1 [E1 [Ha [Hb Hc]]]]. rewrite E1. cbn [option_map]. eexists. split; [reflexivity|].
          cbn [with_outer ci_name ci_fills ci_outer]. auto.
      + rewrite Hj. reflexivity.
  Qed.

  Lemma mout_keeps e : keeps (mout rec e).
  Proof.
    intros g c a g' c' H. unfold mout in H.
    destruct (meval e (dicts c)) eqn:E; try (cbn in H; inversion H; subst; apply stable_refl);
      try (destruct (cprint _); inversion H; subst; apply stable_refl).
    eapply mslotref_keeps; exact H.
  Qed.

  Lemma mex_keeps_all :
    (forall t, keeps (fun g c => mex rec g c t)) /\ (forall ts, keeps (mexl rec ts)).
  Proof.
    assert (Hnil : keeps (mexl rec [])) by (intros g c a g' c' H; inversion H; subst; apply stable_refl).
    assert (Hcons : forall t r, keeps (fun g c => mex rec g c t) -> keeps (mexl rec r) -> keeps (mexl rec (t :: r))).
    { intros t r Ht Hr g c a g' c' H. cbn [mexl] in H.
      apply mbind_ok_inv in H as [[[a1 g1] c1] [H1 H2]].
      apply mbind_ok_inv in H2 as [[[a2 g2] c2] [H2 H3]]. inversion H3; subst.
      eapply stable_trans; [eapply Ht; exact H1|eapply Hr; exact H2]. }
    assert (HText : forall s, keeps (fun g c => mex rec g c (TText s))) by (intros s g c a g' c' H; inversion H; subst; apply stable_refl).
    assert (HOut : forall e, keeps (fun g c => mex rec g c (TOut e))) by (intros e g c a g' c' H; eapply mout_keeps; exact H).
    assert (HIf : forall cnd a b, keeps (mexl rec a) -> keeps (mexl rec b) -> keeps (fun g c => mex rec g c (TIf cnd a b))).
    { intros cnd a b Ha Hb g c a0 g' c' H. cbn [mex] in H. destruct (ctruthy _); [eapply Ha|eapply Hb]; exact H. }
    assert (HFor : forall x e body, keeps (mexl rec body) -> keeps (fun g c => mex rec g c (TFor x e body))).
    { intros x e body Hq g c a g' c' H. cbn [mex] in H. eapply (mfor_keeps _ _ _ Hq); exact H. }
    assert (HWith : forall x e body, keeps (mexl rec body) -> keeps (fun g c => mex rec g c (TWith x e body))).
    { intros x e body Hq g c a g' c' H. cbn [mex] in H. eapply (mwith_keeps _ _ _ Hq); exact H. }
    assert (HSlot : forall n d r data body, keeps (mexl rec body) -> keeps (fun g c => mex rec g c (TSlot n d r data body))).
    { intros n d r data body _ g c a g' c' H. cbn [mex] in H. destruct (mkwargs data (dicts c)); inversion H; subst; apply stable_refl. }
    assert (HFill : forall n dv df body, keeps (mexl rec body) -> keeps (fun g c => mex rec g c (TFill n dv df body))).
    { intros n dv df body _ g c a g' c' H. eapply mfill_keeps; exact H. }
    assert (HComp : forall cn kw o body, keeps (mexl rec body) -> keeps (fun g c => mex rec g c (TComp cn kw o body))).
    { intros cn kw o body _ g c a g' c' H. cbn [mex] in H. destruct (mkwargs kw (dicts c)); inversion H; subst; apply stable_refl. }
    assert (HProvide : forall k kw body, keeps (mexl rec body) -> keeps (fun g c => mex rec g c (TProvide k kw body))).
    { intros k kw body Hq g c a g' c' H. cbn [mex] in H. eapply (mprovide_keeps _ _ _ Hq); exact H. }
    split.
    - exact (tpl_ind3 _ _ Hnil Hcons HText HOut HIf HFor HWith HSlot HFill HComp HProvide).
    - exact (tpls_ind3 _ _ Hnil Hcons HText HOut HIf HFor HWith HSlot HFill HComp HProvide).
  Qed.

  Lemma m_resolve_fills_keeps body g c fills g' c' :
    m_resolve_fills rec g c body = MOk (fills, g', c') -> stable g g'.
  Proof.
    unfold m_resolve_fills. destruct body as [|t r]; [intro H; inversion H; subst; apply stable_refl|].
    cbn [fresh]. intro H. apply mbind_ok_inv in H as [[[content g3] c2] [H1 H2]].
    apply (proj2 mex_keeps_all) in H1.
    assert (Hs : stable g g3).
    { eapply stable_trans; [|exact H1]. apply stable_same_cctx; [cbn; lia|reflexivity]. }
    destruct (match alookup (g_next g) (g_collect g3) with Some l => l | None => [] end).
    - destruct (body_is_empty (t :: r)); inversion H2; subst; exact Hs.
    - destruct (negb (all_space content)); [discriminate|]. destruct (has_dup _); [discriminate|]. inversion H2; subst; exact Hs.
  Qed.

  Lemma m_render_func_keeps f sdata sref : keeps (m_render_func rec f sdata sref).
  Proof.
    intros g c a g' c' H. unfold m_render_func in H.
    apply mbind_ok_inv in H as [[[a1 g1] c1] [H1 H2]]. apply mrl_keeps in H1.
    destruct (CtxStack.py_popZ _ _); inversion H2; subst. exact H1.
  Qed.

  Lemma slot_default_check_stable rid ci name isd g g1 :
    alookup rid (g_cctx g) = Some ci -> slot_default_check rid ci name isd g = MOk g1 -> stable g g1.
  Proof.
    intros Ha H. unfold slot_default_check in H. destruct isd; [|inversion H; subst; apply stable_refl].
    destruct (ci_default ci) as [d|].
    - destruct (negb (str_eqb name d)); inversion H; subst. apply stable_refl.
    - inversion H; subst. split; [cbn; lia|]. intros j _. cbn [g_cctx set_cctx].
      destruct (N.eqb j rid) eqn:E.
      + apply N.eqb_eq in E. subst j. rewrite Ha, alookup_aset_same. eexists. split; [reflexivity|]. auto.
      + rewrite alookup_aset_other by (intro E2; subst; rewrite N.eqb_refl in E; discriminate).
        destruct (alookup j (g_cctx g)) as [cj|]; [exists cj; auto|reflexivity].
  Qed.

  Lemma mslot_keeps name isd isr data body : keeps (mslot md rec name isd isr data body).
  Proof.
    intros g c a g' c' H. unfold mslot in H.
    destruct (mkwargs data (dicts c)) as [kwv|]; [|discriminate].
    destruct (is_extracting (dicts c)); [inversion H; subst; apply stable_refl|].
    destruct (cget KEY (dicts c)) as [[| | |rid| | | |]|]; try discriminate.
    destruct (alookup rid (g_cctx g)) as [ci|] eqn:Ea; [|discriminate].
    apply mbind_ok_inv in H as [g1 [Hg1 H]]. apply (slot_default_check_stable _ _ _ _ _ _ Ea) in Hg1.
    destruct (isd && negb (str_eqb name default_key) && smem name (ci_fills ci) && smem default_key (ci_fills ci)); [discriminate|].
    set (filled := slookup _ _) in H.
    assert (Hmain : forall isf,
      mbind (slot_extra md ci isf (dicts c)) (fun extra =>
        let f := match filled with Some f => f | None => unfilled_fn body end in
        if negb isf || is_django md then
          let sref := CSlotRef body (oid c) (oid c) (dicts c) (slot_rvars (dicts c)) in
          mbind (m_render_func rec f (VRec kwv) sref g1 (with_dicts c (cpush extra (dicts c)))) (fun '(a, g3, c2) =>
          MOk (a, g3, with_dicts c2 (cpop (dicts c2))))
        else
          let '(used, g2) := match ci_outer ci with
                             | Some o => (o, g1)
                             | None => let '(o, g') := fresh g1 in ({| oid := o; dicts := [builtins] |}, g')
                             end in
          let sref := CSlotRef body (oid c) (oid used) (dicts c) (slot_rvars (dicts c)) in
          mbind (m_render_func rec f (VRec kwv) sref g2 (with_dicts used (cpush extra (dicts used)))) (fun '(a, g3, _) =>
          MOk (a, g3, c))) = MOk (a, g', c') -> stable g1 g').
    { intros isf H0. apply mbind_ok_inv in H0 as [extra [_ H0]]. cbn zeta in H0.
      destruct (negb isf || is_django md).
      - apply mbind_ok_inv in H0 as [[[a1 g3] c2] [H1 H2]]. inversion H2; subst. eapply m_render_func_keeps; exact H1.
      - destruct (ci_outer ci) as [o|].
        + apply mbind_ok_inv in H0 as [[[a1 g3] c2] [H1 H2]]. inversion H2; subst. eapply m_render_func_keeps; exact H1.
        + cbn [fresh] in H0. apply mbind_ok_inv in H0 as [[[a1 g3] c2] [H1 H2]]. inversion H2; subst.
          eapply stable_trans; [|eapply m_render_func_keeps; exact H1]. apply stable_same_cctx; [cbn; lia|reflexivity]. }
    eapply stable_trans; [exact Hg1|].
    destruct filled, isr; try discriminate; eapply Hmain; exact H.
  Qed.

  Lemma mcomp_keeps cname kw only body : keeps (mcomp md lib rec cname kw only body).
  Proof.
    intros g c a g' c' H. unfold mcomp in H.
    destruct (mkwargs kw (dicts c)) as [kwv|]; [|discriminate].
    destruct (is_extracting (dicts c)); [inversion H; subst; apply stable_refl|].
    destruct (slookup cname lib) as [cd|]; [|discriminate].
    apply mbind_ok_inv in H as [[[fills g1] c1] [H1 H2]].
    apply m_resolve_fills_keeps in H1.
    eapply stable_trans; [exact H1|]. clear H1.
    assert (Hmain : forall cc g2, (g_next g1 <= g_next g2)%N -> g_cctx g2 = g_cctx g1 ->
      (let '(rid, g3) := fresh g2 in
       let '(outer_snap, g4) := snapshot g3 c1 in
       mbind (m_eval_data (c_data cd) kwv g4 (dicts cc)) (fun data =>
         let ds1 := cpush data (dicts cc) in
         let ds2 := cpush [(KEY, CId rid); (CVARS, CVars (map (fun kf => escape_name (fst kf)) fills))] ds1 in
         let '(snap, g5) := snapshot g4 (with_dicts cc ds2) in
         let cc_after := with_dicts cc (cpop (cpop ds2)) in
         let g6 := set_cctx g5 (aset rid {| ci_name := cname; ci_fills := fills; ci_default := None; ci_outer := Some outer_snap |} (g_cctx g5)) in
         mbind (mrl rec g6 snap (c_tpl cd)) (fun '(a, g7, _) =>
         let g8 := set_cctx g7 (aremove rid (g_cctx g7)) in
         MOk (a, g8, if only || negb (is_django md) then c1 else cc_after)))) = MOk (a, g', c') -> stable g1 g').
    { intros cc g2 Hn Hc H0. unfold fresh, snapshot in H0. cbn [g_next g_cctx g_collect g_prov fresh] in H0.
      apply mbind_ok_inv in H0 as [data [_ H0]]. cbn zeta in H0.
      apply mbind_ok_inv in H0 as [[[a1 g7] c7] [H1 H0]]. inversion H0; subst. clear H0.
      apply mrl_keeps in H1. destruct H1 as [Hn7 H7]. cbn [g_next g_cctx set_cctx] in *.
      unfold stable. cbn [g_next g_cctx set_cctx]. split; [lia|]. intros j Hj.
      assert (Hjr : j <> g_next g2) by lia.
      rewrite alookup_aremove_other by exact Hjr.
      specialize (H7 j ltac:(lia)). rewrite alookup_aset_other in H7 by exact Hjr. rewrite Hc in H7. exact H7. }
    destruct (only || negb (is_django md)).
    - destruct (make_isolated_context_copy g1 c1) as [cc g2] eqn:Ec.
      unfold make_isolated_context_copy in Ec. cbn [fresh] in Ec. inversion Ec; subst. clear Ec.
      eapply (Hmain _ _ _ _ H2). Unshelve. all: cbn; try lia; reflexivity.
    - eapply (Hmain c1 g1 _ _ H2). Unshelve. all: try lia; reflexivity.
  Qed.

  Lemma mstep_keeps t : keeps (fun g c => mstep md lib rec g c t).
  Proof.
    intros g c a g' c' H. destruct t as [s|e|cnd x y|x e body|x e body|name isd isr data body|nm dv defv body|cname kw only body|key kw body];
      cbn [mstep] in H.
    - inversion H; subst. apply stable_refl.
    - eapply mout_keeps; exact H.
    - destruct (ctruthy _); eapply mrl_keeps; exact H.
    - eapply (mfor_keeps x _ (fun g c => mrl rec g c body)); [apply mrl_keeps|exact H].
    - eapply (mwith_keeps x _ (fun g c => mrl rec g c body)); [apply mrl_keeps|exact H].
    - eapply mslot_keeps; exact H.
    - destruct (is_extracting (dicts c)); [|discriminate]. eapply mfill_keeps; exact H.
    - eapply mcomp_keeps; exact H.
    - eapply (mprovide_keeps key kw (fun g c => mrl rec g c body)); [apply mrl_keeps|exact H].
  Qed.
End Keep.

Lemma cctx_stable_lemma md lib fuel : forall g c t a g' c',
  mrender md lib fuel g c t = MOk (a, g', c') -> stable g g'.
Proof.
  induction fuel as [|f IH]; intros g c t a g' c' H; [discriminate|].
  cbn [mrender] in H. eapply (mstep_keeps md lib (mrender md lib f)); [|exact H].
  intros g0 c0 t0 a0 g0' c0' H0. eapply IH; exact H0.
Qed.

(* read side: what a slot tag renders is decided by the cache entry of the id it finds under _DJC_COMPONENT_CTX and by
   nothing else in the cache - for every instance, both modes, any layer list *)
Section SlotEntry.
  Variable md : mode.
  Variable rec : gstate -> ctxt -> tpl -> mres R.

  Lemma mslot_filled_lemma name isd isr data body g c kwv rid ci g1 sf :
    mkwargs data (dicts c) = Some kwv -> is_extracting (dicts c) = false ->
    cget KEY (dicts c) = Some (CId rid) -> alookup rid (g_cctx g) = Some ci ->
    slot_default_check rid ci name isd g = MOk g1 ->
    isd && negb (str_eqb name default_key) && smem name (ci_fills ci) && smem default_key (ci_fills ci) = false ->
    slookup (if isd && smem default_key (ci_fills ci) then default_key else name) (ci_fills ci) = Some sf ->
    mslot md rec name isd isr data body g c =
      mbind (slot_extra md ci true (dicts c)) (fun extra =>
        if is_django md then
          mbind (m_render_func rec sf (VRec kwv) (CSlotRef body (oid c) (oid c) (dicts c) (slot_rvars (dicts c))) g1
                   (with_dicts c (cpush extra (dicts c)))) (fun '(a, g3, c2) => MOk (a, g3, with_dicts c2 (cpop (dicts c2))))
        else
          let '(used, g2) := match ci_outer ci with
                             | Some o => (o, g1)
                             | None => let '(o, g') := fresh g1 in ({| oid := o; dicts := [builtins] |}, g')
                             end in
          mbind (m_render_func rec sf (VRec kwv) (CSlotRef body (oid c) (oid used) (dicts c) (slot_rvars (dicts c))) g2
                   (with_dicts used (cpush extra (dicts used)))) (fun '(a, g3, _) => MOk (a, g3, c))).
  Proof.
    intros Hk He Hc Ha Hd Hdf Hs. unfold mslot. rewrite Hk, He, Hc, Ha, Hd. cbn [mbind]. rewrite Hdf, Hs.
    destruct isr; reflexivity.
  Qed.

  Lemma mslot_unfilled_lemma name isd data body g c kwv rid ci g1 :
    mkwargs data (dicts c) = Some kwv -> is_extracting (dicts c) = false ->
    cget KEY (dicts c) = Some (CId rid) -> alookup rid (g_cctx g) = Some ci ->
    slot_default_check rid ci name isd g = MOk g1 ->
    isd && negb (str_eqb name default_key) && smem name (ci_fills ci) && smem default_key (ci_fills ci) = false ->
    slookup (if isd && smem default_key (ci_fills ci) then default_key else name) (ci_fills ci) = None ->
    mslot md rec name isd true data body g c = MErr ETemplateSyntax /\
    mslot md rec name isd false data body g c =
      mbind (slot_extra md ci false (dicts c)) (fun extra =>
        mbind (m_render_func rec (unfilled_fn body) (VRec kwv) (CSlotRef body (oid c) (oid c) (dicts c) (slot_rvars (dicts c))) g1
                 (with_dicts c (cpush extra (dicts c)))) (fun '(a, g3, c2) => MOk (a, g3, with_dicts c2 (cpop (dicts c2))))).
  Proof.
    intros Hk He Hc Ha Hd Hdf Hs. unfold mslot. rewrite Hk, He, Hc, Ha, Hd. cbn [mbind]. rewrite Hdf, Hs.
    split; reflexivity.
  Qed.
End SlotEntry.
