(* M refines S in ISOLATED mode on the fragment wf_prog_for = wf_prog + {% for %} at template level (Core/Mech.v):
   loops in page / component templates (also in slot defaults, if / with / nested loops) around text, {{ }} (the loop
   variable, forloop.counter), if, with and slot tags; no component tag inside a loop body, no loop inside the body of a
   component tag.  ForNode pushes ONE layer {forloop: ..., x: item} that it rewrites per iteration; S binds x and the
   counter per iteration.  A slot inside a loop body that is FILLED renders the fill on the outer Context of its
   instance (no forloop there); unfilled, its default content sees the loop layer.
   The bodies of component tags are rendered under the relation of Core/MechProofs.v (re-used unchanged); templates under
   the relation srelF below, which excludes S's reserved counter name from the variable relation and relates it to the
   forloop entry instead. *)
From DJC Require Import Lib.Base Core.Syntax Core.Sem Core.Proofs Core.Mech Core.MechProofs.
From DJC Require Core.CtxStack.
From Coq Require Import String.
Local Open Scope string_scope.
Local Open Scope list_scope.

Notation ck := counter_key.

Definition vrelF (ds : list layer) (loc : env) : Prop :=
  forall x, uname x = true -> x <> ck -> cget x ds = option_map CVal (slookup x loc).

Definition crelc (ds : list layer) (loc : env) : Prop :=
  match slookup ck loc with
  | Some v => exists n, v = VStr (num_str n) /\ cget FORLOOP ds = Some (CForloop n)
  | None => cget FORLOOP ds = None
  end.

Lemma uname_ck : uname ck = true. Proof. reflexivity. Qed.
Lemma binder_not_ck x : binder_ok x = true -> x <> ck.
Proof. intros H E. subst. discriminate. Qed.

(* template-level relation; inl = inside a loop body of this template *)
Definition srelF (g : gstate) (c : ctxt) (st : state) (G : list str) (w : who) (inl : bool) : Prop :=
  out st = [] /\ prov st = [] /\ vrelF (dicts c) (loc st) /\ incl (map fst (loc st)) G /\
  cget GEN_FILL (dicts c) = None /\ cget ck (dicts c) = None /\ crelc (dicts c) (loc st) /\
  (inl = false -> slookup ck (loc st) = None) /\
  match w with
  | WBody => False
  | WPage => cur st = None /\ cget KEY (dicts c) = None /\ cget CVARS (dicts c) = None
  | WInst rid dl => exists cn fills, cur st = Some (Inst cn fills true) /\ irel g (dicts c) rid dl fills
  end.

Lemma srelF_srel g c st G w : srelF g c st G w false -> srel g c st G w.
Proof.
  intros [H1 [H2 [H3 [H4 [H5 [H6 [H7 [H8 H9]]]]]]]]. specialize (H8 eq_refl).
  split; [exact H1|]. split; [exact H2|]. split.
  { intros x Hx. destruct (str_eqb x ck) eqn:E; [apply str_eqb_eq in E; subst; rewrite H6, H8; reflexivity|].
    apply H3; [exact Hx|]. intro E2. subst. rewrite str_eqb_refl in E. discriminate. }
  split; [exact H4|]. split. { split; [exact H5|]. unfold crelc in H7. rewrite H8 in H7. exact H7. }
  destruct w; [contradiction|exact H9|exact H9].
Qed.

Lemma srel_srelF g c st G w : srel g c st G w -> w <> WBody -> cget ck (dicts c) = None -> srelF g c st G w false.
Proof.
  intros [H1 [H2 [H3 [H4 [[H5 H5'] H6]]]]] Hw Hc.
  assert (Hk : slookup ck (loc st) = None).
  { pose proof (H3 ck uname_ck) as H. rewrite Hc in H. destruct (slookup ck (loc st)); [discriminate|reflexivity]. }
  split; [exact H1|]. split; [exact H2|]. split; [intros x Hx _; apply H3; exact Hx|]. split; [exact H4|].
  split; [exact H5|]. split; [exact Hc|]. split; [unfold crelc; rewrite Hk; exact H5'|]. split; [intros _; exact Hk|].
  destruct w; [contradiction|exact H6|exact H6].
Qed.

Lemma srelF_gext g g' c st G w inl : srelF g c st G w inl -> gext w g g' -> srelF g' c st G w inl.
Proof.
  intros [H1 [H2 [H3 [H4 [H5 [H6 [H7 [H8 H9]]]]]]]] He. repeat (split; [assumption|]).
  destruct w as [| |rid dl]; try exact H9.
  destruct H9 as [cn [fills [Hc Hi]]]. exists cn, fills. split; [exact Hc|]. eapply irel_gext; eassumption.
Qed.

(* a Context with the same lookups on every non-inject key is as good *)
Lemma srelF_same g c c' st G w inl :
  (forall k, starts_inj k = false -> cget k (dicts c') = cget k (dicts c)) -> srelF g c st G w inl -> srelF g c' st G w inl.
Proof.
  intros Hk [H1 [H2 [H3 [H4 [H5 [H6 [H7 [H8 H9]]]]]]]].
  split; [exact H1|]. split; [exact H2|].
  split; [intros x Hx Hn; rewrite Hk by (apply uname_not_inj; exact Hx); apply H3; assumption|].
  split; [exact H4|]. split; [rewrite Hk by reflexivity; exact H5|]. split; [rewrite Hk by reflexivity; exact H6|].
  split. { unfold crelc in *. destruct (slookup ck (loc st)); rewrite Hk by reflexivity; exact H7. }
  split; [exact H8|].
  destruct w as [| |rid dl]; [exact H9| |].
  - rewrite !Hk by reflexivity. exact H9.
  - destruct H9 as [cn [fills [Hc [Hi1 [Hi2 Hi3]]]]]. exists cn, fills. split; [exact Hc|].
    split; [rewrite Hk by reflexivity; exact Hi1|]. split; [rewrite Hk by reflexivity; exact Hi2|exact Hi3].
Qed.

(* expressions at template level *)
Lemma srelF_meval g c st G w inl e : srelF g c st G w inl -> expr_okf e = true -> crel (meval e (dicts c)) (eval e st).
Proof.
  intros [Ho [_ [Hv [_ [_ [_ [Hcr [_ Hw]]]]]]]] He. destruct e as [s|x|x f|s|]; cbn [meval eval expr_okf] in *.
  - constructor.
  - apply andb_true_iff in He as [Hu Hn]. apply negb_true_iff in Hn.
    rewrite (Hv x Hu) by (intro E; subst; rewrite str_eqb_refl in Hn; discriminate). rewrite (lookup_loc st x Ho).
    destruct (slookup x (loc st)); constructor.
  - apply andb_true_iff in He as [Hu Hn]. apply negb_true_iff in Hn.
    rewrite (Hv x Hu) by (intro E; subst; rewrite str_eqb_refl in Hn; discriminate). rewrite (lookup_loc st x Ho).
    destruct (slookup x (loc st)) as [[s|l|fs]|]; cbn; try constructor. destruct (slookup f fs); constructor.
  - destruct w as [| |rid dl]; [contradiction| |].
    + destruct Hw as [Hc [_ Hcv]]. rewrite Hcv, Hc. constructor.
    + destruct Hw as [cn [fills [Hc [_ [Hcv _]]]]]. rewrite Hcv, Hc. cbn [inst_fills]. rewrite existsb_map_escape. constructor.
  - rewrite (lookup_loc st ck Ho). unfold crelc in Hcr. destruct (slookup ck (loc st)) as [v|].
    + destruct Hcr as [n [-> Hf]]. rewrite Hf. constructor.
    + rewrite Hcr. constructor.
Qed.

Lemma srelF_kwargs g c st G w inl kw : srelF g c st G w inl -> kw_okf kw = true -> mkwargs kw (dicts c) = Some (eval_kwargs kw st).
Proof.
  intros Hs. induction kw as [|[k e] r IH]; intro Hk; [reflexivity|].
  cbn [kw_okf forallb snd] in Hk. apply andb_true_iff in Hk as [He Hr].
  cbn [mkwargs eval_kwargs map fst snd]. rewrite (crel_value _ _ (srelF_meval _ _ _ _ _ _ _ Hs He)).
  unfold eval_kwargs in IH. rewrite (IH Hr). reflexivity.
Qed.

Lemma eval_not_bool e st b : (forall s, e <> EFilled s) -> eval e st <> XBool b.
Proof.
  intros Hn. destruct e as [s|x|x f|s|]; cbn [eval].
  - discriminate.
  - destruct (lookup x st); discriminate.
  - destruct (lookup x st) as [[s|l|fs]|]; try discriminate. destruct (slookup f fs); discriminate.
  - exfalso. exact (Hn s eq_refl).
  - destruct (lookup ck st) as [[s|l|fs]|]; discriminate.
Qed.

Lemma srelF_meval_val g c st G w inl e :
  srelF g c st G w inl -> val_expr_okf e = true -> meval e (dicts c) = CVal (to_value (eval e st)).
Proof.
  intros Hs He. assert (Ho : expr_okf e = true) by (destruct e; try exact He; discriminate).
  assert (Hn : forall s, e <> EFilled s) by (intros s E; subst; discriminate).
  pose proof (srelF_meval _ _ _ _ _ _ _ Hs Ho) as Hr.
  remember (meval e (dicts c)) as cv. remember (eval e st) as xv. destruct Hr as [v|b]; [reflexivity|].
  exfalso. symmetry in Heqxv. exact (eval_not_bool e st b Hn Heqxv).
Qed.

(* ---------- scopes ---------- *)
Lemma srelF_push g c st G w inl x v :
  srelF g c st G w inl -> binder_ok x = true -> ~ In x G ->
  srelF g (with_dicts c (cpush [(x, CVal v)] (dicts c))) (bind_loc x v st) (x :: G) w inl.
Proof.
  intros [H1 [H2 [H3 [H4 [H5 [H6 [H7 [H8 H9]]]]]]]] Hb Hn. pose proof Hb as Hb'. apply andb_true_iff in Hb' as [_ Hu].
  pose proof (binder_not_ck x Hb) as Hxc.
  assert (Hother : forall k, k <> x -> cget k (cpush [(x, CVal v)] (dicts c)) = cget k (dicts c)).
  { intros k Hk. unfold cpush. rewrite cget_snoc. cbn [slookup]. rewrite (str_eqb_neq _ _ Hk). reflexivity. }
  assert (Hne : forall k, uname k = false -> k <> x) by (intros k Hk E; subst; congruence).
  assert (Hck : slookup ck (loc (bind_loc x v st)) = slookup ck (loc st)).
  { cbn [bind_loc loc slookup]. rewrite str_eqb_neq; [reflexivity|]. intro E. apply Hxc. symmetry. exact E. }
  split; [exact H1|]. split; [exact H2|]. cbn [dicts with_dicts]. split.
  { intros y Hy Hyc. unfold cpush. rewrite cget_snoc. cbn [bind_loc loc slookup]. destruct (str_eqb y x); [reflexivity|apply H3; assumption]. }
  split. { cbn [bind_loc loc map fst]. intros y [<-|Hy]; [left; reflexivity|right; apply H4; exact Hy]. }
  split; [rewrite Hother by (apply Hne; reflexivity); exact H5|].
  split; [rewrite Hother by (intro E; apply Hxc; symmetry; exact E); exact H6|].
  split. { unfold crelc. rewrite Hck. unfold crelc in H7. destruct (slookup ck (loc st)); rewrite Hother by (apply Hne; reflexivity); exact H7. }
  split; [rewrite Hck; exact H8|].
  destruct w as [| |rid dl]; [exact H9| |].
  - cbn [bind_loc cur]. rewrite !Hother by (apply Hne; reflexivity). exact H9.
  - destruct H9 as [cn [fills [Hc [Hi1 [Hi2 Hi3]]]]]. exists cn, fills. split; [exact Hc|].
    split; [rewrite Hother by (apply Hne; reflexivity); exact Hi1|]. split; [rewrite Hother by (apply Hne; reflexivity); exact Hi2|exact Hi3].
Qed.

(* the layer ForNode pushes and rewrites per iteration *)
Definition loop_layer (x : str) (L : layer) : Prop := forall y, y <> x -> y <> FORLOOP -> slookup y L = None.

Lemma loop_layer_step x L i v : loop_layer x L -> loop_layer x (lset x (CVal v) (lset FORLOOP (CForloop i) L)).
Proof. intros H y H1 H2. rewrite !slookup_lset, (str_eqb_neq _ _ H1), (str_eqb_neq _ _ H2). apply H; assumption. Qed.

Lemma for_iter_dicts (ds : list layer) x v i L :
  cset x (CVal v) (cset FORLOOP (CForloop i) (ds ++ [L])) = ds ++ [lset x (CVal v) (lset FORLOOP (CForloop i) L)].
Proof. rewrite !cset_snoc. reflexivity. Qed.

Lemma srelF_loop g c st G w inl x v i L :
  srelF g c st G w inl -> binder_ok x = true -> ~ In x G -> loop_layer x L ->
  srelF g (with_dicts c (dicts c ++ [lset x (CVal v) (lset FORLOOP (CForloop i) L)]))
        (bind_loc x v (bind_loc ck (VStr (num_str i)) st)) (x :: ck :: G) w true.
Proof.
  intros [H1 [H2 [H3 [H4 [H5 [H6 [H7 [H8 H9]]]]]]]] Hb Hn HL. pose proof Hb as Hb'. apply andb_true_iff in Hb' as [_ Hu].
  pose proof (binder_not_ck x Hb) as Hxc.
  set (L' := lset x (CVal v) (lset FORLOOP (CForloop i) L)).
  assert (Hxf : x <> FORLOOP) by (intro E; subst; discriminate).
  assert (Hother : forall k, k <> x -> k <> FORLOOP -> cget k (dicts c ++ [L']) = cget k (dicts c)).
  { intros k Hk1 Hk2. rewrite cget_snoc. unfold L'. rewrite !slookup_lset, (str_eqb_neq _ _ Hk1), (str_eqb_neq _ _ Hk2), (HL k Hk1 Hk2). reflexivity. }
  assert (Hne : forall k, uname k = false -> k <> x) by (intros k Hk E; subst; congruence).
  split; [exact H1|]. split; [exact H2|]. cbn [dicts with_dicts bind_loc loc cur]. split.
  { intros y Hy Hyc. cbn [slookup]. destruct (str_eqb y x) eqn:E.
    - apply str_eqb_eq in E. subst y. rewrite cget_snoc. unfold L'. rewrite slookup_lset, str_eqb_refl. reflexivity.
    - rewrite (str_eqb_neq y ck Hyc). rewrite Hother; [apply H3; assumption| |].
      + intro E2. subst. rewrite str_eqb_refl in E. discriminate.
      + intro E2. subst. discriminate. }
  split. { cbn [map fst]. intros y [<-|[<-|Hy]]; [left; reflexivity|right; left; reflexivity|right; right; apply H4; exact Hy]. }
  split; [rewrite Hother; [exact H5|apply Hne; reflexivity|discriminate]|].
  split; [rewrite Hother; [exact H6|intro E; apply Hxc; symmetry; exact E|discriminate]|].
  split. { unfold crelc. cbn [slookup]. rewrite (str_eqb_neq ck x) by (intro E; apply Hxc; symmetry; exact E). rewrite str_eqb_refl.
           exists i. split; [reflexivity|]. rewrite cget_snoc. unfold L'. rewrite !slookup_lset.
           rewrite (str_eqb_neq FORLOOP x) by (intro E; apply Hxf; symmetry; exact E). rewrite str_eqb_refl. reflexivity. }
  split; [discriminate|].
  destruct w as [| |rid dl]; [exact H9| |].
  - rewrite !Hother; [exact H9| | | |]; try (apply Hne; reflexivity); discriminate.
  - destruct H9 as [cn [fills [Hc [Hi1 [Hi2 Hi3]]]]]. exists cn, fills. split; [exact Hc|].
    split; [rewrite Hother; [exact Hi1|apply Hne; reflexivity|discriminate]|].
    split; [rewrite Hother; [exact Hi2|apply Hne; reflexivity|discriminate]|exact Hi3].
Qed.

(* ---------- the simulation ---------- *)
Section SimF.
  Variable lib : list (str * cdef).
  Hypothesis Hlib : forall cn cd, slookup cn lib = Some cd -> wf_cdef_f cd = true.

  (* inside the body of a component tag: the relation and the fragment of Core/MechProofs.v *)
  Definition simB (rec : state -> tpl -> res str) (mrec : gstate -> ctxt -> tpl -> mres R) : Prop :=
    forall t G st g c, srel g c st G WBody -> wf_t true G t = true ->
      match rec st t with
      | Ok a => exists g', mrec g c t = MOk (a, g', c) /\ gext WBody g g'
      | Err k => mrec g c t = MErr k
      | OutOfFuel => mrec g c t = MFuel
      end.
  (* at template level *)
  Definition simT (rec : state -> tpl -> res str) (mrec : gstate -> ctxt -> tpl -> mres R) : Prop :=
    forall t w inl G st g c, srelF g c st G w inl -> wf_tf inl G t = true ->
      (forall rid dl, w = WInst rid dl -> incl (slot_defaults_t t) dl /\ (forall a b, In a dl -> In b dl -> a = b)) ->
      match rec st t with
      | Ok a => exists g', mrec g c t = MOk (a, g', c) /\ gext w g g'
      | Err k => mrec g c t = MErr k
      | OutOfFuel => mrec g c t = MFuel
      end.

  Section StepF.
    Variable rec : state -> tpl -> res str.
    Variable mrec : gstate -> ctxt -> tpl -> mres R.
    Hypothesis IHB : simB rec mrec.
    Hypothesis IHT : simT rec mrec.

    Lemma sim_listB : forall ts G st g c, srel g c st G WBody -> wf_l true G ts = true ->
      match rl rec st ts with
      | Ok a => exists g', mrl mrec g c ts = MOk (a, g', c) /\ gext WBody g g'
      | Err k => mrl mrec g c ts = MErr k
      | OutOfFuel => mrl mrec g c ts = MFuel
      end.
    Proof.
      induction ts as [|t r IHr]; intros G st g c Hs Hw; cbn [rl mrl].
      - exists g. split; [reflexivity|apply gext_refl].
      - cbn [wf_l] in Hw. apply andb_true_iff in Hw as [Hw1 Hw2].
        pose proof (IHB t G st g c Hs Hw1) as H1.
        destruct (rec st t) as [a| |]; cbn [bind]; [|rewrite H1; reflexivity|rewrite H1; reflexivity].
        destruct H1 as [g1 [E1 X1]]. rewrite E1. cbn [mbind].
        pose proof (IHr G st g1 c (srel_gext _ _ _ _ _ _ Hs X1) Hw2) as H2.
        destruct (rl rec st r) as [b| |]; cbn [bind]; [|rewrite H2; reflexivity|rewrite H2; reflexivity].
        destruct H2 as [g2 [E2 X2]]. rewrite E2. cbn [mbind]. exists g2. split; [reflexivity|eapply gext_trans; eassumption].
    Qed.

    Lemma sim_listT : forall ts w inl G st g c, srelF g c st G w inl -> wf_lf inl G ts = true ->
      (forall rid dl, w = WInst rid dl -> incl (slot_defaults ts) dl /\ (forall a b, In a dl -> In b dl -> a = b)) ->
      match rl rec st ts with
      | Ok a => exists g', mrl mrec g c ts = MOk (a, g', c) /\ gext w g g'
      | Err k => mrl mrec g c ts = MErr k
      | OutOfFuel => mrl mrec g c ts = MFuel
      end.
    Proof.
      induction ts as [|t r IHr]; intros w inl G st g c Hs Hw Hd; cbn [rl mrl].
      - exists g. split; [reflexivity|apply gext_refl].
      - cbn [wf_lf] in Hw. apply andb_true_iff in Hw as [Hw1 Hw2].
        assert (Hd1 : forall rid dl, w = WInst rid dl -> incl (slot_defaults_t t) dl /\ (forall a b, In a dl -> In b dl -> a = b)).
        { intros rid dl E. destruct (Hd rid dl E) as [Hi Ha]. split; [|exact Ha]. intros x Hx. apply Hi. cbn [slot_defaults]. apply in_or_app. left. exact Hx. }
        assert (Hd2 : forall rid dl, w = WInst rid dl -> incl (slot_defaults r) dl /\ (forall a b, In a dl -> In b dl -> a = b)).
        { intros rid dl E. destruct (Hd rid dl E) as [Hi Ha]. split; [|exact Ha]. intros x Hx. apply Hi. cbn [slot_defaults]. apply in_or_app. right. exact Hx. }
        pose proof (IHT t w inl G st g c Hs Hw1 Hd1) as H1.
        destruct (rec st t) as [a| |]; cbn [bind]; [|rewrite H1; reflexivity|rewrite H1; reflexivity].
        destruct H1 as [g1 [E1 X1]]. rewrite E1. cbn [mbind].
        pose proof (IHr w inl G st g1 c (srelF_gext _ _ _ _ _ _ _ Hs X1) Hw2 Hd2) as H2.
        destruct (rl rec st r) as [b| |]; cbn [bind]; [|rewrite H2; reflexivity|rewrite H2; reflexivity].
        destruct H2 as [g2 [E2 X2]]. rewrite E2. cbn [mbind]. exists g2. split; [reflexivity|eapply gext_trans; eassumption].
    Qed.

    (* a component tag, written in a template (outside loops) or in a tag body *)
    Lemma comp_case w G st g c cname kw only body :
      srel g c st G w -> mkwargs kw (dicts c) = Some (eval_kwargs kw st) -> wf_l true G body = true ->
      match render_step Isolated lib rec st (TComp cname kw only body) with
      | Ok a => exists g', mcomp Isolated lib mrec cname kw only body g c = MOk (a, g', c) /\ gext w g g'
      | Err k => mcomp Isolated lib mrec cname kw only body g c = MErr k
      | OutOfFuel => mcomp Isolated lib mrec cname kw only body g c = MFuel
      end.
    Proof.
      intros Hs Ekw Hwb. cbn [render_step]. unfold mcomp. rewrite Ekw.
      pose proof Hs as [Ho [Hp [Hv [Hincl [[Hcg Hcf] Hwho]]]]].
      unfold is_extracting. rewrite Hcg.
      destruct (slookup cname lib) as [cd|] eqn:El; [|reflexivity].
      pose proof (Hlib _ _ El) as Hcd. unfold wf_cdef_f in Hcd.
      apply andb_true_iff in Hcd as [Hcd Hsame]. apply andb_true_iff in Hcd as [Hdata Hwt].
      pose proof (resolve_sim mrec g c st G body Ho Hp Hv Hincl (conj Hcg Hcf) Hwb) as Hres.
      destruct (resolve_fills st body) as [fills| |]; cbn [bind]; [|rewrite Hres; reflexivity|contradiction].
      destruct Hres as [g1 [fm [Eres [Hcc1 [Hn1 HF]]]]]. rewrite Eres. cbn [mbind].
      cbn [is_django negb]. rewrite orb_true_r.
      destruct (isolated_copy_shape g1 c Hcf) as [L [o [Ecopy HL]]]. rewrite Ecopy.
      unfold fresh, snapshot. cbn [g_next g_cctx g_collect g_prov fresh].
      destruct (eval_data_sim (c_data cd) (eval_kwargs kw st) (prov st)
                  {| g_next := N.succ (N.succ (N.succ (g_next g1))); g_cctx := g_cctx g1; g_collect := g_collect g1; g_prov := g_prov g1 |}
                  [L] Hdata) as [data [Ed [Em Hdincl]]].
      rewrite Ed. cbn [bind]. cbn [dicts oid with_dicts]. rewrite Em. cbn [mbind].
      cbn [g_next g_cctx g_collect g_prov set_cctx].
      set (rid := N.succ (g_next g1)).
      set (dl := slot_defaults (c_tpl cd)).
      set (dataM := map (fun kv => (fst kv, CVal (snd kv))) data).
      set (keyl := [(KEY, CId rid); (CVARS, CVars (map (fun kf => escape_name (fst kf)) fm))]).
      set (snap := {| oid := N.succ (N.succ (N.succ (g_next g1))); dicts := cpush keyl (cpush dataM [L]) |}).
      set (osnap := {| oid := N.succ (N.succ (g_next g1)); dicts := dicts c |}).
      set (entry := {| ci_name := cname; ci_fills := fm; ci_default := None; ci_outer := Some osnap |}).
      set (g6 := {| g_next := N.succ (N.succ (N.succ (N.succ (g_next g1)))); g_cctx := aset rid entry (g_cctx g1);
                    g_collect := g_collect g1; g_prov := g_prov g1 |}).
      set (st' := comp_state st cname fills data (is_isolated Isolated only)).
      assert (Hiso : is_isolated Isolated only = true) by (unfold is_isolated; apply orb_true_r).
      assert (Hlook : forall k, l0_ok k -> k <> KEY -> k <> CVARS ->
                cget k (cpush keyl (cpush dataM [L])) = slookup k dataM).
      { intros k Hk H1 H2. unfold cpush. rewrite cget_snoc. unfold keyl. cbn [slookup].
        rewrite (str_eqb_neq _ _ H1), (str_eqb_neq _ _ H2). rewrite cget_snoc. cbn [cget]. rewrite (HL k Hk).
        destruct (slookup k dataM); reflexivity. }
      assert (Hdb : forall k, In k (map fst data) -> binder_ok k = true).
      { intros k Hin. apply Hdincl in Hin. rewrite forallb_forall in Hdata. apply in_map_iff in Hin as [[x d] [E Hin]]. cbn in E. subst x.
        specialize (Hdata _ Hin). cbn in Hdata. apply andb_true_iff in Hdata as [Hb _]. exact Hb. }
      assert (Hdk : forall k, uname k = false -> slookup k dataM = None).
      { intros k Hk. unfold dataM. rewrite slookup_map_cval. rewrite (slookup_notin k data); [reflexivity|].
        intro Hin. apply Hdb in Hin. apply andb_true_iff in Hin as [_ Hb]. congruence. }
      assert (Hs0 : srel g6 snap st' (map fst (c_data cd)) (WInst rid dl)).
      { unfold st', comp_state. rewrite Hiso. split; [reflexivity|]. split; [exact Hp|]. cbn [loc cur dicts snap].
        split.
        { intros x Hx. rewrite Hlook; [apply slookup_map_cval|apply uname_l0_ok; exact Hx| |]; intro E; subst; discriminate. }
        split; [exact Hdincl|]. split.
        { split; (rewrite Hlook; [apply Hdk; reflexivity|repeat split; try reflexivity; intro E; discriminate E|intro E; discriminate E|intro E; discriminate E]). }
        exists cname, fills. split; [reflexivity|].
        split; [unfold cpush; rewrite cget_snoc; reflexivity|].
        split. { unfold cpush. rewrite cget_snoc. unfold keyl. cbn [slookup].
                 rewrite (str_eqb_neq CVARS KEY) by discriminate. rewrite str_eqb_refl.
                 rewrite (map_escape_names _ _ (Forall2_frel_names _ _ _ HF)). reflexivity. }
        split; [unfold g6, rid; cbn; lia|].
        exists entry, osnap. split; [unfold g6; cbn [g_cctx]; apply alookup_aset_same|].
        split; [reflexivity|]. split; [split; assumption|]. split; [exact HF|exact I]. }
      assert (Hck : cget ck (dicts snap) = None).
      { cbn [dicts snap]. rewrite Hlook; [|repeat split; try reflexivity; intro E; discriminate E|intro E; discriminate E|intro E; discriminate E].
        unfold dataM. rewrite slookup_map_cval. rewrite (slookup_notin ck data); [reflexivity|].
        intro Hin. apply Hdb in Hin. discriminate Hin. }
      pose proof (srel_srelF _ _ _ _ _ Hs0 ltac:(discriminate) Hck) as Hs'.
      assert (Hd' : forall rid0 dl0, WInst rid dl = WInst rid0 dl0 ->
                incl (slot_defaults (c_tpl cd)) dl0 /\ (forall a b, In a dl0 -> In b dl0 -> a = b)).
      { intros rid0 dl0 E. inversion E; subst. split; [apply incl_refl|apply all_same_prop; exact Hsame]. }
      pose proof (sim_listT (c_tpl cd) (WInst rid dl) false _ st' g6 snap Hs' Hwt Hd') as Htpl.
      fold rid keyl dataM.
      match goal with |- context [mrl mrec ?a ?b (c_tpl cd)] => change (mrl mrec a b (c_tpl cd)) with (mrl mrec g6 snap (c_tpl cd)) end.
      destruct (rl rec st' (c_tpl cd)) as [a| |]; [|rewrite Htpl; reflexivity|rewrite Htpl; reflexivity].
      destruct Htpl as [g7 [E7 [Hn7 X7]]]. rewrite E7. cbn [mbind]. eexists. split; [reflexivity|].
      apply gexact_gext. split; [cbn [g_next set_cctx]; unfold g6 in Hn7; cbn [g_next] in Hn7; lia|].
      intros j Hj. cbn [g_cctx set_cctx].
      assert (Hjr : j <> rid) by (unfold rid; lia).
      rewrite alookup_aremove_other by exact Hjr.
      specialize (X7 j ltac:(unfold g6; cbn [g_next]; lia)). cbn in X7.
      destruct (N.eqb j rid) eqn:E; [apply N.eqb_eq in E; contradiction|].
      rewrite X7. unfold g6. cbn [g_cctx]. rewrite alookup_aset_other by exact Hjr. rewrite Hcc1. reflexivity.
    Qed.

    Lemma sim_stepB : simB (render_step Isolated lib rec) (mstep Isolated lib mrec).
    Proof.
      intros t G st g c Hs Hw.
      destruct t as [s|e|cnd x y|x e body|x e body|name isd isr data body|nm dv defv body|cname kw only body|key kw body].
      - cbn. exists g. split; [reflexivity|apply gext_refl].
      - cbn [render_step mstep]. cbn [wf_t] in Hw. pose proof (meval_rel _ _ _ _ WBody _ Hs Hw) as Hr. unfold mout.
        remember (meval e (dicts c)) as cv. remember (eval e st) as xv.
        destruct Hr; (exists g; split; [reflexivity|apply gext_refl]).
      - cbn [render_step mstep]. cbn [wf_t] in Hw. apply andb_true_iff in Hw as [Hw Hwy]. apply andb_true_iff in Hw as [Hwc Hwx].
        rewrite (crel_truthy _ _ (meval_rel _ _ _ _ WBody _ Hs Hwc)).
        destruct (truthy (eval cnd st)); [apply (sim_listB x G st g c Hs Hwx)|apply (sim_listB y G st g c Hs Hwy)].
      - discriminate Hw.
      - cbn [render_step mstep]. cbn [wf_t] in Hw.
        apply andb_true_iff in Hw as [Hw Hwb]. apply andb_true_iff in Hw as [Hw Hnin]. apply andb_true_iff in Hw as [Hwe Hbx].
        apply negb_true_iff in Hnin. apply smemb_notin in Hnin.
        rewrite (meval_val_rel _ _ _ _ WBody _ Hs Hwe). unfold mwith.
        pose proof (srel_push _ _ _ _ _ x (to_value (eval e st)) Hs Hbx Hnin) as Hs'.
        pose proof (sim_listB body (x :: G) _ g _ Hs' Hwb) as H.
        destruct (rl rec (bind_loc x (to_value (eval e st)) st) body) as [a| |]; [|rewrite H; reflexivity|rewrite H; reflexivity].
        destruct H as [g' [E X]]. rewrite E. cbn [mbind]. rewrite push_pop_id. exists g'. auto.
      - discriminate Hw.
      - cbn [render_step mstep]. destruct Hs as [_ [_ [_ [_ [[Hcg _] _]]]]]. unfold is_extracting. rewrite Hcg. reflexivity.
      - cbn [wf_t] in Hw. apply andb_true_iff in Hw as [Hkw Hwb]. cbn [mstep].
        apply (comp_case WBody G st g c cname kw only body Hs (mkwargs_rel _ _ _ _ WBody _ Hs Hkw) Hwb).
      - discriminate Hw.
    Qed.

    (* the iterations of a loop: ForNode's layer L is rewritten in place, the rest of the layer list is untouched *)
    Lemma loopT w inl G st c x body :
      binder_ok x = true -> ~ In x G -> wf_lf true (x :: ck :: G) body = true ->
      (forall rid dl, w = WInst rid dl -> incl (slot_defaults body) dl /\ (forall a b, In a dl -> In b dl -> a = b)) ->
      forall vs i g L, srelF g c st G w inl -> loop_layer x L ->
      match rloop rec x st body vs i with
      | Ok a => exists g' L', mfor_items x (fun g c => mrl mrec g c body) vs i g (with_dicts c (dicts c ++ [L])) =
                              MOk (a, g', with_dicts c (dicts c ++ [L'])) /\ gext w g g'
      | Err k => mfor_items x (fun g c => mrl mrec g c body) vs i g (with_dicts c (dicts c ++ [L])) = MErr k
      | OutOfFuel => mfor_items x (fun g c => mrl mrec g c body) vs i g (with_dicts c (dicts c ++ [L])) = MFuel
      end.
    Proof.
      intros Hbx Hnin Hwb Hd. induction vs as [|v r IHv]; intros i g L Hs HL; cbn [rloop mfor_items].
      - exists g, L. split; [reflexivity|apply gext_refl].
      - cbn [dicts with_dicts]. rewrite for_iter_dicts.
        set (L1 := lset x (CVal v) (lset FORLOOP (CForloop i) L)).
        pose proof (srelF_loop _ _ _ _ _ _ x v i L Hs Hbx Hnin HL) as Hs1. fold L1 in Hs1.
        pose proof (sim_listT body w true _ _ g _ Hs1 Hwb Hd) as Hb.
        change (with_dicts (with_dicts c (dicts c ++ [L])) (dicts c ++ [L1])) with (with_dicts c (dicts c ++ [L1])).
        destruct (rl rec (bind_loc x v (bind_loc ck (VStr (num_str i)) st)) body) as [a| |]; cbn [bind];
          [|rewrite Hb; reflexivity|rewrite Hb; reflexivity].
        destruct Hb as [g1 [E1 X1]]. rewrite E1. cbn [mbind].
        specialize (IHv (N.succ i) g1 L1 (srelF_gext _ _ _ _ _ _ _ Hs X1) (loop_layer_step x L i v HL)).
        destruct (rloop rec x st body r (N.succ i)) as [b| |]; cbn [bind]; [|rewrite IHv; reflexivity|rewrite IHv; reflexivity].
        destruct IHv as [g2 [L2 [E2 X2]]]. rewrite E2. cbn [mbind]. exists g2, L2. split; [reflexivity|eapply gext_trans; eassumption].
    Qed.

    Lemma sim_stepT : simT (render_step Isolated lib rec) (mstep Isolated lib mrec).
    Proof.
      intros t w inl G st g c Hs Hw Hd.
      destruct t as [s|e|cnd x y|x e body|x e body|name isd isr data body|nm dv defv body|cname kw only body|key kw body];
        cbn [render_step mstep].
      - exists g. split; [reflexivity|apply gext_refl].
      - cbn [wf_tf] in Hw. pose proof (srelF_meval _ _ _ _ _ _ _ Hs Hw) as Hr. unfold mout.
        remember (meval e (dicts c)) as cv. remember (eval e st) as xv.
        destruct Hr; (exists g; split; [reflexivity|apply gext_refl]).
      - cbn [wf_tf] in Hw. apply andb_true_iff in Hw as [Hw Hwy]. apply andb_true_iff in Hw as [Hwc Hwx].
        rewrite (crel_truthy _ _ (srelF_meval _ _ _ _ _ _ _ Hs Hwc)).
        destruct (truthy (eval cnd st)).
        + apply (sim_listT x w inl G st g c Hs Hwx). intros rid dl E. destruct (Hd rid dl E) as [Hi Ha]. split; [|exact Ha].
          intros z Hz. apply Hi. cbn [slot_defaults_t]. apply in_or_app. left. exact Hz.
        + apply (sim_listT y w inl G st g c Hs Hwy). intros rid dl E. destruct (Hd rid dl E) as [Hi Ha]. split; [|exact Ha].
          intros z Hz. apply Hi. cbn [slot_defaults_t]. apply in_or_app. right. exact Hz.
      - (* for *)
        cbn [wf_tf] in Hw.
        apply andb_true_iff in Hw as [Hw Hwb]. apply andb_true_iff in Hw as [Hw Hnin]. apply andb_true_iff in Hw as [Hwe Hbx].
        apply negb_true_iff in Hnin. apply smemb_notin in Hnin.
        pose proof (srelF_meval _ _ _ _ _ _ _ Hs Hwe) as Hr. unfold mfor.
        assert (Hfv : for_values (meval e (dicts c)) = MOk (loop_items (eval e st))).
        { remember (meval e (dicts c)) as cv. remember (eval e st) as xv. destruct Hr; reflexivity. }
        rewrite Hfv. cbn [mbind]. clear Hfv Hr.
        assert (Hd' : forall rid dl, w = WInst rid dl -> incl (slot_defaults body) dl /\ (forall a b, In a dl -> In b dl -> a = b)).
        { intros rid dl E. exact (Hd rid dl E). }
        destruct (loop_items (eval e st)) as [|v0 vs0] eqn:Evs.
        + cbn [rloop]. rewrite push_pop_id. exists g. split; [reflexivity|apply gext_refl].
        + pose proof (loopT w inl G st c x body Hbx Hnin Hwb Hd' (v0 :: vs0) 1%N g [] Hs ltac:(intros y _ _; reflexivity)) as Hl.
          match type of Hl with match _ with Ok _ => _ | Err _ => _ | OutOfFuel => ?l = _ end =>
            match goal with |- context [mbind ?m _] => change m with l end end.
          destruct (rloop rec x st body (v0 :: vs0) 1) as [a| |]; [|rewrite Hl; reflexivity|rewrite Hl; reflexivity].
          destruct Hl as [g' [L' [E X]]]. rewrite E. cbn [mbind]. exists g'. split; [|exact X].
          f_equal. f_equal. destruct c as [o ds]. unfold with_dicts, cpop. cbn [oid dicts]. rewrite removelast_last. reflexivity.
      - (* with *)
        cbn [wf_tf] in Hw.
        apply andb_true_iff in Hw as [Hw Hwb]. apply andb_true_iff in Hw as [Hw Hnin]. apply andb_true_iff in Hw as [Hwe Hbx].
        apply negb_true_iff in Hnin. apply smemb_notin in Hnin.
        rewrite (srelF_meval_val _ _ _ _ _ _ _ Hs Hwe). unfold mwith.
        pose proof (srelF_push _ _ _ _ _ _ x (to_value (eval e st)) Hs Hbx Hnin) as Hs'.
        assert (Hd' : forall rid dl, w = WInst rid dl -> incl (slot_defaults body) dl /\ (forall a b, In a dl -> In b dl -> a = b)).
        { intros rid dl E. exact (Hd rid dl E). }
        pose proof (sim_listT body w inl (x :: G) _ g _ Hs' Hwb Hd') as H.
        destruct (rl rec (bind_loc x (to_value (eval e st)) st) body) as [a| |]; [|rewrite H; reflexivity|rewrite H; reflexivity].
        destruct H as [g' [E X]]. rewrite E. cbn [mbind]. rewrite push_pop_id. exists g'. auto.
      - (* slot *)
        cbn [wf_tf] in Hw. apply andb_true_iff in Hw as [Hkw Hwb].
        pose proof (srelF_kwargs _ _ _ _ _ _ _ Hs Hkw) as Ekw.
        pose proof Hs as [Ho [Hp [Hv [Hincl [Hcg [Hckc [Hcr [Hnl Hwho]]]]]]]].
        assert (Hex : is_extracting (dicts c) = false) by (unfold is_extracting; rewrite Hcg; reflexivity).
        destruct w as [| |rid dl]; [contradiction| |].
        + destruct Hwho as [Hc [Hk _]]. rewrite Hc. unfold mslot. rewrite Ekw, Hex, Hk. reflexivity.
        + destruct Hwho as [cn [fills [Hc Hirel]]]. rewrite Hc.
          pose proof Hirel as [Hk [Hcv [Hlt [ci [O [Ha [HO [[HOg HOf] [HF Hdf]]]]]]]]].
          destruct (Hd rid dl eq_refl) as [Hdin Hsame].
          destruct (slot_default_check_ok rid ci name isd g dl Ha Hlt Hdf Hsame) as [g1 [Eg1 Xg1]].
          { intros ->. apply Hdin. cbn [slot_defaults_t]. left. reflexivity. }
          assert (Hs1 : srelF g1 c st G (WInst rid dl) inl) by (eapply srelF_gext; eassumption).
          unfold double_filled. rewrite <- (smem_frel _ _ _ name HF), <- (smem_frel _ _ _ default_key HF).
          destruct (isd && negb (str_eqb name default_key) && smem name (ci_fills ci) && smem default_key (ci_fills ci)) eqn:Edf.
          { unfold mslot. rewrite Ekw, Hex, Hk, Ha, Eg1. cbn [mbind]. rewrite Edf. reflexivity. }
          unfold fill_name_of. rewrite <- (smem_frel _ _ _ default_key HF).
          set (fname := if isd && smem default_key (ci_fills ci) then default_key else name).
          pose proof (slookup_frel _ _ _ HF fname) as Hf.
          set (sdata := VRec (eval_kwargs data st)).
          destruct (slot_extra_isolated_ok ci (match slookup fname (ci_fills ci) with Some _ => true | None => false end) (dicts c)) as [extra Eex].
          assert (Hexn : forall k, starts_inj k = false -> slookup k extra = None).
          { intros k Hk0. eapply slot_extra_isolated; [exact Eex|exact Hk0]. }
          destruct (slookup fname (ci_fills ci)) as [sf|] eqn:Em, (slookup fname fills) as [cl|] eqn:Es; try contradiction.
          * (* filled: the fill body, a wf_t body, on the instance's outer Context (no forloop there) *)
            rewrite (mslot_filled_lemma Isolated mrec name isd isr data body g c _ rid ci g1 sf Ekw Hex Hk Ha Eg1 Edf Em).
            destruct cl as [fbody btw cloc cout fdv fdefv owner cprov].
            destruct Hf as [_ [Hb [Hdv [Hdfv [-> [-> [-> [Hfe [loc0 [Gb [-> [Hv0 [Hwfb [Hinb [Hdvb Hdisj]]]]]]]]]]]]]]].
            cbn [clo_defvar clo_dvar clo_body bind fst snd] in *.
            rewrite Eex, HO. cbn [mbind is_django app].
            set (sref := CSlotRef body (oid c) (oid O) (dicts c) (slot_rvars (dicts c))).
            assert (Hexk : forall k, relevant k -> slookup k extra = None) by (intros k Hr; apply Hexn, relevant_not_inj, Hr).
            destruct (fill_ctx_vrel (dicts O) sf btw loc0 Gb fdv sdata sref extra Hdv Hdfv Hfe Hv0 (conj HOg HOf) Hinb Hdvb Hdisj Hexk)
              as [Hvb Hcb].
            set (c0 := with_dicts O (cpush extra (dicts O))).
            set (cb := with_dicts c0 (rf_dicts sf sdata sref (dicts c0))).
            set (stb := fill_state true st (match fdv with Some x0 => [(x0, sdata)] | None => [] end)
                          (Clo fbody btw (btw ++ loc0) [] fdv None owner [])).
            assert (Hsb : srel g1 cb stb (match fdv with Some x0 => x0 :: Gb | None => Gb end) WBody).
            { unfold stb. cbn [fill_state]. split; [reflexivity|]. split; [cbn; rewrite Hp; reflexivity|].
              cbn [loc]. split; [exact Hvb|]. split.
              - rewrite !map_app. intros z Hz. apply in_app_or in Hz as [Hz|Hz].
                + destruct fdv as [d|]; [|destruct Hz]. destruct Hz as [<-|[]]. left. reflexivity.
                + assert (Hz' : In z Gb).
                  { apply Hinb. rewrite map_app. apply in_app_or in Hz as [Hz|Hz]; [apply in_or_app; left; exact Hz|].
                    rewrite <- map_app in Hz. rewrite <- map_app. exact Hz. }
                  destruct fdv; [right|]; exact Hz'.
              - split; [exact Hcb|exact I]. }
            assert (Hwb' : wf_l true (match fdv with Some x0 => x0 :: Gb | None => Gb end) (sf_body sf) = true) by (rewrite Hb; exact Hwfb).
            pose proof (sim_listB (sf_body sf) _ stb g1 cb Hsb Hwb') as Hbody.
            pose proof (m_render_func_run mrec sf sdata sref g1 O extra) as Hrun. cbn zeta in Hrun. fold c0 cb in Hrun.
            rewrite Hb in Hbody. revert Hbody. unfold stb.
            destruct (rl rec _ fbody) as [a| |]; intro Hbody.
            -- destruct Hbody as [g3 [E3 X3]]. rewrite Hb, E3 in Hrun. destruct (Hrun eq_refl) as [c2 [E2 _]].
               fold c0. fold sdata sref. rewrite E2. cbn [mbind]. exists g3. split; [reflexivity|].
               eapply gext_trans; [exact Xg1|]. apply gexact_gext. exact X3.
            -- rewrite Hb, Hbody in Hrun. fold c0. fold sdata sref. rewrite Hrun. reflexivity.
            -- rewrite Hb, Hbody in Hrun. fold c0. fold sdata sref. rewrite Hrun. reflexivity.
          * (* unfilled: its own default content; inside a loop it sees the loop layer *)
            destruct (mslot_unfilled_lemma Isolated mrec name isd data body g c _ rid ci g1 Ekw Hex Hk Ha Eg1 Edf Em) as [Er Eu].
            destruct isr; [rewrite Er; reflexivity|]. rewrite Eu. clear Er Eu. rewrite Eex. cbn [mbind].
            set (sref := CSlotRef body (oid c) (oid c) (dicts c) (slot_rvars (dicts c))).
            set (c0 := with_dicts c (cpush extra (dicts c))).
            set (cb := with_dicts c0 (rf_dicts (unfilled_fn body) sdata sref (dicts c0))).
            assert (Hsb : srelF g1 cb st G (WInst rid dl) inl).
            { apply (srelF_same g1 c); [|exact Hs1]. intros k Hk0. unfold cb, c0. cbn [dicts with_dicts].
              apply rf_dicts_unfilled. apply Hexn. exact Hk0. }
            assert (Hd' : forall rid0 dl0, WInst rid dl = WInst rid0 dl0 ->
                      incl (slot_defaults body) dl0 /\ (forall a b, In a dl0 -> In b dl0 -> a = b)).
            { intros rid0 dl0 E. inversion E; subst. split; [|exact Hsame]. intros z Hz. apply Hdin. cbn [slot_defaults_t].
              apply in_or_app. right. exact Hz. }
            pose proof (sim_listT body (WInst rid dl) inl G st g1 cb Hsb Hwb Hd') as Hbody.
            pose proof (m_render_func_run mrec (unfilled_fn body) sdata sref g1 c extra) as Hrun. cbn zeta in Hrun.
            fold c0 cb in Hrun. cbn [sf_body unfilled_fn] in Hrun.
            destruct (rl rec st body) as [a| |].
            -- destruct Hbody as [g3 [E3 X3]]. rewrite E3 in Hrun. destruct (Hrun eq_refl) as [c2 [E2 Hc2]].
               fold c0. fold sdata sref. rewrite E2. cbn [mbind]. rewrite Hc2. exists g3. split; [reflexivity|eapply gext_trans; eassumption].
            -- rewrite Hbody in Hrun. fold c0. fold sdata sref. rewrite Hrun. reflexivity.
            -- rewrite Hbody in Hrun. fold c0. fold sdata sref. rewrite Hrun. reflexivity.
      - discriminate Hw.
      - (* component tag: never inside a loop body *)
        cbn [wf_tf] in Hw. apply andb_true_iff in Hw as [Hw Hwb]. apply andb_true_iff in Hw as [Hnl Hkw].
        apply negb_true_iff in Hnl. subst inl.
        apply (comp_case w G st g c cname kw only body (srelF_srel _ _ _ _ _ Hs) (srelF_kwargs _ _ _ _ _ _ _ Hs Hkw) Hwb).
      - discriminate Hw.
    Qed.
  End StepF.
End SimF.

Lemma sim_renderF lib (Hlib : forall cn cd, slookup cn lib = Some cd -> wf_cdef_f cd = true) fuel :
  simB (render Isolated lib fuel) (mrender Isolated lib fuel) /\
  simT (render Isolated lib fuel) (mrender Isolated lib fuel).
Proof.
  induction fuel as [|f [IHB IHT]].
  - split; [intros t G st g c _ _; reflexivity|intros t w inl G st g c _ _ _; reflexivity].
  - cbn [render mrender]. split; [apply sim_stepB|apply sim_stepT]; assumption.
Qed.

Theorem mech_refines_sem_isolated_for_lemma : forall p fuel,
  wf_prog_for p = true -> mout_of (mrender_prog fuel p) = embed (render_prog fuel p).
Proof.
  intros p fuel Hwf. unfold wf_prog_for in Hwf.
  apply andb_true_iff in Hwf as [Hwf Hpage]. apply andb_true_iff in Hwf as [Hwf Hctx].
  apply andb_true_iff in Hwf as [Hmode Hlibb].
  unfold mrender_prog, render_prog, mrender_list, render_list.
  destruct (p_mode p); [|discriminate]. clear Hmode.
  assert (Hlib : forall cn cd, slookup cn (p_lib p) = Some cd -> wf_cdef_f cd = true).
  { intros cn cd H. apply slookup_In_lib in H. rewrite forallb_forall in Hlibb. exact (Hlibb _ H). }
  set (st0 := {| loc := p_ctx p; out := []; cur := None; prov := [] |}).
  assert (Hs0 : srel g0 (page_ctxt p) st0 (map fst (p_ctx p)) WPage).
  { assert (Hint : forall k, uname k = false -> slookup k builtins = None -> cget k (dicts (page_ctxt p)) = None).
    { intros k Hk Hb. unfold page_ctxt. cbn [dicts]. rewrite page_lookup, (not_uname_notin_ctx _ _ Hctx Hk). exact Hb. }
    split; [reflexivity|]. split; [reflexivity|]. split.
    { intros x Hx. unfold page_ctxt. cbn [dicts st0 loc]. rewrite page_lookup. destruct (slookup x (p_ctx p)); [reflexivity|].
      destruct (uname_l0_ok x Hx) as [_ [_ [H1 [H2 H3]]]]. unfold builtins. cbn [slookup].
      rewrite !str_eqb_neq by assumption. reflexivity. }
    split; [apply incl_refl|]. split; [split; apply Hint; reflexivity|].
    split; [reflexivity|]. split; apply Hint; reflexivity. }
  assert (Hck : cget ck (dicts (page_ctxt p)) = None).
  { unfold page_ctxt. cbn [dicts]. rewrite page_lookup. rewrite (slookup_notin ck (p_ctx p)); [reflexivity|].
    intro Hin. apply in_map_iff in Hin as [[x v] [E Hin]]. cbn in E. subst x. rewrite forallb_forall in Hctx.
    specialize (Hctx _ Hin). discriminate Hctx. }
  pose proof (srel_srelF _ _ _ _ _ Hs0 ltac:(discriminate) Hck) as Hs.
  destruct (sim_renderF (p_lib p) Hlib fuel) as [HB HT].
  pose proof (sim_listT _ _ HT (p_page p) WPage false _ st0 g0 (page_ctxt p) Hs Hpage ltac:(intros; discriminate)) as H.
  fold st0. destruct (rl (render Isolated (p_lib p) fuel) st0 (p_page p)) as [a| |].
  - destruct H as [g' [E _]]. rewrite E. reflexivity.
  - rewrite H. reflexivity.
  - rewrite H. reflexivity.
Qed.
