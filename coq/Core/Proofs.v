From DJC Require Import Lib.Base Core.Syntax Core.Sem.

(* ---------- bind ---------- *)
Lemma bind_assoc {A B C} (r : res A) (f : A -> res B) (g : B -> res C) :
  bind (bind r f) g = bind r (fun a => bind (f a) g).
Proof. destruct r; reflexivity. Qed.

Lemma bind_ok_inv {A B} (r : res A) (f : A -> res B) b :
  bind r f = Ok b -> exists a, r = Ok a /\ f a = Ok b.
Proof. destruct r; simpl; intro H; try discriminate. eauto. Qed.

(* ---------- a result that is not "out of fuel" is final ---------- *)
Definition final {A} (r : res A) : Prop := r <> OutOfFuel.

Definition rec_le (rec1 rec2 : state -> tpl -> res str) : Prop :=
  forall st t, final (rec1 st t) -> rec2 st t = rec1 st t.

Lemma bind_final {A B} (r : res A) (f : A -> res B) :
  final (bind r f) -> final r /\ (forall a, r = Ok a -> final (f a)).
Proof.
  unfold final. destruct r as [a|k|]; simpl; intro H.
  - split; [discriminate|]. intros a0 E. inversion E; subst. exact H.
  - split; [discriminate|]. intros a0 E. discriminate.
  - exfalso. apply H. reflexivity.
Qed.

Section Mono.
  Variable md : mode.
  Variable lib : list (str * cdef).
  Variables rec1 rec2 : state -> tpl -> res str.
  Hypothesis Hle : rec_le rec1 rec2.

  Lemma rl_mono ts : forall st, final (rl rec1 st ts) -> rl rec2 st ts = rl rec1 st ts.
  Proof.
    induction ts as [|t r IH]; intros st Hf; [reflexivity|].
    simpl in *. apply bind_final in Hf as [Hf1 Hf2].
    rewrite (Hle st t Hf1). destruct (rec1 st t) as [a| |]; try reflexivity.
    specialize (Hf2 a eq_refl). apply bind_final in Hf2 as [Hf3 _].
    simpl. rewrite (IH st Hf3). reflexivity.
  Qed.

  Lemma rloop_mono x body vs : forall st i,
    final (rloop rec1 x st body vs i) -> rloop rec2 x st body vs i = rloop rec1 x st body vs i.
  Proof.
    induction vs as [|v r IH]; intros st i Hf; [reflexivity|].
    simpl in *. apply bind_final in Hf as [Hf1 Hf2].
    rewrite (rl_mono _ _ Hf1). destruct (rl rec1 _ body) as [a| |]; try reflexivity.
    specialize (Hf2 a eq_refl). apply bind_final in Hf2 as [Hf3 _].
    simpl. rewrite (IH st _ Hf3). reflexivity.
  Qed.

  Lemma render_step_mono st t :
    final (render_step md lib rec1 st t) -> render_step md lib rec2 st t = render_step md lib rec1 st t.
  Proof.
    destruct t as [s|e|c a b|x e body|x e body|name isd isr data body|nm dv defv body|cname kw only body|key kw body];
      simpl; intro Hf; try reflexivity.
    - destruct (truthy (eval c st)); apply rl_mono; exact Hf.
    - apply rloop_mono; exact Hf.
    - apply rl_mono; exact Hf.
    - destruct (cur st) as [[cn fills iso]|]; [|reflexivity].
      destruct (double_filled name isd fills); [reflexivity|].
      destruct (slookup (fill_name_of name isd fills) fills) as [c|].
      + apply bind_final in Hf as [Hf1 Hf2].
        destruct (clo_defvar c) as [dn|].
        * apply bind_final in Hf1 as [Hf1a Hf1b]. rewrite (rl_mono _ _ Hf1a).
          destruct (rl rec1 st body) as [d| |]; try reflexivity. simpl in *.
          apply rl_mono. apply (Hf2 _ eq_refl).
        * simpl in *. apply rl_mono. apply (Hf2 _ eq_refl).
      + destruct isr; [reflexivity|]. apply rl_mono; exact Hf.
    - destruct (slookup cname lib) as [cd|]; [|reflexivity].
      destruct (resolve_fills st body) as [fills| |]; try reflexivity. simpl in *.
      destruct (eval_data (c_data cd) (eval_kwargs kw st) (prov st)) as [data| |]; try reflexivity. simpl in *.
      apply rl_mono; exact Hf.
    - destruct (is_ident key); [|reflexivity]. apply rl_mono; exact Hf.
  Qed.
End Mono.

(* more fuel never changes a finished result: the fuel argument only bounds the instantiation depth explored *)
Lemma render_S md lib fuel : rec_le (render md lib fuel) (render md lib (S fuel)).
Proof.
  induction fuel as [|f IH]; intros st t Hf.
  - exfalso. apply Hf. reflexivity.
  - change (render md lib (S (S f)) st t) with (render_step md lib (render md lib (S f)) st t).
    change (render md lib (S f) st t) with (render_step md lib (render md lib f) st t) in *.
    apply render_step_mono; assumption.
Qed.

Lemma render_fuel_mono_lemma md lib fuel k st t :
  final (render md lib fuel st t) -> render md lib (fuel + k) st t = render md lib fuel st t.
Proof.
  intro Hf. induction k as [|k IH].
  - rewrite Nat.add_0_r. reflexivity.
  - rewrite Nat.add_succ_r. rewrite <- IH. apply render_S. rewrite IH. exact Hf.
Qed.

Lemma render_list_fuel_mono_lemma md lib fuel k st ts :
  final (render_list md lib fuel st ts) -> render_list md lib (fuel + k) st ts = render_list md lib fuel st ts.
Proof.
  unfold render_list. intro Hf. apply rl_mono; [|exact Hf].
  intros st' t Hf'. apply render_fuel_mono_lemma. exact Hf'.
Qed.

(* ---------- the page is the in-order composition of its pieces ---------- *)
Lemma rl_app rec st a : forall b,
  rl rec st (a ++ b) = bind (rl rec st a) (fun x => bind (rl rec st b) (fun y => Ok (x ++ y))).
Proof.
  induction a as [|t r IH]; intros b; simpl.
  - destruct (rl rec st b); reflexivity.
  - destruct (rec st t) as [x| |]; simpl; try reflexivity.
    rewrite IH. destruct (rl rec st r) as [y| |]; simpl; try reflexivity.
    destruct (rl rec st b) as [z| |]; simpl; try reflexivity.
    rewrite app_assoc. reflexivity.
Qed.

Lemma render_list_app_lemma md lib fuel st a b :
  render_list md lib fuel st (a ++ b) =
  bind (render_list md lib fuel st a) (fun x => bind (render_list md lib fuel st b) (fun y => Ok (x ++ y))).
Proof. apply rl_app. Qed.

Lemma render_list_cons_lemma md lib fuel st t ts :
  render_list md lib fuel st (t :: ts) =
  bind (render md lib fuel st t) (fun x => bind (render_list md lib fuel st ts) (fun y => Ok (x ++ y))).
Proof. reflexivity. Qed.

(* loops are the in-order composition of their iterations *)
Lemma rloop_app rec x st body vs1 : forall vs2 i,
  rloop rec x st body (vs1 ++ vs2) i =
  bind (rloop rec x st body vs1 i) (fun a =>
  bind (rloop rec x st body vs2 (i + N.of_nat (length vs1))%N) (fun b => Ok (a ++ b))).
Proof.
  induction vs1 as [|v r IH]; intros vs2 i; simpl.
  - rewrite N.add_0_r. destruct (rloop rec x st body vs2 i); reflexivity.
  - destruct (rl rec _ body) as [a| |]; simpl; try reflexivity.
    rewrite IH. replace (N.succ i + N.of_nat (length r))%N with (i + N.pos (Pos.of_succ_nat (length r)))%N by lia.
    destruct (rloop rec x st body r (N.succ i)) as [b| |]; simpl; try reflexivity.
    destruct (rloop rec x st body vs2 _) as [c| |]; simpl; try reflexivity.
    rewrite app_assoc. reflexivity.
Qed.

(* ---------- what a slot tag renders ---------- *)
Section Slot.
  Variable md : mode.
  Variable lib : list (str * cdef).

  (* no fill addressed to it, not required: its own default content, in the same instance and scope *)
  Lemma slot_unfilled_lemma f st cn fills iso name isd isr data body :
    cur st = Some (Inst cn fills iso) ->
    double_filled name isd fills = false ->
    slookup (fill_name_of name isd fills) fills = None ->
    render md lib (S f) st (TSlot name isd isr data body) =
      if isr then Err ETemplateSyntax else render_list md lib f st body.
  Proof. intros Hc Hd Hl. simpl. rewrite Hc, Hd, Hl. reflexivity. Qed.

  (* a fill addressed to it (no default alias): the fill's body, rendered in the instance that owns the fill *)
  Lemma slot_filled_lemma f st cn fills iso name isd isr data body c :
    cur st = Some (Inst cn fills iso) ->
    double_filled name isd fills = false ->
    slookup (fill_name_of name isd fills) fills = Some c ->
    clo_defvar c = None ->
    render md lib (S f) st (TSlot name isd isr data body) =
      render_list md lib f
        (fill_state iso st (match clo_dvar c with Some x => [(x, VRec (eval_kwargs data st))] | None => [] end) c)
        (clo_body c).
  Proof. intros Hc Hd Hl Hv. simpl. rewrite Hc, Hd, Hl, Hv. reflexivity. Qed.

  (* with a default alias: additionally the slot's own default content, rendered in its own instance, is bound *)
  Lemma slot_filled_default_alias_lemma f st cn fills iso name isd isr data body c dn :
    cur st = Some (Inst cn fills iso) ->
    double_filled name isd fills = false ->
    slookup (fill_name_of name isd fills) fills = Some c ->
    clo_defvar c = Some dn ->
    render md lib (S f) st (TSlot name isd isr data body) =
      bind (render_list md lib f st body) (fun d =>
      render_list md lib f
        (fill_state iso st ((dn, VStr d) :: match clo_dvar c with Some x => [(x, VRec (eval_kwargs data st))] | None => [] end) c)
        (clo_body c)).
  Proof.
    intros Hc Hd Hl Hv. simpl. rewrite Hc, Hd, Hl, Hv. fold (render_list md lib f st body).
    destruct (render_list md lib f st body); reflexivity.
  Qed.

  Lemma slot_outside_component_lemma f st name isd isr data body :
    cur st = None -> render md lib (S f) st (TSlot name isd isr data body) = Err ETemplateSyntax.
  Proof. intro Hc. simpl. rewrite Hc. reflexivity. Qed.

  (* the instance a fill body runs in is the owner recorded in its closure, whatever the mode *)
  Lemma fill_state_owner iso st al body btw cloc cout dv defv owner cprov :
    cur (fill_state iso st al (Clo body btw cloc cout dv defv owner cprov)) = owner.
  Proof. destruct iso; reflexivity. Qed.

  (* `required` raises exactly when unfilled *)
  Lemma required_raises_iff_unfilled_lemma f st cn fills iso name isd data body :
    cur st = Some (Inst cn fills iso) ->
    double_filled name isd fills = false ->
    (render md lib (S f) st (TSlot name isd true data body) = Err ETemplateSyntax /\
     slookup (fill_name_of name isd fills) fills = None)
    \/ (exists c, slookup (fill_name_of name isd fills) fills = Some c).
  Proof.
    intros Hc Hd. destruct (slookup (fill_name_of name isd fills) fills) as [c|] eqn:Hl.
    - right. eauto.
    - left. split; [|reflexivity]. simpl. rewrite Hc, Hd, Hl. reflexivity.
  Qed.
End Slot.

(* ---------- fills of an instance: exactly what the tag body declares ---------- *)
(* is_filled is true exactly for the names of the provided fills (escaped as template identifiers) *)
Lemma is_filled_iff_lemma st cn fills iso s :
  cur st = Some (Inst cn fills iso) ->
  eval (EFilled s) st = XBool true <-> exists n c, In (n, c) fills /\ escape_name n = s.
Proof.
  intro Hc. simpl. rewrite Hc. simpl. split.
  - intro H. inversion H as [H1]. apply existsb_exists in H1 as [[n c] [Hin Heq]].
    apply str_eqb_eq in Heq. exists n, c. auto.
  - intros [n [c [Hin Heq]]]. f_equal. apply existsb_exists. exists (n, c). split; [exact Hin|].
    apply str_eqb_eq. exact Heq.
Qed.

(* an empty tag body provides no fill; a body without fill tags (and not blank) provides exactly `default` *)
Lemma no_body_no_fills_lemma st : resolve_fills st [] = Ok [].
Proof. reflexivity. Qed.

Lemma implicit_body_is_default_fill_lemma st body content :
  body <> [] -> extract_list (prov st) st [] body = Ok (content, []) -> body_is_empty body = false ->
  exists c, resolve_fills st body = Ok [(default_key, c)] /\ clo_body c = body /\
            cur (fill_state true st [] c) = cur st /\ cur (fill_state false st [] c) = cur st.
Proof.
  intros Hne He Hb. unfold resolve_fills. destruct body as [|t r]; [congruence|].
  rewrite He. cbn [bind]. rewrite Hb. eexists. split; [reflexivity|]. repeat split.
Qed.
